package an

import (
	"go/ast"
	"go/parser"
	"go/printer"
	"go/token"
	"go/types"
	"os"
	"path/filepath"
	"strings"
)

// ReferenceDir holds a snapshot of the module's non-test Go files as they were when the rules were
// written (tools/snapshot_reference.sh).  It is used for one thing only: to learn *which variable is
// which*.  Several rules describe code in the vocabulary of that snapshot ("left", "endtoken",
// "needNewScope" …); alignRoles maps the local variables of every function of the analysed tree to the
// names their counterparts have in the snapshot, so that a consistent renaming of locals, parameters,
// results or receivers changes nothing for the rules.  Counterparts are found structurally:
//
//   - receiver, parameters and named results by position;
//   - if the whole function is identical to its snapshot version up to a consistent renaming of its
//     local variables (alpha-equivalence), every local by that renaming;
//   - otherwise a local whose defining statement has a shape (the statement with all local names
//     blanked) that is unique in the function in both versions, by that shape.
//
// A variable without a counterpart keeps its own name.  The snapshot never decides a verdict: every
// rule still examines the analysed tree only; the snapshot merely names what it sees.
var ReferenceDir = ""

type refFunc struct {
	decl *ast.FuncDecl
}

func recvBase(fd *ast.FuncDecl) string {
	if fd.Recv == nil || len(fd.Recv.List) == 0 {
		return ""
	}
	t := fd.Recv.List[0].Type
	for {
		switch v := t.(type) {
		case *ast.StarExpr:
			t = v.X
			continue
		case *ast.ParenExpr:
			t = v.X
			continue
		case *ast.IndexExpr:
			t = v.X
			continue
		}
		break
	}
	if id, ok := t.(*ast.Ident); ok {
		return id.Name
	}
	return ""
}

func declKey(rel string, fd *ast.FuncDecl) string {
	return filepath.Dir(rel) + "|" + recvBase(fd) + "." + fd.Name.Name
}

// loadReference parses the snapshot (with the parser's own identifier resolution).
func loadReference(dir string) map[string][]*refFunc {
	out := map[string][]*refFunc{}
	fset := token.NewFileSet()
	filepath.Walk(dir, func(path string, fi os.FileInfo, err error) error {
		if err != nil || fi.IsDir() || !strings.HasSuffix(path, ".go") || strings.HasSuffix(path, "_test.go") {
			return nil
		}
		f, perr := parser.ParseFile(fset, path, nil, 0)
		if perr != nil {
			return nil
		}
		rel, _ := filepath.Rel(dir, path)
		for _, d := range f.Decls {
			if fd, ok := d.(*ast.FuncDecl); ok && fd.Body != nil {
				k := declKey(rel, fd)
				out[k] = append(out[k], &refFunc{fd})
			}
		}
		return nil
	})
	return out
}

// refLocal reports whether id (in the snapshot) denotes a variable declared inside fd (parameters,
// results and the receiver included).
func refLocal(fd *ast.FuncDecl, id *ast.Ident) bool {
	if id.Obj == nil || id.Obj.Kind != ast.Var {
		return false
	}
	p := id.Obj.Pos()
	return fd.Pos() <= p && p < fd.End()
}

type identClass func(id *ast.Ident) (local bool, key interface{})

// flatten lists the identifiers and the "shape tokens" of a function in source order: for alpha
// comparison we compare the printed function with locals blanked, plus the sequence of local objects.
func blanked(n ast.Node, class identClass) (string, []*ast.Ident) {
	var locals []*ast.Ident
	// keys of composite literals are field names in this code base; the parser's own resolver (used for the
	// snapshot) mistakes `T{args: args}` keys for the local of the same name, so keys are skipped on both sides
	litKey := map[*ast.Ident]bool{}
	ast.Inspect(n, func(m ast.Node) bool {
		if cl, ok := m.(*ast.CompositeLit); ok {
			for _, el := range cl.Elts {
				if kv, ok := el.(*ast.KeyValueExpr); ok {
					if id, ok := kv.Key.(*ast.Ident); ok {
						litKey[id] = true
					}
				}
			}
		}
		return true
	})
	type saved struct {
		id   *ast.Ident
		name string
	}
	var undo []saved
	// classify first, rename afterwards (ast.Object.Pos looks the declaring identifier up by name)
	ast.Inspect(n, func(m ast.Node) bool {
		if id, ok := m.(*ast.Ident); ok {
			if isLocal, _ := class(id); isLocal && id.Name != "_" && !litKey[id] {
				locals = append(locals, id)
			}
		}
		return true
	})
	for _, id := range locals {
		undo = append(undo, saved{id, id.Name})
		id.Name = "ⱽ"
	}
	var sb strings.Builder
	printer.Fprint(&sb, token.NewFileSet(), n)
	for _, u := range undo {
		u.id.Name = u.name
	}
	// white space and comments do not matter
	return strings.Join(strings.Fields(sb.String()), " "), locals
}

// alignRoles assigns role names (SetRole) to the locals of the analysed functions from the snapshot.
func (p *Prog) alignRoles() {
	if ReferenceDir == "" {
		return
	}
	if _, err := os.Stat(ReferenceDir); err != nil {
		return
	}
	ref := loadReference(ReferenceDir)
	if len(ref) == 0 {
		return
	}
	for _, f := range p.Fns {
		if f.Decl == nil || f.Body == nil {
			continue
		}
		file := p.Fset.Position(f.Decl.Pos()).Filename
		rel, err := filepath.Rel(p.Dir, file)
		if err != nil {
			continue
		}
		cands := ref[declKey(rel, f.Decl)]
		if len(cands) != 1 {
			continue // renamed or moved function, or several init functions: no alignment
		}
		p.alignFn(f, cands[0].decl)
	}
}

func (p *Prog) alignFn(f *Fn, rd *ast.FuncDecl) {
	info := f.Info()
	curClass := func(id *ast.Ident) (bool, interface{}) {
		o := ObjOf(info, id)
		v, ok := o.(*types.Var)
		if !ok || v.IsField() || v.Pkg() == nil || v.Parent() == nil || v.Parent() == v.Pkg().Scope() {
			// the symbol of a type switch has no object: treat it as local when its clauses' implicit objects are
			if o == nil {
				if _, isDef := info.Defs[id]; isDef && id.Obj != nil && id.Obj.Kind == ast.Var {
					return true, id.Obj
				}
			}
			return false, nil
		}
		if v.Pos() < f.Decl.Pos() || v.Pos() >= f.Decl.End() {
			return false, nil
		}
		return true, o
	}
	refClass := func(id *ast.Ident) (bool, interface{}) {
		if refLocal(rd, id) {
			return true, id.Obj
		}
		return false, nil
	}
	assign := func(cur *ast.Ident, refName string) {
		if cur.Name == refName || refName == "_" || refName == "" {
			return
		}
		if o := ObjOf(info, cur); o != nil {
			SetRole(info, f.Decl, o, refName)
		} else {
			cur.Name = refName // the symbol of a type switch has no object
		}
	}
	// 1. positional: receiver, parameters, named results
	pair := func(cl, rl *ast.FieldList) {
		if cl == nil || rl == nil {
			return
		}
		var cn, rn []*ast.Ident
		for _, fl := range cl.List {
			cn = append(cn, fl.Names...)
		}
		for _, fl := range rl.List {
			rn = append(rn, fl.Names...)
		}
		if len(cn) != len(rn) {
			return
		}
		for i := range cn {
			assign(cn[i], rn[i].Name)
		}
	}
	pair(f.Decl.Recv, rd.Recv)
	pair(f.Decl.Type.Params, rd.Type.Params)
	pair(f.Decl.Type.Results, rd.Type.Results)
	// 2. whole function alpha-equivalent: the i-th local occurrence corresponds to the i-th
	cs, cl := blanked(f.Decl, curClass)
	rs, rl := blanked(rd, refClass)
	if os.Getenv("JETVERIF_DEBUG_ALIGN") == f.Name {
		a, b := strings.Fields(cs), strings.Fields(rs)
		for i := 0; i < len(a) && i < len(b); i++ {
			if a[i] != b[i] {
				lo := i - 8
				if lo < 0 {
					lo = 0
				}
				println("ALIGN mismatch at token", i, ":", strings.Join(a[lo:i+4], " "), " <<>> ", strings.Join(b[lo:i+4], " "))
				break
			}
		}
		println("ALIGN", f.Name, len(a), len(b), len(cl), len(rl))
	}
	if cs == rs && len(cl) == len(rl) {
		// consistency: the correspondence must be a bijection between variables
		fw, bw := map[interface{}]interface{}{}, map[interface{}]interface{}{}
		ok := true
		for i := range cl {
			_, ck := curClass(cl[i])
			_, rk := refClass(rl[i])
			if x, has := fw[ck]; has && x != rk {
				ok = false
			}
			if x, has := bw[rk]; has && x != ck {
				ok = false
			}
			fw[ck], bw[rk] = rk, ck
		}
		if ok {
			for i := range cl {
				assign(cl[i], rl[i].Name)
			}
			return
		}
	}
	// 3. statement shapes that are unique in both versions
	type def struct {
		shape string
		ids   []*ast.Ident
	}
	collect := func(root ast.Node, class identClass) map[string][]def {
		out := map[string][]def{}
		add := func(stmt ast.Node, lhs []ast.Expr) {
			var ids []*ast.Ident
			for _, l := range lhs {
				if id, ok := l.(*ast.Ident); ok {
					ids = append(ids, id)
				} else {
					ids = append(ids, nil)
				}
			}
			s, _ := blanked(stmt, class)
			out[s] = append(out[s], def{s, ids})
		}
		ast.Inspect(root, func(m ast.Node) bool {
			switch v := m.(type) {
			case *ast.AssignStmt:
				if v.Tok == token.DEFINE {
					add(v, v.Lhs)
				}
			case *ast.ValueSpec:
				var lhs []ast.Expr
				for _, n := range v.Names {
					lhs = append(lhs, n)
				}
				add(v, lhs)
			case *ast.RangeStmt:
				if v.Tok == token.DEFINE {
					hdr := &ast.RangeStmt{Key: v.Key, Value: v.Value, Tok: v.Tok, X: v.X, Body: &ast.BlockStmt{}}
					var lhs []ast.Expr
					if v.Key != nil {
						lhs = append(lhs, v.Key)
					}
					if v.Value != nil {
						lhs = append(lhs, v.Value)
					}
					add(hdr, lhs)
				}
			}
			return true
		})
		return out
	}
	cd, rdm := collect(f.Decl.Body, curClass), collect(rd.Body, refClass)
	for shape, cdefs := range cd {
		rdefs := rdm[shape]
		if len(cdefs) != 1 || len(rdefs) != 1 || len(cdefs[0].ids) != len(rdefs[0].ids) {
			continue
		}
		for i, cid := range cdefs[0].ids {
			if cid == nil || rdefs[0].ids[i] == nil {
				continue
			}
			// only variables *defined* by this statement (not re-used on the left of :=)
			if isLocal, _ := curClass(cid); isLocal && info.Defs[cid] != nil {
				assign(cid, rdefs[0].ids[i].Name)
			}
		}
	}
}
