package an

import (
	"fmt"
	"go/ast"
	"go/parser"
	"go/token"
	"go/types"
	"os"
	"path/filepath"
	"strings"
)

// ReferenceDir holds a snapshot of the module's non-test Go files as they were when the rules were
// written (tools/snapshot_reference.sh).  It is used for one thing only: to learn *which variable is
// which*.  Several rules describe code in the vocabulary of that snapshot ("left", "endtoken",
// "needNewScope" …); alignRoles maps the local variables of every function of the analysed tree to the
// names their counterparts have in the snapshot, so that a consistent renaming of locals, parameters,
// results or receivers changes nothing for the rules.  Counterparts are found structurally:
//
//   - receiver, parameters and named results by position;
//   - if the whole function is identical to its snapshot version up to a consistent renaming of its
//     local variables (alpha-equivalence), every local by that renaming;
//   - otherwise a local whose defining statement has a shape (the statement with all local names
//     blanked) that is unique in the function in both versions, by that shape.
//
// A variable without a counterpart keeps its own name.  The snapshot never decides a verdict: every
// rule still examines the analysed tree only; the snapshot merely names what it sees.
var ReferenceDir = ""

type refFunc struct {
	decl *ast.FuncDecl
}

func recvBase(fd *ast.FuncDecl) string {
	if fd.Recv == nil || len(fd.Recv.List) == 0 {
		return ""
	}
	t := fd.Recv.List[0].Type
	for {
		switch v := t.(type) {
		case *ast.StarExpr:
			t = v.X
			continue
		case *ast.ParenExpr:
			t = v.X
			continue
		case *ast.IndexExpr:
			t = v.X
			continue
		}
		break
	}
	if id, ok := t.(*ast.Ident); ok {
		return id.Name
	}
	return ""
}

func declKey(rel string, fd *ast.FuncDecl) string {
	return filepath.Dir(rel) + "|" + recvBase(fd) + "." + fd.Name.Name
}

// loadReference parses the snapshot (with the parser's own identifier resolution).
func loadReference(dir string) map[string][]*refFunc {
	out := map[string][]*refFunc{}
	fset := token.NewFileSet()
	filepath.Walk(dir, func(path string, fi os.FileInfo, err error) error {
		if err != nil || fi.IsDir() || !strings.HasSuffix(path, ".go") || strings.HasSuffix(path, "_test.go") {
			return nil
		}
		f, perr := parser.ParseFile(fset, path, nil, 0)
		if perr != nil {
			return nil
		}
		rel, _ := filepath.Rel(dir, path)
		for _, d := range f.Decls {
			if fd, ok := d.(*ast.FuncDecl); ok && fd.Body != nil {
				k := declKey(rel, fd)
				out[k] = append(out[k], &refFunc{fd})
			}
		}
		return nil
	})
	return out
}

// refLocal reports whether id (in the snapshot) denotes a variable declared inside fd (parameters,
// results and the receiver included).
func refLocal(fd *ast.FuncDecl, id *ast.Ident) bool {
	if id.Obj == nil || id.Obj.Kind != ast.Var {
		return false
	}
	p := id.Obj.Pos()
	return fd.Pos() <= p && p < fd.End()
}

type identClass func(id *ast.Ident) (local bool, key interface{})

// flatten lists the identifiers and the "shape tokens" of a function in source order: for alpha
// comparison we compare the printed function with locals blanked, plus the sequence of local objects.
func blanked(n ast.Node, class identClass) (string, []*ast.Ident) {
	var locals []*ast.Ident
	// keys of composite literals are field names in this code base; the parser's own resolver (used for the
	// snapshot) mistakes `T{args: args}` keys for the local of the same name, so keys are skipped on both sides
	litKey := map[*ast.Ident]bool{}
	ast.Inspect(n, func(m ast.Node) bool {
		if cl, ok := m.(*ast.CompositeLit); ok {
			for _, el := range cl.Elts {
				if kv, ok := el.(*ast.KeyValueExpr); ok {
					if id, ok := kv.Key.(*ast.Ident); ok {
						litKey[id] = true
					}
				}
			}
		}
		return true
	})
	type saved struct {
		id   *ast.Ident
		name string
	}
	var undo []saved
	// classify first (ast.Object.Pos looks the declaring identifier up by name, so nothing is renamed)
	isLocal := map[*ast.Ident]bool{}
	ast.Inspect(n, func(m ast.Node) bool {
		if id, ok := m.(*ast.Ident); ok {
			if l, _ := class(id); l && id.Name != "_" && !litKey[id] {
				locals = append(locals, id)
				isLocal[id] = true
			}
		}
		return true
	})
	// a structural rendering: node kinds, operators, literals and names (locals blanked) in source order —
	// independent of formatting and comments
	var sb strings.Builder
	ast.Inspect(n, func(m ast.Node) bool {
		if m == nil {
			sb.WriteString(") ")
			return true
		}
		switch v := m.(type) {
		case *ast.CommentGroup, *ast.Comment:
			return false
		case *ast.Ident:
			if isLocal[v] {
				sb.WriteString("(ⱽ ")
			} else {
				sb.WriteString("(" + v.Name + " ")
			}
		case *ast.BasicLit:
			sb.WriteString("(" + v.Value + " ")
		case *ast.BinaryExpr:
			sb.WriteString("(bin" + v.Op.String() + " ")
		case *ast.UnaryExpr:
			sb.WriteString("(un" + v.Op.String() + " ")
		case *ast.AssignStmt:
			sb.WriteString("(as" + v.Tok.String() + " ")
		case *ast.IncDecStmt:
			sb.WriteString("(" + v.Tok.String() + " ")
		case *ast.BranchStmt:
			sb.WriteString("(br" + v.Tok.String() + " ")
		case *ast.RangeStmt:
			sb.WriteString("(range" + v.Tok.String() + " ")
		case *ast.GenDecl:
			sb.WriteString("(decl" + v.Tok.String() + " ")
		case *ast.CallExpr:
			if v.Ellipsis.IsValid() {
				sb.WriteString("(call... ")
			} else {
				sb.WriteString("(call ")
			}
		case *ast.ChanType:
			sb.WriteString(fmt.Sprintf("(chan%d ", v.Dir))
		case *ast.SliceExpr:
			if v.Slice3 {
				sb.WriteString("(slice3 ")
			} else {
				sb.WriteString("(slice ")
			}
		default:
			sb.WriteString(fmt.Sprintf("(%T ", m))
		}
		return true
	})
	_ = undo
	return sb.String(), locals
}

// alignRoles assigns role names (SetRole) to the locals of the analysed functions from the snapshot.
func (p *Prog) alignRoles() {
	if ReferenceDir == "" {
		return
	}
	if _, err := os.Stat(ReferenceDir); err != nil {
		return
	}
	ref := loadReference(ReferenceDir)
	if len(ref) == 0 {
		return
	}
	p.alignFields()
	matchedRef := map[*ast.FuncDecl]bool{}
	var orphans []*Fn // functions without a snapshot counterpart of the same name
	for _, f := range p.Fns {
		if f.Decl == nil || f.Body == nil {
			continue
		}
		file := p.Fset.Position(f.Decl.Pos()).Filename
		rel, err := filepath.Rel(p.Dir, file)
		if err != nil {
			continue
		}
		cands := ref[declKey(rel, f.Decl)]
		if len(cands) == 0 {
			orphans = append(orphans, f)
			continue
		}
		if len(cands) != 1 {
			continue // several init functions: no alignment
		}
		matchedRef[cands[0].decl] = true
		p.alignFn(f, cands[0].decl)
	}
	// A function that has no namesake in the snapshot but is, up to the names of locals and its own name,
	// identical to a snapshot function that in turn has no namesake in the analysed tree was merely renamed
	// (or moved to another file): it keeps its snapshot name for the rules.
	if len(orphans) == 0 {
		return
	}
	type refOrphan struct {
		key  string
		decl *ast.FuncDecl
	}
	var refOrphans []refOrphan
	curKeys := map[string]bool{}
	for _, f := range p.Fns {
		if f.Decl != nil {
			file := p.Fset.Position(f.Decl.Pos()).Filename
			if rel, err := filepath.Rel(p.Dir, file); err == nil {
				curKeys[declKey(rel, f.Decl)] = true
			}
		}
	}
	for k, rs := range ref {
		if !curKeys[k] {
			for _, r := range rs {
				refOrphans = append(refOrphans, refOrphan{k, r.decl})
			}
		}
	}
	shapeOf := func(fd *ast.FuncDecl, class identClass) string {
		saved := fd.Name.Name
		fd.Name.Name = "ƒ"
		s, _ := blanked(fd, class)
		fd.Name.Name = saved
		return s
	}
	for _, f := range orphans {
		if f.Obj == nil || f.Obj.Exported() {
			continue
		}
		info := f.Info()
		curClass := func(id *ast.Ident) (bool, interface{}) {
			v, ok := ObjOf(info, id).(*types.Var)
			if !ok || v.IsField() || v.Pkg() == nil || v.Parent() == nil || v.Parent() == v.Pkg().Scope() || v.Pos() < f.Decl.Pos() || v.Pos() >= f.Decl.End() {
				return false, nil
			}
			return true, v
		}
		cs := shapeOf(f.Decl, curClass)
		var match *ast.FuncDecl
		n := 0
		for _, ro := range refOrphans {
			rd := ro.decl
			if recvBase(rd) != recvBase(f.Decl) {
				continue
			}
			refClass := func(id *ast.Ident) (bool, interface{}) { return refLocal(rd, id), nil }
			// recursive calls mention the function's own name: compare with both names blanked
			rs := strings.ReplaceAll(shapeOf(rd, refClass), "("+rd.Name.Name+" ", "(ƒ ")
			if strings.ReplaceAll(cs, "("+f.Decl.Name.Name+" ", "(ƒ ") == rs {
				match = rd
				n++
			} else if os.Getenv("JETVERIF_DEBUG_ALIGN") == f.Name {
				a, b := strings.Fields(strings.ReplaceAll(cs, "("+f.Decl.Name.Name+" ", "(ƒ ")), strings.Fields(rs)
				for i := 0; i < len(a) && i < len(b); i++ {
					if a[i] != b[i] {
						lo := i - 6
						if lo < 0 {
							lo = 0
						}
						println("ORPHAN", rd.Name.Name, "mismatch:", strings.Join(a[lo:i+3], " "), "<<>>", strings.Join(b[lo:i+3], " "))
						break
					}
				}
			}
		}
		if n != 1 {
			continue
		}
		old := match.Name.Name
		funcAlias.Store(f.Obj, old)
		oldName := f.Name
		f.DeclName = oldName
		f.Name = strings.Replace(oldName, f.Decl.Name.Name, old, 1)
		p.FnByName[f.Name] = f
		for _, l := range f.Lits {
			if strings.HasPrefix(l.Name, oldName+"$") {
				delete(p.FnByName, l.Name)
				l.Name = f.Name + strings.TrimPrefix(l.Name, oldName)
				p.FnByName[l.Name] = l
			}
		}
		p.alignFn(f, match)
	}
}

func (p *Prog) alignFn(f *Fn, rd *ast.FuncDecl) {
	info := f.Info()
	curClass := func(id *ast.Ident) (bool, interface{}) {
		o := ObjOf(info, id)
		v, ok := o.(*types.Var)
		if !ok || v.IsField() || v.Pkg() == nil || v.Parent() == nil || v.Parent() == v.Pkg().Scope() {
			// the symbol of a type switch has no object: treat it as local when its clauses' implicit objects are
			if o == nil {
				if _, isDef := info.Defs[id]; isDef && id.Obj != nil && id.Obj.Kind == ast.Var {
					return true, id.Obj
				}
			}
			return false, nil
		}
		if v.Pos() < f.Decl.Pos() || v.Pos() >= f.Decl.End() {
			return false, nil
		}
		return true, o
	}
	refClass := func(id *ast.Ident) (bool, interface{}) {
		if refLocal(rd, id) {
			return true, id.Obj
		}
		return false, nil
	}
	assign := func(cur *ast.Ident, refName string) {
		if cur.Name == refName || refName == "_" || refName == "" {
			return
		}
		if o := ObjOf(info, cur); o != nil {
			SetRole(info, f.Decl, o, refName)
		} else {
			cur.Name = refName // the symbol of a type switch has no object
		}
	}
	// 1. positional: receiver, parameters, named results
	pair := func(cl, rl *ast.FieldList) {
		if cl == nil || rl == nil {
			return
		}
		var cn, rn []*ast.Ident
		for _, fl := range cl.List {
			cn = append(cn, fl.Names...)
		}
		for _, fl := range rl.List {
			rn = append(rn, fl.Names...)
		}
		if len(cn) != len(rn) {
			return
		}
		for i := range cn {
			assign(cn[i], rn[i].Name)
		}
	}
	pair(f.Decl.Recv, rd.Recv)
	pair(f.Decl.Type.Params, rd.Type.Params)
	pair(f.Decl.Type.Results, rd.Type.Results)
	// 2. whole function alpha-equivalent: the i-th local occurrence corresponds to the i-th
	cs, cl := blanked(f.Decl, curClass)
	rs, rl := blanked(rd, refClass)
	if os.Getenv("JETVERIF_DEBUG_ALIGN") == f.Name {
		a, b := strings.Fields(cs), strings.Fields(rs)
		for i := 0; i < len(a) && i < len(b); i++ {
			if a[i] != b[i] {
				lo := i - 8
				if lo < 0 {
					lo = 0
				}
				println("ALIGN mismatch at token", i, ":", strings.Join(a[lo:i+4], " "), " <<>> ", strings.Join(b[lo:i+4], " "))
				break
			}
		}
		println("ALIGN", f.Name, len(a), len(b), len(cl), len(rl))
	}
	if cs == rs && len(cl) == len(rl) {
		// consistency: the correspondence must be a bijection between variables
		fw, bw := map[interface{}]interface{}{}, map[interface{}]interface{}{}
		ok := true
		for i := range cl {
			_, ck := curClass(cl[i])
			_, rk := refClass(rl[i])
			if x, has := fw[ck]; has && x != rk {
				ok = false
			}
			if x, has := bw[rk]; has && x != ck {
				ok = false
			}
			fw[ck], bw[rk] = rk, ck
		}
		if ok {
			for i := range cl {
				assign(cl[i], rl[i].Name)
			}
			return
		}
	}
	// 3. statement shapes that are unique in both versions
	type def struct {
		shape string
		ids   []*ast.Ident
	}
	collect := func(root ast.Node, class identClass) map[string][]def {
		out := map[string][]def{}
		add := func(stmt ast.Node, lhs []ast.Expr) {
			var ids []*ast.Ident
			for _, l := range lhs {
				if id, ok := l.(*ast.Ident); ok {
					ids = append(ids, id)
				} else {
					ids = append(ids, nil)
				}
			}
			s, _ := blanked(stmt, class)
			out[s] = append(out[s], def{s, ids})
		}
		ast.Inspect(root, func(m ast.Node) bool {
			switch v := m.(type) {
			case *ast.AssignStmt:
				if v.Tok == token.DEFINE {
					add(v, v.Lhs)
				}
			case *ast.ValueSpec:
				var lhs []ast.Expr
				for _, n := range v.Names {
					lhs = append(lhs, n)
				}
				add(v, lhs)
			case *ast.RangeStmt:
				if v.Tok == token.DEFINE {
					hdr := &ast.RangeStmt{Key: v.Key, Value: v.Value, Tok: v.Tok, X: v.X, Body: &ast.BlockStmt{}}
					var lhs []ast.Expr
					if v.Key != nil {
						lhs = append(lhs, v.Key)
					}
					if v.Value != nil {
						lhs = append(lhs, v.Value)
					}
					add(hdr, lhs)
				}
			}
			return true
		})
		return out
	}
	cd, rdm := collect(f.Decl.Body, curClass), collect(rd.Body, refClass)
	for shape, cdefs := range cd {
		rdefs := rdm[shape]
		if len(cdefs) != 1 || len(rdefs) != 1 || len(cdefs[0].ids) != len(rdefs[0].ids) {
			continue
		}
		for i, cid := range cdefs[0].ids {
			if cid == nil || rdefs[0].ids[i] == nil {
				continue
			}
			// only variables *defined* by this statement (not re-used on the left of :=)
			if isLocal, _ := curClass(cid); isLocal && info.Defs[cid] != nil {
				assign(cid, rdefs[0].ids[i].Name)
			}
		}
	}
}

// alignFields: an unexported struct field that was merely renamed (same struct, same position, same type
// expression, same number of fields) keeps its snapshot name for the rules — FieldKey, selector names and
// rendered expressions all see the snapshot name.
func (p *Prog) alignFields() {
	type refStruct struct{ st *ast.StructType }
	refTypes := map[string]*ast.StructType{} // "dir|TypeName"
	fset := token.NewFileSet()
	filepath.Walk(ReferenceDir, func(path string, fi os.FileInfo, err error) error {
		if err != nil || fi.IsDir() || !strings.HasSuffix(path, ".go") || strings.HasSuffix(path, "_test.go") {
			return nil
		}
		f, perr := parser.ParseFile(fset, path, nil, parser.SkipObjectResolution)
		if perr != nil {
			return nil
		}
		rel, _ := filepath.Rel(ReferenceDir, path)
		for _, d := range f.Decls {
			gd, ok := d.(*ast.GenDecl)
			if !ok || gd.Tok != token.TYPE {
				continue
			}
			for _, sp := range gd.Specs {
				ts := sp.(*ast.TypeSpec)
				if st, ok := ts.Type.(*ast.StructType); ok {
					refTypes[filepath.Dir(rel)+"|"+ts.Name.Name] = st
				}
			}
		}
		return nil
	})
	flat := func(st *ast.StructType) (names []*ast.Ident, types_ []string) {
		for _, fl := range st.Fields.List {
			t := Str(fl.Type)
			if len(fl.Names) == 0 {
				names = append(names, nil) // embedded
				types_ = append(types_, t)
				continue
			}
			for _, n := range fl.Names {
				names = append(names, n)
				types_ = append(types_, t)
			}
		}
		return
	}
	for _, pk := range p.Pkgs {
		for i, file := range pk.Syntax {
			if i >= len(pk.CompiledGoFiles) {
				continue
			}
			rel, err := filepath.Rel(p.Dir, pk.CompiledGoFiles[i])
			if err != nil {
				continue
			}
			for _, d := range file.Decls {
				gd, ok := d.(*ast.GenDecl)
				if !ok || gd.Tok != token.TYPE {
					continue
				}
				for _, sp := range gd.Specs {
					ts := sp.(*ast.TypeSpec)
					st, ok := ts.Type.(*ast.StructType)
					if !ok {
						continue
					}
					rst := refTypes[filepath.Dir(rel)+"|"+ts.Name.Name]
					if rst == nil {
						continue
					}
					cn, ct := flat(st)
					rn, rt := flat(rst)
					if len(cn) != len(rn) {
						continue
					}
					same := true
					for k := range ct {
						if ct[k] != rt[k] || (cn[k] == nil) != (rn[k] == nil) {
							same = false
						}
					}
					if !same {
						continue
					}
					for k := range cn {
						if cn[k] == nil || cn[k].Name == rn[k].Name || ast.IsExported(cn[k].Name) {
							continue
						}
						if o := pk.TypesInfo.Defs[cn[k]]; o != nil {
							for _, f2 := range pk.Syntax {
								SetRole(pk.TypesInfo, f2, o, rn[k].Name)
							}
						}
					}
				}
			}
		}
	}
}
