package an

import (
	"go/ast"
	"go/printer"
	"go/token"
	"go/types"
	"reflect"
	"strings"
	"sync"

	"golang.org/x/tools/go/types/typeutil"
)

// canon maps identifier nodes to the role name a rule gave the variable they denote ("left", "kind",
// "needFloatPromotion" …).  Rules discover roles by type and data flow (SetRole) and may then keep
// describing code in the vocabulary they were written in: Str, StmtStr and the explorer's fact keys
// render a role variable by its role name whatever it is called in the source.  Keys are node pointers,
// unique per loaded program, so concurrent analyses of different programs do not interfere.
var canon sync.Map // *ast.Ident → string (identifiers without an object: type-switch symbols)

var objRole sync.Map // types.Object → string

// RoleOf returns the name under which variable o is rendered (its role name, or its own name).
func RoleOf(o types.Object) string {
	if o == nil {
		return ""
	}
	if v, ok := objRole.Load(o); ok {
		return v.(string)
	}
	return o.Name()
}

// SetRole gives every occurrence of variable o inside root the name role: the identifiers of the loaded
// syntax tree are renamed in place (positions, objects and type information are untouched), so that
// everything that renders or compares names — Str, printer output, fact keys, id.Name — sees the role name.
// types.Object.Name() still answers the source name; use RoleOf for a variable's object.
func SetRole(info *types.Info, root ast.Node, o types.Object, role string) {
	if o == nil || root == nil || role == "" {
		return
	}
	objRole.Store(o, role)
	ast.Inspect(root, func(n ast.Node) bool {
		if id, ok := n.(*ast.Ident); ok && ObjOf(info, id) == o {
			id.Name = role
		}
		return true
	})
}

// RoleName returns the name under which id is rendered.
func RoleName(id *ast.Ident) string { return id.Name }

func withRoles(n ast.Node, render func() string) string { return render() }

// Str renders an expression in source form (literals included, unlike types.ExprString for long ones).
func Str(e ast.Node) string {
	if e == nil {
		return "<nil>"
	}
	if x, ok := e.(ast.Expr); ok {
		if reflect.ValueOf(x).Kind() == reflect.Ptr && reflect.ValueOf(x).IsNil() {
			return "<nil>"
		}
		return withRoles(x, func() string { return types.ExprString(x) })
	}
	return ""
}

// StmtStr renders a statement (or any node) in source form.
func StmtStr(n ast.Node) string {
	if n == nil || (reflect.ValueOf(n).Kind() == reflect.Ptr && reflect.ValueOf(n).IsNil()) {
		return ""
	}
	return withRoles(n, func() string {
		var sb strings.Builder
		if err := printer.Fprint(&sb, token.NewFileSet(), n); err != nil {
			return ""
		}
		return sb.String()
	})
}

func Unparen(e ast.Expr) ast.Expr {
	for {
		p, ok := e.(*ast.ParenExpr)
		if !ok {
			return e
		}
		e = p.X
	}
}

func shortPkg(pk *types.Package) string {
	if pk == nil {
		return ""
	}
	if pk.Path() == JetPath {
		return "jet"
	}
	return pk.Name()
}

// FuncName gives a stable, readable name for a function object:
// "(*jet.Runtime).newScope", "jet.resolveIndex", "path.Clean", "(reflect.Value).Index", "(io.Writer).Write".
func FuncName(f *types.Func) string {
	if f == nil {
		return ""
	}
	fname := f.Name()
	if v, ok := funcAlias.Load(f); ok {
		fname = v.(string) // an unexported function that was merely renamed keeps its snapshot name (align.go)
	}
	sig, _ := f.Type().(*types.Signature)
	if sig != nil && sig.Recv() != nil {
		t := sig.Recv().Type()
		ptr := ""
		if pt, ok := t.(*types.Pointer); ok {
			ptr = "*"
			t = pt.Elem()
		}
		if n, ok := t.(*types.Named); ok {
			return "(" + ptr + shortPkg(n.Obj().Pkg()) + "." + n.Obj().Name() + ")." + fname
		}
		// method of an interface literal / embedded interface
		return "(" + ptr + t.String() + ")." + fname
	}
	return shortPkg(f.Pkg()) + "." + fname
}

var funcAlias sync.Map // *types.Func → snapshot name of a renamed function

// Callee resolves the function object called (static functions, methods incl. interface methods).
func Callee(info *types.Info, call *ast.CallExpr) *types.Func {
	f, _ := typeutil.Callee(info, call).(*types.Func)
	return f
}

// CalleeName names what a call expression invokes:
//   - FuncName(obj) for functions and methods,
//   - "builtin.len" for builtins,
//   - "conv:T" for conversions,
//   - "value:<expr>" for calls of function values (variables, fields, results).
func CalleeName(info *types.Info, call *ast.CallExpr) string {
	fun := Unparen(call.Fun)
	if tv, ok := info.Types[fun]; ok && tv.IsType() {
		return "conv:" + types.TypeString(tv.Type, func(p *types.Package) string { return shortPkg(p) })
	}
	switch o := typeutil.Callee(info, call).(type) {
	case *types.Func:
		return FuncName(o)
	case *types.Builtin:
		return "builtin." + o.Name()
	}
	return "value:" + Str(fun)
}

// IsCallTo reports whether call invokes one of the named functions (FuncName form).
func IsCallTo(info *types.Info, call *ast.CallExpr, names ...string) bool {
	n := CalleeName(info, call)
	for _, x := range names {
		if n == x {
			return true
		}
	}
	return false
}

// Receiver returns the receiver expression of a method call (x in x.M()), or nil.
func Receiver(call *ast.CallExpr) ast.Expr {
	if s, ok := Unparen(call.Fun).(*ast.SelectorExpr); ok {
		return s.X
	}
	return nil
}

// FieldOf resolves a selector expression to the struct field it selects (nil if not a field selection).
func FieldOf(info *types.Info, e ast.Expr) *types.Var {
	s, ok := Unparen(e).(*ast.SelectorExpr)
	if !ok {
		return nil
	}
	if sel, ok := info.Selections[s]; ok && sel.Kind() == types.FieldVal {
		v, _ := sel.Obj().(*types.Var)
		return v
	}
	return nil
}

// FieldOwner returns the named struct type that declares field v ("Runtime", "scope", …) by
// searching the packages' named struct types.
func (p *Prog) FieldOwner(v *types.Var) string {
	if v == nil || !v.IsField() {
		return ""
	}
	for _, pk := range p.Pkgs {
		sc := pk.Types.Scope()
		for _, name := range sc.Names() {
			tn, ok := sc.Lookup(name).(*types.TypeName)
			if !ok {
				continue
			}
			st, ok := tn.Type().Underlying().(*types.Struct)
			if !ok {
				continue
			}
			for i := 0; i < st.NumFields(); i++ {
				if st.Field(i) == v {
					return p.pkgPrefix(pk) + name
				}
			}
		}
	}
	return ""
}

// FieldKey is "Owner.field" for a selected field.
func (p *Prog) FieldKey(info *types.Info, e ast.Expr) string {
	v := FieldOf(info, e)
	if v == nil {
		return ""
	}
	return p.FieldOwner(v) + "." + RoleOf(v)
}

// ObjOf returns the object an identifier refers to (use or def).
func ObjOf(info *types.Info, id *ast.Ident) types.Object {
	if o := info.Uses[id]; o != nil {
		return o
	}
	return info.Defs[id]
}

// RootIdent returns the leftmost identifier of a selector/index/star/call-receiver chain.
func RootIdent(e ast.Expr) *ast.Ident {
	for {
		switch x := e.(type) {
		case *ast.Ident:
			return x
		case *ast.SelectorExpr:
			e = x.X
		case *ast.IndexExpr:
			e = x.X
		case *ast.StarExpr:
			e = x.X
		case *ast.ParenExpr:
			e = x.X
		case *ast.UnaryExpr:
			e = x.X
		case *ast.SliceExpr:
			e = x.X
		case *ast.TypeAssertExpr:
			e = x.X
		default:
			return nil
		}
	}
}

// NamedOf strips pointers and returns the named type, if any.
func NamedOf(t types.Type) *types.Named {
	if t == nil {
		return nil
	}
	if p, ok := t.Underlying().(*types.Pointer); ok {
		t = p.Elem()
	}
	if p, ok := t.(*types.Pointer); ok {
		t = p.Elem()
	}
	n, _ := t.(*types.Named)
	return n
}

// TypeName gives "jet.Runtime" / "reflect.Value" for (pointers to) named types, else the type string.
func TypeName(t types.Type) string {
	if t == nil {
		return "<nil>"
	}
	return types.TypeString(t, func(p *types.Package) string { return shortPkg(p) })
}

// Assigns enumerates (lhs, rhs) pairs of an assignment-like node. rhs is nil when the value is
// not a single expression (multi-value call, inc/dec, range).
func Assigns(n ast.Node, f func(lhs, rhs ast.Expr, tok token.Token)) {
	switch s := n.(type) {
	case *ast.AssignStmt:
		if len(s.Lhs) == len(s.Rhs) {
			for i := range s.Lhs {
				f(s.Lhs[i], s.Rhs[i], s.Tok)
			}
		} else {
			for i := range s.Lhs {
				f(s.Lhs[i], nil, s.Tok)
			}
		}
	case *ast.IncDecStmt:
		f(s.X, nil, s.Tok)
	case *ast.ValueSpec:
		for i, name := range s.Names {
			if len(s.Values) == len(s.Names) {
				f(name, s.Values[i], token.DEFINE)
			} else if len(s.Values) == 0 {
				f(name, nil, token.VAR) // zero value
			} else {
				f(name, nil, token.DEFINE)
			}
		}
	case *ast.RangeStmt:
		if s.Key != nil {
			f(s.Key, nil, s.Tok)
		}
		if s.Value != nil {
			f(s.Value, nil, s.Tok)
		}
	}
}

// ImplementsIface reports whether T or *T implements the interface.
func ImplementsIface(t types.Type, iface *types.Interface) bool {
	if iface == nil || t == nil {
		return false
	}
	if types.Implements(t, iface) {
		return true
	}
	if _, isPtr := t.(*types.Pointer); !isPtr {
		return types.Implements(types.NewPointer(t), iface)
	}
	return false
}

// Iface looks up an interface type declared in pkg.
func (p *Prog) Iface(pkRel, name string) *types.Interface {
	pk := p.ByRel[pkRel]
	if pk == nil {
		return nil
	}
	o := pk.Types.Scope().Lookup(name)
	if o == nil {
		return nil
	}
	i, _ := o.Type().Underlying().(*types.Interface)
	return i
}

// ContainsWord reports whether s contains w delimited by non-identifier characters.
func ContainsWord(s, w string) bool {
	for i := 0; ; {
		j := strings.Index(s[i:], w)
		if j < 0 {
			return false
		}
		j += i
		before := j == 0 || !isIdentChar(s[j-1])
		after := j+len(w) >= len(s) || !isIdentChar(s[j+len(w)])
		if before && after {
			return true
		}
		i = j + 1
	}
}

func isIdentChar(c byte) bool {
	return c == '_' || c >= '0' && c <= '9' || c >= 'a' && c <= 'z' || c >= 'A' && c <= 'Z'
}
