package an

import (
	"fmt"
	"go/ast"
	"go/token"
	"go/types"
	"strings"
)

var errorType = types.Universe.Lookup("error").Type()

func isErrorType(t types.Type) bool { return t != nil && types.Identical(t, errorType) }

// ErrFinding is one dropped error.
type ErrFinding struct {
	Call  *ast.CallExpr
	Pos   token.Pos
	Msg   string
	Trail []string
}

// DroppedErrors checks the error discipline of fn for the calls selected by want (nil = every call
// whose last result is an error): the error must be (i) returned by a tail call, (ii) stored in a
// variable that is tested (== nil / != nil) before the function returns nil for its error result
// or reaches a no-return call, or (iii) returned itself.  Discarding it (expression statement, blank
// identifier) or returning a literal nil error while it is pending is a finding.  ok lists the
// calls that were checked and are fine.
func (p *Prog) DroppedErrors(fn *Fn, want func(name string, call *ast.CallExpr) bool) (bad []ErrFinding, ok []*ast.CallExpr) {
	info := fn.Info()
	lastIsErr := func(call *ast.CallExpr) bool {
		tv, has := info.Types[call]
		if !has {
			return false
		}
		switch t := tv.Type.(type) {
		case *types.Tuple:
			return t.Len() > 0 && isErrorType(t.At(t.Len()-1).Type())
		default:
			return isErrorType(t)
		}
	}
	selected := map[*ast.CallExpr]bool{}
	InspectOwn(fn, func(n ast.Node) bool {
		if c, isCall := n.(*ast.CallExpr); isCall && lastIsErr(c) {
			if want == nil || want(CalleeName(info, c), c) {
				selected[c] = true
			}
		}
		return true
	})
	if len(selected) == 0 {
		return nil, nil
	}
	// syntactic classification of each selected call
	pendingVar := map[*ast.CallExpr]types.Object{}
	handled := map[*ast.CallExpr]bool{}
	InspectOwn(fn, func(n ast.Node) bool {
		switch s := n.(type) {
		case *ast.ReturnStmt:
			if len(s.Results) == 1 {
				if c, isCall := Unparen(s.Results[0]).(*ast.CallExpr); isCall && selected[c] {
					handled[c] = true // tail call: the error is the function's own error result
				}
			}
			for _, r := range s.Results {
				if c, isCall := Unparen(r).(*ast.CallExpr); isCall && selected[c] && len(s.Results) > 1 {
					handled[c] = true
				}
			}
		case *ast.ExprStmt:
			if c, isCall := Unparen(s.X).(*ast.CallExpr); isCall && selected[c] {
				bad = append(bad, ErrFinding{Call: c, Pos: c.Pos(), Msg: fmt.Sprintf("the error returned by %s is discarded (call used as a statement)", CalleeName(info, c))})
				handled[c] = true
			}
		case *ast.DeferStmt:
			if selected[s.Call] {
				handled[s.Call] = true // deferred cleanup (Close): its error cannot be returned
			}
		case *ast.GoStmt:
			if selected[s.Call] {
				handled[s.Call] = true
			}
		case *ast.AssignStmt:
			if len(s.Rhs) == 1 {
				if c, isCall := Unparen(s.Rhs[0]).(*ast.CallExpr); isCall && selected[c] {
					last := s.Lhs[len(s.Lhs)-1]
					if id, isId := Unparen(last).(*ast.Ident); isId {
						if id.Name == "_" {
							bad = append(bad, ErrFinding{Call: c, Pos: c.Pos(), Msg: fmt.Sprintf("the error returned by %s is assigned to the blank identifier", CalleeName(info, c))})
							handled[c] = true
						} else if o := ObjOf(info, id); o != nil {
							pendingVar[c] = o
						}
					}
				}
			}
		case *ast.ValueSpec:
			if len(s.Values) == 1 {
				if c, isCall := Unparen(s.Values[0]).(*ast.CallExpr); isCall && selected[c] {
					id := s.Names[len(s.Names)-1]
					if id.Name == "_" {
						bad = append(bad, ErrFinding{Call: c, Pos: c.Pos(), Msg: "error assigned to the blank identifier"})
						handled[c] = true
					} else if o := info.Defs[id]; o != nil {
						pendingVar[c] = o
					}
				}
			}
		case *ast.IfStmt:
			// if x, err := f(); err != nil { … }
			if as, isAs := s.Init.(*ast.AssignStmt); isAs && len(as.Rhs) == 1 {
				if c, isCall := Unparen(as.Rhs[0]).(*ast.CallExpr); isCall && selected[c] {
					if id, isId := Unparen(as.Lhs[len(as.Lhs)-1]).(*ast.Ident); isId && id.Name != "_" {
						if o := ObjOf(info, id); o != nil {
							pendingVar[c] = o
						}
					}
				}
			}
		}
		return true
	})
	// path-sensitive part: a pending error variable must be tested, returned or lead to no-return
	// before the function returns a nil/other error.
	errIdx := -1
	if fn.Sig != nil && fn.Sig.Results().Len() > 0 && isErrorType(fn.Sig.Results().At(fn.Sig.Results().Len()-1).Type()) {
		errIdx = fn.Sig.Results().Len() - 1
	}
	byStmtCall := map[*ast.CallExpr]types.Object{}
	for c, o := range pendingVar {
		byStmtCall[c] = o
	}
	if len(byStmtCall) > 0 {
		reported := map[*ast.CallExpr]bool{}
		hooks := Hooks{
			Call: func(x *Explorer, call *ast.CallExpr, st *State) {
				if o, isPending := byStmtCall[call]; isPending {
					st.Regs[fmt.Sprintf("pend:%d", call.Pos())] = o.Name()
				}
			},
			PreAssign: func(x *Explorer, lhs, rhs ast.Expr, stmt ast.Node, st *State) {
				// overwriting a pending error variable by something else than its own call drops it
				id, isId := Unparen(lhs).(*ast.Ident)
				if !isId {
					return
				}
				o := ObjOf(info, id)
				for c, po := range byStmtCall {
					reg := fmt.Sprintf("pend:%d", c.Pos())
					if po != o || st.Regs[reg] == "" {
						continue
					}
					// the defining assignment itself comes right after the call hook
					if rhsCall, isCall := Unparen(rhsOf(stmt)).(*ast.CallExpr); isCall && rhsCall == c {
						st.Regs[reg] = "live"
						continue
					}
					if st.Regs[reg] == "live" && !testedNonNil(x, st, o) && !testedNil(x, st, o) {
						if !reported[c] {
							reported[c] = true
							bad = append(bad, ErrFinding{Call: c, Pos: stmt.Pos(), Msg: fmt.Sprintf("the error of %s held in %q is overwritten before it was tested", CalleeName(info, c), o.Name())})
						}
					}
					delete(st.Regs, reg)
				}
			},
		}
		// the outcome of a nil test is remembered in the register (the fact itself dies with the variable's scope)
		hooks.Branch = func(x *Explorer, cond ast.Expr, val bool, st *State) {
			for c, o := range byStmtCall {
				reg := fmt.Sprintf("pend:%d", c.Pos())
				if st.Regs[reg] != "live" && st.Regs[reg] != "nonnil" {
					continue
				}
				if testedNil(x, st, o) {
					st.Regs[reg] = "nil"
				} else if testedNonNil(x, st, o) {
					st.Regs[reg] = "nonnil"
				}
			}
		}
		x := p.NewExplorer(fn, hooks)
		x.Run(nil)
		for _, ex := range x.Exits {
			if ex.Kind != ExitReturn {
				continue // reaching a no-return call reports the failure
			}
			for c, o := range byStmtCall {
				reg := fmt.Sprintf("pend:%d", c.Pos())
				state := ex.State.Regs[reg]
				if state == "" || state == "nil" || testedNil(x, ex.State, o) {
					continue // not pending, or proven nil on this path
				}
				// does the function return the error (or something built from it)?
				returned := false
				nilErr := false
				if ex.Ret != nil {
					if len(ex.Ret.Results) == 0 && errIdx >= 0 && fn.Sig.Results().At(errIdx) == o {
						returned = true // bare return of the named error result
					}
					for _, r := range ex.Ret.Results {
						ast.Inspect(r, func(n ast.Node) bool {
							if id, isId := n.(*ast.Ident); isId && ObjOf(info, id) == o {
								returned = true
							}
							return true
						})
					}
					if errIdx >= 0 && len(ex.Ret.Results) == fn.Sig.Results().Len() {
						if id, isId := Unparen(ex.Ret.Results[errIdx]).(*ast.Ident); isId && id.Name == "nil" {
							nilErr = true
						}
					}
				}
				if returned {
					continue
				}
				// Policy: an error that was never tested must be returned.  An error that was tested counts as
				// handled once control has left the test (the code went on to try something else, as newNumber
				// does) — except that returning a nil error while the variable is still known to be non-nil
				// (inside the `err != nil` branch itself) replaces the failure by success.
				msg := ""
				switch {
				case state == "live":
					msg = fmt.Sprintf("a path returns without the error of %s (held in %q): it is neither tested nor returned", CalleeName(info, c), o.Name())
				case state == "nonnil" && testedNonNil(x, ex.State, o) && nilErr && inNonNilBranch(fn, info, ex.Ret, o):
					msg = fmt.Sprintf("the error of %s (held in %q) is known to be non-nil here, yet the function returns a nil error: the failure is replaced by success", CalleeName(info, c), o.Name())
				}
				if msg != "" && !reported[c] {
					reported[c] = true
					where := fn.Body.End()
					if ex.Ret != nil && ex.Ret.Pos().IsValid() && ex.Ret.Pos() < fn.Body.End() {
						where = ex.Ret.Pos()
					}
					bad = append(bad, ErrFinding{Call: c, Pos: where, Trail: ex.Trail, Msg: msg})
				}
			}
		}
		for c := range byStmtCall {
			handled[c] = true
		}
	}
	for c := range selected {
		if !handled[c] {
			// error-valued call used inside a larger expression (argument, condition): its value is consumed
			handled[c] = true
		}
		isBad := false
		for _, b := range bad {
			if b.Call == c {
				isBad = true
			}
		}
		if !isBad {
			ok = append(ok, c)
		}
	}
	return bad, ok
}

// inNonNilBranch: ret lies lexically inside the branch of an if statement that is taken when o != nil.
func inNonNilBranch(fn *Fn, info *types.Info, ret *ast.ReturnStmt, o types.Object) bool {
	if ret == nil || !ret.Pos().IsValid() {
		return false
	}
	for _, enc := range EnclosingStmts(fn, ret) {
		is, ok := enc.(*ast.IfStmt)
		if !ok {
			continue
		}
		for _, cj := range splitAnd(is.Cond) {
			b, ok := Unparen(cj).(*ast.BinaryExpr)
			if !ok || (b.Op != token.NEQ && b.Op != token.EQL) {
				continue
			}
			var other ast.Expr
			if id, isId := Unparen(b.X).(*ast.Ident); isId && ObjOf(info, id) == o {
				other = b.Y
			} else if id, isId := Unparen(b.Y).(*ast.Ident); isId && ObjOf(info, id) == o {
				other = b.X
			}
			if other == nil || Str(other) != "nil" {
				continue
			}
			inBody := is.Body.Pos() <= ret.Pos() && ret.End() <= is.Body.End()
			inElse := is.Else != nil && is.Else.Pos() <= ret.Pos() && ret.End() <= is.Else.End()
			if (b.Op == token.NEQ && inBody) || (b.Op == token.EQL && inElse) {
				return true
			}
		}
	}
	return false
}

func splitAnd(e ast.Expr) []ast.Expr {
	e = Unparen(e)
	if b, ok := e.(*ast.BinaryExpr); ok && b.Op == token.LAND {
		return append(splitAnd(b.X), splitAnd(b.Y)...)
	}
	return []ast.Expr{e}
}

func rhsOf(stmt ast.Node) ast.Expr {
	switch s := stmt.(type) {
	case *ast.AssignStmt:
		if len(s.Rhs) == 1 {
			return s.Rhs[0]
		}
	case *ast.ValueSpec:
		if len(s.Values) == 1 {
			return s.Values[0]
		}
	}
	return nil
}

func testedNil(x *Explorer, st *State, o types.Object) bool {
	for k, v := range st.Facts {
		pk := PlainKey(k)
		if v && (pk == RoleOf(o)+" == nil" || pk == "nil == "+RoleOf(o)) && strings.Contains(k, fmt.Sprintf("%s·%d", RoleOf(o), int(o.Pos()-x.Fn.Pos()))) {
			return true
		}
	}
	return false
}

func testedNonNil(x *Explorer, st *State, o types.Object) bool {
	for k, v := range st.Facts {
		pk := PlainKey(k)
		if !v && (pk == RoleOf(o)+" == nil" || pk == "nil == "+RoleOf(o)) && strings.Contains(k, fmt.Sprintf("%s·%d", RoleOf(o), int(o.Pos()-x.Fn.Pos()))) {
			return true
		}
	}
	return false
}
