package an

import (
	"fmt"
	"go/ast"
	"go/constant"
	"go/token"
	"go/types"
	"os"
	"sort"
	"strconv"
	"strings"
	"time"

	"golang.org/x/tools/go/cfg"
)

// ---------------------------------------------------------------------------------------------
// F-PATH: exploration of a function's CFG as a small abstract interpretation.
//
// Abstract state = (facts about pure conditions, rule-defined registers).  The explorer visits
// every reachable (block, state) pair once (worklist + visited set), so loops converge as soon
// as the state repeats; rules keep their registers finite (capped counters).  Branches whose
// condition contradicts a fact recorded earlier on the same path are not taken: this is what makes
//     if needNewScope { push } ... if needNewScope { pop }
// balanced.  Facts are killed by assignments to anything they mention and, unless they are
// call-stable (locals and fields of the parse-time-immutable AST/Template/Set/Arguments types),
// by every call that is not known to be pure.
// ---------------------------------------------------------------------------------------------

// State is the abstract state carried along paths.
type State struct {
	Facts map[string]bool
	Regs  map[string]string
}

func NewState() *State { return &State{Facts: map[string]bool{}, Regs: map[string]string{}} }

func (s *State) Clone() *State {
	c := &State{Facts: make(map[string]bool, len(s.Facts)), Regs: make(map[string]string, len(s.Regs))}
	for k, v := range s.Facts {
		c.Facts[k] = v
	}
	for k, v := range s.Regs {
		c.Regs[k] = v
	}
	return c
}

func (s *State) Key() string {
	var parts []string
	for k, v := range s.Facts {
		if v {
			parts = append(parts, "+"+k)
		} else {
			parts = append(parts, "-"+k)
		}
	}
	for k, v := range s.Regs {
		parts = append(parts, k+"="+v)
	}
	sort.Strings(parts)
	return strings.Join(parts, ";")
}

func (s *State) Int(name string) int {
	n, _ := strconv.Atoi(s.Regs[name])
	return n
}
func (s *State) SetInt(name string, v int) {
	if v == 0 {
		delete(s.Regs, name)
	} else {
		s.Regs[name] = strconv.Itoa(v)
	}
}
func (s *State) Add(name string, d int) int { v := s.Int(name) + d; s.SetInt(name, v); return v }
func (s *State) Get(name string) string     { return s.Regs[name] }
func (s *State) Set(name, v string) {
	if v == "" {
		delete(s.Regs, name)
	} else {
		s.Regs[name] = v
	}
}

// Hooks are the rule-specific transfer functions.  All are optional.  They mutate st in place.
type Hooks struct {
	Call   func(x *Explorer, call *ast.CallExpr, st *State)
	Assign func(x *Explorer, lhs, rhs ast.Expr, stmt ast.Node, st *State)
	// PreAssign runs before the facts mentioning lhs are killed (Assign runs after)
	PreAssign func(x *Explorer, lhs, rhs ast.Expr, stmt ast.Node, st *State)
	Defer     func(x *Explorer, d *ast.DeferStmt, st *State)
	Go        func(x *Explorer, g *ast.GoStmt, st *State)
	Return    func(x *Explorer, r *ast.ReturnStmt, st *State)
	Lit       func(x *Explorer, lit *ast.FuncLit, st *State)
	Stmt      func(x *Explorer, n ast.Node, st *State) // every CFG node, before its parts
	Use       func(x *Explorer, e ast.Expr, st *State) // every evaluated identifier/selector (loads)
	// Branch runs after a block's condition was assumed true/false on the way to a successor
	Branch func(x *Explorer, cond ast.Expr, val bool, st *State)
}

type ExitKind int

const (
	ExitReturn ExitKind = iota
	ExitNoReturn
)

type Exit struct {
	Kind  ExitKind
	Block *cfg.Block
	Ret   *ast.ReturnStmt
	State *State
	Trail []string
}

type Explorer struct {
	P     *Prog
	Fn    *Fn
	G     *cfg.CFG
	Hooks Hooks

	inUnit    bool
	MaxStates int
	Visited   int
	Undecided string // non-empty when the exploration was cut short
	Exits     []Exit

	// StartAt, when set, begins exploration at the block containing this node (the node itself is
	// processed first); StopAt nodes end a path as an Exit (kind ExitReturn, Ret nil).
	caseOf   map[ast.Expr]*ast.SwitchStmt
	rangeDef map[ast.Expr]bool
	unstable map[types.Object]bool // locals that are address-taken or assigned in nested literals
	atoms    map[string]*atomMeta
	inl      map[*types.Var]ast.Expr
	inlBusy  map[*types.Var]bool
	sp       *spliced // the graph explored: fn's CFG with its new helpers spliced in (see splice.go)
}

type atomMeta struct {
	mentions map[string]bool
	stable   bool
	fields   map[string]bool // "Owner.field" / "var:name" designators that make the atom unstable
	other    bool            // unstable for a reason a write summary cannot exclude (address-taken local, dereference)
	scopes   [][2]token.Pos  // lexical scopes of the locals mentioned: the fact is dead outside any of them
	expr     ast.Expr        // the expression the atom stands for (composite facts are unit-propagated through it)
}

type xnode struct {
	b      *cfg.Block
	st     *State
	parent *xnode
	label  string
}

// NewExplorer prepares the exploration of fn.
func (p *Prog) NewExplorer(fn *Fn, hooks Hooks) *Explorer {
	sp := p.Spliced(fn)
	x := &Explorer{P: p, Fn: fn, G: sp.g, sp: sp, Hooks: hooks, MaxStates: 200000,
		caseOf: map[ast.Expr]*ast.SwitchStmt{}, rangeDef: map[ast.Expr]bool{}, unstable: map[types.Object]bool{}, atoms: map[string]*atomMeta{}}
	for _, f := range sp.fns {
		x.scan(f)
	}
	return x
}

// scan records, for one explored function body, the switch cases, range definitions and the locals
// whose value can change behind the explorer's back.
func (x *Explorer) scan(fn *Fn) {
	info := fn.Info()
	ast.Inspect(fn.Body, func(n ast.Node) bool {
		switch s := n.(type) {
		case *ast.FuncLit:
			// locals of fn assigned inside a nested literal are not stable across calls
			ast.Inspect(s.Body, func(m ast.Node) bool {
				Assigns(m, func(lhs, _ ast.Expr, _ token.Token) {
					if id, ok := Unparen(lhs).(*ast.Ident); ok {
						if o := ObjOf(info, id); o != nil {
							x.unstable[o] = true
						}
					}
				})
				return true
			})
			return false
		case *ast.SwitchStmt:
			for _, c := range s.Body.List {
				for _, e := range c.(*ast.CaseClause).List {
					x.caseOf[e] = s
				}
			}
		case *ast.RangeStmt:
			if s.Key != nil {
				x.rangeDef[s.Key] = true
			}
			if s.Value != nil {
				x.rangeDef[s.Value] = true
			}
		case *ast.UnaryExpr:
			if s.Op == token.AND {
				if id, ok := Unparen(s.X).(*ast.Ident); ok {
					if o := ObjOf(info, id); o != nil {
						x.unstable[o] = true
					}
				}
			}
		}
		return true
	})
}

// Run explores from the function entry.
func (x *Explorer) Run(init *State) {
	if init == nil {
		init = NewState()
	}
	if len(x.G.Blocks) == 0 {
		return
	}
	if os.Getenv("JETVERIF_DEBUG") != "" {
		t0 := time.Now()
		defer func() {
			fmt.Fprintf(os.Stderr, "explore %-50s %7d states %4d exits %v %s\n", x.Fn.Name, x.Visited, len(x.Exits), time.Since(t0).Round(time.Millisecond), x.Undecided)
		}()
	}
	x.runFrom(x.G.Blocks[0], 0, init)
}

func (x *Explorer) runFrom(b0 *cfg.Block, firstNode int, init *State) {
	visited := map[string]bool{}
	work := []*xnode{{b: b0, st: init}}
	first := true
	for len(work) > 0 {
		n := work[len(work)-1]
		work = work[:len(work)-1]
		key := fmt.Sprintf("%d|%s", n.b.Index, n.st.Key())
		if visited[key] {
			continue
		}
		visited[key] = true
		x.Visited++
		if x.Visited > x.MaxStates {
			x.Undecided = fmt.Sprintf("state space exceeded %d (block,state) pairs", x.MaxStates)
			if os.Getenv("JETVERIF_DEBUG") != "" {
				i := 0
				for k := range visited {
					if i++; i > 8 {
						break
					}
					fmt.Fprintf(os.Stderr, "   sample state: %s\n", PlainKey(k))
				}
			}
			return
		}
		states := []*State{n.st.Clone()}
		if len(n.b.Nodes) > 0 {
			x.prune(states[0], n.b)
		}
		// the head of a range loop gives the key and value variables their next values (go/cfg lists the two
		// identifiers once, in front of the loop): what was known about them belongs to the last iteration
		if n.b.Kind == cfg.KindRangeLoop {
			if rs, ok := n.b.Stmt.(*ast.RangeStmt); ok {
				for _, e := range []ast.Expr{rs.Key, rs.Value} {
					if e != nil && x.rangeDef[e] {
						for _, st := range states {
							x.assign(e, nil, rs, st)
						}
					}
				}
			}
		}
		start := 0
		if first {
			start = firstNode
			first = false
		}
		for i := start; i < len(n.b.Nodes); i++ {
			states = x.node(n.b.Nodes[i], states)
		}
		clearTemps := func(st *State) {
			for k := range st.Facts {
				if strings.HasPrefix(k, "@") {
					delete(st.Facts, k)
				}
			}
		}
		switch len(n.b.Succs) {
		case 0:
			for _, st := range states {
				clearTemps(st)
				ex := Exit{Block: n.b, State: st, Trail: trail(n)}
				if r := n.b.Return(); r != nil {
					ex.Kind, ex.Ret = ExitReturn, r
				} else {
					ex.Kind = ExitNoReturn
				}
				x.Exits = append(x.Exits, ex)
			}
		case 1:
			for _, st := range states {
				clearTemps(st)
				work = append(work, &xnode{b: n.b.Succs[0], st: st, parent: n})
			}
		case 2:
			cond := x.blockCond(n.b)
			for _, st := range states {
				if cond == nil {
					clearTemps(st)
					work = append(work, &xnode{b: n.b.Succs[0], st: st.Clone(), parent: n})
					work = append(work, &xnode{b: n.b.Succs[1], st: st, parent: n})
					continue
				}
				t := st.Clone()
				if x.Assume(cond, true, t) {
					if x.Hooks.Branch != nil {
						x.Hooks.Branch(x, cond, true, t)
					}
					clearTemps(t)
					work = append(work, &xnode{b: n.b.Succs[0], st: t, parent: n, label: fmt.Sprintf("L%d: %s", x.P.Line(cond.Pos()), Str(cond))})
				}
				f := st
				if x.Assume(cond, false, f) {
					if x.Hooks.Branch != nil {
						x.Hooks.Branch(x, cond, false, f)
					}
					clearTemps(f)
					work = append(work, &xnode{b: n.b.Succs[1], st: f, parent: n, label: fmt.Sprintf("L%d: !(%s)", x.P.Line(cond.Pos()), Str(cond))})
				}
			}
		}
	}
}

func trail(n *xnode) []string {
	var out []string
	for ; n != nil; n = n.parent {
		if n.label != "" {
			out = append(out, n.label)
		}
	}
	for i, j := 0, len(out)-1; i < j; i, j = i+1, j-1 {
		out[i], out[j] = out[j], out[i]
	}
	if len(out) > 24 {
		out = append(out[:12:12], append([]string{"…"}, out[len(out)-11:]...)...)
	}
	return out
}

// blockCond returns the boolean condition deciding Succs[0] (true) vs Succs[1] (false), or nil.
func (x *Explorer) blockCond(b *cfg.Block) ast.Expr {
	if len(b.Nodes) == 0 || b.Kind == cfg.KindRangeLoop {
		return nil
	}
	last, ok := b.Nodes[len(b.Nodes)-1].(ast.Expr)
	if !ok {
		return nil
	}
	if sw, ok := x.caseOf[last]; ok {
		if sw.Tag == nil {
			return last
		}
		return &ast.BinaryExpr{X: sw.Tag, Op: token.EQL, Y: last, OpPos: last.Pos()}
	}
	if tv, ok := x.Fn.Info().Types[last]; ok && tv.Type != nil {
		if bt, ok := tv.Type.Underlying().(*types.Basic); ok && bt.Info()&types.IsBoolean != 0 {
			return last
		}
	}
	return nil
}

// ------------------------------------------------------------------ node processing

func (x *Explorer) node(n ast.Node, states []*State) []*State {
	if x.Hooks.Stmt != nil {
		for _, st := range states {
			x.Hooks.Stmt(x, n, st)
		}
	}
	switch s := n.(type) {
	case *ast.ExprStmt:
		return x.expr(s.X, states)
	case *ast.AssignStmt:
		for _, r := range s.Rhs {
			states = x.expr(r, states)
		}
		for _, l := range s.Lhs {
			states = x.lhsParts(l, states)
		}
		// `b := A && B` (a bool local defined by a test whose outcome is not known yet): the two outcomes are
		// followed separately, so that a later `if b` knows what A and B were
		if len(s.Lhs) == len(s.Rhs) && (s.Tok == token.DEFINE || s.Tok == token.ASSIGN) {
			for i, l := range s.Lhs {
				if id, ok := Unparen(l).(*ast.Ident); ok && id.Name != "_" {
					if v, ok := ObjOf(x.Fn.Info(), id).(*types.Var); ok && !v.IsField() && v.Pkg() != nil && v.Parent() != v.Pkg().Scope() {
						states = x.forkOnBool(s.Rhs[i], states)
					}
				}
			}
		}
		Assigns(s, func(lhs, rhs ast.Expr, tok token.Token) {
			for _, st := range states {
				x.assign(lhs, rhs, s, st)
			}
		})
		return states
	case *ast.IncDecStmt:
		states = x.lhsParts(s.X, states)
		for _, st := range states {
			x.assign(s.X, nil, s, st)
		}
		return states
	case *ast.ValueSpec:
		for _, v := range s.Values {
			states = x.expr(v, states)
		}
		Assigns(s, func(lhs, rhs ast.Expr, tok token.Token) {
			for _, st := range states {
				if tok == token.VAR {
					x.assignZero(lhs, s, st)
				} else {
					x.assign(lhs, rhs, s, st)
				}
			}
		})
		return states
	case *ast.DeferStmt:
		states = x.callParts(s.Call, states)
		for _, st := range states {
			if x.Hooks.Defer != nil {
				x.Hooks.Defer(x, s, st)
			}
		}
		return states
	case *ast.GoStmt:
		states = x.callParts(s.Call, states)
		for _, st := range states {
			if x.Hooks.Go != nil {
				x.Hooks.Go(x, s, st)
			}
		}
		return states
	case *ast.ReturnStmt:
		for _, r := range s.Results {
			states = x.expr(r, states)
		}
		for _, st := range states {
			if x.Hooks.Return != nil {
				x.Hooks.Return(x, s, st)
			}
		}
		return states
	case *ast.SendStmt:
		states = x.expr(s.Chan, states)
		states = x.expr(s.Value, states)
		for _, st := range states {
			x.killUnstable(st)
		}
		return states
	case ast.Expr:
		if x.rangeDef[s] {
			for _, st := range states {
				x.assign(s, nil, n, st)
			}
			return states
		}
		return x.expr(s, states)
	}
	return states
}

// forkOnBool splits every state in which the truth of the non-constant bool expression e (a comparison or a
// logical combination) is not known into one where it holds and one where it does not.
func (x *Explorer) forkOnBool(e ast.Expr, states []*State) []*State {
	tv, ok := x.Fn.Info().Types[e]
	if !ok || tv.Value != nil || tv.Type == nil {
		return states
	}
	if bt, ok := tv.Type.Underlying().(*types.Basic); !ok || bt.Info()&types.IsBoolean == 0 {
		return states
	}
	switch b := Unparen(e).(type) {
	case *ast.BinaryExpr:
		switch b.Op {
		case token.LAND, token.LOR, token.EQL, token.NEQ, token.LSS, token.LEQ, token.GTR, token.GEQ:
		default:
			return states
		}
	case *ast.UnaryExpr:
		if b.Op != token.NOT {
			return states
		}
	default:
		return states
	}
	if len(states) > 64 {
		return states
	}
	var out []*State
	for _, st := range states {
		if x.Eval(e, st) != unknown {
			out = append(out, st)
			continue
		}
		t, f := st.Clone(), st
		if x.Assume(e, true, t) {
			out = append(out, t)
		}
		if x.Assume(e, false, f) {
			out = append(out, f)
		}
	}
	return out
}

// lhsParts evaluates the operands of an assignment target (index expressions, receivers).
func (x *Explorer) lhsParts(l ast.Expr, states []*State) []*State {
	switch e := Unparen(l).(type) {
	case *ast.IndexExpr:
		states = x.expr(e.X, states)
		return x.expr(e.Index, states)
	case *ast.SelectorExpr:
		return x.expr(e.X, states)
	case *ast.StarExpr:
		return x.expr(e.X, states)
	}
	return states
}

func (x *Explorer) callParts(c *ast.CallExpr, states []*State) []*State {
	switch f := Unparen(c.Fun).(type) {
	case *ast.SelectorExpr:
		states = x.expr(f.X, states)
	case *ast.FuncLit:
		states = x.expr(f, states)
	case *ast.TypeAssertExpr, *ast.CallExpr, *ast.IndexExpr:
		// the callee is itself computed: v.Interface().(Func)(args), table[k](args), mk()(args)
		states = x.expr(f, states)
	}
	for _, a := range c.Args {
		states = x.expr(a, states)
	}
	return states
}

func (x *Explorer) expr(e ast.Expr, states []*State) []*State {
	if e == nil || len(states) == 0 {
		return states
	}
	switch e := e.(type) {
	case *ast.ParenExpr:
		return x.expr(e.X, states)
	case *ast.BinaryExpr:
		if e.Op == token.LAND || e.Op == token.LOR {
			states = x.expr(e.X, states)
			var out []*State
			for _, st := range states {
				// the outcome of the left operand is remembered for the rest of this block even when it is
				// not a pure expression (a call), so that the branch on the whole condition stays consistent
				// with which operands were evaluated
				tmp := fmt.Sprintf("@%d:%d", Unparen(e.X).Pos(), Unparen(e.X).End())
				skip := st.Clone() // right operand not evaluated
				if x.Assume(e.X, e.Op == token.LOR, skip) {
					skip.Facts[tmp] = e.Op == token.LOR
					out = append(out, skip)
				}
				if x.Assume(e.X, e.Op == token.LAND, st) {
					st.Facts[tmp] = e.Op == token.LAND
					out = append(out, x.expr(e.Y, []*State{st})...)
				}
			}
			return out
		}
		states = x.expr(e.X, states)
		return x.expr(e.Y, states)
	case *ast.CallExpr:
		states = x.callParts(e, states)
		pure := x.PureCall(e)
		for _, st := range states {
			if x.Hooks.Call != nil {
				x.Hooks.Call(x, e, st)
			}
			if !pure {
				x.killByCall(e, st)
			}
		}
		return states
	case *ast.FuncLit:
		for _, st := range states {
			if x.Hooks.Lit != nil {
				x.Hooks.Lit(x, e, st)
			}
		}
		return states
	case *ast.CompositeLit:
		for _, el := range e.Elts {
			if kv, ok := el.(*ast.KeyValueExpr); ok {
				if _, isIdent := kv.Key.(*ast.Ident); !isIdent {
					states = x.expr(kv.Key, states)
				}
				states = x.expr(kv.Value, states)
			} else {
				states = x.expr(el, states)
			}
		}
		return states
	case *ast.SelectorExpr:
		states = x.expr(e.X, states)
		x.use(e, states)
		return states
	case *ast.Ident:
		x.use(e, states)
		return states
	case *ast.IndexExpr:
		states = x.expr(e.X, states)
		return x.expr(e.Index, states)
	case *ast.SliceExpr:
		states = x.expr(e.X, states)
		states = x.expr(e.Low, states)
		states = x.expr(e.High, states)
		return x.expr(e.Max, states)
	case *ast.StarExpr:
		return x.expr(e.X, states)
	case *ast.UnaryExpr:
		states = x.expr(e.X, states)
		if e.Op == token.ARROW {
			for _, st := range states {
				x.killUnstable(st)
			}
		}
		return states
	case *ast.TypeAssertExpr:
		return x.expr(e.X, states)
	case *ast.KeyValueExpr:
		return x.expr(e.Value, states)
	}
	return states
}

func (x *Explorer) use(e ast.Expr, states []*State) {
	if x.Hooks.Use != nil {
		for _, st := range states {
			x.Hooks.Use(x, e, st)
		}
	}
}

func (x *Explorer) assign(lhs, rhs ast.Expr, stmt ast.Node, st *State) {
	if x.Hooks.PreAssign != nil {
		x.Hooks.PreAssign(x, lhs, rhs, stmt, st)
	}
	// a bool variable assigned an expression whose truth is known on this path takes that truth
	// (`ok := found` after a helper's `found = true`; evaluated before the facts about lhs die)
	rhsTruth := unknown
	if rhs != nil {
		if tv, ok := x.Fn.Info().Types[rhs]; ok && tv.Value == nil && tv.Type != nil {
			if bt, ok := tv.Type.Underlying().(*types.Basic); ok && bt.Info()&types.IsBoolean != 0 {
				if _, isId := Unparen(lhs).(*ast.Ident); isId {
					rhsTruth = x.Eval(rhs, st)
				}
			}
		}
	}
	x.kill(lhs, st)
	if rhsTruth != unknown {
		if id, ok := Unparen(lhs).(*ast.Ident); ok && id.Name != "_" {
			if k, ok := x.key(id); ok {
				x.meta(k, id)
				st.Facts[k] = rhsTruth == yes
			}
		}
	}
	// a bool variable or field assigned a constant becomes a fact
	if rhs != nil {
		target := Unparen(lhs)
		_, isId := target.(*ast.Ident)
		_, isSel := target.(*ast.SelectorExpr)
		if id, ok := target.(*ast.Ident); (isId && id.Name != "_") || (!ok && isSel) {
			if tv, ok := x.Fn.Info().Types[rhs]; ok && tv.Value != nil && tv.Value.Kind() == constant.Bool {
				if k, ok := x.key(target); ok {
					x.meta(k, target)
					st.Facts[k] = constant.BoolVal(tv.Value)
				}
			}
		}
	}
	// a local assigned an integer constant holds that constant until it is assigned again
	if rhs != nil {
		if id, ok := Unparen(lhs).(*ast.Ident); ok && id.Name != "_" {
			if v, ok := ObjOf(x.Fn.Info(), id).(*types.Var); ok && !v.IsField() && v.Pkg() != nil && v.Parent() != v.Pkg().Scope() && !x.unstable[v] {
				if tv, ok := x.Fn.Info().Types[rhs]; ok && tv.Value != nil && tv.Value.Kind() == constant.Int {
					if as, isAs := stmt.(*ast.AssignStmt); !isAs || as.Tok == token.ASSIGN || as.Tok == token.DEFINE {
						x.SetEq(id, tv.Value.ExactString(), st)
					}
				}
			}
		}
	}
	// x = nil: the variable is nil
	if rhs != nil {
		if tv, ok := x.Fn.Info().Types[rhs]; ok && tv.IsNil() {
			if lk, ok := x.key(Unparen(lhs)); ok {
				k := lk + " == nil"
				if "nil" < lk {
					k = "nil == " + lk
				}
				x.meta(k, lhs)
				st.Facts[k] = true
			}
		}
	}
	// a freshly made value is not nil
	if rhs != nil && x.freshValue(rhs) {
		probe := &ast.BinaryExpr{X: lhs, Op: token.EQL, Y: ast.NewIdent("nil")}
		if lk, ok := x.key(Unparen(lhs)); ok {
			k := lk + " == nil"
			if "nil" < lk {
				k = "nil == " + lk
			}
			x.meta(k, probe.X)
			st.Facts[k] = false
		}
	}
	x.copyFactsToParam(lhs, rhs, st)
	if x.Hooks.Assign != nil {
		x.Hooks.Assign(x, lhs, rhs, stmt, st)
	}
}

// copyFactsToParam: the binding `p := arg` of a spliced helper's parameter that is bound to different
// arguments at different call sites (so that it cannot be rendered as its argument): what is known about
// the argument at this moment holds for the parameter until it is assigned again.  Each fact that
// mentions the argument is duplicated with the parameter in its place.
func (x *Explorer) copyFactsToParam(lhs, rhs ast.Expr, st *State) {
	id, ok := Unparen(lhs).(*ast.Ident)
	if !ok || rhs == nil || x.sp == nil {
		return
	}
	v, ok := ObjOf(x.Fn.Info(), id).(*types.Var)
	if !ok || len(x.sp.binds[v]) < 2 || x.inlineDef(v) != nil {
		return
	}
	isBinding := false
	for _, a := range x.sp.binds[v] {
		if a == rhs {
			isBinding = true
		}
	}
	if !isBinding {
		return
	}
	lk, ok1 := x.key(Unparen(lhs))
	rk, ok2 := x.key(Unparen(rhs))
	if !ok1 || !ok2 || lk == rk || len(rk) < 2 {
		return
	}
	type add struct {
		k string
		v bool
		m *atomMeta
	}
	var adds []add
	for fk, fv := range st.Facts {
		if !strings.Contains(fk, rk) {
			continue
		}
		m := x.atoms[fk]
		if m == nil {
			continue
		}
		nk := strings.ReplaceAll(fk, rk, lk)
		if _, has := st.Facts[nk]; has {
			continue
		}
		nm := &atomMeta{mentions: map[string]bool{lk: true}, stable: m.stable, fields: m.fields, other: m.other, scopes: m.scopes}
		for d := range m.mentions {
			nm.mentions[d] = true
		}
		if sc := v.Parent(); sc != nil && sc.Pos().IsValid() {
			nm.scopes = append(append([][2]token.Pos{}, m.scopes...), [2]token.Pos{sc.Pos(), sc.End()})
		}
		adds = append(adds, add{nk, fv, nm})
	}
	for _, a := range adds {
		if _, known := x.atoms[a.k]; !known {
			x.atoms[a.k] = a.m
		}
		st.Facts[a.k] = a.v
	}
}

// freshValue: make(...), new(...), a composite literal or the address of one.
func (x *Explorer) freshValue(e ast.Expr) bool {
	switch v := Unparen(e).(type) {
	case *ast.CompositeLit:
		return true
	case *ast.UnaryExpr:
		if v.Op == token.AND {
			_, ok := Unparen(v.X).(*ast.CompositeLit)
			return ok
		}
	case *ast.CallExpr:
		n := CalleeName(x.Fn.Info(), v)
		return n == "builtin.make" || n == "builtin.new" || n == "fmt.Errorf" || n == "errors.New"
	}
	return false
}

func (x *Explorer) assignZero(lhs ast.Expr, stmt ast.Node, st *State) {
	if x.Hooks.PreAssign != nil {
		x.Hooks.PreAssign(x, lhs, nil, stmt, st)
	}
	x.kill(lhs, st)
	if id, ok := lhs.(*ast.Ident); ok {
		if o := ObjOf(x.Fn.Info(), id); o != nil {
			if bt, ok := o.Type().Underlying().(*types.Basic); ok && bt.Info()&types.IsBoolean != 0 {
				if k, ok := x.key(id); ok {
					x.meta(k, id)
					st.Facts[k] = false
				}
			}
		}
	}
	if x.Hooks.Assign != nil {
		x.Hooks.Assign(x, lhs, nil, stmt, st)
	}
}

// kill removes the facts that mention the assigned designator.
func (x *Explorer) kill(lhs ast.Expr, st *State) {
	if id, ok := Unparen(lhs).(*ast.Ident); ok {
		if o, ok := ObjOf(x.Fn.Info(), id).(*types.Var); ok && !o.IsField() && x.inlineDef(o) != nil {
			// a single-assignment local that facts render by its definition: defining it changes
			// nothing the facts are about
			return
		}
	}
	k, ok := x.key(Unparen(lhs))
	if !ok {
		// unknown target (e.g. *p = …): drop everything that is not purely local
		x.killUnstable(st)
		return
	}
	for f := range st.Facts {
		if m := x.atoms[f]; m != nil && m.mentions[k] {
			delete(st.Facts, f)
		}
	}
	for r := range st.Regs {
		if strings.HasPrefix(r, "eq:") {
			if m := x.atoms[r]; m != nil && m.mentions[k] {
				delete(st.Regs, r)
			}
		}
	}
}

// prune drops the facts about variables whose lexical scope does not contain pos (they can never
// be consulted again before being re-established); this keeps loops over big switches finite and small.
func (x *Explorer) prune(st *State, b *cfg.Block) {
	frame := x.sp.frame[b]
	if frame == nil {
		frame = x.Fn
	}
	// the position that stands for "where execution is": the first node that belongs to the frame's
	// own source (spliced bindings mix caller and callee positions)
	lo, hi := fnExtent(frame)
	pos := token.NoPos
	for _, n := range b.Nodes {
		if p := n.Pos(); p.IsValid() && lo <= p && p < hi {
			pos = p
			break
		}
	}
	if !pos.IsValid() {
		return
	}
	inner := frame != x.Fn
	dead := func(k string) bool {
		m := x.atoms[k]
		if m == nil {
			return false
		}
		for _, sc := range m.scopes {
			if inner && (sc[0] < lo || sc[1] > hi) {
				continue // a variable of a caller further up the spliced stack: still live
			}
			if pos < sc[0] || pos >= sc[1] {
				return true
			}
		}
		return false
	}
	for f := range st.Facts {
		if dead(f) {
			delete(st.Facts, f)
		}
	}
	for r := range st.Regs {
		if strings.HasPrefix(r, "eq:") && dead(r) {
			delete(st.Regs, r)
		}
	}
}

func fnExtent(f *Fn) (token.Pos, token.Pos) {
	if f.Decl != nil {
		return f.Decl.Pos(), f.Decl.End()
	}
	if f.Lit != nil {
		return f.Lit.Pos(), f.Lit.End()
	}
	return f.Body.Pos(), f.Body.End()
}

// defsOf lists the definitions of local o in the function that declares it, including the
// synthetic parameter bindings of spliced helpers.
func (x *Explorer) defsOf(o *types.Var) (defs []ast.Expr, isParam bool) {
	owner := x.sp.ownerOf(o.Pos())
	if owner == nil {
		owner = x.Fn
	}
	if owner == x.Fn || owner.Root() == x.Fn.Root() {
		defs = LocalDefs(x.Fn.Root(), o)
		_, isParam = IsParam(x.Fn.Root(), o)
		if !isParam {
			_, isParam = IsParam(x.Fn, o)
		}
		return defs, isParam
	}
	defs = append(LocalDefs(owner, o), x.sp.binds[o]...)
	return defs, false
}

// killByCall drops the facts an impure call may invalidate: all call-unstable facts when the callee's
// write summary is unknown, otherwise those that mention a field or package variable the callee
// (transitively) may assign.
func (x *Explorer) killByCall(c *ast.CallExpr, st *State) {
	ws := x.P.CallWrites(x.Fn.Info(), c)
	if ws.Any {
		x.killUnstable(st)
		return
	}
	hit := func(m *atomMeta) bool {
		if m == nil || m.other {
			return true
		}
		if m.stable {
			return false
		}
		if len(m.fields) == 0 {
			return true
		}
		for k := range m.fields {
			if ws.Fields[k] {
				return true
			}
		}
		return false
	}
	for f := range st.Facts {
		if hit(x.atoms[f]) {
			delete(st.Facts, f)
		}
	}
	for r := range st.Regs {
		if strings.HasPrefix(r, "eq:") && hit(x.atoms[r]) {
			delete(st.Regs, r)
		}
	}
}

func (x *Explorer) killUnstable(st *State) {
	for f := range st.Facts {
		if m := x.atoms[f]; m == nil || !m.stable {
			delete(st.Facts, f)
		}
	}
	for r := range st.Regs {
		if strings.HasPrefix(r, "eq:") {
			if m := x.atoms[r]; m == nil || !m.stable {
				delete(st.Regs, r)
			}
		}
	}
}

// ------------------------------------------------------------------ facts

type tri int

const (
	unknown tri = iota
	yes
	no
)

func neg(t tri) tri {
	switch t {
	case yes:
		return no
	case no:
		return yes
	}
	return unknown
}

func fromBool(b bool) tri {
	if b {
		return yes
	}
	return no
}

// atom normalises a boolean leaf: returns (key, negated, ok). ok=false when e is not pure.
func (x *Explorer) atom(e ast.Expr) (string, bool, bool) {
	e = Unparen(e)
	info := x.Fn.Info()
	if b, ok := e.(*ast.BinaryExpr); ok {
		L, R := Unparen(b.X), Unparen(b.Y)
		// x == true / x == false
		for _, pr := range [][2]ast.Expr{{L, R}, {R, L}} {
			if tv, ok := info.Types[pr[1]]; ok && tv.Value != nil && tv.Value.Kind() == constant.Bool && (b.Op == token.EQL || b.Op == token.NEQ) {
				k, n, ok := x.atom(pr[0])
				if !ok {
					return "", false, false
				}
				want := constant.BoolVal(tv.Value)
				if b.Op == token.NEQ {
					want = !want
				}
				return k, n != !want, true
			}
		}
		lk, lok := x.key(L)
		rk, rok := x.key(R)
		if !lok || !rok {
			return "", false, false
		}
		var k string
		negated := false
		switch b.Op {
		case token.EQL, token.NEQ:
			if lk > rk {
				lk, rk = rk, lk
			}
			k = lk + " == " + rk
			negated = b.Op == token.NEQ
		case token.LSS:
			k = lk + " < " + rk
		case token.GTR:
			k = rk + " < " + lk
		case token.GEQ:
			k, negated = lk+" < "+rk, true
		case token.LEQ:
			k, negated = rk+" < "+lk, true
		default:
			kk, ok := x.key(e)
			if !ok {
				return "", false, false
			}
			k = kk
		}
		x.meta(k, e)
		return k, negated, true
	}
	k, ok := x.key(e)
	if !ok {
		return "", false, false
	}
	x.meta(k, e)
	return k, false, true
}

// constEq handles "X == const": returns (eqRegister, constant text, negated, ok).
func (x *Explorer) constEq(e ast.Expr) (string, string, bool, bool) {
	b, ok := Unparen(e).(*ast.BinaryExpr)
	if !ok || (b.Op != token.EQL && b.Op != token.NEQ) {
		return "", "", false, false
	}
	info := x.Fn.Info()
	L, R := Unparen(b.X), Unparen(b.Y)
	if tv, ok := info.Types[L]; ok && tv.Value != nil {
		L, R = R, L
	}
	tv, ok := info.Types[R]
	if !ok || tv.Value == nil || tv.Value.Kind() == constant.Bool {
		return "", "", false, false
	}
	if ltv, ok := info.Types[L]; ok && ltv.Value != nil {
		return "", "", false, false
	}
	lk, ok := x.key(L)
	if !ok {
		return "", "", false, false
	}
	reg := "eq:" + lk
	x.meta(reg, L)
	return reg, tv.Value.ExactString(), b.Op == token.NEQ, true
}

// constOrder decides `v < c`, `v >= c`, … for a variable known to hold an integer constant.
func (x *Explorer) constOrder(b *ast.BinaryExpr, st *State) tri {
	switch b.Op {
	case token.LSS, token.LEQ, token.GTR, token.GEQ:
	default:
		return unknown
	}
	info := x.Fn.Info()
	val := func(e ast.Expr) (int64, bool) {
		e = Unparen(e)
		if tv, ok := info.Types[e]; ok && tv.Value != nil && tv.Value.Kind() == constant.Int {
			return constant.Int64Val(tv.Value)
		}
		if bl, ok := e.(*ast.BasicLit); ok && bl.Kind == token.INT { // (a probe built by a rule)
			if n, err := strconv.ParseInt(bl.Value, 10, 64); err == nil {
				return n, true
			}
		}
		if k, ok := x.key(e); ok {
			if cur, has := st.Regs["eq:"+k]; has {
				if n, err := strconv.ParseInt(cur, 10, 64); err == nil {
					return n, true
				}
			}
		}
		return 0, false
	}
	l, ok1 := val(b.X)
	r, ok2 := val(b.Y)
	if !ok1 || !ok2 {
		return unknown
	}
	switch b.Op {
	case token.LSS:
		return fromBool(l < r)
	case token.LEQ:
		return fromBool(l <= r)
	case token.GTR:
		return fromBool(l > r)
	default:
		return fromBool(l >= r)
	}
}

// Eval evaluates a condition under the facts of st.
func (x *Explorer) Eval(e ast.Expr, st *State) tri {
	e = Unparen(e)
	if v, ok := st.Facts[fmt.Sprintf("@%d:%d", e.Pos(), e.End())]; ok && e.Pos().IsValid() {
		return fromBool(v)
	}
	if tv, ok := x.Fn.Info().Types[e]; ok && tv.Value != nil && tv.Value.Kind() == constant.Bool {
		return fromBool(constant.BoolVal(tv.Value))
	}
	switch b := e.(type) {
	case *ast.Ident:
		// a bool local that only ever holds one immutable expression *is* that expression: a test of the
		// local and a test of the expression are the same atom
		if d := x.boolDef(b); d != nil {
			return x.Eval(d, st)
		}
	case *ast.UnaryExpr:
		if b.Op == token.NOT {
			return neg(x.Eval(b.X, st))
		}
	case *ast.BinaryExpr:
		switch b.Op {
		case token.LAND:
			l, r := x.Eval(b.X, st), x.Eval(b.Y, st)
			if l == no || r == no {
				return no
			}
			if l == yes && r == yes {
				return yes
			}
			return x.composite(e, st)
		case token.LOR:
			l, r := x.Eval(b.X, st), x.Eval(b.Y, st)
			if l == yes || r == yes {
				return yes
			}
			if l == no && r == no {
				return no
			}
			return x.composite(e, st)
		}
		if reg, c, negated, ok := x.constEq(e); ok {
			if cur, has := st.Regs[reg]; has {
				t := fromBool(cur == c)
				if negated {
					t = neg(t)
				}
				return t
			}
		}
		if t := x.constOrder(b, st); t != unknown {
			return t
		}
	}
	k, negated, ok := x.atom(e)
	if !ok {
		return unknown
	}
	v, has := st.Facts[k]
	if !has {
		return x.unitPropagate(k, negated, st)
	}
	if negated {
		v = !v
	}
	return fromBool(v)
}

// unitPropagate decides the atom k from a composite fact one side of which it is: (A && B) known false
// and A known true gives B false; (A || B) known true and A known false gives B true.
func (x *Explorer) unitPropagate(k string, negated bool, st *State) tri {
	if x.inUnit {
		return unknown
	}
	x.inUnit = true
	defer func() { x.inUnit = false }()
	for fk, fv := range st.Facts {
		m := x.atoms[fk]
		if m == nil || m.expr == nil {
			continue
		}
		b, ok := Unparen(m.expr).(*ast.BinaryExpr)
		if !ok || !((b.Op == token.LAND && !fv) || (b.Op == token.LOR && fv)) {
			continue
		}
		for _, pr := range [][2]ast.Expr{{b.X, b.Y}, {b.Y, b.X}} {
			sk, sneg, ok := x.atom(pr[0])
			if !ok || sk != k {
				continue
			}
			o := x.Eval(pr[1], st)
			var side tri // value of pr[0]
			switch {
			case b.Op == token.LAND && o == yes:
				side = no
			case b.Op == token.LOR && o == no:
				side = yes
			default:
				continue
			}
			if sneg != negated {
				side = neg(side)
			}
			return side
		}
	}
	return unknown
}

// Assume records that e evaluates to val; it returns false when that contradicts st.
func (x *Explorer) Assume(e ast.Expr, val bool, st *State) bool {
	switch x.Eval(e, st) {
	case yes:
		return val
	case no:
		return !val
	}
	e = Unparen(e)
	switch b := e.(type) {
	case *ast.Ident:
		if d := x.boolDef(b); d != nil {
			return x.Assume(d, val, st)
		}
	case *ast.UnaryExpr:
		if b.Op == token.NOT {
			return x.Assume(b.X, !val, st)
		}
	case *ast.BinaryExpr:
		switch b.Op {
		case token.LAND, token.LOR:
			and := b.Op == token.LAND
			if val == and { // (A && B) true, or (A || B) false: both operands determined
				return x.Assume(b.X, val, st) && x.Assume(b.Y, val, st)
			}
			l, r := x.Eval(b.X, st), x.Eval(b.Y, st)
			if l == fromBool(and) { // A true in A&&B false → B false; A false in A||B true → B true
				return x.Assume(b.Y, val, st)
			}
			if r == fromBool(and) {
				return x.Assume(b.X, val, st)
			}
			// composite fact
			if k, ok := x.key(e); ok {
				x.meta(k, e)
				st.Facts[k] = val
			}
			return true
		}
		if reg, c, negated, ok := x.constEq(e); ok {
			if val != negated { // X == c holds
				st.Regs[reg] = c
			}
			// fall through to also record the atom
		}
	}
	k, negated, ok := x.atom(e)
	if !ok {
		return true
	}
	st.Facts[k] = val != negated
	return true
}

// meta registers the designators an atom mentions and whether it survives impure calls.
func (x *Explorer) meta(k string, e ast.Expr) {
	if _, ok := x.atoms[k]; ok {
		return
	}
	m := &atomMeta{mentions: map[string]bool{}, stable: true, fields: map[string]bool{}, expr: e}
	info := x.Fn.Info()
	var walk func(e ast.Expr)
	walk = func(e ast.Expr) {
		switch e := e.(type) {
		case *ast.Ident:
			if v, ok := ObjOf(info, e).(*types.Var); ok && v.Pkg() != nil && v.Parent() != v.Pkg().Scope() && !v.IsField() {
				if def := x.inlineDef(v); def != nil {
					walk(def) // the key renders the definition, so the fact is about the definition's operands
					return
				}
			}
			if kk, ok := x.key(e); ok {
				m.mentions[kk] = true
			}
			switch o := ObjOf(info, e).(type) {
			case *types.Var:
				if o.Pkg() != nil && o.Parent() == o.Pkg().Scope() {
					m.stable = false // package-level variable
					m.fields["var:"+o.Name()] = true
				}
				if x.unstable[o] {
					m.stable = false
					m.other = true
				}
				if sc := o.Parent(); sc != nil && o.Pkg() != nil && sc != o.Pkg().Scope() && sc.Pos().IsValid() {
					m.scopes = append(m.scopes, [2]token.Pos{sc.Pos(), sc.End()})
				}
			}
		case *ast.SelectorExpr:
			if kk, ok := x.key(e); ok {
				m.mentions[kk] = true
			}
			if fv := FieldOf(info, e); fv != nil {
				if !x.P.StableField(info, e) {
					// a field of a local struct *value* (e.g. a reflect.StructField copy) cannot be changed by a callee
					if tv, ok := info.Types[e.X]; !ok || tv.Type == nil {
						m.stable = false
						m.other = true
					} else if _, isStruct := tv.Type.Underlying().(*types.Struct); !isStruct {
						m.stable = false
						m.fields[x.P.FieldKey(info, e)] = true
					}
				}
			}
			walk(e.X)
		case *ast.ParenExpr:
			walk(e.X)
		case *ast.UnaryExpr:
			walk(e.X)
		case *ast.StarExpr:
			m.stable = false
			m.other = true
			walk(e.X)
		case *ast.BinaryExpr:
			walk(e.X)
			walk(e.Y)
		case *ast.IndexExpr:
			if kk, ok := x.key(e); ok {
				m.mentions[kk] = true
			}
			// element of a slice/map: stable only if the container is
			walk(e.X)
			walk(e.Index)
		case *ast.CallExpr:
			if s, ok := Unparen(e.Fun).(*ast.SelectorExpr); ok {
				walk(s.X)
			}
			for _, a := range e.Args {
				walk(a)
			}
		case *ast.TypeAssertExpr:
			walk(e.X)
		case *ast.SliceExpr:
			walk(e.X)
			if e.Low != nil {
				walk(e.Low)
			}
			if e.High != nil {
				walk(e.High)
			}
			if e.Max != nil {
				walk(e.Max)
			}
		}
	}
	walk(e)
	x.atoms[k] = m
}

// StableField: the selected field belongs to a type that is immutable while templates execute
// (AST nodes, Template, Set, Arguments, lexer items) — the assumption is discharged by C10.ast / C11.frozen.
func (p *Prog) StableField(info *types.Info, sel *ast.SelectorExpr) bool {
	s, ok := info.Selections[sel]
	if !ok || s.Kind() != types.FieldVal {
		return false
	}
	recv := NamedOf(s.Recv())
	if recv == nil {
		return false
	}
	return p.StableType(recv)
}

func (p *Prog) StableType(n *types.Named) bool {
	if n.Obj().Pkg() == nil || n.Obj().Pkg().Path() != JetPath {
		return false
	}
	switch n.Obj().Name() {
	case "Template", "Set", "Arguments", "CallArgs", "BlockParameter", "BlockParameterList", "item", "NodeBase", "BranchNode", "binaryExprNode":
		return true
	}
	if iface := p.Iface("", "Node"); iface != nil && ImplementsIface(n, iface) {
		return true
	}
	return false
}

// key renders a pure expression with local identifiers disambiguated by declaration position.
func (x *Explorer) key(e ast.Expr) (string, bool) {
	var sb strings.Builder
	ok := x.render(&sb, e)
	return sb.String(), ok
}

func (x *Explorer) render(sb *strings.Builder, e ast.Expr) bool {
	info := x.Fn.Info()
	switch e := e.(type) {
	case *ast.Ident:
		if o, ok := ObjOf(info, e).(*types.Var); ok && o.Pkg() != nil && o.Parent() != o.Pkg().Scope() && !o.IsField() {
			// a single-assignment local bound to an expression whose value cannot change is rendered as
			// that expression: `typ := n.Type(); if typ != X {fail}` then establishes a fact about n.Type()
			if def := x.inlineDef(o); def != nil {
				return x.render(sb, def)
			}
			sb.WriteString(RoleName(e))
			fmt.Fprintf(sb, "·%d", int(o.Pos()-x.Fn.Pos()))
			return true
		}
		sb.WriteString(RoleName(e))
		return true
	case *ast.BasicLit:
		sb.WriteString(e.Value)
		return true
	case *ast.ParenExpr:
		return x.render(sb, e.X)
	case *ast.SelectorExpr:
		if !x.render(sb, e.X) {
			return false
		}
		sb.WriteString("." + e.Sel.Name)
		return true
	case *ast.StarExpr:
		sb.WriteString("*")
		return x.render(sb, e.X)
	case *ast.UnaryExpr:
		if e.Op == token.ARROW {
			return false
		}
		sb.WriteString(e.Op.String())
		return x.render(sb, e.X)
	case *ast.BinaryExpr:
		sb.WriteString("(")
		if !x.render(sb, e.X) {
			return false
		}
		sb.WriteString(" " + e.Op.String() + " ")
		if !x.render(sb, e.Y) {
			return false
		}
		sb.WriteString(")")
		return true
	case *ast.IndexExpr:
		if !x.render(sb, e.X) {
			return false
		}
		sb.WriteString("[")
		if !x.render(sb, e.Index) {
			return false
		}
		sb.WriteString("]")
		return true
	case *ast.TypeAssertExpr:
		if !x.render(sb, e.X) {
			return false
		}
		sb.WriteString(".(" + Str(e.Type) + ")")
		return true
	case *ast.SliceExpr:
		if !x.render(sb, e.X) {
			return false
		}
		sb.WriteString("[")
		for i, part := range []ast.Expr{e.Low, e.High, e.Max} {
			if i > 0 && (i == 1 || e.Slice3) {
				sb.WriteString(":")
			}
			if part != nil && !x.render(sb, part) {
				return false
			}
		}
		sb.WriteString("]")
		return true
	case *ast.CallExpr:
		if !x.PureCall(e) {
			return false
		}
		if tv, ok := info.Types[Unparen(e.Fun)]; ok && tv.IsType() {
			sb.WriteString(Str(e.Fun))
		} else if s, ok := Unparen(e.Fun).(*ast.SelectorExpr); ok {
			if _, isPkg := info.Uses[RootIdent(s)].(*types.PkgName); isPkg && RootIdent(s) == s.X {
				sb.WriteString(Str(s))
			} else {
				if !x.render(sb, s.X) {
					return false
				}
				sb.WriteString("." + s.Sel.Name)
			}
		} else {
			sb.WriteString(Str(e.Fun))
		}
		sb.WriteString("(")
		for i, a := range e.Args {
			if i > 0 {
				sb.WriteString(", ")
			}
			if !x.render(sb, a) {
				return false
			}
		}
		sb.WriteString(")")
		return true
	}
	return false
}

// inlineDef returns the defining expression of a local that is assigned exactly once, when that
// expression is immutable: built from never-reassigned locals/parameters, fields of the
// parse-time-immutable types, constants and pure calls.
func (x *Explorer) inlineDef(o *types.Var) ast.Expr {
	if x.inl == nil {
		x.inl = map[*types.Var]ast.Expr{}
		x.inlBusy = map[*types.Var]bool{}
	}
	if d, ok := x.inl[o]; ok {
		return d
	}
	if x.inlBusy[o] {
		return nil
	}
	x.inlBusy[o] = true
	defer delete(x.inlBusy, o)
	var res ast.Expr
	if !x.unstable[o] && !x.isResult(o) {
		defs, isParam := x.inlDefs(o)
		if len(defs) > 1 && !isParam {
			// a helper parameter bound at several splice sites to the same immutable expression
			same := true
			var k0 string
			for i, d := range defs {
				if d == nil || !x.immutable(d, 0) {
					same = false
					break
				}
				k, ok := x.key(d)
				if !ok || (i > 0 && k != k0) {
					same = false
					break
				}
				k0 = k
			}
			if same {
				defs = defs[:1]
			}
		}
		if len(defs) == 1 && defs[0] != nil {
			// constants are not inlined: `done = true` must stay a fact about `done`
			if tv, ok := x.Fn.Info().Types[defs[0]]; !(ok && tv.Value != nil) {
				if !isParam && x.immutable(defs[0], 0) {
					res = defs[0]
				}
			}
		}
	}
	x.inl[o] = res
	return res
}

// boolDef: the single immutable, non-constant expression a bool local stands for (nil otherwise).
func (x *Explorer) boolDef(id *ast.Ident) ast.Expr {
	v, ok := ObjOf(x.Fn.Info(), id).(*types.Var)
	if !ok || v.IsField() || v.Pkg() == nil || v.Parent() == v.Pkg().Scope() {
		return nil
	}
	if bt, ok := v.Type().Underlying().(*types.Basic); !ok || bt.Info()&types.IsBoolean == 0 {
		return nil
	}
	d := x.inlineDef(v)
	if d == nil {
		return nil
	}
	if _, isId := Unparen(d).(*ast.Ident); isId {
		return d
	}
	switch Unparen(d).(type) {
	case *ast.BinaryExpr, *ast.UnaryExpr, *ast.CallExpr, *ast.SelectorExpr:
		return d
	}
	return nil
}

// inlDefs: the definitions inlineDef considers (those in the explored function itself; for a local of
// a spliced helper, those in the helper plus its parameter bindings).
func (x *Explorer) inlDefs(o *types.Var) ([]ast.Expr, bool) {
	owner := x.sp.ownerOf(o.Pos())
	if owner == nil || owner == x.Fn || owner.Root() == x.Fn.Root() {
		_, isParam := IsParam(x.Fn, o)
		return LocalDefs(x.Fn, o), isParam
	}
	return append(LocalDefs(owner, o), x.sp.binds[o]...), false
}

// isResult: o is a named result of the function (it has an implicit zero-value definition)
func (x *Explorer) isResult(o *types.Var) bool {
	if x.sp.results[o] {
		return true
	}
	if x.Fn.Sig == nil {
		return false
	}
	for i := 0; i < x.Fn.Sig.Results().Len(); i++ {
		if x.Fn.Sig.Results().At(i) == o {
			return true
		}
	}
	return false
}

func (x *Explorer) immutable(e ast.Expr, depth int) bool {
	if depth > 8 {
		return false
	}
	info := x.Fn.Info()
	switch e := e.(type) {
	case *ast.BasicLit:
		return true
	case *ast.ParenExpr:
		return x.immutable(e.X, depth+1)
	case *ast.Ident:
		if tv, ok := info.Types[e]; ok && tv.Value != nil {
			return true
		}
		switch o := ObjOf(info, e).(type) {
		case *types.Const, *types.Nil:
			return true
		case *types.Var:
			if o.Pkg() != nil && !o.IsField() && o.Parent() == o.Pkg().Scope() {
				// a package-level variable that only its declaration gives a value (and that is of a type no
				// method call can change in place: a reflect.Type, a basic value)
				return x.P.ConstGlobal(o) && constKind(o.Type())
			}
			if o.IsField() || o.Pkg() == nil || x.unstable[o] {
				return false
			}
			defs, isParam := x.defsOf(o)
			n := len(defs)
			return (isParam && n == 0) || (!isParam && n == 1)
		}
		return false
	case *ast.SelectorExpr:
		if id, ok := e.X.(*ast.Ident); ok {
			if _, isPkg := info.Uses[id].(*types.PkgName); isPkg {
				_, isConst := info.Uses[e.Sel].(*types.Const)
				return isConst
			}
		}
		if FieldOf(info, e) == nil || !x.P.StableField(info, e) {
			return false
		}
		return x.immutable(e.X, depth+1)
	case *ast.CallExpr:
		if !x.PureCall(e) {
			return false
		}
		if s, ok := Unparen(e.Fun).(*ast.SelectorExpr); ok {
			if id, isId := s.X.(*ast.Ident); !isId || func() bool { _, isPkg := info.Uses[id].(*types.PkgName); return !isPkg }() {
				if !x.immutable(s.X, depth+1) {
					return false
				}
			}
		}
		for _, a := range e.Args {
			if !x.immutable(a, depth+1) {
				return false
			}
		}
		return true
	case *ast.BinaryExpr:
		return x.immutable(e.X, depth+1) && x.immutable(e.Y, depth+1)
	case *ast.UnaryExpr:
		return e.Op != token.ARROW && e.Op != token.AND && x.immutable(e.X, depth+1)
	case *ast.TypeAssertExpr:
		return x.immutable(e.X, depth+1)
	}
	return false
}

// PureCall reports whether a call neither modifies state nor depends on state that calls may change
// in a way facts do not track.
func (x *Explorer) PureCall(c *ast.CallExpr) bool { return x.P.PureCall(x.Fn.Info(), c) }

var purePrefixes = []string{"strings.", "path.", "filepath.", "utf8.", "unicode.", "strconv.Quote", "builtin.len", "builtin.cap", "conv:",
	"(reflect.Value).Is", "(reflect.Value).Kind", "(reflect.Value).Type", "(reflect.Value).Len", "(reflect.Value).Can", "(reflect.Value).NumField",
	"(reflect.Type).", "(*reflect.rtype).", "(fs.FileInfo).", "(os.FileInfo).", "reflect.TypeOf", "reflect.ValueOf", "errors.New", "fmt.Sprintf", "fmt.Errorf", "fmt.Sprint",
	"builtin.min", "builtin.max", "builtin.real", "builtin.imag", "builtin.complex",
	// readers of a reflect.Value and parsers: no effect on any state (they may panic, which ends the path)
	"(reflect.Value).Int", "(reflect.Value).Uint", "(reflect.Value).Float", "(reflect.Value).String", "(reflect.Value).Bool", "strconv.Parse", "builtin.panic"}

func (p *Prog) PureCall(info *types.Info, c *ast.CallExpr) bool {
	name := CalleeName(info, c)
	for _, pre := range purePrefixes {
		if strings.HasPrefix(name, pre) {
			return true
		}
	}
	if callee := Callee(info, c); callee != nil {
		if fn := p.FnByObj[callee]; fn != nil {
			return p.PureFn(fn)
		}
		// interface method: pure if all module implementations are
		if sig, _ := callee.Type().(*types.Signature); sig != nil && sig.Recv() != nil {
			if _, isIface := sig.Recv().Type().Underlying().(*types.Interface); isIface {
				impls := p.Implementations(callee)
				if len(impls) == 0 {
					return false
				}
				for _, im := range impls {
					if !p.PureFn(im) {
						return false
					}
				}
				return true
			}
		}
	}
	return false
}

// PureFn: a module function that assigns only its own locals, has no defer/go/send/receive and
// calls only pure functions.
func (p *Prog) PureFn(f *Fn) bool {
	if p.pure == nil {
		p.pure = map[*Fn]int{}
	}
	switch p.pure[f] {
	case 2:
		return true
	case 3:
		return false
	case 1:
		return true // optimistic on recursion
	}
	p.pure[f] = 1
	pure := true
	info := f.Info()
	ast.Inspect(f.Body, func(n ast.Node) bool {
		if !pure {
			return false
		}
		switch s := n.(type) {
		case *ast.FuncLit, *ast.DeferStmt, *ast.GoStmt, *ast.SendStmt:
			pure = false
		case *ast.UnaryExpr:
			if s.Op == token.ARROW {
				pure = false
			}
		case *ast.CallExpr:
			if !p.PureCall(info, s) {
				pure = false
			}
		default:
			Assigns(n, func(lhs, _ ast.Expr, _ token.Token) {
				id, ok := Unparen(lhs).(*ast.Ident)
				if !ok {
					pure = false
					return
				}
				if v, ok := ObjOf(info, id).(*types.Var); ok && v.Pkg() != nil && v.Parent() == v.Pkg().Scope() {
					pure = false
				}
			})
		}
		return pure
	})
	if pure {
		p.pure[f] = 2
	} else {
		p.pure[f] = 3
	}
	return pure
}

// Truth is Eval for rule code: known=false when the facts of st do not determine e.
func (x *Explorer) Truth(e ast.Expr, st *State) (val, known bool) {
	switch x.Eval(e, st) {
	case yes:
		return true, true
	case no:
		return false, true
	}
	return false, false
}

// SetEq records in st that pure expression e currently equals the constant with the given exact
// string (constant.Value.ExactString form); it reports false when e cannot be rendered.
func (x *Explorer) SetEq(e ast.Expr, exact string, st *State) bool {
	k, ok := x.key(Unparen(e))
	if !ok {
		return false
	}
	reg := "eq:" + k
	x.meta(reg, e)
	st.Regs[reg] = exact
	return true
}

// Key renders a pure expression the way fact keys do (exported for rules that match facts by operand).
func (x *Explorer) Key(e ast.Expr) (string, bool) { return x.key(Unparen(e)) }

// composite looks up the fact recorded for a whole && / || expression whose operands are not known
// individually (Assume stores it under the rendering of the expression).
func (x *Explorer) composite(e ast.Expr, st *State) tri {
	if k, ok := x.key(e); ok {
		if v, has := st.Facts[k]; has {
			return fromBool(v)
		}
	}
	return unknown
}

// constKind: values of the type cannot be changed through the variable without assigning to it (basic types,
// reflect.Type and other interface values holding immutable descriptors are the cases that occur; maps, slices,
// pointers and structs are left out).
func constKind(t types.Type) bool {
	switch u := t.Underlying().(type) {
	case *types.Basic:
		return true
	case *types.Interface:
		if n := NamedOf(t); n != nil && n.Obj().Pkg() != nil && n.Obj().Pkg().Path() == "reflect" && n.Obj().Name() == "Type" {
			return true
		}
		_ = u
	}
	return false
}
