package an

import (
	"go/ast"
	"go/token"
	"go/types"
)

// Fresh decides whether expression e, evaluated at statement `at` of fn, denotes storage (a slice's
// backing array, a map) that nothing else can reach: the result of make/new, a composite literal, a
// conversion from a string, nil, a clone helper, an append that must allocate (onto nil, onto a fresh
// value, or onto a full slice expression x[:n:n] with at least one element appended), or a local all of
// whose definitions are fresh and lie inside the innermost loop enclosing `at` (a value allocated once
// outside the loop and stored on every iteration is shared between the iterations).  The second result
// names the reason when the answer is no.
func (p *Prog) Fresh(fn *Fn, e ast.Expr, at ast.Node) (bool, string) {
	if owner := ctxFn(fn, at.Pos()); owner != nil {
		fn = owner // a store inside a new helper reached from fn is judged in the helper
	}
	return p.fresh(fn, e, at, 0)
}

func (p *Prog) fresh(fn *Fn, e ast.Expr, at ast.Node, depth int) (bool, string) {
	if depth > 6 {
		return false, "definition chain too deep"
	}
	info := fn.Info()
	e = Unparen(e)
	if tv, ok := info.Types[e]; ok && tv.IsNil() {
		return true, ""
	}
	switch v := e.(type) {
	case *ast.CompositeLit:
		return true, ""
	case *ast.UnaryExpr:
		if v.Op == token.AND {
			if _, ok := Unparen(v.X).(*ast.CompositeLit); ok {
				return true, ""
			}
		}
	case *ast.CallExpr:
		name := CalleeName(info, v)
		switch name {
		case "builtin.make", "builtin.new", "bytes.Clone", "slices.Clone", "maps.Clone", "strings.Clone":
			return true, ""
		case "builtin.append":
			if len(v.Args) == 0 {
				return false, "append without arguments"
			}
			base := Unparen(v.Args[0])
			if se, ok := base.(*ast.SliceExpr); ok && se.Slice3 && se.Max != nil && se.High != nil && Str(se.Max) == Str(se.High) && len(v.Args) > 1 && !v.Ellipsis.IsValid() {
				return true, "" // len == cap: appending an element always reallocates
			}
			if ok, _ := p.fresh(fn, base, at, depth+1); ok {
				return true, ""
			}
			return false, "append(" + Str(base) + ", …) may write into and return the backing array of " + Str(base)
		}
		// conversion from a string (or of a fresh value)
		if tv, ok := info.Types[v.Fun]; ok && tv.IsType() && len(v.Args) == 1 {
			if argT, ok := info.Types[v.Args[0]]; ok {
				if b, ok := argT.Type.Underlying().(*types.Basic); ok && b.Info()&types.IsString != 0 {
					if _, isSlice := tv.Type.Underlying().(*types.Slice); isSlice {
						return true, ""
					}
				}
			}
			return p.fresh(fn, v.Args[0], at, depth+1)
		}
		return false, "the result of " + Str(v.Fun) + "(…) is not known to be a fresh allocation"
	case *ast.Ident:
		o, _ := ObjOf(info, v).(*types.Var)
		if o == nil {
			return false, Str(v) + " is not a variable"
		}
		if _, isParam := IsParam(fn, o); isParam || o.Parent() == nil || o.Pkg() == nil || o.Parent() == o.Pkg().Scope() || o.IsField() {
			return false, Str(v) + " is a parameter or package-level variable: its storage belongs to someone else"
		}
		if o.Pos() < fn.Body.Pos() || o.Pos() > fn.Body.End() {
			return false, Str(v) + " is captured from an enclosing function"
		}
		// innermost loop enclosing the use
		var loop ast.Node
		for _, s := range EnclosingStmts(fn, at) {
			switch s.(type) {
			case *ast.ForStmt, *ast.RangeStmt:
				loop = s
			}
		}
		// a definition in the same block, straight-line before the use and not overwritten in between,
		// is the only one that reaches it
		if def, n, ok := reachingDefInBlock(fn, o, at); ok {
			if loop != nil && (n.Pos() < loop.Pos() || n.End() > loop.End()) {
				return false, Str(v) + " is allocated outside the loop that stores it: all iterations share one object"
			}
			if def == nil {
				return true, "" // zero value
			}
			return p.fresh(fn, def, n, depth+1)
		}
		ndefs := 0
		bad := ""
		ast.Inspect(fn.Body, func(n ast.Node) bool {
			if bad != "" {
				return false
			}
			Assigns(n, func(lhs, rhs ast.Expr, tok token.Token) {
				id, ok := Unparen(lhs).(*ast.Ident)
				if !ok || ObjOf(info, id) != o || bad != "" {
					return
				}
				ndefs++
				if loop != nil && (n.Pos() < loop.Pos() || n.End() > loop.End()) {
					bad = Str(v) + " is allocated outside the loop that stores it: all iterations share one object"
					return
				}
				if rhs == nil {
					if tok == token.VAR {
						return // zero value
					}
					bad = Str(v) + " is defined by a multi-value assignment"
					return
				}
				if ok, why := p.fresh(fn, rhs, n, depth+1); !ok {
					bad = why
				}
			})
			return true
		})
		if bad != "" {
			return false, bad
		}
		if ndefs == 0 {
			return false, "no definition of " + Str(v) + " found"
		}
		return true, ""
	}
	return false, Str(e) + " is an existing object, not a fresh allocation"
}

// reachingDefInBlock looks, in the innermost block enclosing `at`, for the last top-level statement
// before `at` that assigns a single expression (or the zero value) to o, with no assignment to o in any
// statement between it and `at`.  ok=false when there is none.
func reachingDefInBlock(fn *Fn, o *types.Var, at ast.Node) (def ast.Expr, stmt ast.Node, ok bool) {
	info := fn.Info()
	var block *ast.BlockStmt
	var list []ast.Stmt
	for _, s := range EnclosingStmts(fn, at) {
		switch b := s.(type) {
		case *ast.BlockStmt:
			block, list = b, b.List
		case *ast.CaseClause:
			block, list = nil, b.Body
		case *ast.CommClause:
			block, list = nil, b.Body
		}
	}
	_ = block
	idx := -1
	for i, s := range list {
		if s.Pos() <= at.Pos() && at.End() <= s.End() {
			idx = i
		}
	}
	if idx < 0 {
		return nil, nil, false
	}
	assignsTo := func(n ast.Node) bool {
		found := false
		ast.Inspect(n, func(m ast.Node) bool {
			Assigns(m, func(lhs, _ ast.Expr, _ token.Token) {
				if id, isId := Unparen(lhs).(*ast.Ident); isId && ObjOf(info, id) == o {
					found = true
				}
			})
			if u, isU := m.(*ast.UnaryExpr); isU && u.Op == token.AND {
				if id, isId := Unparen(u.X).(*ast.Ident); isId && ObjOf(info, id) == o {
					found = true // address taken: may be written through the pointer
				}
			}
			return !found
		})
		return found
	}
	for i := idx - 1; i >= 0; i-- {
		s := list[i]
		var hit bool
		var rhsFound ast.Expr
		zero := false
		top := func(n ast.Node) {
			Assigns(n, func(lhs, rhs ast.Expr, tok token.Token) {
				if id, isId := Unparen(lhs).(*ast.Ident); isId && ObjOf(info, id) == o {
					hit = true
					rhsFound = rhs
					zero = rhs == nil && tok == token.VAR
				}
			})
		}
		switch v := s.(type) {
		case *ast.AssignStmt:
			top(v)
		case *ast.DeclStmt:
			if gd, isGen := v.Decl.(*ast.GenDecl); isGen {
				for _, sp := range gd.Specs {
					top(sp)
				}
			}
		}
		if hit {
			if rhsFound == nil && !zero {
				return nil, nil, false // multi-value definition
			}
			return rhsFound, s, true
		}
		if assignsTo(s) {
			return nil, nil, false
		}
	}
	return nil, nil, false
}
