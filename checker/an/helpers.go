package an

import (
	"go/ast"
	"go/token"
	"go/types"
)

// OwnerFn returns the innermost function (declaration or literal, parameters included) containing pos.
func (p *Prog) OwnerFn(pos token.Pos) *Fn {
	if p.owners == nil {
		p.owners = map[token.Pos]*Fn{}
	}
	if f, ok := p.owners[pos]; ok {
		return f
	}
	var best *Fn
	var blo, bhi token.Pos
	for _, f := range p.Fns {
		if f.Body == nil {
			continue
		}
		lo, hi := fnExtent(f)
		if lo <= pos && pos < hi {
			if best == nil || (lo >= blo && hi <= bhi) {
				best, blo, bhi = f, lo, hi
			}
		}
	}
	p.owners[pos] = best
	return best
}

// ctxFn: the function in whose body node/variable at pos must be looked up when a rule works on
// root: root itself (or a literal nested in it) normally, the new helper that declares it when the
// construct was reached through a helper call (InspectOwn, splicing).
func ctxFn(root *Fn, pos token.Pos) *Fn {
	if root == nil || root.P == nil || !pos.IsValid() {
		return root
	}
	lo, hi := fnExtent(root.Root())
	if lo <= pos && pos < hi {
		return root
	}
	if o := root.P.OwnerFn(pos); o != nil && root.P.IsNewHelper(o.Root()) {
		return o
	}
	return root
}

// Bind is one binding of a helper parameter (or receiver) to an argument at a call site.
type Bind struct {
	Arg    ast.Expr
	Caller *Fn
	Call   *ast.CallExpr
}

// HelperBinds maps the parameters and receivers of the new helpers reachable from root (through
// calls in any position) to their arguments.
func (p *Prog) HelperBinds(root *Fn) map[*types.Var][]Bind {
	if p.hbinds == nil {
		p.hbinds = map[*Fn]map[*types.Var][]Bind{}
	}
	if m, ok := p.hbinds[root]; ok {
		return m
	}
	m := map[*types.Var][]Bind{}
	p.hbinds[root] = m
	seen := map[*Fn]bool{}
	var walk func(g *Fn)
	walk = func(g *Fn) {
		if seen[g] || g.Body == nil {
			return
		}
		seen[g] = true
		ast.Inspect(g.Body, func(n ast.Node) bool {
			if _, isLit := n.(*ast.FuncLit); isLit {
				return false // a nested literal is a function of its own (it binds the helper's parameters separately)
			}
			call, ok := n.(*ast.CallExpr)
			if !ok {
				return true
			}
			h := p.NewHelperCallee(g, call)
			if h == nil || h.Sig == nil {
				return true
			}
			if recv := h.Sig.Recv(); recv != nil {
				if sel, ok := Unparen(call.Fun).(*ast.SelectorExpr); ok {
					m[recv] = append(m[recv], Bind{sel.X, g, call})
				}
			}
			if !h.Sig.Variadic() && len(call.Args) == h.Sig.Params().Len() {
				for i := 0; i < h.Sig.Params().Len(); i++ {
					v := h.Sig.Params().At(i)
					m[v] = append(m[v], Bind{call.Args[i], g, call})
				}
			}
			walk(h)
			return true
		})
	}
	walk(root)
	return m
}

// HasNewHelpers reports whether root (transitively) calls a new helper.
func (p *Prog) HasNewHelpers(root *Fn) bool {
	return len(p.HelperBinds(root)) > 0 || p.callsNewHelper(root)
}

func (p *Prog) callsNewHelper(root *Fn) bool {
	found := false
	if root.Body == nil {
		return false
	}
	ast.Inspect(root.Body, func(n ast.Node) bool {
		if c, ok := n.(*ast.CallExpr); ok && p.NewHelperCallee(root, c) != nil {
			found = true
		}
		return !found
	})
	return found
}

// CalledHelper reports whether f is a new helper that some other module function calls: such a
// function is analysed in the context of its callers, not as a unit of its own.
func (p *Prog) CalledHelper(f *Fn) bool {
	if !p.IsNewHelper(f) {
		return false
	}
	if p.helperCalled == nil {
		p.helperCalled = map[*Fn]bool{}
		for _, g := range p.Fns {
			if g.Body == nil {
				continue
			}
			ast.Inspect(g.Body, func(n ast.Node) bool {
				if c, ok := n.(*ast.CallExpr); ok {
					if h := p.NewHelperCallee(g, c); h != nil && h != g.Root() {
						p.helperCalled[h] = true
					}
				}
				return true
			})
		}
	}
	return p.helperCalled[f]
}

// Units lists the functions rules analyse as units: everything except new helpers that are called
// (those are seen through their callers) and the literals nested in them.
func (p *Prog) Units() []*Fn {
	var out []*Fn
	for _, f := range p.Fns {
		if p.CalledHelper(f.Root()) {
			continue
		}
		out = append(out, f)
	}
	return out
}

// IsModulePkg reports whether pkg is one of the module's own packages.
func (p *Prog) IsModulePkg(pkg *types.Package) bool {
	if pkg == nil {
		return false
	}
	for _, pk := range p.Pkgs {
		if pk.Types == pkg {
			return true
		}
	}
	return false
}

// ConstGlobal: a package-level variable of the module that is given its value by its declaration and by nothing
// else — no assignment, no ++/--, no range or short declaration target, and its address is never taken — anywhere
// in the module (`var rendererType = reflect.TypeOf(...)`).  Such a variable stands for one value.
func (p *Prog) ConstGlobal(v *types.Var) bool {
	if v == nil || v.Pkg() == nil || v.Parent() != v.Pkg().Scope() || !p.IsModulePkg(v.Pkg()) {
		return false
	}
	if p.constGlobals == nil {
		written := map[*types.Var]bool{}
		globalOf := func(info *types.Info, e ast.Expr) *types.Var {
			switch e := Unparen(e).(type) {
			case *ast.Ident:
				if o, ok := ObjOf(info, e).(*types.Var); ok && o.Pkg() != nil && o.Parent() == o.Pkg().Scope() {
					return o
				}
			case *ast.SelectorExpr:
				if o, ok := info.Uses[e.Sel].(*types.Var); ok && o.Pkg() != nil && o.Parent() == o.Pkg().Scope() {
					return o
				}
			}
			return nil
		}
		for _, pk := range p.Pkgs {
			info := pk.TypesInfo
			for _, file := range pk.Syntax {
				ast.Inspect(file, func(n ast.Node) bool {
					switch s := n.(type) {
					case *ast.AssignStmt:
						for _, l := range s.Lhs {
							if o := globalOf(info, l); o != nil {
								written[o] = true
							}
						}
					case *ast.IncDecStmt:
						if o := globalOf(info, s.X); o != nil {
							written[o] = true
						}
					case *ast.RangeStmt:
						for _, l := range []ast.Expr{s.Key, s.Value} {
							if l != nil {
								if o := globalOf(info, l); o != nil {
									written[o] = true
								}
							}
						}
					case *ast.UnaryExpr:
						if s.Op == token.AND {
							// &v, &v.f, &v[i]: the address of (part of) the variable escapes
							e := Unparen(s.X)
							for {
								switch t := e.(type) {
								case *ast.SelectorExpr:
									if o := globalOf(info, t); o != nil {
										written[o] = true
									}
									e = Unparen(t.X)
									continue
								case *ast.IndexExpr:
									e = Unparen(t.X)
									continue
								}
								break
							}
							if o := globalOf(info, e); o != nil {
								written[o] = true
							}
						}
					}
					return true
				})
			}
		}
		p.constGlobals = map[*types.Var]bool{}
		for _, pk := range p.Pkgs {
			sc := pk.Types.Scope()
			for _, name := range sc.Names() {
				if o, ok := sc.Lookup(name).(*types.Var); ok && !written[o] {
					p.constGlobals[o] = true
				}
			}
		}
	}
	return p.constGlobals[v]
}
