package an

import (
	"fmt"
	"go/ast"
	"go/token"
	"go/types"

	"golang.org/x/tools/go/ast/astutil"
)

// Hoisting completes the transparency of new helpers (known.go, splice.go) for calls in operand
// position: `st.executeList(t.rootList())` is analysed as `rootList·1 := t.rootList();
// st.executeList(rootList·1)`, `if h(x) == nil {` as `if h·1 := h(x); h·1 == nil {`.  After that the
// helper call is a statement-level call, which splicing, Norm, LocalDefs and the rules' own walks
// already see through.  A call is hoisted only when nothing is evaluated before it in its statement
// that could observe the difference: it must be the first call the statement completes (operands
// left to right, not the right operand of && or ||, not inside a function literal).  The rewrite is
// done on the loaded syntax tree, never on /repo; on the tree the rules were written for there is no
// new helper and nothing is hoisted.

type hoister struct {
	p    *Prog
	info *types.Info
	pkg  *types.Package
	fn   *Fn
	n    int
}

func (p *Prog) hoistHelperCalls() {
	for _, fn := range p.Fns {
		if fn.Decl == nil || fn.Body == nil || fn.Pkg == nil {
			continue
		}
		h := &hoister{p: p, info: fn.Pkg.TypesInfo, pkg: fn.Pkg.Types, fn: fn}
		h.block(fn.Body)
	}
}

func (h *hoister) block(n ast.Node) {
	ast.Inspect(n, func(m ast.Node) bool {
		switch s := m.(type) {
		case *ast.BlockStmt:
			s.List = h.list(s.List)
		case *ast.CaseClause:
			s.Body = h.list(s.Body)
		case *ast.CommClause:
			s.Body = h.list(s.Body)
		case *ast.IfStmt:
			if s.Init == nil {
				if as := h.hoistFrom(s, []ast.Expr{s.Cond}); as != nil {
					s.Init = as
				}
			}
		case *ast.SwitchStmt:
			if s.Init == nil && s.Tag != nil {
				if as := h.hoistFrom(s, []ast.Expr{s.Tag}); as != nil {
					s.Init = as
				}
			}
		}
		return true
	})
}

func (h *hoister) list(list []ast.Stmt) []ast.Stmt {
	var out []ast.Stmt
	for _, s := range list {
		for k := 0; k < 8; k++ {
			var exprs []ast.Expr
			switch v := s.(type) {
			case *ast.ExprStmt:
				exprs = []ast.Expr{v.X}
			case *ast.AssignStmt:
				for _, l := range v.Lhs {
					if _, isId := Unparen(l).(*ast.Ident); !isId {
						exprs = append(exprs, l)
					}
				}
				exprs = append(exprs, v.Rhs...)
			case *ast.ReturnStmt:
				exprs = v.Results
			case *ast.RangeStmt:
				exprs = []ast.Expr{v.X}
			case *ast.IfStmt:
				// `if x, ok := h(a)[k]; ok {`: the init statement runs first, a helper call in it can be
				// taken out in front of the if
				switch in := v.Init.(type) {
				case *ast.AssignStmt:
					if len(in.Rhs) == 1 {
						if c, ok := Unparen(in.Rhs[0]).(*ast.CallExpr); !ok || h.p.NewHelperCallee(h.fn, c) == nil {
							exprs = append(exprs, in.Rhs...)
						}
					} else {
						exprs = append(exprs, in.Rhs...)
					}
				case *ast.ExprStmt:
					if c, ok := Unparen(in.X).(*ast.CallExpr); !ok || h.p.NewHelperCallee(h.fn, c) == nil {
						exprs = []ast.Expr{in.X}
					}
				}
			}
			as := h.hoistFrom(s, exprs)
			if as == nil {
				break
			}
			out = append(out, as)
		}
		out = append(out, s)
	}
	return out
}

// stmtLevel: the call is already in a position splicing handles.
func stmtLevel(s ast.Stmt, c *ast.CallExpr) bool {
	switch v := s.(type) {
	case *ast.ExprStmt:
		return Unparen(v.X) == ast.Expr(c)
	case *ast.AssignStmt:
		return len(v.Rhs) == 1 && Unparen(v.Rhs[0]) == ast.Expr(c)
	case *ast.ReturnStmt:
		return len(v.Results) == 1 && Unparen(v.Results[0]) == ast.Expr(c)
	case *ast.IfStmt:
		e := Unparen(v.Cond)
		if u, ok := e.(*ast.UnaryExpr); ok && u.Op == token.NOT {
			e = Unparen(u.X)
		}
		return e == ast.Expr(c)
	}
	return false
}

// hoistFrom replaces, in statement s, the first call completed among exprs by a fresh variable when it
// is a call of a new helper with one result, and returns the definition to put in front of s.
func (h *hoister) hoistFrom(s ast.Stmt, exprs []ast.Expr) *ast.AssignStmt {
	var first *ast.CallExpr
	for _, e := range exprs {
		c, blocked := h.firstCall(e)
		if c != nil || blocked {
			first = c
			break
		}
	}
	if first == nil || stmtLevel(s, first) {
		return nil
	}
	callee := h.p.NewHelperCallee(h.fn, first)
	if callee == nil || callee.Sig == nil || callee.Sig.Results().Len() != 1 || callee.Sig.Variadic() {
		return nil
	}
	tv, ok := h.info.Types[first]
	if !ok || tv.Type == nil {
		return nil
	}
	h.n++
	name := fmt.Sprintf("%s·%d", callee.Obj.Name(), h.n)
	def := &ast.Ident{NamePos: first.Pos(), Name: name}
	// (the use is placed at the end of the call it replaces, so that position-ordered look-ups see the
	// definition — which spans the call — strictly before it)
	use := &ast.Ident{NamePos: first.End(), Name: name}
	v := types.NewVar(first.Pos(), h.pkg, name, tv.Type)
	if inner := h.pkg.Scope().Innermost(first.Pos()); inner != nil {
		sc := types.NewScope(inner, s.Pos(), inner.End(), "hoisted")
		sc.Insert(v)
	}
	h.info.Defs[def] = v
	h.info.Uses[use] = v
	h.info.Types[use] = types.TypeAndValue{Type: tv.Type}
	replaced := false
	astutil.Apply(s, func(c *astutil.Cursor) bool {
		if c.Node() == ast.Node(first) && !replaced {
			c.Replace(use)
			replaced = true
			return false
		}
		_, isLit := c.Node().(*ast.FuncLit)
		return !replaced && !isLit
	}, nil)
	if !replaced {
		return nil
	}
	return &ast.AssignStmt{Lhs: []ast.Expr{def}, Tok: token.DEFINE, TokPos: first.Pos(), Rhs: []ast.Expr{first}}
}

// firstCall returns the first call e completes when it is evaluated (conversions and builtins do not
// count); blocked reports that a call was found whose evaluation is conditional, so that nothing after
// it may be moved in front of it.
func (h *hoister) firstCall(e ast.Expr) (c *ast.CallExpr, blocked bool) {
	seq := func(es ...ast.Expr) (*ast.CallExpr, bool) {
		for _, x := range es {
			if x == nil {
				continue
			}
			if c, b := h.firstCall(x); c != nil || b {
				return c, b
			}
		}
		return nil, false
	}
	switch v := e.(type) {
	case nil:
		return nil, false
	case *ast.ParenExpr:
		return h.firstCall(v.X)
	case *ast.FuncLit:
		return nil, false
	case *ast.BinaryExpr:
		if v.Op == token.LAND || v.Op == token.LOR {
			if c, b := h.firstCall(v.X); c != nil || b {
				return c, b
			}
			if c, b := h.firstCall(v.Y); c != nil || b {
				return nil, true // evaluated only when the left operand allows it
			}
			return nil, false
		}
		return seq(v.X, v.Y)
	case *ast.UnaryExpr:
		return h.firstCall(v.X)
	case *ast.StarExpr:
		return h.firstCall(v.X)
	case *ast.SelectorExpr:
		return h.firstCall(v.X)
	case *ast.IndexExpr:
		return seq(v.X, v.Index)
	case *ast.SliceExpr:
		return seq(v.X, v.Low, v.High, v.Max)
	case *ast.TypeAssertExpr:
		return h.firstCall(v.X)
	case *ast.KeyValueExpr:
		return seq(v.Key, v.Value)
	case *ast.CompositeLit:
		return seq(v.Elts...)
	case *ast.CallExpr:
		if c, b := seq(append([]ast.Expr{v.Fun}, v.Args...)...); c != nil || b {
			return c, b
		}
		if tv, ok := h.info.Types[v.Fun]; ok && (tv.IsType() || tv.IsBuiltin()) {
			return nil, false
		}
		return v, false
	}
	return nil, false
}
