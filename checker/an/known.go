package an

import (
	_ "embed"
	"fmt"
	"go/ast"
	"go/token"
	"go/types"
	"strings"
)

// known_fns.txt lists the declared functions and methods of the module at the time the rules were
// written (one Fn name per line; regenerate with `jetverif -dump-fns > an/known_fns.txt` after
// reviewing that every rule treats the additions correctly).  A declared function that is not in the
// list is a *new helper*: rules look through it (InspectOwn, the explorer's splicing) instead of
// treating it as an unknown opaque call.  The list never makes a check pass or fail by itself; it only
// decides whether a callee is analysed in place or as a call.
//
//go:embed known_fns.txt
var knownFnsText string

var knownFns = func() map[string]bool {
	m := map[string]bool{}
	for _, l := range strings.Split(knownFnsText, "\n") {
		if l = strings.TrimSpace(l); l != "" && !strings.HasPrefix(l, "#") {
			m[l] = true
		}
	}
	return m
}()

// IsNewHelper: fn is a declared function that the rules have never seen.
func (p *Prog) IsNewHelper(fn *Fn) bool {
	if fn == nil || fn.Decl == nil || fn.Body == nil {
		return false
	}
	if knownFns[fn.Name] || (fn.DeclName != "" && knownFns[fn.DeclName]) {
		return false
	}
	return true
}

// NewHelperCallee returns the new helper statically called by call (same package as f), or nil.
func (p *Prog) NewHelperCallee(f *Fn, call *ast.CallExpr) *Fn {
	callee := Callee(f.Info(), call)
	if callee == nil {
		return nil
	}
	h := p.FnByObj[callee]
	if h == nil || h.Pkg != f.Pkg || !p.IsNewHelper(h) {
		return nil
	}
	return h
}

// aliasRegistryFns gives a declared function that is stored in a string-keyed registry literal of an
// init function or package variable (defaultVariables["exec"] = reflect.ValueOf(Func(builtinExec)))
// the name a literal at that place would have (`init/"exec"`), so that rules, obligation keys and
// known findings refer to the built-in by its template-visible name however it is spelt in Go.
func (p *Prog) aliasRegistryFns() {
	for _, pk := range p.Pkgs {
		info := pk.TypesInfo
		for _, file := range pk.Syntax {
			for _, d := range file.Decls {
				var holder string
				var root ast.Node
				switch d := d.(type) {
				case *ast.FuncDecl:
					if d.Recv != nil || d.Name.Name != "init" || d.Body == nil {
						continue
					}
					holder, root = p.pkgPrefix(pk)+"init", d.Body
				case *ast.GenDecl:
					if d.Tok != token.VAR {
						continue
					}
					for _, spec := range d.Specs {
						vs := spec.(*ast.ValueSpec)
						for i, v := range vs.Values {
							nm := "_"
							if i < len(vs.Names) {
								nm = vs.Names[i].Name
							}
							p.aliasIn(pk, info, p.pkgPrefix(pk)+"var:"+nm, v)
						}
					}
					continue
				default:
					continue
				}
				p.aliasIn(pk, info, holder, root)
			}
		}
	}
}

func (p *Prog) aliasIn(pk interface{}, info *types.Info, holder string, root ast.Node) {
	ast.Inspect(root, func(n ast.Node) bool {
		if _, ok := n.(*ast.FuncLit); ok {
			return false
		}
		kv, ok := n.(*ast.KeyValueExpr)
		if !ok {
			return true
		}
		bl, ok := kv.Key.(*ast.BasicLit)
		if !ok || bl.Kind != token.STRING {
			return true
		}
		// unwrap single-argument calls/conversions: reflect.ValueOf(Func(f)) → f
		v := Unparen(kv.Value)
		for {
			c, ok := v.(*ast.CallExpr)
			if !ok || len(c.Args) != 1 {
				break
			}
			v = Unparen(c.Args[0])
		}
		var id *ast.Ident
		switch e := v.(type) {
		case *ast.Ident:
			id = e
		case *ast.SelectorExpr:
			id = e.Sel
		}
		if id == nil {
			return true
		}
		fo, _ := info.Uses[id].(*types.Func)
		fn := p.FnByObj[fo]
		if fn == nil || fn.Decl == nil || fn.DeclName != "" {
			return true
		}
		alias := holder + "/" + bl.Value
		if _, dup := p.FnByName[alias]; dup {
			return true
		}
		// rename the function and the literals nested in it
		oldName := fn.Name
		fn.DeclName = oldName
		delete(p.FnByName, oldName)
		fn.Name = alias
		p.FnByName[alias] = fn
		p.FnByName[oldName] = fn
		for _, l := range fn.Lits {
			if strings.HasPrefix(l.Name, oldName+"$") {
				delete(p.FnByName, l.Name)
				l.Name = alias + strings.TrimPrefix(l.Name, oldName)
				p.FnByName[l.Name] = l
			}
		}
		return true
	})
}

// aliasFuncValues gives a new declared function that is used exactly once, as a function value (never
// called by name), inside a function the rules know, the name a function literal at that place would
// have ("(*Runtime).executeYieldBlock$1"): a closure that was turned into a named function or a method
// value keeps its identity for rules, obligation keys and known findings.  Literals and such values
// are numbered together in source order, as literals alone are on the tree the rules were written for.
func (p *Prog) aliasFuncValues() {
	// how every declared function is used
	called, valued := map[*types.Func]int{}, map[*types.Func]int{}
	for _, pk := range p.Pkgs {
		info := pk.TypesInfo
		for _, file := range pk.Syntax {
			callFun := map[*ast.Ident]bool{}
			ast.Inspect(file, func(n ast.Node) bool {
				if c, ok := n.(*ast.CallExpr); ok {
					switch f := Unparen(c.Fun).(type) {
					case *ast.Ident:
						callFun[f] = true
					case *ast.SelectorExpr:
						callFun[f.Sel] = true
					}
				}
				if id, ok := n.(*ast.Ident); ok {
					if fo, ok := info.Uses[id].(*types.Func); ok {
						if callFun[id] {
							called[fo]++
						} else {
							valued[fo]++
						}
					}
				}
				return true
			})
		}
	}
	candidate := func(info *types.Info, id *ast.Ident) *Fn {
		fo, _ := info.Uses[id].(*types.Func)
		fn := p.FnByObj[fo]
		if fn == nil || fn.Decl == nil || fn.DeclName != "" || !p.IsNewHelper(fn) || called[fo] != 0 || valued[fo] != 1 {
			return nil
		}
		return fn
	}
	rename := func(fn *Fn, alias string) {
		if fn.Name == alias {
			return
		}
		if _, dup := p.FnByName[alias]; dup {
			return
		}
		oldName := fn.Name
		if fn.Decl != nil {
			fn.DeclName = oldName
		}
		delete(p.FnByName, oldName)
		fn.Name = alias
		p.FnByName[alias] = fn
		if fn.Decl != nil {
			p.FnByName[oldName] = fn
		}
		for _, l := range fn.Lits {
			if strings.HasPrefix(l.Name, oldName+"$") {
				delete(p.FnByName, l.Name)
				l.Name = alias + strings.TrimPrefix(l.Name, oldName)
				p.FnByName[l.Name] = l
			}
		}
	}
	for _, parent := range append([]*Fn(nil), p.Fns...) {
		if parent.Body == nil || (parent.Decl != nil && p.IsNewHelper(parent)) || strings.Contains(parent.Name, "/") {
			continue
		}
		info := parent.Info()
		type slot struct {
			lit *Fn
			val *Fn
		}
		var slots []slot
		any := false
		ast.Inspect(parent.Body, func(n ast.Node) bool {
			switch x := n.(type) {
			case *ast.FuncLit:
				if l := p.FnByLit[x]; l != nil {
					slots = append(slots, slot{lit: l})
				}
				return false
			case *ast.Ident:
				if h := candidate(info, x); h != nil {
					slots = append(slots, slot{val: h})
					any = true
				}
			}
			return true
		})
		if !any {
			continue
		}
		base := parent.Name
		for k, sl := range slots {
			alias := fmt.Sprintf("%s$%d", base, k+1)
			if sl.lit != nil {
				if !strings.Contains(strings.TrimPrefix(sl.lit.Name, base), "/") {
					rename(sl.lit, alias)
				}
			} else {
				rename(sl.val, alias)
			}
		}
	}
}

// FnOfValue resolves an expression that denotes a function — a literal, the name of a declared
// function, or a method value — to that function.
func (p *Prog) FnOfValue(info *types.Info, e ast.Expr) *Fn {
	switch v := Unparen(e).(type) {
	case *ast.FuncLit:
		return p.FnByLit[v]
	case *ast.Ident:
		if fo, ok := info.Uses[v].(*types.Func); ok {
			return p.FnByObj[fo]
		}
	case *ast.SelectorExpr:
		if fo, ok := info.Uses[v.Sel].(*types.Func); ok {
			return p.FnByObj[fo]
		}
	}
	return nil
}

// receiverRole: the name under which the receiver of a method of these types is rendered by Str and in
// fact keys, whatever it is called in the source (see SetRole): rules written against `st.scope`,
// `l.pos`, `t.lex`, `a.args`, `s.cache` keep matching after a receiver was renamed.
var receiverRole = map[string]string{"Runtime": "st", "lexer": "l", "Template": "t", "Arguments": "a", "Set": "s"}

func (p *Prog) canonReceivers() {
	for _, f := range p.Fns {
		if f.Decl == nil || f.Sig == nil || f.Sig.Recv() == nil || f.Pkg != p.Jet {
			continue
		}
		n := NamedOf(f.Sig.Recv().Type())
		if n == nil {
			continue
		}
		if role := receiverRole[n.Obj().Name()]; role != "" && f.Sig.Recv().Name() != "" && f.Sig.Recv().Name() != "_" {
			SetRole(f.Info(), f.Decl, f.Sig.Recv(), role)
		}
	}
	// plain functions that take the object as their (only) parameter of that type: lexer state functions
	// `func lexText(l *lexer) stateFn`, built-ins `func(a Arguments) reflect.Value`
	for _, f := range p.Fns {
		if f.Sig == nil || f.Sig.Recv() != nil || f.Pkg != p.Jet || f.Body == nil {
			continue
		}
		var root ast.Node = f.Body
		if f.Decl != nil {
			root = f.Decl
		} else if f.Lit != nil {
			root = f.Lit
		}
		seen := map[string]int{}
		for i := 0; i < f.Sig.Params().Len(); i++ {
			if n := NamedOf(f.Sig.Params().At(i).Type()); n != nil {
				seen[n.Obj().Name()]++
			}
		}
		for i := 0; i < f.Sig.Params().Len(); i++ {
			v := f.Sig.Params().At(i)
			n := NamedOf(v.Type())
			if n == nil || v.Name() == "" || v.Name() == "_" || n.Obj().Pkg() != p.Jet.Types {
				continue
			}
			if role := receiverRole[n.Obj().Name()]; role != "" && seen[n.Obj().Name()] == 1 {
				SetRole(f.Info(), root, v, role)
			}
		}
	}
}
