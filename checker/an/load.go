// Package an holds the shared analysis infrastructure of jetverif: loading the
// type-checked program from /repo's working tree, the function index, call
// resolution, no-return inference, the fact-tracking CFG explorer, and the
// obligation/evidence machinery.  Nothing in here executes code of /repo.
package an

import (
	"fmt"
	"go/ast"
	"go/parser"
	"go/token"
	"go/types"
	"os"
	"path/filepath"
	"sort"
	"strings"

	"golang.org/x/tools/go/packages"
)

const JetPath = "github.com/CloudyKit/jet/v6"

// Prog is the loaded, type-checked module under analysis.
type Prog struct {
	Dir   string
	Fset  *token.FileSet
	Pkgs  []*packages.Package // module packages only, sorted by path
	ByRel map[string]*packages.Package
	Jet   *packages.Package
	Utils *packages.Package

	Fns      []*Fn          // all function bodies (decls and literals) of module packages
	FnByName map[string]*Fn // by Name
	FnByObj  map[*types.Func]*Fn
	FnByLit  map[*ast.FuncLit]*Fn
	FnByBody map[*ast.BlockStmt]*Fn

	TypeErrors []string

	noret        map[*Fn]bool
	noretDone    bool
	cfgs         map[*Fn]*cfgEntry
	callees      map[*Fn][]*Fn
	pure         map[*Fn]int // 0 unknown, 1 computing, 2 pure, 3 impure
	splices      map[*Fn]*spliced
	owners       map[token.Pos]*Fn
	hbinds       map[*Fn]map[*types.Var][]Bind
	constGlobals map[*types.Var]bool
	helperCalled map[*Fn]bool
	writes       map[*Fn]*WriteSet
	deps         map[string]*types.Package
}

// Fn is one function body: a declared function/method, or a function literal.
type Fn struct {
	P        *Prog
	DeclName string // the declared name when Name is a registry alias (see aliasRegistryFns)
	Name     string // "(*Runtime).executeList", "lexText", "init/\"exec\"", "var:newMap$1", "(*Runtime).executeTry$1"
	Pkg      *packages.Package
	Decl     *ast.FuncDecl // nil for literals
	Lit      *ast.FuncLit  // nil for declared functions
	Obj      *types.Func   // nil for literals
	Parent   *Fn           // lexically enclosing function (nil for top level / var initialisers)
	Body     *ast.BlockStmt
	Type     *ast.FuncType
	Lits     []*Fn // literals directly or indirectly nested in this body, in source order
	Sig      *types.Signature
}

func (f *Fn) Info() *types.Info { return f.Pkg.TypesInfo }
func (f *Fn) Pos() token.Pos {
	if f.Decl != nil {
		return f.Decl.Pos()
	}
	return f.Lit.Pos()
}

// Root returns the outermost enclosing declared function (or f itself).
func (f *Fn) Root() *Fn {
	for f.Parent != nil {
		f = f.Parent
	}
	return f
}

// Load type-checks the module rooted at dir (its current working tree, plus an
// optional in-memory overlay used only by the liveness self-test).
func Load(dir string, overlay map[string][]byte) (*Prog, error) {
	abs, err := filepath.Abs(dir)
	if err != nil {
		return nil, err
	}
	env := append(os.Environ(), "GOFLAGS=-mod=mod", "GOPROXY=off", "GOSUMDB=off", "GOTOOLCHAIN=local", "GOWORK=off")
	cfg := &packages.Config{
		Mode: packages.NeedName | packages.NeedFiles | packages.NeedCompiledGoFiles | packages.NeedImports |
			packages.NeedDeps | packages.NeedTypes | packages.NeedSyntax | packages.NeedTypesInfo | packages.NeedTypesSizes | packages.NeedModule,
		Dir:     abs,
		Env:     env,
		Fset:    token.NewFileSet(),
		Overlay: overlay,
		Tests:   false,
	}
	pkgs, err := packages.Load(cfg, "./...")
	if err != nil {
		return nil, err
	}
	p := &Prog{Dir: abs, Fset: cfg.Fset, ByRel: map[string]*packages.Package{}, FnByName: map[string]*Fn{},
		FnByObj: map[*types.Func]*Fn{}, FnByLit: map[*ast.FuncLit]*Fn{}, FnByBody: map[*ast.BlockStmt]*Fn{},
		cfgs: map[*Fn]*cfgEntry{}}
	for _, pk := range pkgs {
		if !strings.HasPrefix(pk.PkgPath, JetPath) {
			continue
		}
		rel := strings.TrimPrefix(strings.TrimPrefix(pk.PkgPath, JetPath), "/")
		if strings.HasPrefix(rel, "examples") {
			// loaded (so that a broken example still shows up as a type error) but no rule targets them
			for _, e := range pk.Errors {
				p.TypeErrors = append(p.TypeErrors, e.Error())
			}
			continue
		}
		p.Pkgs = append(p.Pkgs, pk)
		p.ByRel[rel] = pk
		for _, e := range pk.Errors {
			p.TypeErrors = append(p.TypeErrors, e.Error())
		}
		if pk.IllTyped && len(pk.Errors) == 0 {
			p.TypeErrors = append(p.TypeErrors, pk.PkgPath+": ill-typed (error in a dependency)")
		}
	}
	sort.Slice(p.Pkgs, func(i, j int) bool { return p.Pkgs[i].PkgPath < p.Pkgs[j].PkgPath })
	p.Jet = p.ByRel[""]
	p.Utils = p.ByRel["utils"]
	if len(p.Pkgs) == 0 || p.Jet == nil {
		return nil, fmt.Errorf("no packages of %s loaded from %s (%d packages seen)", JetPath, abs, len(pkgs))
	}
	p.indexFns()
	return p, nil
}

// RelPos formats a position relative to the repository root: "eval.go:123".
func (p *Prog) RelPos(pos token.Pos) string {
	if !pos.IsValid() {
		return "?"
	}
	ps := p.Fset.Position(pos)
	rel, err := filepath.Rel(p.Dir, ps.Filename)
	if err != nil {
		rel = ps.Filename
	}
	return fmt.Sprintf("%s:%d", rel, ps.Line)
}

func (p *Prog) Line(pos token.Pos) int { return p.Fset.Position(pos).Line }

func recvName(t types.Type) string {
	ptr := ""
	if pt, ok := t.(*types.Pointer); ok {
		ptr = "*"
		t = pt.Elem()
	}
	if n, ok := t.(*types.Named); ok {
		return ptr + n.Obj().Name()
	}
	return ptr + t.String()
}

func (p *Prog) pkgPrefix(pk *packages.Package) string {
	if pk == p.Jet {
		return ""
	}
	return pk.Name + "."
}

func (p *Prog) indexFns() {
	for _, pk := range p.Pkgs {
		for _, file := range pk.Syntax {
			for _, d := range file.Decls {
				switch d := d.(type) {
				case *ast.FuncDecl:
					if d.Body == nil {
						continue
					}
					obj, _ := pk.TypesInfo.Defs[d.Name].(*types.Func)
					name := d.Name.Name
					if obj != nil {
						if sig := obj.Type().(*types.Signature); sig.Recv() != nil {
							name = "(" + recvName(sig.Recv().Type()) + ")." + name
						}
					}
					name = p.pkgPrefix(pk) + name
					if _, dup := p.FnByName[name]; dup { // several init functions
						for i := 2; ; i++ {
							if _, dup := p.FnByName[fmt.Sprintf("%s#%d", name, i)]; !dup {
								name = fmt.Sprintf("%s#%d", name, i)
								break
							}
						}
					}
					fn := &Fn{Name: name, Pkg: pk, Decl: d, Obj: obj, Body: d.Body, Type: d.Type}
					if obj != nil {
						fn.Sig = obj.Type().(*types.Signature)
						p.FnByObj[obj] = fn
					}
					p.addFn(fn)
					p.indexLits(fn, d.Body)
				case *ast.GenDecl:
					if d.Tok != token.VAR {
						continue
					}
					for _, spec := range d.Specs {
						vs := spec.(*ast.ValueSpec)
						for i, v := range vs.Values {
							nm := "_"
							if i < len(vs.Names) {
								nm = vs.Names[i].Name
							} else if len(vs.Names) > 0 {
								nm = vs.Names[0].Name
							}
							holder := &Fn{Name: p.pkgPrefix(pk) + "var:" + nm, Pkg: pk}
							p.indexLits(holder, v)
						}
					}
				}
			}
		}
	}
	p.aliasRegistryFns()
	p.aliasFuncValues()
	p.canonReceivers()
	p.alignRoles()
	p.hoistHelperCalls()
	sort.Slice(p.Fns, func(i, j int) bool { return p.Fns[i].Name < p.Fns[j].Name })
}

func (p *Prog) addFn(fn *Fn) {
	fn.P = p
	p.Fns = append(p.Fns, fn)
	p.FnByName[fn.Name] = fn
	if fn.Body != nil {
		p.FnByBody[fn.Body] = fn
	}
}

// indexLits registers every function literal below root (excluding nested ones,
// which are registered recursively under their own parent).
func (p *Prog) indexLits(parent *Fn, root ast.Node) {
	n := 0
	var walk func(n ast.Node, owner *Fn, keyName string)
	walk = func(node ast.Node, owner *Fn, keyName string) {
		ast.Inspect(node, func(x ast.Node) bool {
			switch x := x.(type) {
			case *ast.KeyValueExpr:
				if bl, ok := x.Key.(*ast.BasicLit); ok && bl.Kind == token.STRING {
					walk(x.Key, owner, keyName)
					walk(x.Value, owner, bl.Value)
					return false
				}
			case *ast.FuncLit:
				n++
				name := fmt.Sprintf("%s$%d", parent.Name, n)
				if keyName != "" {
					name = fmt.Sprintf("%s/%s", parent.Name, keyName)
					if _, dup := p.FnByName[name]; dup {
						name = fmt.Sprintf("%s/%s$%d", parent.Name, keyName, n)
					}
				}
				fn := &Fn{Name: name, Pkg: parent.Pkg, Lit: x, Body: x.Body, Type: x.Type}
				if parent.Body != nil || parent.Lit != nil {
					fn.Parent = parent
				}
				if tv, ok := parent.Pkg.TypesInfo.Types[x]; ok {
					fn.Sig, _ = tv.Type.(*types.Signature)
				}
				p.FnByLit[x] = fn
				p.addFn(fn)
				for q := parent; q != nil; q = q.Parent {
					q.Lits = append(q.Lits, fn)
				}
				p.indexLits(fn, x.Body)
				return false
			}
			return true
		})
	}
	walk(root, parent, "")
}

// Fn returns the function with that name, or nil.
func (p *Prog) Fn(name string) *Fn { return p.FnByName[name] }

// EnclosingFn returns the innermost function body containing pos in pkg.
func (p *Prog) EnclosingFn(pos token.Pos) *Fn {
	var best *Fn
	for _, f := range p.Fns {
		if f.Body == nil {
			continue
		}
		if f.Body.Pos() <= pos && pos < f.Body.End() {
			if best == nil || (f.Body.Pos() >= best.Body.Pos() && f.Body.End() <= best.Body.End()) {
				best = f
			}
		}
	}
	return best
}

// LookupType finds a named type in the root package.
func (p *Prog) LookupType(pk *packages.Package, name string) *types.Named {
	if pk == nil || pk.Types == nil {
		return nil
	}
	o := pk.Types.Scope().Lookup(name)
	if o == nil {
		return nil
	}
	n, _ := o.Type().(*types.Named)
	return n
}

// Field finds a (possibly promoted) field object of a named struct type.
func Field(t *types.Named, name string) *types.Var {
	if t == nil {
		return nil
	}
	obj, _, _ := types.LookupFieldOrMethod(t, true, nil, name)
	if obj == nil && t.Obj().Pkg() != nil {
		obj, _, _ = types.LookupFieldOrMethod(t, true, t.Obj().Pkg(), name)
	}
	v, _ := obj.(*types.Var)
	if v != nil && v.IsField() {
		return v
	}
	// a field that was renamed but is known under its snapshot name (align.go)
	if st, ok := t.Underlying().(*types.Struct); ok {
		for i := 0; i < st.NumFields(); i++ {
			if RoleOf(st.Field(i)) == name {
				return st.Field(i)
			}
		}
	}
	return nil
}

// InsideFn reports whether node n lies lexically inside f's body but not inside a nested literal.
func InsideOwn(f *Fn, n ast.Node) bool {
	if f.Body == nil || n.Pos() < f.Body.Pos() || n.End() > f.Body.End() {
		return false
	}
	for _, l := range f.Lits {
		if l.Lit.Pos() <= n.Pos() && n.End() <= l.Lit.End() && l.Lit != n {
			return false
		}
	}
	return true
}

// InspectOwn walks f's body without descending into nested function literals.  Calls to *new
// helpers* — declared functions of the same package that did not exist when the rules were written
// (see known.go) — are transparent: the helper's body is walked as if it stood at the call, once per
// walk, so that a rule looking for a construct "in f" still finds it after an extract-function
// refactoring.  On the tree the rules were written for there are no such helpers.
func InspectOwn(f *Fn, visit func(ast.Node) bool) {
	if f.Body == nil {
		return
	}
	seen := map[*Fn]bool{f: true}
	var walk func(body ast.Node)
	walk = func(body ast.Node) {
		ast.Inspect(body, func(n ast.Node) bool {
			if _, ok := n.(*ast.FuncLit); ok {
				return false
			}
			if n == nil {
				return true
			}
			if !visit(n) {
				return false
			}
			if call, ok := n.(*ast.CallExpr); ok && f.P != nil {
				if h := f.P.NewHelperCallee(f, call); h != nil && !seen[h] {
					seen[h] = true
					defer walk(h.Body) // after the call's own operands
				}
			}
			return true
		})
	}
	walk(f.Body)
}

// InspectBody is InspectOwn without following helpers.
func InspectBody(f *Fn, visit func(ast.Node) bool) {
	if f.Body == nil {
		return
	}
	ast.Inspect(f.Body, func(n ast.Node) bool {
		if _, ok := n.(*ast.FuncLit); ok {
			return false
		}
		if n == nil {
			return true
		}
		return visit(n)
	})
}

// Mutate returns a new Prog in which file rel (relative to the repository root) has the given
// contents; only the module's own packages are re-parsed and re-type-checked (in dependency
// order) against the dependencies already loaded for p.  Used by the liveness self-test: nothing
// is written to disk.
func (p *Prog) Mutate(rel string, src []byte) (*Prog, error) {
	return p.MutateFiles(map[string][]byte{rel: src})
}

// MutateFiles is Mutate for several files at once (paths relative to the repository root).
func (p *Prog) MutateFiles(edits map[string][]byte) (*Prog, error) {
	targets := map[string][]byte{}
	for rel, src := range edits {
		targets[filepath.Join(p.Dir, rel)] = src
	}
	fset := token.NewFileSet()
	q := &Prog{Dir: p.Dir, Fset: fset, ByRel: map[string]*packages.Package{}, FnByName: map[string]*Fn{},
		FnByObj: map[*types.Func]*Fn{}, FnByLit: map[*ast.FuncLit]*Fn{}, FnByBody: map[*ast.BlockStmt]*Fn{},
		cfgs: map[*Fn]*cfgEntry{}}
	done := map[string]*types.Package{}
	// dependency order among module packages: a package comes after the module packages it imports
	var order []*packages.Package
	seen := map[*packages.Package]bool{}
	inModule := map[string]*packages.Package{}
	for _, pk := range p.Pkgs {
		inModule[pk.PkgPath] = pk
	}
	var visit func(pk *packages.Package)
	visit = func(pk *packages.Package) {
		if seen[pk] {
			return
		}
		seen[pk] = true
		for path := range pk.Imports {
			if dep := inModule[path]; dep != nil {
				visit(dep)
			}
		}
		order = append(order, pk)
	}
	for _, pk := range p.Pkgs {
		visit(pk)
	}
	for _, old := range order {
		var files []*ast.File
		compiled := append([]string(nil), old.CompiledGoFiles...)
		// files a variant adds to this package's directory (a method moved into a new file)
		if len(old.CompiledGoFiles) > 0 {
			dir := filepath.Dir(old.CompiledGoFiles[0])
			known := map[string]bool{}
			for _, fn := range old.CompiledGoFiles {
				known[fn] = true
			}
			var added []string
			for fn := range targets {
				if !known[fn] && filepath.Dir(fn) == dir && strings.HasSuffix(fn, ".go") && !strings.HasSuffix(fn, "_test.go") {
					added = append(added, fn)
				}
			}
			sort.Strings(added)
			compiled = append(compiled, added...)
		}
		for _, fn := range compiled {
			var content interface{}
			if src, ok := targets[fn]; ok {
				content = src
			}
			f, err := parser.ParseFile(fset, fn, content, parser.ParseComments)
			if err != nil {
				q.TypeErrors = append(q.TypeErrors, err.Error())
				if f == nil {
					continue
				}
			}
			files = append(files, f)
		}
		info := &types.Info{
			Types: map[ast.Expr]types.TypeAndValue{}, Defs: map[*ast.Ident]types.Object{}, Uses: map[*ast.Ident]types.Object{},
			Implicits: map[ast.Node]types.Object{}, Selections: map[*ast.SelectorExpr]*types.Selection{}, Scopes: map[ast.Node]*types.Scope{},
			Instances: map[*ast.Ident]types.Instance{},
		}
		oldPk := old
		conf := types.Config{
			Importer: importerFunc(func(path string) (*types.Package, error) {
				if t, ok := done[path]; ok {
					return t, nil
				}
				if dep, ok := oldPk.Imports[path]; ok && dep.Types != nil {
					return dep.Types, nil
				}
				// a variant may add an import: any package loaded as a dependency of the module will do
				if dep := p.depByPath(path); dep != nil {
					return dep, nil
				}
				return nil, fmt.Errorf("import %q not loaded", path)
			}),
			Error: func(err error) { q.TypeErrors = append(q.TypeErrors, err.Error()) },
			Sizes: old.TypesSizes,
		}
		tpkg, _ := conf.Check(old.PkgPath, fset, files, info)
		done[old.PkgPath] = tpkg
		npk := &packages.Package{ID: old.ID, Name: old.Name, PkgPath: old.PkgPath, GoFiles: old.GoFiles, CompiledGoFiles: compiled,
			Imports: old.Imports, Types: tpkg, Fset: fset, Syntax: files, TypesInfo: info, TypesSizes: old.TypesSizes, Module: old.Module}
		q.Pkgs = append(q.Pkgs, npk)
		rel := strings.TrimPrefix(strings.TrimPrefix(old.PkgPath, JetPath), "/")
		q.ByRel[rel] = npk
	}
	sort.Slice(q.Pkgs, func(i, j int) bool { return q.Pkgs[i].PkgPath < q.Pkgs[j].PkgPath })
	q.Jet = q.ByRel[""]
	q.Utils = q.ByRel["utils"]
	if q.Jet == nil || q.Jet.Types == nil {
		return nil, fmt.Errorf("re-check failed")
	}
	q.indexFns()
	return q, nil
}

type importerFunc func(path string) (*types.Package, error)

func (f importerFunc) Import(path string) (*types.Package, error) { return f(path) }

// depByPath finds a type-checked package among the transitive dependencies of the module packages.
func (p *Prog) depByPath(path string) *types.Package {
	if p.deps == nil {
		p.deps = map[string]*types.Package{}
		seen := map[*packages.Package]bool{}
		var walk func(pk *packages.Package)
		walk = func(pk *packages.Package) {
			if seen[pk] {
				return
			}
			seen[pk] = true
			if pk.Types != nil {
				p.deps[pk.PkgPath] = pk.Types
			}
			for _, d := range pk.Imports {
				walk(d)
			}
		}
		for _, pk := range p.Pkgs {
			walk(pk)
		}
	}
	return p.deps[path]
}
