package an

import (
	"go/ast"
	"go/token"
	"go/types"
	"strings"
)

// WriteSet is the may-write summary of a function: the struct fields ("Owner.field") and package
// variables ("var:name") it or anything it calls may assign (element stores count as a store to the
// container's field).  Any means "unknown": a store through a pointer of unknown origin, a call of a
// function value, or of an external function that is not known to leave module state alone.
type WriteSet struct {
	Any    bool
	Fields map[string]bool
}

func (w *WriteSet) has(k string) bool { return w.Any || w.Fields[k] }

// externals that cannot assign fields of module types or module package variables
var harmlessExternal = []string{"fmt.", "io.", "errors.", "strconv.", "strings.", "bytes.", "path.", "filepath.", "utf8.", "unicode.", "sort.Strings", "sort.Ints",
	"(*bytes.Buffer).", "(*strings.Builder).", "(*bytes.Reader).", "(*strings.Reader).", "(*sync.Mutex).", "(*sync.RWMutex).", "(*sync.Pool).Put", "(*sync.Map).",
	"(io.Writer).Write", "(io.Reader).Read", "(io.Closer).Close", "os.IsNotExist", "os.Stat", "os.Open", "(*os.File).", "(fs.File).", "(fs.FileInfo).", "(os.FileInfo).",
	"(http.File).", "(http.FileSystem).Open", "ioutil.ReadAll", "io.ReadAll", "io.Copy", "html.", "url.", "json.Marshal", "(*json.Encoder).Encode", "json.NewEncoder", "xml.",
	"reflect.TypeOf", "reflect.ValueOf", "reflect.Zero", "reflect.New", "reflect.MakeSlice", "reflect.MakeMap", "reflect.Indirect", "reflect.DeepEqual", "reflect.PtrTo", "reflect.PointerTo",
	"(reflect.Type).", "(*reflect.rtype).", "(*reflect.MapIter).", "(error).Error", "(fmt.Stringer).String", "fastprinter.", "runtime.Caller", "time.", "math.", "unsafe.",
	"atomic.", "(*atomic."}

// reflect.Value methods that only read
func harmlessReflectValue(name string) bool {
	if !strings.HasPrefix(name, "(reflect.Value).") {
		return false
	}
	m := strings.TrimPrefix(name, "(reflect.Value).")
	switch {
	case strings.HasPrefix(m, "Set"), m == "Call", m == "CallSlice", m == "Send", m == "Recv", m == "TrySend", m == "TryRecv", m == "Close":
		return false
	}
	return true
}

// Writes returns the may-write summary of fn (computed for all module functions at once, to a fixpoint).
func (p *Prog) Writes(fn *Fn) *WriteSet {
	if p.writes == nil {
		p.computeWrites()
	}
	if w := p.writes[fn]; w != nil {
		return w
	}
	return &WriteSet{Any: true}
}

// CallWrites returns the may-write summary of one call expression.
func (p *Prog) CallWrites(info *types.Info, c *ast.CallExpr) *WriteSet {
	if p.writes == nil {
		p.computeWrites()
	}
	out := &WriteSet{Fields: map[string]bool{}}
	p.addCallWrites(info, c, out, nil)
	return out
}

func (p *Prog) fieldWritten(info *types.Info, lhs ast.Expr, out *WriteSet) {
	e := Unparen(lhs)
	for {
		switch v := e.(type) {
		case *ast.IndexExpr:
			e = Unparen(v.X)
			continue
		case *ast.SliceExpr:
			e = Unparen(v.X)
			continue
		}
		break
	}
	switch v := e.(type) {
	case *ast.Ident:
		if o, ok := ObjOf(info, v).(*types.Var); ok && o.Pkg() != nil && o.Parent() == o.Pkg().Scope() {
			out.Fields["var:"+o.Name()] = true
		}
		// a local (or a captured local of the enclosing function): not visible to facts of other frames
	case *ast.SelectorExpr:
		if fv := FieldOf(info, v); fv != nil {
			out.Fields[p.FieldKey(info, v)] = true
			return
		}
		if o, ok := info.Uses[v.Sel].(*types.Var); ok && o.Pkg() != nil && o.Parent() == o.Pkg().Scope() {
			out.Fields["var:"+o.Name()] = true
			return
		}
		out.Any = true
	case *ast.StarExpr:
		out.Any = true
	default:
		out.Any = true
	}
}

func (p *Prog) addCallWrites(info *types.Info, c *ast.CallExpr, out *WriteSet, cur map[*Fn]*WriteSet) {
	name := CalleeName(info, c)
	switch {
	case strings.HasPrefix(name, "conv:"):
		return
	case strings.HasPrefix(name, "builtin."):
		switch name {
		case "builtin.copy", "builtin.delete", "builtin.clear":
			if len(c.Args) > 0 {
				p.fieldWritten(info, c.Args[0], out)
			}
		case "builtin.close":
			out.Any = true
		}
		return
	case strings.HasPrefix(name, "value:"):
		out.Any = true
		return
	}
	callee := Callee(info, c)
	if callee == nil {
		out.Any = true
		return
	}
	merge := func(g *Fn) {
		var w *WriteSet
		if cur != nil {
			w = cur[g]
		} else {
			w = p.writes[g]
		}
		if w == nil {
			return
		}
		if w.Any {
			out.Any = true
		}
		for k := range w.Fields {
			out.Fields[k] = true
		}
	}
	if g := p.FnByObj[callee]; g != nil {
		merge(g)
		return
	}
	if sig, _ := callee.Type().(*types.Signature); sig != nil && sig.Recv() != nil {
		if _, isIface := sig.Recv().Type().Underlying().(*types.Interface); isIface {
			impls := p.Implementations(callee)
			for _, g := range impls {
				merge(g)
			}
			if callee.Pkg() != nil && strings.HasPrefix(callee.Pkg().Path(), JetPath) {
				// a module interface (Loader, Cache, Ranger, Renderer, SafeWriter…): user implementations may call back
				if len(impls) == 0 {
					out.Any = true
				}
				return
			}
		}
	}
	for _, pre := range purePrefixes {
		if strings.HasPrefix(name, pre) {
			return
		}
	}
	for _, pre := range harmlessExternal {
		if strings.HasPrefix(name, pre) {
			return
		}
	}
	if harmlessReflectValue(name) {
		return
	}
	out.Any = true
}

func (p *Prog) computeWrites() {
	cur := map[*Fn]*WriteSet{}
	direct := map[*Fn]*WriteSet{}
	calls := map[*Fn][]*ast.CallExpr{}
	for _, f := range p.Fns {
		if f.Body == nil {
			continue
		}
		w := &WriteSet{Fields: map[string]bool{}}
		info := f.Info()
		ast.Inspect(f.Body, func(n ast.Node) bool {
			switch s := n.(type) {
			case *ast.CallExpr:
				calls[f] = append(calls[f], s)
			case *ast.GoStmt:
				w.Any = true
			case *ast.SendStmt:
				w.Any = true
			case *ast.UnaryExpr:
				if s.Op == token.ARROW {
					w.Any = true
				}
			}
			Assigns(n, func(lhs, _ ast.Expr, _ token.Token) {
				p.fieldWritten(info, lhs, w)
			})
			return true
		})
		direct[f] = w
		cur[f] = &WriteSet{Any: w.Any, Fields: map[string]bool{}}
		for k := range w.Fields {
			cur[f].Fields[k] = true
		}
	}
	for changed := true; changed; {
		changed = false
		for _, f := range p.Fns {
			w := cur[f]
			if w == nil {
				continue
			}
			before, beforeAny := len(w.Fields), w.Any
			for _, c := range calls[f] {
				p.addCallWrites(f.Info(), c, w, cur)
			}
			if len(w.Fields) != before || w.Any != beforeAny {
				changed = true
			}
		}
	}
	p.writes = cur
}
