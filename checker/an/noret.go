package an

import (
	"go/ast"
	"go/types"

	"golang.org/x/tools/go/cfg"
)

type cfgEntry struct {
	g *cfg.CFG
}

// CFG returns the control-flow graph of f, built with the inferred no-return set.
func (p *Prog) CFG(f *Fn) *cfg.CFG {
	p.inferNoReturn()
	if e, ok := p.cfgs[f]; ok {
		return e.g
	}
	g := cfg.New(f.Body, func(c *ast.CallExpr) bool { return !p.CallNeverReturns(f.Info(), c) })
	p.cfgs[f] = &cfgEntry{g}
	return g
}

// NoReturn reports whether f can never return normally (all paths panic / call no-return functions).
func (p *Prog) NoReturn(f *Fn) bool {
	p.inferNoReturn()
	return p.noret[f]
}

// CallNeverReturns: panic, os.Exit, log.Fatal*, or a module function inferred no-return; an
// interface method call is no-return when every module implementation of it is.
func (p *Prog) CallNeverReturns(info *types.Info, c *ast.CallExpr) bool {
	p.inferNoReturn()
	name := CalleeName(info, c)
	switch name {
	case "builtin.panic", "os.Exit", "log.Fatal", "log.Fatalf", "log.Fatalln", "log.Panic", "log.Panicf", "runtime.Goexit":
		return true
	}
	callee := Callee(info, c)
	if callee == nil {
		return false
	}
	if fn := p.FnByObj[callee]; fn != nil {
		return p.noret[fn]
	}
	// interface method: all implementations in the module
	sig, _ := callee.Type().(*types.Signature)
	if sig == nil || sig.Recv() == nil {
		return false
	}
	if _, isIface := sig.Recv().Type().Underlying().(*types.Interface); !isIface {
		return false
	}
	impls := p.Implementations(callee)
	if len(impls) == 0 {
		return false
	}
	for _, im := range impls {
		if !p.noret[im] {
			return false
		}
	}
	return true
}

// Implementations returns the module functions that implement interface method m.
func (p *Prog) Implementations(m *types.Func) []*Fn {
	sig, _ := m.Type().(*types.Signature)
	if sig == nil || sig.Recv() == nil {
		return nil
	}
	iface, _ := sig.Recv().Type().Underlying().(*types.Interface)
	if iface == nil {
		return nil
	}
	var out []*Fn
	seen := map[*Fn]bool{}
	for _, pk := range p.Pkgs {
		sc := pk.Types.Scope()
		for _, name := range sc.Names() {
			tn, ok := sc.Lookup(name).(*types.TypeName)
			if !ok || tn.IsAlias() {
				continue
			}
			t := tn.Type()
			if _, isIface := t.Underlying().(*types.Interface); isIface {
				continue
			}
			if !ImplementsIface(t, iface) {
				continue
			}
			obj, _, _ := types.LookupFieldOrMethod(types.NewPointer(t), true, m.Pkg(), m.Name())
			if obj == nil {
				obj, _, _ = types.LookupFieldOrMethod(types.NewPointer(t), true, pk.Types, m.Name())
			}
			if f, ok := obj.(*types.Func); ok {
				if fn := p.FnByObj[f]; fn != nil && !seen[fn] {
					seen[fn] = true
					out = append(out, fn)
				}
			}
		}
	}
	return out
}

func (p *Prog) inferNoReturn() {
	if p.noretDone {
		return
	}
	p.noretDone = true
	p.noret = map[*Fn]bool{}
	for changed := true; changed; {
		changed = false
		for _, f := range p.Fns {
			if p.noret[f] || f.Body == nil {
				continue
			}
			g := cfg.New(f.Body, func(c *ast.CallExpr) bool { return !p.CallNeverReturns(f.Info(), c) })
			returns := false
			for _, b := range g.Blocks {
				if b.Live && b.Return() != nil {
					returns = true
					break
				}
			}
			if !returns {
				p.noret[f] = true
				changed = true
			}
		}
	}
}

// NoReturnNames lists the inferred no-return functions (for evidence).
func (p *Prog) NoReturnNames() []string {
	p.inferNoReturn()
	var out []string
	for _, f := range p.Fns {
		if p.noret[f] {
			out = append(out, f.Name)
		}
	}
	return out
}
