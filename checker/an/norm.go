package an

import (
	"fmt"
	"go/ast"
	"go/token"
	"go/types"
	"strings"
)

// Norm renders expression e (occurring at its own position inside fn) in a normal form that is
// independent of local variable names: the receiver becomes $r, the i-th parameter $p<i>, a local
// variable is replaced by the (normalised) expression of its latest straight-line definition before
// the use, provided that definition is a top-level statement of the function body or the Init of
// the enclosing if statement; anything else becomes φ(name).  Used for sibling agreement (F-SIB)
// and provenance (F-PROV) on the AST.
func Norm(fn *Fn, e ast.Expr) string {
	n := &normer{fn: fn, info: fn.Info()}
	return n.expr(e, e.Pos(), 0)
}

type normer struct {
	fn   *Fn
	info *types.Info
	root *Fn // the function the rule works on when fn is a new helper reached from it (nil otherwise)
}

func (n *normer) expr(e ast.Expr, usePos token.Pos, depth int) string {
	if e == nil {
		return ""
	}
	switch x := e.(type) {
	case *ast.ParenExpr:
		return n.expr(x.X, usePos, depth)
	case *ast.Ident:
		return n.ident(x, usePos, depth)
	case *ast.BasicLit:
		return x.Value
	case *ast.SelectorExpr:
		if id, ok := x.X.(*ast.Ident); ok {
			if _, isPkg := n.info.Uses[id].(*types.PkgName); isPkg {
				return id.Name + "." + x.Sel.Name
			}
		}
		return n.expr(x.X, usePos, depth) + "." + x.Sel.Name
	case *ast.CallExpr:
		var args []string
		for _, a := range x.Args {
			args = append(args, n.expr(a, usePos, depth))
		}
		ell := ""
		if x.Ellipsis.IsValid() {
			ell = "..."
		}
		return n.expr(x.Fun, usePos, depth) + "(" + strings.Join(args, ", ") + ell + ")"
	case *ast.UnaryExpr:
		return x.Op.String() + n.expr(x.X, usePos, depth)
	case *ast.BinaryExpr:
		return "(" + n.expr(x.X, usePos, depth) + " " + x.Op.String() + " " + n.expr(x.Y, usePos, depth) + ")"
	case *ast.IndexExpr:
		return n.expr(x.X, usePos, depth) + "[" + n.expr(x.Index, usePos, depth) + "]"
	case *ast.StarExpr:
		return "*" + n.expr(x.X, usePos, depth)
	case *ast.TypeAssertExpr:
		return n.expr(x.X, usePos, depth) + ".(" + Str(x.Type) + ")"
	case *ast.SliceExpr:
		return n.expr(x.X, usePos, depth) + "[" + n.expr(x.Low, usePos, depth) + ":" + n.expr(x.High, usePos, depth) + "]"
	case *ast.CompositeLit:
		var els []string
		for _, el := range x.Elts {
			if kv, ok := el.(*ast.KeyValueExpr); ok {
				els = append(els, Str(kv.Key)+": "+n.expr(kv.Value, usePos, depth))
			} else {
				els = append(els, n.expr(el, usePos, depth))
			}
		}
		return Str(x.Type) + "{" + strings.Join(els, ", ") + "}"
	case *ast.FuncLit:
		return "func{…}"
	case *ast.KeyValueExpr:
		return Str(x.Key) + ": " + n.expr(x.Value, usePos, depth)
	}
	return Str(e)
}

func (n *normer) ident(id *ast.Ident, usePos token.Pos, depth int) string {
	o := ObjOf(n.info, id)
	v, ok := o.(*types.Var)
	if !ok || v.IsField() {
		return id.Name
	}
	if v.Pkg() != nil && v.Parent() == v.Pkg().Scope() {
		return id.Name // package-level variable
	}
	// a variable of a new helper reached from the rule's function: parameters stand for their (unique)
	// argument, locals are resolved inside the helper
	top := n.fn
	if n.root != nil {
		top = n.root
	}
	if owner := ctxFn(top, v.Pos()); owner != nil && owner.Root() != top.Root() && top.P != nil {
		if depth > 6 {
			return "φ(" + id.Name + ")"
		}
		h := owner.Root()
		if _, isParam := IsParam(h, v); isParam {
			binds := top.P.HelperBinds(top)[v]
			if len(binds) != 1 {
				return "φ(" + id.Name + ")"
			}
			b := binds[0]
			m := &normer{fn: b.Caller, info: b.Caller.Info()}
			if b.Caller.Root() != top.Root() {
				m.root = top
			}
			return m.expr(b.Arg, b.Call.Pos(), depth+1)
		}
		if owner == n.fn {
			return n.identLocal(id, v, usePos, depth, "")
		}
		m := &normer{fn: owner, info: owner.Info(), root: top}
		return m.identLocal(id, v, usePos, depth, "")
	}
	root := n.fn
	base := ""
	if i, isParam := IsParam(root, v); isParam {
		if i < 0 {
			base = "$r"
		} else {
			base = fmt.Sprintf("$p%d", i)
		}
	} else if root.Parent != nil {
		// captured variable of an enclosing function
		for q := root.Parent; q != nil; q = q.Parent {
			if i, isParam := IsParam(q, v); isParam {
				if i < 0 {
					return "$R"
				}
				return fmt.Sprintf("$P%d", i)
			}
		}
	}
	return n.identLocal(id, v, usePos, depth, base)
}

// identLocal resolves a local of n.fn by its latest straight-line definition before the use.
func (n *normer) identLocal(id *ast.Ident, v *types.Var, usePos token.Pos, depth int, base string) string {
	if depth > 6 {
		return "φ(" + id.Name + ")"
	}
	// latest definition before the use
	var best ast.Expr
	var bestPos token.Pos
	ambiguous := false
	consider := func(stmt ast.Stmt, topLevel bool) {
		Assigns(stmt, func(lhs, rhs ast.Expr, tok token.Token) {
			lid, ok := Unparen(lhs).(*ast.Ident)
			if !ok || ObjOf(n.info, lid) != v {
				return
			}
			// comma-ok forms: v, ok := m[k] / x.(T) / <-ch bind v to the expression itself
			if as, isAs := stmt.(*ast.AssignStmt); isAs && rhs == nil && len(as.Lhs) == 2 && len(as.Rhs) == 1 && as.Lhs[0] == lhs {
				switch Unparen(as.Rhs[0]).(type) {
				case *ast.IndexExpr, *ast.TypeAssertExpr, *ast.UnaryExpr:
					rhs = as.Rhs[0]
				}
			}
			// x, y := h(…) with a new helper that has a single reachable return: x is its first result, …
			if as, isAs := stmt.(*ast.AssignStmt); isAs && rhs == nil && len(as.Rhs) == 1 && len(as.Lhs) >= 2 && n.fn.P != nil {
				if call, isCall := Unparen(as.Rhs[0]).(*ast.CallExpr); isCall {
					if h := n.fn.P.NewHelperCallee(n.fn, call); h != nil && h.Body != nil {
						idx := -1
						for i, l := range as.Lhs {
							if l == lhs {
								idx = i
							}
						}
						var only *ast.ReturnStmt
						count := 0
						for _, b := range n.fn.P.CFG(h).Blocks {
							if r := b.Return(); r != nil && b.Live {
								only = r
								count++
							}
						}
						if idx >= 0 && count == 1 && len(only.Results) == len(as.Lhs) {
							rhs = only.Results[idx]
						}
					}
				}
			}
			if stmt.End() > usePos && stmt.Pos() <= usePos {
				return // the use is inside this very statement (self reference): previous value
			}
			if stmt.Pos() > usePos {
				return
			}
			if !topLevel {
				ambiguous = true
				return
			}
			if stmt.Pos() > bestPos {
				best, bestPos = rhs, stmt.Pos()
				if rhs == nil {
					best = nil
				}
			}
		})
		if ds, ok := stmt.(*ast.DeclStmt); ok {
			if gd, ok := ds.Decl.(*ast.GenDecl); ok {
				for _, sp := range gd.Specs {
					if vs, ok := sp.(*ast.ValueSpec); ok {
						Assigns(vs, func(lhs, rhs ast.Expr, tok token.Token) {
							lid, ok := lhs.(*ast.Ident)
							if ok && ObjOf(n.info, lid) == v && vs.Pos() < usePos && vs.Pos() > bestPos {
								best, bestPos = rhs, vs.Pos()
							}
						})
					}
				}
			}
		}
	}
	if n.fn.Body != nil {
		top := map[ast.Stmt]bool{}
		// the statement lists that enclose the use: the function body and every nested block / case body
		// around it.  A statement of one of them that ends before the use dominates the use.
		var lists [][]ast.Stmt
		ast.Inspect(n.fn.Body, func(m ast.Node) bool {
			if m == nil || m.Pos() > usePos || usePos >= m.End() {
				return m == nil || false
			}
			switch b := m.(type) {
			case *ast.BlockStmt:
				if b != n.fn.Body {
					lists = append(lists, b.List)
				}
			case *ast.CaseClause:
				lists = append(lists, b.Body)
			case *ast.CommClause:
				lists = append(lists, b.Body)
			}
			return true
		})
		for _, l := range lists {
			for _, s := range l {
				if s.End() <= usePos {
					top[s] = true
					consider(s, true)
				}
			}
		}
		for _, s := range n.fn.Body.List {
			top[s] = true
			consider(s, true)
			// Init statements of top-level if/switch that enclose the use
			switch st := s.(type) {
			case *ast.IfStmt:
				if st.Init != nil && st.Pos() <= usePos && usePos < st.End() {
					consider(st.Init, true)
				}
			case *ast.SwitchStmt:
				if st.Init != nil && st.Pos() <= usePos && usePos < st.End() {
					consider(st.Init, true)
				}
			}
		}
		// any other assignment to v before the use makes the value ambiguous
		ast.Inspect(n.fn.Body, func(m ast.Node) bool {
			st, ok := m.(ast.Stmt)
			if !ok || top[st] {
				return true
			}
			switch m.(type) {
			case *ast.AssignStmt, *ast.IncDecStmt, *ast.RangeStmt:
				if is, isIf := enclosingInit(n.fn, st); is && isIf {
					return true
				}
				consider(st, false)
			}
			return true
		})
	}
	if ambiguous {
		return "φ(" + id.Name + ")"
	}
	if bestPos.IsValid() {
		if best == nil {
			return "φ(" + id.Name + ")"
		}
		return n.expr(best, bestPos, depth+1)
	}
	if base != "" {
		return base
	}
	return "φ(" + id.Name + ")"
}

// enclosingInit reports whether st is the Init of a top-level if/switch statement of fn.
func enclosingInit(fn *Fn, st ast.Stmt) (bool, bool) {
	for _, s := range fn.Body.List {
		switch t := s.(type) {
		case *ast.IfStmt:
			if t.Init == st {
				return true, true
			}
		case *ast.SwitchStmt:
			if t.Init == st {
				return true, true
			}
		}
	}
	return false, false
}
