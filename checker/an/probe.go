package an

import (
	"go/ast"
	"go/token"
	"go/types"
	"regexp"
	"sort"
	"strings"
)

// Probe runs the explorer over fn and records the abstract states in which each target node is
// reached (just before it executes).
type Probe struct {
	X  *Explorer
	At map[ast.Node][]*State
}

func (p *Prog) ProbeFn(fn *Fn, targets []ast.Node, hooks Hooks) *Probe {
	pr := &Probe{At: map[ast.Node][]*State{}}
	want := map[ast.Node]bool{}
	for _, t := range targets {
		want[t] = true
	}
	userCall, userStmt := hooks.Call, hooks.Stmt
	hooks.Call = func(x *Explorer, call *ast.CallExpr, st *State) {
		if want[call] {
			pr.At[call] = append(pr.At[call], st.Clone())
		}
		if userCall != nil {
			userCall(x, call, st)
		}
	}
	hooks.Stmt = func(x *Explorer, n ast.Node, st *State) {
		if want[n] {
			pr.At[n] = append(pr.At[n], st.Clone())
		}
		if userStmt != nil {
			userStmt(x, n, st)
		}
	}
	pr.X = p.NewExplorer(fn, hooks)
	pr.X.Run(nil)
	return pr
}

var offsetRe = regexp.MustCompile(`·-?\d+`)
var assertRe = regexp.MustCompile(`\.\(\*?[\w.]+\)`)

// PlainKey strips the declaration offsets — and the type assertions that appear when a local such as
// `node := node.(*IfNode)` is rendered by its definition — from a fact key.
func PlainKey(k string) string {
	return assertRe.ReplaceAllString(offsetRe.ReplaceAllString(k, ""), "")
}

// FactIs reports whether st holds fact `plain` (offset-free key form, e.g. "err == nil",
// "s.developmentMode", "cacheAfterParsing") with the given truth value.
func FactIs(st *State, plain string, val bool) bool {
	alt := plain
	if i := strings.Index(plain, " == "); i >= 0 && !strings.ContainsAny(plain, "()&|") {
		alt = plain[i+4:] + " == " + plain[:i] // operands of == are ordered by their internal keys
	}
	for k, v := range st.Facts {
		if pk := PlainKey(k); (pk == plain || pk == alt) && v == val {
			return true
		}
	}
	return false
}

// Facts lists the facts of a state in readable form.
func Facts(st *State) []string {
	var out []string
	for k, v := range st.Facts {
		if v {
			out = append(out, PlainKey(k))
		} else {
			out = append(out, "!("+PlainKey(k)+")")
		}
	}
	sort.Strings(out)
	return out
}

// CallsIn returns the calls in f's own body (not in nested literals) whose callee name matches one of names.
func (p *Prog) CallsIn(f *Fn, names ...string) []*ast.CallExpr {
	var out []*ast.CallExpr
	InspectOwn(f, func(n ast.Node) bool {
		if c, ok := n.(*ast.CallExpr); ok && IsCallTo(f.Info(), c, names...) {
			out = append(out, c)
		}
		return true
	})
	return out
}

// CallsDeep is CallsIn including nested function literals.
func (p *Prog) CallsDeep(f *Fn, names ...string) []*ast.CallExpr {
	var out []*ast.CallExpr
	ast.Inspect(f.Body, func(n ast.Node) bool {
		if c, ok := n.(*ast.CallExpr); ok && IsCallTo(f.Info(), c, names...) {
			out = append(out, c)
		}
		return true
	})
	return out
}

// AllCalls returns every call site in the module packages (own bodies incl. literals) to the named callees, with its function.
type Site struct {
	Fn   *Fn
	Call *ast.CallExpr
}

func (p *Prog) AllCalls(names ...string) []Site {
	var out []Site
	for _, f := range p.Units() { // calls inside new helpers are attributed to the units that reach them
		if f.Body == nil {
			continue
		}
		for _, c := range p.CallsIn(f, names...) {
			out = append(out, Site{f, c})
		}
	}
	sort.Slice(out, func(i, j int) bool { return out[i].Call.Pos() < out[j].Call.Pos() })
	return out
}

// LocalDefs returns the expressions assigned to local variable v anywhere in f (including nested
// literals).  A nil entry stands for a definition that is not a single expression (multi-value
// assignment, range, inc/dec, zero value).
func LocalDefs(f *Fn, v types.Object) []ast.Expr {
	var out []ast.Expr
	if v == nil {
		return nil
	}
	owner := ctxFn(f, v.Pos())
	if owner != f && owner != nil {
		// a variable of a new helper reached from f: its parameter bindings count as definitions
		if vv, ok := v.(*types.Var); ok && f.P != nil {
			for _, b := range f.P.HelperBinds(f)[vv] {
				out = append(out, b.Arg)
			}
		}
		f = owner.Root()
	}
	info := f.Info()
	ast.Inspect(f.Body, func(n ast.Node) bool {
		Assigns(n, func(lhs, rhs ast.Expr, _ token.Token) {
			if id, ok := Unparen(lhs).(*ast.Ident); ok && ObjOf(info, id) == v {
				out = append(out, helperResults(f, rhs, 0)...)
			}
		})
		return true
	})
	return out
}

// helperResults: a value defined as the single result of a new helper is defined by what the helper
// returns — the result expressions of its reachable return statements (a `return ""` that only follows
// a call that never returns defines nothing).  Any other expression stands for itself.
func helperResults(f *Fn, e ast.Expr, depth int) []ast.Expr {
	call, ok := Unparen(e).(*ast.CallExpr)
	if !ok || f.P == nil || depth > 3 {
		return []ast.Expr{e}
	}
	h := f.P.NewHelperCallee(f, call)
	if h == nil || h.Sig == nil || h.Sig.Results().Len() != 1 || h.Sig.Results().At(0).Name() != "" {
		return []ast.Expr{e}
	}
	var out []ast.Expr
	for _, b := range f.P.CFG(h).Blocks {
		if !b.Live {
			continue
		}
		if r := b.Return(); r != nil && len(r.Results) == 1 {
			out = append(out, helperResults(h, r.Results[0], depth+1)...)
		}
	}
	if len(out) == 0 {
		return []ast.Expr{e}
	}
	return out
}

// MultiDef describes "lhs_i of a multi-value assignment from call": returns the call and the result index
// for every definition of v of that shape.
type MultiDef struct {
	Call  *ast.CallExpr
	Index int
}

func LocalMultiDefs(f *Fn, v types.Object) []MultiDef {
	var out []MultiDef
	if v != nil {
		if owner := ctxFn(f, v.Pos()); owner != nil && owner != f {
			f = owner.Root()
		}
	}
	info := f.Info()
	ast.Inspect(f.Body, func(n ast.Node) bool {
		as, ok := n.(*ast.AssignStmt)
		if !ok || len(as.Rhs) != 1 || len(as.Lhs) < 2 {
			return true
		}
		call, ok := Unparen(as.Rhs[0]).(*ast.CallExpr)
		if !ok {
			return true
		}
		for i, l := range as.Lhs {
			if id, ok := Unparen(l).(*ast.Ident); ok && ObjOf(info, id) == v {
				out = append(out, MultiDef{call, i})
			}
		}
		return true
	})
	return out
}

// IsParam reports whether object o is a parameter (or receiver) of f; it returns the index (-1 for receiver).
func IsParam(f *Fn, o types.Object) (int, bool) {
	if f.Sig == nil || o == nil {
		return 0, false
	}
	for i := 0; i < f.Sig.Params().Len(); i++ {
		if f.Sig.Params().At(i) == o {
			return i, true
		}
	}
	if f.Sig.Recv() != nil && f.Sig.Recv() == o {
		return -1, true
	}
	return 0, false
}

// Param returns the i-th parameter object of f.
func Param(f *Fn, i int) *types.Var {
	if f.Sig == nil || i >= f.Sig.Params().Len() {
		return nil
	}
	return f.Sig.Params().At(i)
}

// ParamByName finds a parameter by name.
func ParamByName(f *Fn, name string) *types.Var {
	if f.Sig == nil {
		return nil
	}
	for i := 0; i < f.Sig.Params().Len(); i++ {
		if f.Sig.Params().At(i).Name() == name {
			return f.Sig.Params().At(i)
		}
	}
	return nil
}

// EnclosingStmts returns the chain of statements enclosing node n within f's body (outermost first).
func EnclosingStmts(f *Fn, target ast.Node) []ast.Node {
	if owner := ctxFn(f, target.Pos()); owner != nil && owner != f {
		f = owner
	}
	var path, best []ast.Node
	var walk func(n ast.Node) bool
	walk = func(n ast.Node) bool {
		if n == nil {
			return false
		}
		if n == target {
			best = append([]ast.Node{}, path...)
			return true
		}
		if n.Pos() > target.Pos() || n.End() < target.End() {
			return false
		}
		path = append(path, n)
		found := false
		ast.Inspect(n, func(m ast.Node) bool {
			if found || m == nil || m == n {
				return !found
			}
			if walk(m) {
				found = true
			}
			return false
		})
		path = path[:len(path)-1]
		return found
	}
	walk(f.Body)
	return best
}

// HasWord: convenience for matching readable fact lists.
func HasWord(list []string, w string) bool {
	for _, s := range list {
		if strings.Contains(s, w) {
			return true
		}
	}
	return false
}
