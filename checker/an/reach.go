package an

import (
	"go/ast"
	"go/types"
	"sort"
)

// Callees returns the module functions f may transfer control to, over-approximated:
// static callees, every module implementation of a called interface method, every function
// literal lexically inside f, every module function referenced as a value, and — when f refers
// to a package-level variable — the function literals in that variable's initialiser and in the
// init functions that assign it.
func (p *Prog) Callees(f *Fn) []*Fn {
	if p.callees == nil {
		p.callees = map[*Fn][]*Fn{}
	}
	if c, ok := p.callees[f]; ok {
		return c
	}
	set := map[*Fn]bool{}
	for _, l := range f.Lits {
		set[l] = true
	}
	info := f.Info()
	if f.Body != nil {
		ast.Inspect(f.Body, func(n ast.Node) bool {
			switch x := n.(type) {
			case *ast.CallExpr:
				if callee := Callee(info, x); callee != nil {
					if fn := p.FnByObj[callee]; fn != nil {
						set[fn] = true
					} else if sig, _ := callee.Type().(*types.Signature); sig != nil && sig.Recv() != nil {
						if _, isIface := sig.Recv().Type().Underlying().(*types.Interface); isIface {
							for _, im := range p.Implementations(callee) {
								set[im] = true
							}
						}
					}
				}
			case *ast.Ident:
				switch o := info.Uses[x].(type) {
				case *types.Func:
					if fn := p.FnByObj[o]; fn != nil {
						set[fn] = true
					}
				case *types.Var:
					if o.Parent() != nil && o.Pkg() != nil && o.Parent() == o.Pkg().Scope() {
						for _, g := range p.varFuncs(o) {
							set[g] = true
						}
					}
				}
			}
			return true
		})
	}
	var out []*Fn
	for g := range set {
		out = append(out, g)
	}
	sort.Slice(out, func(i, j int) bool { return out[i].Name < out[j].Name })
	p.callees[f] = out
	return out
}

// varFuncs: function literals stored in a package-level variable (initialiser or init assignment).
func (p *Prog) varFuncs(v *types.Var) []*Fn {
	var out []*Fn
	for _, pk := range p.Pkgs {
		if pk.Types != v.Pkg() {
			continue
		}
		prefix := p.pkgPrefix(pk) + "var:" + v.Name()
		for _, f := range p.Fns {
			if f.Lit != nil && len(f.Name) > len(prefix) && f.Name[:len(prefix)] == prefix && (f.Name[len(prefix)] == '$' || f.Name[len(prefix)] == '/') {
				out = append(out, f)
			}
		}
		// assignments in init functions
		for _, f := range p.Fns {
			if f.Decl == nil || f.Decl.Name.Name != "init" || f.Decl.Recv != nil || f.Pkg != pk {
				continue
			}
			assigns := false
			InspectOwn(f, func(n ast.Node) bool {
				if as, ok := n.(*ast.AssignStmt); ok {
					for _, l := range as.Lhs {
						if id := RootIdent(l); id != nil && ObjOf(pk.TypesInfo, id) == v {
							assigns = true
						}
					}
				}
				return true
			})
			if assigns {
				out = append(out, f)
				out = append(out, f.Lits...)
			}
		}
	}
	return out
}

// Reach computes the set of module functions reachable from the roots.
func (p *Prog) Reach(roots ...*Fn) map[*Fn]bool {
	seen := map[*Fn]bool{}
	var work []*Fn
	for _, r := range roots {
		if r != nil && !seen[r] {
			seen[r] = true
			work = append(work, r)
		}
	}
	for len(work) > 0 {
		f := work[len(work)-1]
		work = work[:len(work)-1]
		for _, g := range p.Callees(f) {
			if !seen[g] {
				seen[g] = true
				work = append(work, g)
			}
		}
	}
	return seen
}

// Eval returns the functions reachable from (*Template).Execute, plus every method of a module
// type implementing Ranger or Renderer (they are invoked through interfaces obtained by reflection).
func (p *Prog) Eval() map[*Fn]bool {
	roots := []*Fn{p.Fn("(*Template).Execute")}
	for _, in := range []string{"Ranger", "Renderer"} {
		iface := p.Iface("", in)
		if iface == nil {
			continue
		}
		for i := 0; i < iface.NumMethods(); i++ {
			roots = append(roots, p.Implementations(iface.Method(i))...)
		}
	}
	// the Go-side API: exported methods of Runtime and Arguments are called from user functions while a template executes
	for _, f := range p.Fns {
		if f.Pkg == p.Jet && f.Obj != nil && f.Obj.Exported() && f.Sig != nil && f.Sig.Recv() != nil {
			if n := NamedOf(f.Sig.Recv().Type()); n != nil && (n.Obj().Name() == "Runtime" || n.Obj().Name() == "Arguments") {
				roots = append(roots, f)
			}
		}
	}
	return p.Reach(roots...)
}

// Parse returns the functions reachable from (*Set).parse.
func (p *Prog) Parse() map[*Fn]bool {
	return p.Reach(p.Fn("(*Set).parse"))
}

// SortedFns returns the members of a set ordered by name.
func SortedFns(set map[*Fn]bool) []*Fn {
	var out []*Fn
	for f := range set {
		if f.P != nil && f.P.CalledHelper(f.Root()) {
			continue // a new helper is analysed through its callers (see known.go)
		}
		out = append(out, f)
	}
	sort.Slice(out, func(i, j int) bool { return out[i].Name < out[j].Name })
	return out
}

// FnsReaching returns the module functions from which a call to one of the named callees
// (CalleeName form) is reachable through the over-approximated call graph, including the
// functions that contain such a call directly.
func (p *Prog) FnsReaching(names ...string) map[*Fn]bool {
	direct := map[*Fn]bool{}
	for _, f := range p.Fns {
		if f.Body == nil {
			continue
		}
		if len(p.CallsIn(f, names...)) > 0 {
			direct[f] = true
		}
	}
	out := map[*Fn]bool{}
	for f := range direct {
		out[f] = true
	}
	for changed := true; changed; {
		changed = false
		for _, f := range p.Fns {
			if out[f] || f.Body == nil {
				continue
			}
			for _, g := range p.Callees(f) {
				if out[g] {
					out[f] = true
					changed = true
					break
				}
			}
		}
	}
	return out
}

// FnsReachingExcept is FnsReaching with barrier functions: a path through one of them does not count
// (the barriers themselves are not in the result unless they call a named callee directly... they are
// never added).
func (p *Prog) FnsReachingExcept(barrier map[*Fn]bool, names ...string) map[*Fn]bool {
	out := map[*Fn]bool{}
	for _, f := range p.Fns {
		if f.Body == nil || barrier[f] {
			continue
		}
		if len(p.CallsIn(f, names...)) > 0 {
			out[f] = true
		}
	}
	for changed := true; changed; {
		changed = false
		for _, f := range p.Fns {
			if out[f] || f.Body == nil || barrier[f] {
				continue
			}
			for _, g := range p.Callees(f) {
				if out[g] && !barrier[g] {
					out[f] = true
					changed = true
					break
				}
			}
		}
	}
	return out
}
