package an

import (
	"encoding/json"
	"fmt"
	"go/token"
	"os"
	"path/filepath"
	"sort"
	"strings"
)

type Status string

const (
	Discharged Status = "discharged"
	Violated   Status = "violated"
	Undecided  Status = "undecided"
	Vacuous    Status = "vacuous"
	AnchorLost Status = "unresolved-anchor"
	Known      Status = "known-finding"
)

// Ob is one obligation: a rule applied to one construct of the source.
type Ob struct {
	Rule    string   `json:"rule"`
	Key     string   `json:"key"` // rule/function/construct — never a line number
	Pos     string   `json:"pos"`
	Status  Status   `json:"status"`
	Msg     string   `json:"msg"`
	Witness []string `json:"witness,omitempty"`
}

type Count struct {
	Rule      string `json:"rule"`
	What      string `json:"what"`
	Measured  int    `json:"measured"`
	Confirmed int    `json:"confirmed_by_hand_min"`
}

// Ctx collects the obligations of one property run.
type Ctx struct {
	P    *Prog
	Prop string
	Tier string

	Obs    []*Ob
	Counts []*Count
	Notes  []string

	FnsAnalysed map[string]bool
	CallSites   int
	States      int

	keys map[string]int
}

func NewCtx(p *Prog, prop, tier string) *Ctx {
	return &Ctx{P: p, Prop: prop, Tier: tier, FnsAnalysed: map[string]bool{}, keys: map[string]int{}}
}

func (c *Ctx) add(rule, construct string, pos token.Pos, st Status, msg string, witness []string) *Ob {
	key := rule + "/" + construct
	c.keys[key]++
	if n := c.keys[key]; n > 1 {
		key = fmt.Sprintf("%s#%d", key, n)
	}
	ob := &Ob{Rule: rule, Key: key, Pos: c.P.RelPos(pos), Status: st, Msg: msg, Witness: witness}
	c.Obs = append(c.Obs, ob)
	return ob
}

func (c *Ctx) OK(rule, construct string, pos token.Pos, format string, args ...interface{}) {
	c.add(rule, construct, pos, Discharged, fmt.Sprintf(format, args...), nil)
}

func (c *Ctx) Bad(rule, construct string, pos token.Pos, witness []string, format string, args ...interface{}) {
	c.add(rule, construct, pos, Violated, fmt.Sprintf(format, args...), witness)
}

func (c *Ctx) Undecided(rule, construct string, pos token.Pos, format string, args ...interface{}) {
	c.add(rule, construct, pos, Undecided, fmt.Sprintf(format, args...), nil)
}

// Check records OK or Bad depending on cond.
func (c *Ctx) Check(cond bool, rule, construct string, pos token.Pos, okMsg, badMsg string) bool {
	if cond {
		c.OK(rule, construct, pos, "%s", okMsg)
	} else {
		c.Bad(rule, construct, pos, nil, "%s", badMsg)
	}
	return cond
}

// Anchor reports that something a rule is about no longer exists in the source.
func (c *Ctx) Anchor(rule, what string) {
	c.add(rule, "anchor:"+what, token.NoPos, AnchorLost, "the construct this rule inspects was not found: "+what, nil)
}

// Fn resolves a function by name; a missing function is an unresolved anchor (a failure).
func (c *Ctx) Fn(rule, name string) *Fn {
	f := c.P.Fn(name)
	if f == nil {
		c.Anchor(rule, "func "+name)
		return nil
	}
	c.FnsAnalysed[name] = true
	return f
}

// Expect guards a rule against passing vacuously.  confirmed is the number of instances counted by
// hand on the tree the rule was written for; it is recorded next to the measured count in the evidence.
// The rule fails as vacuous when it finds none, or fewer than half of them: a behaviour-preserving
// consolidation (two copies of a fragment merged into one helper) lowers a count without making the
// rule blind, whereas losing more than half of the instances means the rule no longer sees the
// constructs it is about.
func (c *Ctx) Expect(rule, what string, measured, confirmed int) {
	c.Counts = append(c.Counts, &Count{rule, what, measured, confirmed})
	floor := confirmed / 2
	if floor < 1 {
		floor = 1
	}
	if measured < floor {
		c.add(rule, "instances:"+what, token.NoPos, Vacuous,
			fmt.Sprintf("rule matched %d instance(s) of %q; %d were confirmed by hand and fewer than %d means the rule no longer sees its constructs — it would pass vacuously", measured, what, confirmed, floor), nil)
	} else if measured < confirmed {
		c.Note("%s: %d instance(s) of %q (hand-confirmed: %d)", rule, measured, what, confirmed)
	}
}

func (c *Ctx) Note(format string, args ...interface{}) {
	c.Notes = append(c.Notes, fmt.Sprintf(format, args...))
}

// ------------------------------------------------------------------ known findings

type Finding struct {
	Property string `json:"property"`
	Key      string `json:"key"`
	What     string `json:"what"`
	Status   string `json:"status"` // "open" | "fixed"
	Commit   string `json:"commit,omitempty"`
}

func LoadFindings(path string) ([]Finding, error) {
	b, err := os.ReadFile(path)
	if err != nil {
		if os.IsNotExist(err) {
			return nil, nil
		}
		return nil, err
	}
	var f struct {
		Findings []Finding `json:"findings"`
	}
	if err := json.Unmarshal(b, &f); err != nil {
		return nil, err
	}
	return f.Findings, nil
}

// ApplyFindings turns violated obligations listed as open findings into Known ones.
func (c *Ctx) ApplyFindings(fs []Finding) (known []Finding) {
	for _, ob := range c.Obs {
		if ob.Status != Violated {
			continue
		}
		for _, f := range fs {
			if f.Status == "open" && f.Property == c.Prop && f.Key == ob.Key {
				ob.Status = Known
				known = append(known, f)
				break
			}
		}
	}
	return known
}

// Failures returns the obligations that make the check fail.
func (c *Ctx) Failures() []*Ob {
	var out []*Ob
	for _, ob := range c.Obs {
		switch ob.Status {
		case Violated, Undecided, Vacuous, AnchorLost:
			out = append(out, ob)
		}
	}
	return out
}

// ------------------------------------------------------------------ evidence

type Meta struct {
	Technique   string // a few words naming the deciding method (MANIFEST technique)
	Explanation string
	NotDecided  string
	Assumptions []string
	Trusted     []string
}

type SelfTest struct {
	Mutants  int      `json:"mutants"`
	Applied  int      `json:"applied"`
	Killed   int      `json:"killed"`
	Skipped  []string `json:"skipped,omitempty"`
	Survived []string `json:"survived,omitempty"`
	Samples  []string `json:"samples,omitempty"`
}

func (c *Ctx) WriteEvidence(dir string, meta Meta, seed int, wall float64, cmd string, self *SelfTest) error {
	discharged, known := 0, 0
	distinct := map[string]bool{}
	var samples []interface{}
	perRule := map[string]int{}
	for _, ob := range c.Obs {
		switch ob.Status {
		case Discharged:
			discharged++
		case Known:
			known++
		}
		if ob.Pos != "?" {
			distinct[ob.Key] = true
		}
		perRule[ob.Rule]++
	}
	// samples: every failing / known obligation, plus up to three discharged ones per rule
	seen := map[string]int{}
	for _, ob := range c.Obs {
		if ob.Status != Discharged {
			samples = append(samples, ob)
			continue
		}
		if seen[ob.Rule] < 3 {
			seen[ob.Rule]++
			samples = append(samples, ob)
		}
	}
	var fns []string
	for f := range c.FnsAnalysed {
		fns = append(fns, f)
	}
	sort.Strings(fns)
	var rules []string
	for r, n := range perRule {
		rules = append(rules, fmt.Sprintf("%s×%d", r, n))
	}
	sort.Strings(rules)
	cov := map[string]interface{}{
		"explanation":         meta.Explanation + "  NOT DECIDED: " + meta.NotDecided,
		"obligations":         len(c.Obs),
		"discharged":          discharged,
		"known_findings":      known,
		"evaluations":         len(c.Obs),
		"distinct_nontrivial": len(distinct),
		"rule": "one obligation per (rule, construct) pair discovered in /repo's current source; an obligation is non-trivial when its construct " +
			"was located in the source (it has a file:line); distinct = distinct obligation keys",
		"samples":             samples,
		"obligations_by_rule": rules,
		"instance_counts":     c.Counts,
		"functions_analysed":  fns,
		"call_sites":          c.CallSites,
		"states_explored":     c.States,
		"packages":            len(c.P.Pkgs),
		"checker_cmd":         cmd,
		"trusted_base":        meta.Trusted,
		"notes":               c.Notes,
		"exhaustive":          false,
	}
	if self != nil {
		cov["liveness_selftest"] = self
	}
	ev := map[string]interface{}{
		"property_id": c.Prop,
		"tier":        c.Tier,
		"seed":        seed,
		"level":       "other",
		"coverage":    cov,
		"assumptions": meta.Assumptions,
		"wall_s":      wall,
		"violations":  len(c.Failures()),
	}
	b, err := json.MarshalIndent(ev, "", " ")
	if err != nil {
		return err
	}
	if err := os.MkdirAll(dir, 0o755); err != nil {
		return err
	}
	return os.WriteFile(filepath.Join(dir, c.Prop+".json"), append(b, '\n'), 0o644)
}

// WriteReplay writes one replay file per failing obligation and returns the paths.
func (c *Ctx) WriteReplay(dir string) (map[*Ob]string, error) {
	out := map[*Ob]string{}
	if err := os.MkdirAll(dir, 0o755); err != nil {
		return nil, err
	}
	// remove stale replay files of this property
	old, _ := filepath.Glob(filepath.Join(dir, c.Prop+"-*.json"))
	for _, f := range old {
		os.Remove(f)
	}
	for i, ob := range c.Failures() {
		name := fmt.Sprintf("%s-%s-%d.json", c.Prop, strings.NewReplacer("/", "_", " ", "_").Replace(ob.Rule), i+1)
		path := filepath.Join(dir, name)
		b, _ := json.MarshalIndent(map[string]interface{}{
			"property": c.Prop, "obligation": ob,
			"how_to_replay": "./check " + c.Prop + " --replay " + path + "  (re-analyses /repo and reports whether this obligation key is still violated)",
		}, "", " ")
		if err := os.WriteFile(path, append(b, '\n'), 0o644); err != nil {
			return nil, err
		}
		out[ob] = path
	}
	return out, nil
}
