package an

import (
	"go/ast"
	"go/token"
	"go/types"

	"golang.org/x/tools/go/cfg"
)

// Splicing makes the explorer transparent for *new helpers* (declared functions the rules have never
// seen, see known.go): a statement-level call `h(args)`, `x := h(args)`, `x = h(args)` or
// `return h(args)` to such a helper is replaced, in a private copy of the caller's control-flow graph,
// by parameter bindings `p := arg`, the helper's own blocks, and at each of its returns an assignment
// of the results to the caller's targets followed by a jump to the continuation.  A path rule written
// for "the range arm of executeList" therefore sees the same events in the same order after that arm
// was moved into a method.  Helpers that defer, start goroutines, recover, are variadic or recursive
// are not spliced (they stay opaque calls, as any unknown callee is).  On the tree the rules were
// written for nothing is spliced.

const maxSpliceDepth = 4

type spliced struct {
	g       *cfg.CFG
	fns     []*Fn                     // root first, then every helper spliced in
	frame   map[*cfg.Block]*Fn        // the function a block's statements belong to
	binds   map[*types.Var][]ast.Expr // synthetic definitions of helper parameters (one per splice site)
	results map[*types.Var]bool       // named results of spliced helpers (implicitly zero-initialised)
}

func (p *Prog) spliceable(caller *Fn, call *ast.CallExpr, stack []*Fn) *Fn {
	h := p.NewHelperCallee(caller, call)
	if h == nil || h.Sig == nil || h.Sig.Variadic() || len(stack) >= maxSpliceDepth {
		return nil
	}
	for _, s := range stack {
		if s == h {
			return nil
		}
	}
	if len(call.Args) != h.Sig.Params().Len() {
		return nil // f(g()) with a multi-value g
	}
	ok := true
	InspectBody(h, func(n ast.Node) bool {
		switch v := n.(type) {
		case *ast.DeferStmt, *ast.GoStmt, *ast.SelectStmt, *ast.LabeledStmt:
			ok = false
		case *ast.BranchStmt:
			if v.Tok == token.GOTO {
				ok = false
			}
		case *ast.CallExpr:
			if IsCallTo(h.Info(), v, "builtin.recover") {
				ok = false
			}
		}
		return ok
	})
	if !ok {
		return nil
	}
	return h
}

// callSite classifies a CFG node as a statement-level call: returns the call and how its results are used.
func callSite(n ast.Node) (call *ast.CallExpr, assign *ast.AssignStmt, ret *ast.ReturnStmt) {
	switch s := n.(type) {
	case *ast.ExprStmt:
		if c, ok := Unparen(s.X).(*ast.CallExpr); ok {
			return c, nil, nil
		}
	case *ast.AssignStmt:
		if len(s.Rhs) == 1 && (s.Tok == token.ASSIGN || s.Tok == token.DEFINE) {
			if c, ok := Unparen(s.Rhs[0]).(*ast.CallExpr); ok {
				return c, s, nil
			}
		}
	case *ast.ReturnStmt:
		if len(s.Results) == 1 {
			if c, ok := Unparen(s.Results[0]).(*ast.CallExpr); ok {
				return c, nil, s
			}
		}
	}
	return nil, nil, nil
}

// Spliced returns the control-flow graph of root with its new helpers spliced in (the plain CFG when
// there are none).
func (p *Prog) Spliced(root *Fn) *spliced {
	if p.splices == nil {
		p.splices = map[*Fn]*spliced{}
	}
	if s, ok := p.splices[root]; ok {
		return s
	}
	base := p.CFG(root)
	sp := &spliced{g: base, fns: []*Fn{root}, frame: map[*cfg.Block]*Fn{}, binds: map[*types.Var][]ast.Expr{}, results: map[*types.Var]bool{}}
	p.splices[root] = sp
	// quick exit: no call to a new helper anywhere in root
	any := false
	InspectBody(root, func(n ast.Node) bool {
		if c, ok := n.(*ast.CallExpr); ok && p.NewHelperCallee(root, c) != nil {
			any = true
		}
		return !any
	})
	if !any {
		for _, b := range base.Blocks {
			sp.frame[b] = root
		}
		return sp
	}
	var blocks []*cfg.Block
	stackOf := map[*cfg.Block][]*Fn{}
	newBlock := func(kind cfg.BlockKind, stmt ast.Stmt, live bool) *cfg.Block {
		b := &cfg.Block{Index: int32(len(blocks)), Kind: kind, Stmt: stmt, Live: live}
		blocks = append(blocks, b)
		return b
	}
	// clone copies the blocks of g; returns the mapping old→new
	clone := func(g *cfg.CFG, fn *Fn, stack []*Fn) map[*cfg.Block]*cfg.Block {
		m := map[*cfg.Block]*cfg.Block{}
		for _, b := range g.Blocks {
			nb := newBlock(b.Kind, b.Stmt, b.Live)
			nb.Nodes = append([]ast.Node(nil), b.Nodes...)
			m[b] = nb
			sp.frame[nb] = fn
			stackOf[nb] = stack
		}
		for _, b := range g.Blocks {
			for _, s := range b.Succs {
				m[b].Succs = append(m[b].Succs, m[s])
			}
		}
		return m
	}
	rootMap := clone(base, root, []*Fn{root})
	entry := rootMap[base.Blocks[0]]
	seenFn := map[*Fn]bool{root: true}
	// process blocks until no spliceable call is left (new blocks are appended and processed in turn)
	for bi := 0; bi < len(blocks); bi++ {
		b := blocks[bi]
		fn, stack := sp.frame[b], stackOf[b]
		for i, n := range b.Nodes {
			call, assign, ret := callSite(n)
			// the whole branch condition is a helper call: `if h(x) {` / `if !h(x) {` / `for h(x) {`
			condSite, negated := false, false
			if call == nil && i == len(b.Nodes)-1 && len(b.Succs) == 2 && b.Kind != cfg.KindRangeLoop {
				if e, ok := n.(ast.Expr); ok {
					ce := Unparen(e)
					if u, ok := ce.(*ast.UnaryExpr); ok && u.Op == token.NOT {
						negated, ce = true, Unparen(u.X)
					}
					if cc, ok := ce.(*ast.CallExpr); ok {
						if tv, ok := fn.Info().Types[cc]; ok && tv.Type != nil {
							if bt, ok := tv.Type.Underlying().(*types.Basic); ok && bt.Info()&types.IsBoolean != 0 && !isCaseOfTaggedSwitch(fn, e) {
								call, condSite = cc, true
							}
						}
					}
				}
			}
			if call == nil {
				continue
			}
			h := p.spliceable(fn, call, stack)
			if h == nil {
				continue
			}
			if !seenFn[h] {
				seenFn[h] = true
				sp.fns = append(sp.fns, h)
			}
			// continuation block: the nodes after the call, with b's successors
			var cont *cfg.Block
			condSuccs := b.Succs
			if negated {
				condSuccs = []*cfg.Block{b.Succs[1], b.Succs[0]}
			}
			if !condSite {
				cont = newBlock(b.Kind, b.Stmt, b.Live)
				cont.Nodes = append([]ast.Node(nil), b.Nodes[i+1:]...)
				cont.Succs = b.Succs
				sp.frame[cont], stackOf[cont] = fn, stack
			}
			// bindings: receiver and parameters
			pre := append([]ast.Node(nil), b.Nodes[:i]...)
			bind := func(field *ast.Field, idx int, arg ast.Expr) {
				var name *ast.Ident
				if field != nil && idx < len(field.Names) {
					name = field.Names[idx]
				}
				if name == nil || name.Name == "_" {
					pre = append(pre, arg) // evaluated for its effects only
					return
				}
				pre = append(pre, &ast.AssignStmt{Lhs: []ast.Expr{name}, Tok: token.DEFINE, TokPos: arg.Pos(), Rhs: []ast.Expr{arg}})
				if v, ok := h.Info().Defs[name].(*types.Var); ok {
					sp.binds[v] = append(sp.binds[v], arg)
				}
			}
			if h.Decl.Recv != nil && len(h.Decl.Recv.List) == 1 {
				if sel, ok := Unparen(call.Fun).(*ast.SelectorExpr); ok {
					bind(h.Decl.Recv.List[0], 0, sel.X)
				}
			}
			ai := 0
			for _, field := range h.Decl.Type.Params.List {
				if len(field.Names) == 0 {
					pre = append(pre, call.Args[ai])
					ai++
					continue
				}
				for k := range field.Names {
					bind(field, k, call.Args[ai])
					ai++
				}
			}
			// named results are zero-initialised
			var resultIdents []ast.Expr
			if h.Decl.Type.Results != nil {
				for _, field := range h.Decl.Type.Results.List {
					for _, name := range field.Names {
						resultIdents = append(resultIdents, name)
						if name.Name != "_" {
							pre = append(pre, &ast.ValueSpec{Names: []*ast.Ident{name}, Type: field.Type})
							if v, ok := h.Info().Defs[name].(*types.Var); ok {
								sp.results[v] = true
							}
						}
					}
				}
			}
			hm := clone(p.CFG(h), h, append(append([]*Fn(nil), stack...), h))
			b.Nodes = pre
			b.Succs = []*cfg.Block{hm[p.CFG(h).Blocks[0]]}
			// rewrite the helper's returns
			for _, hb := range p.CFG(h).Blocks {
				nb := hm[hb]
				r := hb.Return()
				if r == nil {
					if len(hb.Succs) == 0 && hb.Live && !endsInNoReturn(p, h, hb) && cont != nil {
						// falls off the end of a function without results
						nb.Succs = []*cfg.Block{cont}
					}
					continue
				}
				results := r.Results
				if len(results) == 0 {
					results = resultIdents
				}
				body := nb.Nodes[:len(nb.Nodes)-1]
				switch {
				case condSite:
					// the returned expression decides the caller's branch
					nb.Nodes = append(body[:len(body):len(body)], results[0])
					nb.Succs = condSuccs
				case ret != nil:
					// `return h(x)`: the helper's results are the caller's (the helper's own return statement
					// stands for the caller's, so that rules probing it still find it)
					if len(r.Results) > 0 {
						body = append(body[:len(body):len(body)], r)
					} else {
						body = append(body[:len(body):len(body)], &ast.ReturnStmt{Return: r.Return, Results: results})
					}
					nb.Nodes = body
					// (cont is unreachable from here; it stays for the nodes after a return, which do not exist)
				case assign != nil && len(results) > 0:
					body = append(body[:len(body):len(body)], &ast.AssignStmt{Lhs: assign.Lhs, Tok: assign.Tok, TokPos: r.Return, Rhs: results})
					nb.Nodes = body
					nb.Succs = []*cfg.Block{cont}
				default:
					nn := body[:len(body):len(body)]
					for _, e := range results {
						nn = append(nn, e)
					}
					nb.Nodes = nn
					nb.Succs = []*cfg.Block{cont}
				}
			}
			break // the rest of b now lives in cont, which is processed later
		}
	}
	sp.g = &cfg.CFG{Blocks: blocks}
	_ = entry
	return sp
}

// endsInNoReturn: the block's last node is a call that never returns (panic, errorf, …).
func endsInNoReturn(p *Prog, f *Fn, b *cfg.Block) bool {
	if len(b.Nodes) == 0 {
		return false
	}
	if es, ok := b.Nodes[len(b.Nodes)-1].(*ast.ExprStmt); ok {
		if c, ok := Unparen(es.X).(*ast.CallExpr); ok {
			return p.CallNeverReturns(f.Info(), c)
		}
	}
	return false
}

// ownerOf returns the spliced function whose declaration contains pos (nil when none).
func (sp *spliced) ownerOf(pos token.Pos) *Fn {
	for _, f := range sp.fns {
		lo, hi := f.Body.Pos(), f.Body.End()
		if f.Decl != nil {
			lo, hi = f.Decl.Pos(), f.Decl.End()
		} else if f.Lit != nil {
			lo, hi = f.Lit.Pos(), f.Lit.End()
		}
		if lo <= pos && pos < hi {
			return f
		}
	}
	return nil
}

// isCaseOfTaggedSwitch: e is a case expression of `switch tag { case e: }` (its CFG condition is tag == e).
func isCaseOfTaggedSwitch(fn *Fn, e ast.Expr) bool {
	found := false
	ast.Inspect(fn.Body, func(n ast.Node) bool {
		if sw, ok := n.(*ast.SwitchStmt); ok && sw.Tag != nil {
			for _, c := range sw.Body.List {
				for _, ce := range c.(*ast.CaseClause).List {
					if ce == e {
						found = true
					}
				}
			}
		}
		return !found
	})
	return found
}

// DumpSpliced renders the spliced graph of fn (debugging aid: jetverif -dump-cfg <fn>).
func (p *Prog) DumpSpliced(fn *Fn) string {
	sp := p.Spliced(fn)
	out := ""
	for _, b := range sp.g.Blocks {
		fr := "?"
		if f := sp.frame[b]; f != nil {
			fr = f.Name
		}
		out += "block " + itoa(int(b.Index)) + " [" + fr + "] kind=" + b.Kind.String() + " live=" + map[bool]string{true: "y", false: "n"}[b.Live] + "\n"
		for _, n := range b.Nodes {
			out += "    " + StmtStr(n) + "\n"
		}
		out += "    ->"
		for _, s := range b.Succs {
			out += " " + itoa(int(s.Index))
		}
		out += "\n"
	}
	return out
}

func itoa(i int) string {
	if i == 0 {
		return "0"
	}
	neg := i < 0
	if neg {
		i = -i
	}
	s := ""
	for i > 0 {
		s = string(rune('0'+i%10)) + s
		i /= 10
	}
	if neg {
		s = "-" + s
	}
	return s
}
