// jetverif decides the structural obligations of one property of /verif/properties.jsonl for
// the current working tree of the repository, by static analysis only.
//
//	jetverif -prop C20 [-tier quick|thorough] [-repo /repo] [-out /verif] [-replay file]
//
// exit 0: every obligation discharged (or listed as an open known finding)
// exit 1: at least one unlisted violation / undecided obligation / unresolved anchor (VIOLATION line printed)
// exit 2: the checker itself could not run (load failure, rule not live in the self-test)
package main

import (
	"encoding/json"
	"flag"
	"fmt"
	"os"
	"os/exec"
	"path/filepath"
	"runtime/debug"
	"sort"
	"strconv"
	"strings"
	"sync"
	"time"

	"jetverif/an"
	"jetverif/rules"
)

func main() {
	prop := flag.String("prop", "", "property id (C01…C20)")
	tier := flag.String("tier", "quick", "quick | thorough")
	repo := flag.String("repo", "/repo", "repository working tree to analyse")
	out := flag.String("out", "/verif", "directory holding evidence/, replay/, known_findings.json")
	replay := flag.String("replay", "", "replay file: re-check and report the status of that obligation")
	findingsPath := flag.String("findings", "", "known-findings file (default <out>/known_findings.json)")
	list := flag.Bool("list", false, "list obligations")
	dumpFns := flag.Bool("dump-fns", false, "print the names of the declared functions of the module (for an/known_fns.txt)")
	dumpCFG := flag.String("dump-cfg", "", "print the (spliced) control-flow graph of the named function and exit")
	meta := flag.Bool("meta", false, "print the rule metadata of all properties as JSON and exit")
	flag.Parse()
	if an.ReferenceDir == "" {
		// the snapshot lives next to the checker (…/bin/jetverif → …/reference), not in the output directory
		if exe, err := os.Executable(); err == nil {
			an.ReferenceDir = filepath.Join(filepath.Dir(filepath.Dir(exe)), "reference")
		}
		if _, err := os.Stat(an.ReferenceDir); err != nil {
			an.ReferenceDir = filepath.Join(*out, "reference")
		}
	}
	if *meta {
		out := map[string]interface{}{}
		for _, id := range rules.IDs() {
			p := rules.Get(id)
			out[id] = map[string]interface{}{"technique": p.Meta.Technique, "explanation": p.Meta.Explanation, "not_decided": p.Meta.NotDecided,
				"assumptions": p.Meta.Assumptions, "mutants": len(p.Mutants)}
		}
		b, _ := json.MarshalIndent(out, "", " ")
		fmt.Println(string(b))
		return
	}
	if *dumpCFG != "" {
		prog, err := an.Load(*repo, nil)
		if err != nil {
			fmt.Fprintf(os.Stderr, "jetverif: %v\n", err)
			os.Exit(2)
		}
		if f := prog.Fn(*dumpCFG); f != nil {
			fmt.Print(prog.DumpSpliced(f))
		} else {
			fmt.Fprintf(os.Stderr, "no function %q\n", *dumpCFG)
		}
		return
	}
	if *dumpFns {
		prog, err := an.Load(*repo, nil)
		if err != nil {
			fmt.Fprintf(os.Stderr, "jetverif: %v\n", err)
			os.Exit(2)
		}
		for _, f := range prog.Fns {
			if f.Decl != nil {
				fmt.Println(f.Name)
				if f.DeclName != "" {
					fmt.Println(f.DeclName)
				}
			}
		}
		return
	}
	if env := os.Getenv("VERIF_TIER"); env != "" && *tier == "quick" && (env == "quick" || env == "thorough") {
		*tier = env
	}
	seed, _ := strconv.Atoi(os.Getenv("VERIF_SEED")) // recorded, unused: the analysis is deterministic

	pr := rules.Get(*prop)
	if pr == nil {
		fmt.Fprintf(os.Stderr, "unknown property %q; known: %s\n", *prop, strings.Join(rules.IDs(), " "))
		os.Exit(2)
	}
	start := time.Now()
	c, err := analyse(pr, *repo, nil, *tier)
	if err != nil {
		fmt.Fprintf(os.Stderr, "jetverif: cannot analyse %s: %v\n", *repo, err)
		os.Exit(2)
	}
	if *findingsPath == "" {
		*findingsPath = filepath.Join(*out, "known_findings.json")
	}
	findings, err := an.LoadFindings(*findingsPath)
	if err != nil {
		fmt.Fprintf(os.Stderr, "jetverif: known_findings.json: %v\n", err)
		os.Exit(2)
	}
	known := c.ApplyFindings(findings)
	fails := c.Failures()

	// liveness self-test (thorough tier, only when the tree itself is clean)
	var self *an.SelfTest
	selfBroken := false
	if *tier == "thorough" && len(fails) == 0 && *replay == "" {
		self = selfTest(pr, c.P, *out, findings)
		selfBroken = len(self.Survived) > 0
	}

	if *replay != "" {
		os.Exit(doReplay(c, *replay))
	}

	cmd := fmt.Sprintf("jetverif -prop %s -tier %s -repo %s", pr.ID, *tier, *repo)
	if err := c.WriteEvidence(filepath.Join(*out, "evidence"), pr.Meta, seed, time.Since(start).Seconds(), cmd, self); err != nil {
		fmt.Fprintf(os.Stderr, "jetverif: writing evidence: %v\n", err)
		os.Exit(2)
	}
	paths, err := c.WriteReplay(filepath.Join(*out, "replay"))
	if err != nil {
		fmt.Fprintf(os.Stderr, "jetverif: writing replay: %v\n", err)
		os.Exit(2)
	}

	nOK := 0
	for _, ob := range c.Obs {
		if ob.Status == an.Discharged {
			nOK++
		}
		if *list {
			fmt.Printf("  [%s] %s  %s  %s\n", ob.Status, ob.Key, ob.Pos, ob.Msg)
		}
	}
	fmt.Printf("%s tier=%s: %d obligations, %d discharged, %d known finding(s), %d failing; %d functions, %d states, %.1fs\n",
		pr.ID, *tier, len(c.Obs), nOK, len(known), len(fails), len(c.FnsAnalysed), c.States, time.Since(start).Seconds())
	for _, k := range known {
		fmt.Printf("KNOWN-FINDING: property=%s %s [%s]\n", k.Property, k.What, k.Key)
	}
	for _, ob := range fails {
		fmt.Printf("%s: %s: %s\n    key=%s status=%s\n", ob.Pos, ob.Rule, ob.Msg, ob.Key, ob.Status)
		for _, w := range ob.Witness {
			fmt.Printf("      %s\n", w)
		}
		fmt.Printf("VIOLATION property=%s replay=%s\n", pr.ID, paths[ob])
	}
	if self != nil {
		fmt.Printf("liveness self-test: %d mutants, %d applied, %d reported, %d skipped\n", self.Mutants, self.Applied, self.Killed, len(self.Skipped))
		for _, s := range self.Survived {
			fmt.Printf("  NOT REPORTED: %s\n", s)
		}
	}
	if len(fails) > 0 {
		os.Exit(1)
	}
	if selfBroken {
		fmt.Fprintln(os.Stderr, "jetverif: a rule did not report a seeded single-site break (rule not live); this is a defect of the checker, not of the repository")
		os.Exit(2)
	}
}

func analyse(pr *rules.Property, repo string, overlay map[string][]byte, tier string) (c *an.Ctx, err error) {
	p, err := an.Load(repo, overlay)
	if err != nil {
		return nil, err
	}
	return analyseProg(pr, p, tier), nil
}

func analyseProg(pr *rules.Property, p *an.Prog, tier string) (c *an.Ctx) {
	c = an.NewCtx(p, pr.ID, tier)
	if len(p.TypeErrors) > 0 {
		// a checker that cannot see the code must not say "holds"
		for i, e := range p.TypeErrors {
			if i >= 5 {
				break
			}
			c.Undecided("type-check", fmt.Sprintf("error#%d", i+1), 0, "the tree does not type-check: %s", e)
		}
		return c
	}
	func() {
		defer func() {
			if r := recover(); r != nil {
				c.Undecided("checker-panic", pr.ID, 0, "analysis panicked: %v\n%s", r, firstLines(string(debug.Stack()), 12))
			}
		}()
		pr.Run(c)
	}()
	return c
}

func firstLines(s string, n int) string {
	l := strings.Split(s, "\n")
	if len(l) > n {
		l = l[:n]
	}
	return strings.Join(l, "\n")
}

func doReplay(c *an.Ctx, path string) int {
	b, err := os.ReadFile(path)
	if err != nil {
		fmt.Fprintln(os.Stderr, err)
		return 2
	}
	var r struct {
		Obligation an.Ob `json:"obligation"`
	}
	if err := json.Unmarshal(b, &r); err != nil {
		fmt.Fprintln(os.Stderr, err)
		return 2
	}
	for _, ob := range c.Obs {
		if ob.Key == r.Obligation.Key {
			fmt.Printf("replay %s: %s at %s: %s\n", ob.Key, ob.Status, ob.Pos, ob.Msg)
			for _, w := range ob.Witness {
				fmt.Printf("      %s\n", w)
			}
			if ob.Status == an.Discharged || ob.Status == an.Known {
				return 0
			}
			fmt.Printf("VIOLATION property=%s replay=%s\n", c.Prop, path)
			return 1
		}
	}
	fmt.Printf("replay: obligation %s no longer exists in the current tree\n", r.Obligation.Key)
	return 0
}

// selfTest applies each mutant through an in-memory overlay and requires the rule to fire.
func selfTest(pr *rules.Property, base *an.Prog, outDir string, findings []an.Finding) *an.SelfTest {
	repo := base.Dir
	type job struct {
		name  string
		rule  string
		files map[string][]byte // nil = could not be applied
		why   string
	}
	var jobs []job
	for _, m := range pr.Mutants {
		j := job{name: m.Name, rule: m.Rule, files: map[string][]byte{}}
		for _, e := range append([]rules.Edit{{File: m.File, Old: m.Old, New: m.New}}, m.More...) {
			cur, ok := j.files[e.File]
			if !ok {
				b, err := os.ReadFile(filepath.Join(repo, e.File))
				if err != nil {
					j.files, j.why = nil, fmt.Sprintf("%s: %v", m.Name, err)
					break
				}
				cur = b
			}
			if strings.Count(string(cur), e.Old) != 1 {
				j.files, j.why = nil, fmt.Sprintf("%s: edit site not found exactly once in %s", m.Name, e.File)
				break
			}
			j.files[e.File] = []byte(strings.Replace(string(cur), e.Old, e.New, 1))
		}
		jobs = append(jobs, j)
	}
	// changes written by independent sub-agents and adopted under <out>/seeded/<PROP>-<k>/ (patch.diff + meta.json)
	seeds, _ := filepath.Glob(filepath.Join(outDir, "seeded", "*", "patch.diff"))
	for _, pf := range seeds {
		dir := filepath.Dir(pf)
		name := "seeded/" + filepath.Base(dir)
		var meta struct {
			Property string            `json:"property"`
			Expect   string            `json:"expect_rule"`
			ByProp   map[string]string `json:"expect_by_property"`
		}
		if b, err := os.ReadFile(filepath.Join(dir, "meta.json")); err == nil {
			json.Unmarshal(b, &meta)
		}
		if meta.Property != pr.ID {
			meta.Expect = meta.ByProp[pr.ID] // a change seeded for another property that this one's rules also report
		}
		if meta.Expect == "" {
			continue // adopted but not (claimed to be) detected by this property's rules
		}
		files, err := applyPatch(repo, pf)
		j := job{name: name, rule: meta.Expect, files: files}
		if err != nil {
			j.files, j.why = nil, fmt.Sprintf("%s: patch does not apply to the current tree: %v", name, err)
		}
		jobs = append(jobs, j)
	}
	// behaviour-preserving changes written by independent sub-agents (refactors/<ID>/patch.diff): the
	// standing negative examples — no rule of any property may report anything on them
	refs, _ := filepath.Glob(filepath.Join(outDir, "refactors", "*", "patch.diff"))
	for _, pf := range refs {
		name := "refactors/" + filepath.Base(filepath.Dir(pf))
		files, err := applyPatch(repo, pf)
		j := job{name: name, rule: "-", files: files}
		if err != nil {
			j.files, j.why = nil, fmt.Sprintf("%s: patch does not apply to the current tree: %v", name, err)
		}
		jobs = append(jobs, j)
	}
	st := &an.SelfTest{Mutants: len(jobs)}
	type res struct {
		name                    string
		skipped, killed, broken bool
		detail                  string
	}
	results := make([]res, len(jobs))
	sem := make(chan struct{}, 12)
	var wg sync.WaitGroup
	for i, j := range jobs {
		wg.Add(1)
		go func(i int, j job) {
			defer wg.Done()
			sem <- struct{}{}
			defer func() { <-sem }()
			r := res{name: j.name}
			defer func() { results[i] = r }()
			if j.files == nil {
				r.skipped, r.detail = true, j.why
				return
			}
			mp, err := base.MutateFiles(j.files)
			if err != nil {
				r.skipped, r.detail = true, fmt.Sprintf("%s: %v", j.name, err)
				return
			}
			c := analyseProg(pr, mp, "quick")
			c.ApplyFindings(findings)
			fs := c.Failures()
			if len(fs) > 0 && fs[0].Rule == "type-check" {
				r.broken = true
				r.detail = fmt.Sprintf("%s: variant does not compile (fix the self-test): %s", j.name, fs[0].Msg)
				return
			}
			if j.rule == "-" {
				// behaviour-preserving variant: every rule must stay silent
				if len(fs) == 0 {
					r.killed = true
					r.detail = fmt.Sprintf("%s → silent, as required for a behaviour-preserving variant", j.name)
				} else {
					r.detail = fmt.Sprintf("%s: FALSE ALARM on a behaviour-preserving variant: %s (%s)", j.name, fs[0].Key, fs[0].Msg)
				}
				return
			}
			for _, ob := range fs {
				if strings.HasPrefix(ob.Key, j.rule) {
					r.killed = true
					r.detail = fmt.Sprintf("%s → %s (%s)", j.name, ob.Key, ob.Pos)
					return
				}
			}
			var got []string
			for _, ob := range fs {
				got = append(got, ob.Key)
			}
			r.detail = fmt.Sprintf("%s: expected a violation of %s*, got %v", j.name, j.rule, got)
		}(i, j)
	}
	wg.Wait()
	for _, r := range results {
		switch {
		case r.skipped:
			st.Skipped = append(st.Skipped, r.detail)
		case r.killed:
			st.Applied++
			st.Killed++
			st.Samples = append(st.Samples, r.detail)
		default:
			st.Applied++
			st.Survived = append(st.Survived, r.detail)
		}
	}
	sort.Strings(st.Samples)
	return st
}

// applyPatch applies a unified diff to copies of the files it names (taken from the repository's
// working tree) in a temporary directory and returns the patched contents; nothing in repo is touched.
func applyPatch(repo, patchFile string) (map[string][]byte, error) {
	b, err := os.ReadFile(patchFile)
	if err != nil {
		return nil, err
	}
	var files []string
	for _, l := range strings.Split(string(b), "\n") {
		if strings.HasPrefix(l, "+++ b/") {
			files = append(files, strings.TrimSpace(strings.TrimPrefix(l, "+++ b/")))
		}
	}
	if len(files) == 0 {
		return nil, fmt.Errorf("no files in patch")
	}
	tmp, err := os.MkdirTemp("", "jetverif-patch-")
	if err != nil {
		return nil, err
	}
	defer os.RemoveAll(tmp)
	for _, f := range files {
		src, err := os.ReadFile(filepath.Join(repo, f))
		if os.IsNotExist(err) {
			continue // a file the patch creates
		}
		if err != nil {
			return nil, err
		}
		if err := os.MkdirAll(filepath.Dir(filepath.Join(tmp, f)), 0o755); err != nil {
			return nil, err
		}
		if err := os.WriteFile(filepath.Join(tmp, f), src, 0o644); err != nil {
			return nil, err
		}
	}
	cmd := exec.Command("patch", "-p1", "-s", "--no-backup-if-mismatch", "-d", tmp, "-i", patchFile)
	if out, err := cmd.CombinedOutput(); err != nil {
		return nil, fmt.Errorf("%v: %s", err, firstLines(string(out), 3))
	}
	res := map[string][]byte{}
	for _, f := range files {
		nb, err := os.ReadFile(filepath.Join(tmp, f))
		if err != nil {
			return nil, err
		}
		res[f] = nb
	}
	return res, nil
}
