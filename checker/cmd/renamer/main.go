// renamer rewrites a scratch copy of the repository, renaming every function-local variable,
// parameter, named result and receiver (name -> name + suffix).  It produces the ultimate
// behaviour-preserving rename for testing that the rules do not depend on local names.
package main

import (
	"flag"
	"fmt"
	"go/ast"
	"go/format"
	"go/token"
	"go/types"
	"os"
	"strings"

	"golang.org/x/tools/go/packages"
)

func main() {
	dir := flag.String("dir", "", "scratch copy of the repository (files are rewritten in place)")
	suffix := flag.String("suffix", "Z", "suffix appended to local names")
	fields := flag.Bool("fields", false, "also rename unexported struct fields")
	only := flag.String("only", "", "comma-separated file base names to restrict the rename to (default: all non-test files)")
	flag.Parse()
	cfg := &packages.Config{Mode: packages.NeedName | packages.NeedFiles | packages.NeedCompiledGoFiles | packages.NeedSyntax | packages.NeedTypes | packages.NeedTypesInfo | packages.NeedDeps | packages.NeedImports,
		Dir: *dir, Fset: token.NewFileSet(), Env: append(os.Environ(), "GOFLAGS=-mod=mod", "GOPROXY=off", "GOSUMDB=off", "GOWORK=off")}
	pkgs, err := packages.Load(cfg, "./...")
	if err != nil {
		fmt.Fprintln(os.Stderr, err)
		os.Exit(2)
	}
	want := map[string]bool{}
	for _, f := range strings.Split(*only, ",") {
		if f != "" {
			want[f] = true
		}
	}
	n := 0
	for _, pk := range pkgs {
		if strings.Contains(pk.PkgPath, "/examples") {
			continue
		}
		info := pk.TypesInfo
		rename := func(id *ast.Ident, o types.Object) {
			v, ok := o.(*types.Var)
			if ok && v.IsField() && *fields && !v.Exported() && !v.Embedded() && v.Pkg() != nil && strings.HasPrefix(v.Pkg().Path(), "github.com/CloudyKit/jet") && id.Name != "_" {
				id.Name = v.Name() + *suffix
				n++
				return
			}
			if !ok || v.IsField() || v.Pkg() == nil || v.Parent() == nil || v.Parent() == v.Pkg().Scope() || id.Name == "_" {
				return
			}
			id.Name = v.Name() + *suffix
			n++
		}
		for i, file := range pk.Syntax {
			name := pk.CompiledGoFiles[i]
			base := name[strings.LastIndex(name, "/")+1:]
			if strings.HasSuffix(base, "_test.go") || (len(want) > 0 && !want[base]) {
				continue
			}
			// the symbol of `switch x := y.(type)` has no object of its own (each clause has an implicit one)
			ast.Inspect(file, func(m ast.Node) bool {
				if ts, ok := m.(*ast.TypeSwitchStmt); ok {
					if as, ok := ts.Assign.(*ast.AssignStmt); ok && len(as.Lhs) == 1 {
						if id, ok := as.Lhs[0].(*ast.Ident); ok && id.Name != "_" {
							id.Name += *suffix
							n++
						}
					}
				}
				return true
			})
			ast.Inspect(file, func(m ast.Node) bool {
				if id, ok := m.(*ast.Ident); ok {
					if o := info.Defs[id]; o != nil {
						rename(id, o)
					} else if o := info.Uses[id]; o != nil {
						rename(id, o)
					}
				}
				return true
			})
			var sb strings.Builder
			if err := format.Node(&sb, cfg.Fset, file); err != nil {
				fmt.Fprintln(os.Stderr, name, err)
				os.Exit(2)
			}
			if err := os.WriteFile(name, []byte(sb.String()), 0o644); err != nil {
				fmt.Fprintln(os.Stderr, err)
				os.Exit(2)
			}
		}
	}
	fmt.Printf("renamed %d identifier occurrences\n", n)
}
