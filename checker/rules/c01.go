package rules

import (
	"fmt"
	"go/ast"
	"go/token"
	"go/types"
	"strings"

	"jetverif/an"
)

func init() {
	register(&Property{
		ID:  "C01",
		Run: runC01,
		Meta: an.Meta{
			Technique: "output-sink inventory over all evaluator functions with destination-writer provenance classes (escaping / SafeWriter wrapper / raw), guard facts on CFG paths, and a who-may-hold-the-output-writer field inventory",
			Explanation: "The routing of bytes, not the escaper's output: (C01.sink) every output sink call reachable from Execute (Write, io.Copy, fastprinter.Print*, fmt.Fprint*, json Encoder, SafeWriter calls) is " +
				"classified by the provenance of its destination — ESC (the runtime's escaping writer), SAFE (an escapeWriter wrapper built on the spot), RAW (the current output Writer) — and of its data: " +
				"printing an evaluated value goes to ESC or SAFE only, literal TextNode.Text goes to RAW only, and no sink has an unclassifiable destination; (C01.esc) escapeeWriter.Write calls exactly one of " +
				"{raw Write, Set.escapee} per path, the raw one only under escapee == nil, with the unmodified byte slice; (C01.safe) evalSafeWriter wraps the *current* raw Writer (not the escaping writer: " +
				"double escaping; not a cached copy: redirects would be bypassed) with the evaluated SafeWriter, a command reports `safeWriter = true` only after evalSafeWriter ran under " +
				"term.Type() == safeWriterType, and executeList prints/renders a value only under !safeWriter; (C01.last) a SafeWriter command must be last: every later command is evaluated only " +
				"under !safeWriter of the previous one, the other branch being no-return; (C01.swap) the output destination lives in exactly one place, escapeeWriter.Writer — no other field is " +
				"assigned an io.Writer, wrappers holding one are transient locals — Runtime.escapeeWriter is assigned only in the pool constructor and escapeeWriter.set only in Execute from t.set; " +
				"(C01.default) NewSet installs text/template.HTMLEscape, WithSafeWriter is the only other writer of Set.escapee, and safeHtml/safeJs/raw/unsafe are bound to HTMLEscape/JSEscape/unsafePrinter. (C01.sink, continued) the JSON renderer writes raw by design; the HTML escaping of its encoder is never switched off. (C01.default, continued) a built-in's value may be held in a local defined once. (C01.safe flag, continued) a command answers \"not a safe writer\" only where its term is known not to be one: a SafeWriter term is never passed over, whatever the Set's own escaper is.",
			NotDecided:  "that template.HTMLEscape escapes the five characters and fastprinter forwards every chunk to the writer it was given (trusted); Renderer values (writeJson, hiddenBool) write raw by documented design (reported as notes, not violations).",
			Assumptions: []string{"text/template.HTMLEscape/JSEscape and fastprinter behave as documented"},
			Trusted:     commonTrusted,
		},
		Mutants: []Mutant{
			{Name: "values printed to the raw writer", File: "eval.go", Old: "_, err := fastprinter.PrintValue(st.escapeeWriter, v)", New: "_, err := fastprinter.PrintValue(st.Writer, v)", Rule: "C01.sink"},
			{Name: "SafeWriter output is escaped again (wrapper around the escaping writer)", File: "eval.go", Old: "sw := &escapeWriter{rawWriter: st.Writer, safeWriter: term.Interface().(SafeWriter)}", New: "sw := &escapeWriter{rawWriter: st.escapeeWriter, safeWriter: term.Interface().(SafeWriter)}", Rule: "C01.safe"},
			{Name: "value printed although a SafeWriter already wrote it", File: "eval.go", Old: "\t\t\t\tif !safeWriter && v.IsValid() {", New: "\t\t\t\t_ = safeWriter\n\t\t\t\tif v.IsValid() {", Rule: "C01.safe"},
			{Name: "literal text goes through the escaper", File: "eval.go", Old: "_, err := st.Writer.Write(node.Text)", New: "_, err := st.escapeeWriter.Write(node.Text)", Rule: "C01.sink"},
			{Name: "escaper skipped when one is configured", File: "eval.go", Old: "\tif w.set.escapee == nil {\n\t\tw.Writer.Write(b)\n\t} else {\n\t\tw.set.escapee(w.Writer, b)\n\t}", New: "\tif w.set.escapee != nil {\n\t\tw.Writer.Write(b)\n\t} else {\n\t\tw.set.escapee(w.Writer, b)\n\t}", Rule: "C01.esc"},
			{Name: "escaped twice (escapee then raw write)", File: "eval.go", Old: "\t} else {\n\t\tw.set.escapee(w.Writer, b)\n\t}\n\treturn 0, nil", New: "\t} else {\n\t\tw.set.escapee(w.Writer, b)\n\t\tw.Writer.Write(b)\n\t}\n\treturn 0, nil", Rule: "C01.esc"},
			{Name: "writer-must-be-last test moved after the call", File: "eval.go", Old: "\t\tif safeWriter {\n\t\t\tnode.Cmds[i].errorf(\"unexpected command %s, writer command should be the last command\", node.Cmds[i])\n\t\t}\n\t\tvalue, safeWriter = st.evalCommandPipeExpression(node.Cmds[i], value)", New: "\t\twasWriter := safeWriter\n\t\tvalue, safeWriter = st.evalCommandPipeExpression(node.Cmds[i], value)\n\t\tif wasWriter {\n\t\t\tnode.Cmds[i].errorf(\"unexpected command %s, writer command should be the last command\", node.Cmds[i])\n\t\t}", Rule: "C01.last"},
			{Name: "default escaper is JSEscape", File: "set.go", Old: "escapee: template.HTMLEscape,", New: "escapee: template.JSEscape,", Rule: "C01.default"},
			{Name: "safeHtml bound to the raw printer", File: "default.go", Old: "\"safeHtml\":  reflect.ValueOf(SafeWriter(template.HTMLEscape)),", New: "\"safeHtml\":  reflect.ValueOf(SafeWriter(unsafePrinter)),", Rule: "C01.default"},
			{Name: "try redirects by replacing the escaping writer (loses set)", File: "eval.go", Old: "\tst.Writer = buf\n\tdefer func() { st.Writer = writer }()\n", New: "\tew := st.escapeeWriter\n\tst.escapeeWriter = &escapeeWriter{Writer: buf}\n\tdefer func() { st.escapeeWriter = ew }()\n\t_ = writer\n", Rule: "C01.swap"},
			{Name: "a command that is not a SafeWriter reports safeWriter = true", File: "eval.go", Old: "\t\t\tret, err := st.evalCallExpression(term, node.CallArgs)\n\t\t\tif err != nil {\n\t\t\t\tnode.BaseExpr.error(err)\n\t\t\t}\n\t\t\treturn ret, false", New: "\t\t\tret, err := st.evalCallExpression(term, node.CallArgs)\n\t\t\tif err != nil {\n\t\t\t\tnode.BaseExpr.error(err)\n\t\t\t}\n\t\t\treturn ret, !ret.IsValid()", Rule: "C01.safe"},
			{Name: "escaper applied to a copy that drops the data", File: "eval.go", Old: "\t\tw.set.escapee(w.Writer, b)\n", New: "\t\tw.set.escapee(w.Writer, b[:0])\n", Rule: "C01.esc"},
		},
	})
}

// writer provenance classes
const (
	wESC  = "ESC"  // the runtime's escaping writer (Runtime.escapeeWriter)
	wSAFE = "SAFE" // an escapeWriter wrapper built on the spot around the current raw writer
	wRAW  = "RAW"  // the current output destination (escapeeWriter.Writer or a local loaded from it)
	wLOC  = "LOCAL-BUFFER"
	wPAR  = "PARAM"
)

func classifyWriter(p *an.Prog, f *an.Fn, e ast.Expr) string {
	return classifyWriterIn(p, f, f, e, 0)
}

// classifyWriterIn classifies e, an expression in the body of `in`: root itself or a new helper reached
// from it, whose parameters stand for the arguments of its call sites.
func classifyWriterIn(p *an.Prog, root, in *an.Fn, e ast.Expr, depth int) string {
	f := in
	info := f.Info()
	e = an.Unparen(e)
	if u, ok := e.(*ast.UnaryExpr); ok && u.Op == token.AND {
		if id, ok := an.Unparen(u.X).(*ast.Ident); ok {
			if v, ok := an.ObjOf(info, id).(*types.Var); ok && !v.IsField() && strings.Contains(an.TypeName(v.Type()), "bytes.Buffer") {
				return wLOC
			}
		}
	}
	switch p.FieldKey(info, e) {
	case "Runtime.escapeeWriter":
		return wESC
	case "escapeeWriter.Writer":
		return wRAW
	}
	// a member of a local struct that carries a saved writer (frame := tryFrame{writer: st.Writer, …}; frame.writer),
	// seen directly or through the parameter of the helper the struct was handed to
	if obj, k, ok := structMember(p, f, e); ok && depth < 8 {
		if lit := savedStructLit(p, f, obj); lit != nil {
			for _, el := range lit.Elts {
				if kv, ok := el.(*ast.KeyValueExpr); ok {
					if kid, ok := kv.Key.(*ast.Ident); ok && kid.Name == k {
						owner := f
						if o := p.OwnerFn(kv.Value.Pos()); o != nil {
							owner = o
						}
						return classifyWriterIn(p, owner.Root(), owner, kv.Value, depth+1)
					}
				}
			}
		}
	}
	if id, ok := e.(*ast.Ident); ok {
		o := an.ObjOf(info, id)
		if o == nil {
			return "?"
		}
		if _, isParam := an.IsParam(root, o); isParam {
			return wPAR
		}
		if v, ok := o.(*types.Var); ok && depth < 8 {
			if binds := p.HelperBinds(root)[v]; len(binds) > 0 {
				cls := ""
				for _, b := range binds {
					c := classifyWriterIn(p, root, b.Caller, b.Arg, depth+1)
					if cls != "" && cls != c {
						return "?"
					}
					cls = c
				}
				return cls
			}
		}
		if _, isParam := an.IsParam(f, o); isParam {
			return wPAR
		}
		if strings.Contains(an.TypeName(o.Type()), "bytes.Buffer") {
			return wLOC
		}
		defs := an.LocalDefs(f.Root(), o)
		cls := ""
		for _, d := range defs {
			if d == nil {
				continue
			}
			c := "?"
			switch {
			case p.FieldKey(info, d) == "escapeeWriter.Writer":
				c = wRAW
			case p.FieldKey(info, d) == "Runtime.escapeeWriter":
				c = wESC
			default:
				if u, ok := an.Unparen(d).(*ast.UnaryExpr); ok && u.Op == token.AND {
					if cl, ok := an.Unparen(u.X).(*ast.CompositeLit); ok && an.TypeName(info.Types[cl].Type) == "jet.escapeWriter" {
						c = wSAFE
					}
				}
			}
			if cls != "" && cls != c {
				return "?"
			}
			cls = c
		}
		if cls != "" {
			return cls
		}
	}
	return "?" + an.Str(e)
}

type sinkSite struct {
	fn   *an.Fn
	call *ast.CallExpr
	name string
	dest ast.Expr
	data []ast.Expr
}

func sinkSites(p *an.Prog, eval map[*an.Fn]bool) []sinkSite {
	var out []sinkSite
	for _, f := range an.SortedFns(eval) {
		if f.Pkg != p.Jet || f.Body == nil {
			continue
		}
		info := f.Info()
		an.InspectOwn(f, func(n ast.Node) bool {
			call, ok := n.(*ast.CallExpr)
			if !ok {
				return true
			}
			name := an.CalleeName(info, call)
			switch {
			case name == "(io.Writer).Write" || name == "(*jet.escapeeWriter).Write" || name == "(*jet.escapeWriter).Write" || name == "(*bytes.Buffer).Write" || name == "(*bytes.Buffer).WriteString":
				out = append(out, sinkSite{f, call, name, an.Receiver(call), call.Args})
			case name == "io.Copy" || name == "io.WriteString" || strings.HasPrefix(name, "fastprinter.Print") || strings.HasPrefix(name, "fmt.Fprint"):
				if len(call.Args) >= 1 {
					out = append(out, sinkSite{f, call, name, call.Args[0], call.Args[1:]})
				}
			case name == "json.NewEncoder":
				out = append(out, sinkSite{f, call, name, call.Args[0], nil})
			case strings.HasPrefix(name, "value:"):
				// a SafeWriter value being called: func(io.Writer, []byte)
				if t, ok := info.Types[call.Fun].Type.(*types.Named); ok && t.Obj().Name() == "SafeWriter" && len(call.Args) == 2 {
					out = append(out, sinkSite{f, call, "SafeWriter-call", call.Args[0], call.Args[1:]})
				}
			default:
				// any other call that is handed the runtime's raw output writer or its escaping writer
				// (buf.WriteTo(st.Writer), a helper taking the writer …) is an output sink as well
				for _, a := range call.Args {
					if k := p.FieldKey(info, an.Unparen(a)); k == "escapeeWriter.Writer" || k == "Runtime.escapeeWriter" {
						if g := p.FnByObj[an.Callee(info, call)]; g != nil {
							continue // a module function: its own writes are classified where they happen (writer parameter)
						}
						out = append(out, sinkSite{f, call, name, a, nil})
					}
				}
			}
			return true
		})
	}
	return out
}

func runC01(c *an.Ctx) {
	p := c.P
	eval := p.Eval()
	sinks := sinkSites(p, eval)
	c.Expect("C01.sink", "output sink call sites reachable from Execute", len(sinks), 8)
	nVal, nText := 0, 0
	for _, s := range sinks {
		c.CallSites++
		c.FnsAnalysed[s.fn.Name] = true
		info := s.fn.Info()
		cls := classifyWriter(p, s.fn, s.dest)
		key := s.fn.Name + "/" + s.name
		if s.name == "SafeWriter-call" {
			continue // checked structurally by C01.esc (inside the two Write methods)
		}
		if cls == wLOC {
			continue // string building in a local buffer (dump): not output
		}
		// what is written?
		isText := false
		for _, d := range s.data {
			if p.FieldKey(info, d) == "TextNode.Text" {
				isText = true
			}
		}
		isValuePrint := strings.HasPrefix(s.name, "fastprinter.Print")
		switch {
		case isValuePrint:
			nVal++
			if cls == wESC || cls == wSAFE {
				c.OK("C01.sink", key, s.call.Pos(), "an evaluated value is printed to the %s writer", cls)
			} else {
				c.Bad("C01.sink", key, s.call.Pos(), nil, "an evaluated value is printed to %s (%s): it reaches the output without passing through the Set's escaper or a SafeWriter", an.Str(s.dest), cls)
			}
		case isText:
			nText++
			if cls == wRAW {
				c.OK("C01.sink", key, s.call.Pos(), "literal template text is written to the raw output writer")
			} else {
				c.Bad("C01.sink", key, s.call.Pos(), nil, "literal template text is written to %s (%s): literal text must never be escaped", an.Str(s.dest), cls)
			}
		case cls == wRAW && s.name == "io.Copy":
			c.OK("C01.sink", key, s.call.Pos(), "already rendered (buffered) output is copied to the raw writer, not escaped again")
		case cls == wRAW && (s.name == "json.NewEncoder" || strings.HasPrefix(s.name, "fmt.Fprint")):
			c.Note("%s (%s) writes raw by design (Renderer / documented second bypass): %s", s.fn.Name, p.RelPos(s.call.Pos()), an.Str(s.call))
		case cls == wPAR:
			// a function that writes to a writer it was given (unsafePrinter, dump helpers): the caller's sink is classified at its own site
			c.Note("%s writes to its writer parameter (%s)", s.fn.Name, p.RelPos(s.call.Pos()))
		case cls == wRAW && (s.fn.Name == "(*escapeeWriter).Write" || s.fn.Name == "(*escapeWriter).Write"):
			// the raw leg of the escaping writer: C01.esc
		case cls == wESC && s.name == "io.Copy":
			c.Bad("C01.sink", key, s.call.Pos(), nil, "buffered output is copied through the escaping writer: it is escaped twice")
		case strings.HasPrefix(cls, "?"):
			c.Bad("C01.sink", key, s.call.Pos(), nil, "cannot tell where %s writes to (%s): every output sink must target the escaping writer, a SafeWriter wrapper built on the spot, or the current raw Writer", an.Str(s.call), cls)
		default:
			c.Bad("C01.sink", key, s.call.Pos(), nil, "unexpected output sink %s with destination class %s", an.Str(s.call), cls)
		}
	}
	c.Expect("C01.sink", "value prints", nVal, 3)
	c.Expect("C01.sink", "literal text writes", nText, 1)
	// the JSON renderer writes to the raw writer by design; what keeps data-derived <, > and & out of the output
	// there is the encoder's own HTML escaping, which is on by default: it is never switched off
	for _, f := range p.Units() {
		if f.Pkg != p.Jet || f.Body == nil {
			continue
		}
		info := f.Info()
		n := 0
		an.InspectOwn(f, func(m ast.Node) bool {
			call, ok := m.(*ast.CallExpr)
			if !ok {
				return true
			}
			switch an.CalleeName(info, call) {
			case "(*encoding/json.Encoder).SetEscapeHTML", "(*json.Encoder).SetEscapeHTML":
				on := false
				if len(call.Args) == 1 {
					if tv, ok := info.Types[call.Args[0]]; ok && tv.Value != nil && tv.Value.ExactString() == "true" {
						on = true
					}
				}
				if !on {
					n++
					key := f.Name + "/json-html-escaping"
					if n > 1 {
						key += "#" + itoa(n)
					}
					c.Bad("C01.sink", key, call.Pos(), nil, "%s switches off the HTML escaping of a JSON encoder: writeJson writes to the raw writer, so data-derived <, > and & would reach the output unescaped", f.Name)
				}
			case "json.NewEncoder", "encoding/json.NewEncoder":
				c.OK("C01.sink", f.Name+"/json-html-escaping", call.Pos(), "a JSON encoder (HTML escaping on by default)")
			}
			return true
		})
	}
	// in the functions that produce output, TextNode.Text is used only as the data of a raw write
	// (String() methods that format nodes for error messages have no output sink and are not concerned)
	producers := map[*an.Fn]bool{}
	for _, s := range sinks {
		if classifyWriter(p, s.fn, s.dest) != wLOC {
			producers[s.fn] = true
		}
	}
	for _, f := range an.SortedFns(eval) {
		if f.Pkg != p.Jet || f.Body == nil || !producers[f] {
			continue
		}
		info := f.Info()
		an.InspectOwn(f, func(n ast.Node) bool {
			sel, ok := n.(*ast.SelectorExpr)
			if !ok || p.FieldKey(info, sel) != "TextNode.Text" {
				return true
			}
			okUse := false
			for _, s := range sinks {
				for _, d := range s.data {
					if an.Unparen(d) == ast.Expr(sel) {
						okUse = true
					}
				}
			}
			if !okUse {
				c.Bad("C01.sink", f.Name+"/text-use", sel.Pos(), nil, "TextNode.Text is used other than as the data of a raw write: literal text may be altered on its way to the output")
			}
			return true
		})
	}

	c01esc(c)
	c01safe(c)
	c01last(c)
	writerCopies(c, "C01.swap")
	c01swapFields(c)
	c01default(c)
}

// c01esc: the two Write methods
func c01esc(c *an.Ctx) {
	p := c.P
	f := c.Fn("C01.esc", "(*escapeeWriter).Write")
	if f == nil {
		return
	}
	info := f.Info()
	param := an.Param(f, 0)
	// locals that hold the Set's escaper
	escLocals := map[string]bool{}
	an.InspectOwn(f, func(n ast.Node) bool {
		an.Assigns(n, func(lhs, rhs ast.Expr, _ token.Token) {
			if id, ok := an.Unparen(lhs).(*ast.Ident); ok && rhs != nil && p.FieldKey(info, rhs) == "Set.escapee" {
				escLocals[an.RoleOf(an.ObjOf(info, id))] = true
			}
		})
		return true
	})
	hooks := an.Hooks{Call: func(x *an.Explorer, call *ast.CallExpr, st *an.State) {
		name := an.CalleeName(info, call)
		isRaw := name == "(io.Writer).Write" && p.FieldKey(info, an.Receiver(call)) == "escapeeWriter.Writer"
		isEsc := false
		if strings.HasPrefix(name, "value:") {
			if p.FieldKey(info, call.Fun) == "Set.escapee" {
				isEsc = true
			} else if id, ok := an.Unparen(call.Fun).(*ast.Ident); ok {
				// the escaper read into a local first
				defs := an.LocalDefs(f, an.ObjOf(info, id))
				isEsc = len(defs) > 0
				for _, d := range defs {
					if d == nil || p.FieldKey(info, d) != "Set.escapee" {
						isEsc = false
					}
				}
			}
		}
		if !isRaw && !isEsc {
			return
		}
		st.Add("writes", 1)
		data := call.Args[len(call.Args)-1]
		if id, ok := an.Unparen(data).(*ast.Ident); !ok || an.ObjOf(info, id) != types.Object(param) {
			st.Set("baddata", an.Str(data))
		}
		if isEsc {
			if p.FieldKey(info, call.Args[0]) != "escapeeWriter.Writer" {
				st.Set("baddest", an.Str(call.Args[0]))
			}
		}
		if isRaw {
			nilEsc := false
			for k, v := range st.Facts {
				pk := an.PlainKey(k)
				if v && (strings.HasSuffix(pk, ".escapee == nil") || strings.HasPrefix(pk, "nil == ") && strings.HasSuffix(pk, ".escapee")) {
					nilEsc = true
				}
				for l := range escLocals {
					if v && (pk == l+" == nil" || pk == "nil == "+l) {
						nilEsc = true
					}
				}
			}
			if st.Get("escNil") == "1" {
				nilEsc = true // established by a test of a local copy whose scope has ended since
			}
			if !nilEsc {
				st.Set("rawWithEscaper", "1")
			}
		}
	}, Branch: func(x *an.Explorer, cond ast.Expr, val bool, st *an.State) {
		b, ok := an.Unparen(cond).(*ast.BinaryExpr)
		if !ok || (b.Op != token.EQL && b.Op != token.NEQ) {
			return
		}
		for _, pr := range [][2]ast.Expr{{b.X, b.Y}, {b.Y, b.X}} {
			if tv, ok := info.Types[pr[1]]; !ok || !tv.IsNil() {
				continue
			}
			isEscaper := p.FieldKey(info, pr[0]) == "Set.escapee"
			if id, ok := an.Unparen(pr[0]).(*ast.Ident); ok && escLocals[an.RoleOf(an.ObjOf(info, id))] {
				isEscaper = true
			}
			if isEscaper {
				if val == (b.Op == token.EQL) {
					st.Set("escNil", "1")
				} else {
					st.Set("escNil", "0")
				}
			}
		}
	}}
	x := p.NewExplorer(f, hooks)
	x.Run(nil)
	c.States += x.Visited
	ok, why := true, ""
	for _, ex := range x.Exits {
		if ex.Kind != an.ExitReturn {
			continue
		}
		switch {
		case ex.State.Int("writes") != 1:
			ok, why = false, fmt.Sprintf("a path through escapeeWriter.Write forwards the bytes %d times (must be exactly once: neither dropped nor escaped/written twice)", ex.State.Int("writes"))
		case ex.State.Get("baddata") != "":
			ok, why = false, "the bytes forwarded are "+ex.State.Get("baddata")+", not the slice that was written"
		case ex.State.Get("baddest") != "":
			ok, why = false, "the escaper writes to "+ex.State.Get("baddest")+", not to the raw Writer"
		case ex.State.Get("rawWithEscaper") != "":
			ok, why = false, "bytes are forwarded raw on a path where the Set has an escaper configured"
		}
	}
	c.Check(ok, "C01.esc", "(*escapeeWriter).Write", f.Pos(), "every write is forwarded exactly once: raw only when no escaper is set, else through the Set's escaper", why)

	if g := c.Fn("C01.esc", "(*escapeWriter).Write"); g != nil {
		ginfo := g.Info()
		n, okw := 0, true
		an.InspectOwn(g, func(nd ast.Node) bool {
			call, isCall := nd.(*ast.CallExpr)
			if !isCall || !strings.HasPrefix(an.CalleeName(ginfo, call), "value:") {
				return true
			}
			n++
			if p.FieldKey(ginfo, call.Fun) != "escapeWriter.safeWriter" || len(call.Args) != 2 || p.FieldKey(ginfo, call.Args[0]) != "escapeWriter.rawWriter" || an.Norm(g, call.Args[1]) != "$p0" {
				okw = false
			}
			return true
		})
		c.Check(okw && n == 1 && len(g.Body.List) == 2, "C01.esc", "(*escapeWriter).Write", g.Pos(), "the SafeWriter wrapper hands the bytes to its SafeWriter and raw writer exactly once", "escapeWriter.Write does not call safeWriter(rawWriter, b) exactly once")
	}
}

func c01safe(c *an.Ctx) {
	p := c.P
	f := c.Fn("C01.safe", "(*Runtime).evalSafeWriter")
	if f == nil {
		return
	}
	info := f.Info()
	// the wrapper literal
	okLit, why := false, "evalSafeWriter does not build an escapeWriter{rawWriter: <current raw Writer>, safeWriter: <evaluated term>} on the spot"
	an.InspectOwn(f, func(n ast.Node) bool {
		cl, ok := n.(*ast.CompositeLit)
		if !ok || an.TypeName(info.Types[cl].Type) != "jet.escapeWriter" {
			return true
		}
		var raw, sw ast.Expr
		for _, el := range cl.Elts {
			if kv, ok := el.(*ast.KeyValueExpr); ok {
				switch an.Str(kv.Key) {
				case "rawWriter":
					raw = kv.Value
				case "safeWriter":
					sw = kv.Value
				}
			}
		}
		switch {
		case raw == nil || sw == nil:
		case p.FieldKey(info, raw) == "Runtime.escapeeWriter":
			why = "the SafeWriter wrapper is built around the escaping writer: SafeWriter output would be escaped a second time"
		case p.FieldKey(info, raw) != "escapeeWriter.Writer" || an.Norm(f, raw) != "$r.Writer":
			why = "the SafeWriter wrapper's raw writer is " + an.Str(raw) + ", not the runtime's current Writer"
		case an.Norm(f, sw) != "$p0.Interface().(SafeWriter)" && !isSafeWriterParam(f, sw):
			why = "the wrapper's SafeWriter is " + an.Str(sw) + ", not the evaluated command term"
		default:
			okLit = true
		}
		return true
	})
	c.Check(okLit, "C01.safe", "(*Runtime).evalSafeWriter/wrapper", f.Pos(), "the wrapper is built on the spot around the current raw Writer with the evaluated SafeWriter", why)
	// every print in evalSafeWriter goes to that wrapper (C01.sink classifies SAFE)

	// the two command evaluators: `return …, true` only after evalSafeWriter under term.Type() == safeWriterType
	for _, name := range []string{"(*Runtime).evalCommandExpression", "(*Runtime).evalCommandPipeExpression"} {
		g := c.Fn("C01.safe", name)
		if g == nil {
			continue
		}
		ginfo := g.Info()
		hooks := an.Hooks{Branch: func(x *an.Explorer, cond ast.Expr, val bool, st *an.State) {
			// what the test of the term's type against the SafeWriter type said is kept in a register
			branchLeaves(x, cond, val, st, func(e ast.Expr, v bool) {
				b, isBin := an.Unparen(e).(*ast.BinaryExpr)
				if !isBin || (b.Op != token.EQL && b.Op != token.NEQ) {
					return
				}
				// (the term's type may be held in a local: what matters is the comparison with the SafeWriter type)
				s := an.Str(b)
				if strings.Contains(s, "safeWriterType") {
					if (b.Op == token.EQL) == v {
						st.Set("termIsSW", "yes")
					} else {
						st.Set("termIsSW", "no")
					}
				}
			})
		}, Call: func(x *an.Explorer, call *ast.CallExpr, st *an.State) {
			if an.IsCallTo(ginfo, call, "(*jet.Runtime).evalSafeWriter") {
				isSW := false
				for k, v := range st.Facts {
					if v && strings.Contains(an.PlainKey(k), ".Type()") && strings.Contains(an.PlainKey(k), "safeWriterType") && strings.Contains(an.PlainKey(k), "==") {
						isSW = true
					}
				}
				if isSW {
					st.Set("sw", "1")
				} else {
					st.Set("sw", "unguarded")
				}
			}
		}}
		x := p.NewExplorer(g, hooks)
		x.Run(nil)
		c.States += x.Visited
		ok, why := true, ""
		sawTrue := false
		for _, ex := range x.Exits {
			if ex.Kind != an.ExitReturn || ex.Ret == nil || len(ex.Ret.Results) != 2 {
				continue
			}
			flag := an.Str(ex.Ret.Results[1])
			switch {
			case flag == "true":
				sawTrue = true
				if ex.State.Get("sw") != "1" {
					ok, why = false, "reports safeWriter = true on a path where evalSafeWriter did not run under term.Type() == safeWriterType"
				}
			case flag == "false":
				if ex.State.Get("sw") != "" {
					ok, why = false, "a SafeWriter wrote the value but the command reports safeWriter = false: the value is printed a second time through the escaper"
				}
				// … and a SafeWriter term is never passed over: "not a safe writer" is answered only where the term is
				// known not to be one (whatever the Set's own escaper is — a writer that "is" the escaper still applies
				// *its* escaping, which the caller asked for)
				// (the pipe form always applies its term; the plain form may hand back a term that is not applied at all)
				passedOver := ex.State.Get("termIsSW") == "yes" || (strings.HasSuffix(name, "evalCommandPipeExpression") && ex.State.Get("termIsSW") != "no")
				if passedOver && ok {
					ok, why = false, "reports safeWriter = false on a path where the command term may be a SafeWriter: the writer the template asked for is skipped and the Set's escaper is applied instead"
				}
			default:
				ok, why = false, "the safeWriter flag returned is "+flag+", not a constant decided by the SafeWriter test"
			}
		}
		if ok && !sawTrue {
			ok, why = false, "no path reports safeWriter = true"
		}
		c.Check(ok, "C01.safe", name+"/flag", g.Pos(), "safeWriter = true exactly when a SafeWriter term wrote the output", name+": "+why)
	}
	// executeList prints / renders only under !safeWriter
	if el := c.Fn("C01.safe", "(*Runtime).executeList"); el != nil {
		einfo := el.Info()
		var targets []ast.Node
		an.InspectOwn(el, func(n ast.Node) bool {
			if call, ok := n.(*ast.CallExpr); ok {
				name := an.CalleeName(einfo, call)
				if strings.HasPrefix(name, "fastprinter.Print") || name == "(jet.Renderer).Render" {
					targets = append(targets, call)
				}
			}
			return true
		})
		pr := p.ProbeFn(el, targets, an.Hooks{})
		c.States += pr.X.Visited
		c.Expect("C01.safe", "print/render sites in executeList", len(targets), 2)
		for _, t := range targets {
			ok := len(pr.At[t]) > 0
			for _, st := range pr.At[t] {
				if !an.FactIs(st, "safeWriter", false) {
					ok = false
				}
			}
			c.Check(ok, "C01.safe", "(*Runtime).executeList/"+an.CalleeName(einfo, t.(*ast.CallExpr)), t.Pos(), "the value is printed only when no SafeWriter consumed it",
				"executeList prints/renders the pipeline value on a path where a SafeWriter may already have written it (missing !safeWriter guard)")
		}
	}
}

func c01last(c *an.Ctx) {
	p := c.P
	f := c.Fn("C01.last", "(*Runtime).evalPipelineExpression")
	if f == nil {
		return
	}
	info := f.Info()
	var targets []ast.Node
	for _, call := range p.CallsIn(f, "(*jet.Runtime).evalCommandPipeExpression") {
		targets = append(targets, call)
	}
	c.Expect("C01.last", "evaluations of later pipeline commands", len(targets), 1)
	pr := p.ProbeFn(f, targets, an.Hooks{})
	c.States += pr.X.Visited
	for _, t := range targets {
		ok := len(pr.At[t]) > 0
		for _, st := range pr.At[t] {
			if !an.FactIs(st, "safeWriter", false) {
				ok = false
			}
		}
		c.Check(ok, "C01.last", "(*Runtime).evalPipelineExpression/next-command", t.Pos(), "a later command is evaluated only when the previous one was not a SafeWriter",
			"a pipeline command is evaluated after a SafeWriter command without the writer-must-be-last error having been raised first")
	}
	_ = info
}

// writerCopies: the output destination lives only in escapeeWriter.Writer.  Reported under `rule`
// (C01.swap, and C13.buffer for the try redirect, which relies on it).
func writerCopies(c *an.Ctx, rule string) {
	p := c.P
	ioWriter := func(t types.Type) bool { return t != nil && an.TypeName(t) == "io.Writer" }
	n := 0
	for _, f := range p.Units() {
		if f.Pkg != p.Jet || f.Body == nil {
			continue
		}
		info := f.Info()
		ast.Inspect(f.Body, func(nd ast.Node) bool {
			switch x := nd.(type) {
			case *ast.FuncLit:
				return false
			case *ast.AssignStmt:
				for _, lhs := range x.Lhs {
					fv := an.FieldOf(info, lhs)
					if fv == nil || !ioWriter(fv.Type()) {
						continue
					}
					n++
					fk := p.FieldKey(info, lhs)
					if fk == "escapeeWriter.Writer" {
						c.OK(rule, f.Name+"/store:"+fk, lhs.Pos(), "the output destination is (re)directed through escapeeWriter.Writer")
					} else {
						c.Bad(rule, f.Name+"/store:"+fk, lhs.Pos(), nil,
							"%s keeps a copy of an io.Writer in %s: output written through it bypasses later redirects of escapeeWriter.Writer (try buffers, exec's Discard) and earlier ones are not undone for it", f.Name, fk)
					}
				}
			case *ast.CompositeLit:
				// a struct literal with an io.Writer field: must be a transient local, not stored in a field or global
				st, ok := info.Types[x].Type.Underlying().(*types.Struct)
				if !ok {
					return true
				}
				has := false
				for i := 0; i < st.NumFields(); i++ {
					if ioWriter(st.Field(i).Type()) {
						has = true
					}
				}
				if !has || an.TypeName(info.Types[x].Type) == "jet.Runtime" {
					return true
				}
				encl := an.EnclosingStmts(f, x)
				transient := false
				for i := len(encl) - 1; i >= 0; i-- {
					switch s := encl[i].(type) {
					case *ast.AssignStmt:
						transient = true
						for _, l := range s.Lhs {
							if _, isId := an.Unparen(l).(*ast.Ident); !isId {
								transient = false
							}
						}
					case *ast.ReturnStmt, *ast.ValueSpec:
						transient = true
					}
					if _, isStmt := encl[i].(ast.Stmt); isStmt {
						break
					}
				}
				n++
				tn := an.TypeName(info.Types[x].Type)
				if transient {
					c.OK(rule, f.Name+"/literal:"+tn, x.Pos(), "a %s holding a writer is a transient local / the pool constructor's result", tn)
				} else {
					c.Bad(rule, f.Name+"/literal:"+tn, x.Pos(), nil, "a %s holding an io.Writer is stored into a field or global: it outlives the redirect it was created under", tn)
				}
			}
			return true
		})
	}
	// literals in package-level initialisers (the pool constructor)
	c.Expect(rule, "stores/literals involving io.Writer fields", n, 4)
}

func c01swapFields(c *an.Ctx) {
	p := c.P
	info := p.Jet.TypesInfo
	for _, f := range p.Units() {
		if f.Pkg != p.Jet || f.Body == nil {
			continue
		}
		an.InspectOwn(f, func(n ast.Node) bool {
			an.Assigns(n, func(lhs, rhs ast.Expr, _ token.Token) {
				switch p.FieldKey(info, lhs) {
				case "Runtime.escapeeWriter":
					c.Bad("C01.swap", f.Name+"/store:Runtime.escapeeWriter", lhs.Pos(), nil, "%s replaces the runtime's escaping writer: the replacement has no Set (no escaper) unless rebuilt exactly; redirect the inner Writer instead", f.Name)
				case "escapeeWriter.set":
					ok := f.Name == "(*Template).Execute" && rhs != nil && p.FieldKey(info, rhs) == "Template.set"
					c.Check(ok, "C01.swap", f.Name+"/store:escapeeWriter.set", lhs.Pos(), "the escaping writer's Set is installed by Execute from the executed template", f.Name+" assigns escapeeWriter.set (only Execute may, from t.set)")
				}
			})
			return true
		})
	}
}

func c01default(c *an.Ctx) {
	p := c.P
	info := p.Jet.TypesInfo
	objName := func(e ast.Expr) string {
		e = an.Unparen(e)
		// SafeWriter(template.HTMLEscape) → template.HTMLEscape
		if call, ok := e.(*ast.CallExpr); ok && len(call.Args) == 1 {
			if tv, ok := info.Types[call.Fun]; ok && tv.IsType() {
				e = an.Unparen(call.Args[0])
			}
		}
		switch x := e.(type) {
		case *ast.SelectorExpr:
			if fn, ok := info.Uses[x.Sel].(*types.Func); ok {
				return fn.Pkg().Path() + "." + fn.Name()
			}
		case *ast.Ident:
			if fn, ok := info.Uses[x].(*types.Func); ok {
				return fn.Pkg().Path() + "." + fn.Name()
			}
		}
		return an.Str(e)
	}
	// NewSet's literal
	if ns := c.Fn("C01.default", "NewSet"); ns != nil {
		got := ""
		an.InspectOwn(ns, func(n ast.Node) bool {
			if kv, ok := n.(*ast.KeyValueExpr); ok && an.Str(kv.Key) == "escapee" {
				got = objName(kv.Value)
			}
			return true
		})
		c.Check(got == "text/template.HTMLEscape", "C01.default", "NewSet/escapee", ns.Pos(), "the default escaper is text/template.HTMLEscape", "NewSet installs "+got+" as the default escaper instead of text/template.HTMLEscape")
	}
	// writers of Set.escapee
	for _, f := range p.Units() {
		if f.Pkg != p.Jet || f.Body == nil {
			continue
		}
		an.InspectOwn(f, func(n ast.Node) bool {
			an.Assigns(n, func(lhs, rhs ast.Expr, _ token.Token) {
				if p.FieldKey(info, lhs) == "Set.escapee" {
					root := f.Root()
					c.Check(root.Name == "WithSafeWriter", "C01.default", f.Name+"/store:Set.escapee", lhs.Pos(), "Set.escapee is configured only through WithSafeWriter", f.Name+" assigns Set.escapee (only NewSet and WithSafeWriter may)")
				}
			})
			return true
		})
	}
	// the four SafeWriter built-ins
	want := map[string]string{`"safeHtml"`: "text/template.HTMLEscape", `"safeJs"`: "text/template.JSEscape", `"raw"`: an.JetPath + ".unsafePrinter", `"unsafe"`: an.JetPath + ".unsafePrinter"}
	found := map[string]string{}
	for _, f := range p.Units() {
		if f.Pkg != p.Jet || f.Decl == nil || f.Decl.Name.Name != "init" {
			continue
		}
		an.InspectOwn(f, func(n ast.Node) bool {
			kv, ok := n.(*ast.KeyValueExpr)
			if !ok {
				return true
			}
			k := an.Str(kv.Key)
			if _, isWanted := want[k]; !isWanted {
				return true
			}
			// reflect.ValueOf(SafeWriter(X)), written in place or held in a local defined once
			val := an.Unparen(kv.Value)
			if id, isId := val.(*ast.Ident); isId {
				if defs := an.LocalDefs(f, an.ObjOf(f.Info(), id)); len(defs) == 1 && defs[0] != nil {
					val = an.Unparen(defs[0])
				}
			}
			if call, ok := val.(*ast.CallExpr); ok && len(call.Args) == 1 {
				found[k] = objName(call.Args[0])
			}
			return true
		})
	}
	for k, w := range want {
		c.Check(found[k] == w, "C01.default", "builtin:"+strings.Trim(k, `"`), p.Jet.Syntax[0].Pos(), "built-in "+k+" is bound to "+w, "built-in "+k+" is bound to "+found[k]+" instead of "+w)
	}
	if up := c.Fn("C01.default", "unsafePrinter"); up != nil {
		ok := false
		if len(up.Body.List) == 1 {
			if es, isEs := up.Body.List[0].(*ast.ExprStmt); isEs {
				if call, isCall := es.X.(*ast.CallExpr); isCall && an.Norm(up, call) == "$p0.Write($p1)" {
					ok = true
				}
			}
		}
		c.Check(ok, "C01.default", "unsafePrinter", up.Pos(), "unsafePrinter writes the bytes unchanged", "unsafePrinter is not `w.Write(b)`")
	}
}

// isSafeWriterParam: e is a parameter of f whose type is jet.SafeWriter (the caller has already taken the
// SafeWriter out of the evaluated term).
func isSafeWriterParam(f *an.Fn, e ast.Expr) bool {
	id, ok := an.Unparen(e).(*ast.Ident)
	if !ok {
		return false
	}
	o := an.ObjOf(f.Info(), id)
	if o == nil {
		return false
	}
	_, isParam := an.IsParam(f, o)
	return isParam && an.TypeName(o.Type()) == "jet.SafeWriter"
}
