package rules

import (
	"fmt"
	"go/ast"
	"go/constant"
	"go/token"
	"go/types"
	"regexp"
	"sort"
	"strconv"
	"strings"

	"jetverif/an"
)

func init() {
	register(&Property{
		ID:  "C02",
		Run: runC02,
		Meta: an.Meta{
			Technique: "typestate analysis of the lexer cursor across the state-function graph (interprocedural summaries), nullable-result belief rule, panic-value typing and error discipline over all parser functions, loop-progress/eof-exit lints, and ordering rules for the lexer goroutine's shutdown",
			Explanation: "Crash- and leak-preconditions of parsing: (C02.index) every constant index into a string or slice in lexer and parser code is dominated by a length test that covers it (or the operand is non-empty by a named invariant); (C02.width) lexer.backup() is only valid while lexer.width describes the rune consumed last; a typestate (FRESH after next, USED after backup) is " +
				"propagated through every lexer function with computed method summaries (peek, accept, …, including the save/restore-width idiom) and through the state machine (the entry state of a " +
				"state function is the join of the states at every `return thatState`); every backup must find FRESH. (C02.nil) a parser function with a pointer/interface result that can return nil " +
				"is nullable, and every call site must test the result before calling a method on it or asserting its type. (C02.panicval) every panic in a function reachable from Set.parse has " +
				"a value implementing error (Template.recover does e.(error)). (C02.errs) no error returned to parser code is dropped. (C02.eof) every lexer loop consumes input on each round and has " +
				"an exit for end of input. (C02.struct) a missing {{end}} (EOF inside itemList) and a surplus {{end}}/{{else}}/{{content}} at top level reach a no-return error, unexpected() " +
				"reports late extends/import, and action() accepts neither. (C02.drain) Set.parse defers Template.recover before the lexer goroutine starts, recover drains the lexer before dropping " +
				"it, the goroutine closes its channel on every exit, and a state function only ends the scan through errorf or after emitting EOF. (C02.index, continued) the node constructors (constructors.go) are covered too; the named non-emptiness invariants cover index 0 only. (C02.width, continued) next() sets width to exactly what it consumed on every path (0 at the end of the input). (C02.errfmt) every printf-like call of the module (fmt's and the module's own wrappers, found by what they forward their format to) passes as format a constant, the caller's own format parameter, or a string built by Sprintf from a constant format whose string operands are that parameter or have their '%' doubled — a template's name or source never acts as a format. (C02.drain receiver-bound) wherever a method is deferred on a local pointer variable (`defer t.recover(&err)`), the variable has been assigned on every path to the defer statement: the receiver is evaluated when the defer statement runs, and a handler running on a nil template cannot drain the lexer it was meant to release.",
			NotDecided:  "absence of other runtime panics (index/slice arithmetic in lexText/lexLeftDelim/lexRightDelim); termination across state transitions; unbounded recursion on cyclic extends; error message contents.",
			Assumptions: []string{"character-class predicates (isSpace, isAlphaNumeric, strings.IndexRune(valid, r) >= 0) are false for eof (-1)"},
			Trusted:     commonTrusted,
		},
		Mutants: []Mutant{
			{Name: "template name spliced into the format of parse errors (original defect)", File: "parse.go", Old: "strings.Replace(t.ParseName, \"%\", \"%%\", -1)", New: "t.ParseName", Rule: "C02.errfmt"},
			{Name: "lexer error text used as a format", File: "parse.go", Old: "func (t *Template) error(err error) {\n\tt.errorf(\"%s\", err)", New: "func (t *Template) error(err error) {\n\tt.errorf(err.Error())", Rule: "C02.errfmt"},
			{Name: "closing comment marker searched from the opening marker (agent seed C02/1)", File: "lex.go", Old: "\tl.pos += Pos(len(l.leftComment))\n\ti := strings.Index(l.input[l.pos:], l.rightComment)", New: "\ti := strings.Index(l.input[l.pos:], l.rightComment)", Rule: "C02.struct"},
			{Name: "peek clobbers width (original defect)", File: "lex.go", Old: "\twidth := l.width\n\tr := l.next()\n\tl.backup()\n\tl.width = width // keep describing the last consumed rune, so backup() stays valid after peek()\n\treturn r", New: "\tr := l.next()\n\tl.backup()\n\treturn r", Rule: "C02.width"},
			{Name: "trim-marker test indexes one byte past its length check (agent seed C02/3)", File: "lex.go", Old: "\t\t\t\tif strings.HasPrefix(l.input[l.pos+ld:], leftTrimMarker) {", New: "\t\t\t\tif s := l.input[l.pos+ld:]; len(s) >= 1 && s[0] == '-' && isSpace(rune(s[1])) {", Rule: "C02.index"},
			{Name: "equivalent: trim-marker test by bytes with a sufficient length check", File: "lex.go", Old: "\t\t\t\tif strings.HasPrefix(l.input[l.pos+ld:], leftTrimMarker) {", New: "\t\t\t\tif s := l.input[l.pos+ld:]; len(s) >= 2 && s[0] == '-' && s[1] == ' ' {", Rule: "-"},
			{Name: "a configuration error is raised before the lexer goroutine runs (agent seed C02/4)", File: "parse.go", Old: "\tlexer.run()\n\tt.startParse(lexer)\n", New: "\tt.startParse(lexer)\n\tif lexer.leftDelim == lexer.leftComment {\n\t\tt.errorf(\"ambiguous delimiters\")\n\t}\n\tlexer.run()\n", Rule: "C02.drain"},
			{Name: "equivalent: startParse and run swapped with nothing in between", File: "parse.go", Old: "\tlexer.run()\n\tt.startParse(lexer)\n", New: "\tt.startParse(lexer)\n\tlexer.run()\n", Rule: "-"},
			{Name: "double backup in lexField", File: "lex.go", Old: "\t\tif !isAlphaNumeric(r) {\n\t\t\tl.backup()\n\t\t\tbreak\n\t\t}\n\t}\n\tif !l.atTerminator() {", New: "\t\tif !isAlphaNumeric(r) {\n\t\t\tl.backup()\n\t\t\tbreak\n\t\t}\n\t}\n\tl.backup()\n\tif !l.atTerminator() {", Rule: "C02.width"},
			{Name: "parseCatch dereferences a nil term (original defect)", File: "parse.go", Old: "\t\tif _errVar == nil {\n\t\t\tt.unexpected(t.next(), \"catch\", \"identifier\")\n\t\t}\n", New: "", Rule: "C02.nil"},
			{Name: "string panic in a parser helper", File: "parse.go", Old: "\t\t\tt.errorf(\"unexpected node in assign\")", New: "\t\t\tpanic(\"unexpected node in assign\")", Rule: "C02.panicval"},
			{Name: "number syntax error ignored", File: "parse.go", Old: "\t\tnumber, err := t.newNumber(token.pos, token.val, token.typ)\n\t\tif err != nil {\n\t\t\tt.error(err)\n\t\t}\n\t\treturn number", New: "\t\tnumber, _ := t.newNumber(token.pos, token.val, token.typ)\n\t\treturn number", Rule: "C02."},
			{Name: "unterminated raw string loops forever", File: "lex.go", Old: "\t\tswitch l.next() {\n\t\tcase eof:\n\t\t\treturn l.errorf(\"unterminated raw quoted string\")\n\t\tcase '`':\n\t\t\tbreak Loop\n\t\t}", New: "\t\tswitch l.next() {\n\t\tcase '`':\n\t\t\tbreak Loop\n\t\t}", Rule: "C02.eof"},
			{Name: "missing {{end}} silently accepted", File: "parse.go", Old: "\t\tlist.append(n)\n\t}\n\tt.errorf(\"unexpected EOF\")\n\treturn\n}", New: "\t\tlist.append(n)\n\t}\n\treturn\n}", Rule: "C02.struct"},
			{Name: "surplus {{end}} silently accepted", File: "parse.go", Old: "\t\tcase nodeEnd, nodeElse, nodeContent, nodeCatch:\n\t\t\tt.errorf(\"unexpected %s\", n)\n\t\tdefault:", New: "\t\tcase nodeEnd, nodeElse, nodeContent, nodeCatch:\n\t\tdefault:", Rule: "C02.struct"},
			{Name: "lexer goroutine not drained on a parse error", File: "parse.go", Old: "\t\tif t != nil {\n\t\t\tt.lex.drain()\n\t\t\tt.stopParse()\n\t\t}", New: "\t\tif t != nil {\n\t\t\tt.stopParse()\n\t\t}", Rule: "C02.drain"},
			{Name: "recover deferred after the lexer was started", File: "parse.go", Old: "\tdefer t.recover(&err)\n\n\tlexer := lex(name, text, false)\n\tlexer.setDelimiters(s.leftDelim, s.rightDelim)\n\tlexer.setCommentDelimiters(s.leftComment, s.rightComment)\n\tlexer.run()\n", New: "\tlexer := lex(name, text, false)\n\tlexer.setDelimiters(s.leftDelim, s.rightDelim)\n\tlexer.setCommentDelimiters(s.leftComment, s.rightComment)\n\tlexer.run()\n\tdefer t.recover(&err)\n", Rule: "C02.drain"},
			{Name: "scan ends without EOF token", File: "lex.go", Old: "\tif l.pos > l.start {\n\t\tl.emit(itemText)\n\t}\n\tl.emit(itemEOF)\n\treturn nil\n}", New: "\tif l.pos > l.start {\n\t\tl.emit(itemText)\n\t\tl.emit(itemEOF)\n\t}\n\treturn nil\n}", Rule: "C02.drain"},
			{Name: "late import accepted as an ordinary action", File: "parse.go", Old: "\tcase itemReturn:\n\t\treturn t.parseReturn()\n\t}", New: "\tcase itemReturn:\n\t\treturn t.parseReturn()\n\tcase itemImport:\n\t\tt.expectString(\"import\")\n\t\treturn t.endControl()\n\t}", Rule: "C02.struct"},
		},
	})
}

func runC02(c *an.Ctx) {
	c02width(c)
	c02nil(c)
	c02panicval(c)
	c02errs(c)
	c02eof(c)
	c02struct(c)
	c02drain(c)
	c02index(c)
	c02errfmt(c)
	c02next(c)
	c02parserLoops(c)
	c02drainAgrees(c)
	c02deferReceiver(c)
}

// ------------------------------------------------------------------------------------------- C02.width

const (
	wFresh = "F" // width describes the rune consumed last: backup() is valid
	wUsed  = "U" // backup() already used / nothing consumed since
)

type widthSummary struct {
	exits   map[string]bool            // possible states at return
	returns map[string]map[string]bool // for state functions: returned state function → states
	bad     []widthBad
}
type widthBad struct {
	pos   token.Pos
	msg   string
	trail []string
}

type widthAnalysis struct {
	c     *an.Ctx
	p     *an.Prog
	memo  map[string]*widthSummary
	busy  map[string]bool
	lexer *types.Named
}

func (w *widthAnalysis) isLexerFn(f *an.Fn) bool {
	if f == nil || f.Sig == nil {
		return false
	}
	if r := f.Sig.Recv(); r != nil && an.NamedOf(r.Type()) == w.lexer {
		return true
	}
	for i := 0; i < f.Sig.Params().Len(); i++ {
		if an.NamedOf(f.Sig.Params().At(i).Type()) == w.lexer {
			return true
		}
	}
	return false
}

// summary explores f with the given entry state.
func (w *widthAnalysis) summary(f *an.Fn, entry string) *widthSummary {
	key := f.Name + "@" + entry
	if s, ok := w.memo[key]; ok {
		return s
	}
	if w.busy[key] {
		return &widthSummary{exits: map[string]bool{entry: true}, returns: map[string]map[string]bool{}}
	}
	w.busy[key] = true
	defer delete(w.busy, key)
	p := w.p
	info := f.Info()
	sum := &widthSummary{exits: map[string]bool{}, returns: map[string]map[string]bool{}}
	// primitive methods
	switch f.Name {
	case "(*lexer).next":
		sum.exits[wFresh] = true
		w.memo[key] = sum
		return sum
	case "(*lexer).backup":
		if entry != wFresh {
			sum.bad = append(sum.bad, widthBad{f.Pos(), "backup() is called while lexer.width no longer describes the rune consumed last", nil})
		}
		sum.exits[wUsed] = true
		w.memo[key] = sum
		return sum
	}
	hooks := an.Hooks{
		Call: func(x *an.Explorer, call *ast.CallExpr, st *an.State) {
			g := p.FnByObj[an.Callee(info, call)]
			if g == nil || !w.isLexerFn(g) || g.Body == nil {
				return
			}
			cur := st.Get("w")
			gs := w.summary(g, cur)
			for _, b := range gs.bad {
				if g.Name == "(*lexer).backup" {
					if st.Get("bad") == "" {
						st.Set("bad", fmt.Sprintf("%d", call.Pos()))
					}
				} else if st.Get("bad") == "" {
					st.Set("bad", fmt.Sprintf("%d", call.Pos()))
					_ = b
				}
			}
			// non-deterministic exit state: keep it simple — if several, the meet is USED unless all FRESH
			switch {
			case len(gs.exits) == 0:
			case len(gs.exits) == 1:
				for s := range gs.exits {
					st.Set("w", s)
				}
			default:
				st.Set("w", "FU") // either: a following backup is not justified on every path
			}
		},
		PreAssign: func(x *an.Explorer, lhs, rhs ast.Expr, stmt ast.Node, st *an.State) {
			// width := l.width  (save) … l.width = width (restore): the state at the save comes back
			if id, ok := an.Unparen(lhs).(*ast.Ident); ok && rhs != nil && p.FieldKey(info, rhs) == "lexer.width" {
				st.Set("savedw:"+id.Name, st.Get("w"))
				return
			}
			switch p.FieldKey(info, lhs) {
			case "lexer.width":
				if id, ok := an.Unparen(rhs).(*ast.Ident); ok && rhs != nil && st.Get("savedw:"+id.Name) != "" {
					st.Set("w", st.Get("savedw:"+id.Name))
				} else {
					st.Set("w", wUsed)
				}
			case "lexer.pos":
				// the cursor is moved by hand: width no longer matches the last step
				st.Set("w", wUsed)
			}
		},
	}
	x := p.NewExplorer(f, hooks)
	init := an.NewState()
	init.Set("w", entry)
	x.Run(init)
	w.c.States += x.Visited
	seenBad := map[string]bool{}
	for _, ex := range x.Exits {
		if b := ex.State.Get("bad"); b != "" && !seenBad[b] {
			seenBad[b] = true
			var pos int
			fmt.Sscanf(b, "%d", &pos)
			sum.bad = append(sum.bad, widthBad{token.Pos(pos), "backup() (directly or inside the called lexer method) runs while lexer.width does not describe the rune consumed last: the cursor moves by the width of an older/peeked rune", ex.Trail})
		}
		if ex.Kind != an.ExitReturn {
			continue
		}
		s := ex.State.Get("w")
		sum.exits[s] = true
		// state functions: which state function is returned?
		if ex.Ret != nil && len(ex.Ret.Results) == 1 {
			if id, ok := an.Unparen(ex.Ret.Results[0]).(*ast.Ident); ok {
				if fo, ok := an.ObjOf(info, id).(*types.Func); ok {
					if g := p.FnByObj[fo]; g != nil {
						if sum.returns[g.Name] == nil {
							sum.returns[g.Name] = map[string]bool{}
						}
						sum.returns[g.Name][s] = true
					}
				}
			}
		}
	}
	// normalise the "FU" pseudo state into both members for callers
	if sum.exits["FU"] {
		delete(sum.exits, "FU")
		sum.exits[wFresh], sum.exits[wUsed] = true, true
	}
	w.memo[key] = sum
	return sum
}

func c02width(c *an.Ctx) {
	p := c.P
	lexer := p.LookupType(p.Jet, "lexer")
	if lexer == nil {
		c.Anchor("C02.width", "type lexer")
		return
	}
	w := &widthAnalysis{c: c, p: p, memo: map[string]*widthSummary{}, busy: map[string]bool{}, lexer: lexer}
	// state functions: func(*lexer) stateFn
	var stateFns []*an.Fn
	for _, f := range p.Units() {
		if f.Pkg == p.Jet && f.Decl != nil && f.Sig != nil && f.Sig.Recv() == nil && f.Sig.Params().Len() == 1 && an.NamedOf(f.Sig.Params().At(0).Type()) == lexer &&
			f.Sig.Results().Len() == 1 && an.TypeName(f.Sig.Results().At(0).Type()) == "jet.stateFn" {
			stateFns = append(stateFns, f)
		}
	}
	c.Expect("C02.width", "lexer state functions", len(stateFns), 10)
	entry := map[string]map[string]bool{"lexText": {wUsed: true}}
	for changed, round := true, 0; changed && round < 20; round++ {
		changed = false
		for _, f := range stateFns {
			for s := range entry[f.Name] {
				for _, es := range expandFU(s) {
					sum := w.summary(f, es)
					for g, states := range sum.returns {
						for gs := range states {
							for _, g1 := range expandFU(gs) {
								if entry[g] == nil {
									entry[g] = map[string]bool{}
								}
								if !entry[g][g1] {
									entry[g][g1] = true
									changed = true
								}
							}
						}
					}
				}
			}
		}
	}
	nBackup := 0
	for _, f := range p.Units() {
		if f.Pkg == p.Jet && f.Body != nil && w.isLexerFn(f) {
			nBackup += len(p.CallsIn(f, "(*jet.lexer).backup"))
		}
	}
	c.Expect("C02.width", "backup call sites", nBackup, 15)
	reported := map[token.Pos]bool{}
	for _, f := range stateFns {
		c.FnsAnalysed[f.Name] = true
		var states []string
		for s := range entry[f.Name] {
			states = append(states, s)
		}
		sort.Strings(states)
		if len(states) == 0 {
			c.Note("state function %s is never returned by another state function (unreachable in the state machine)", f.Name)
			continue
		}
		bad := false
		for _, s := range states {
			for _, b := range w.summary(f, s).bad {
				if reported[b.pos] {
					bad = true
					continue
				}
				reported[b.pos] = true
				bad = true
				c.Bad("C02.width", f.Name+"/backup", b.pos, b.trail, "%s (entered with width state %s): %s — with a multi-byte rune this moves pos before start and the lexer goroutine panics", f.Name, s, b.msg)
			}
		}
		if !bad {
			c.OK("C02.width", f.Name+"/backup", f.Pos(), "every backup() reachable in %s finds a FRESH width (entry states %v)", f.Name, states)
		}
	}
}

func expandFU(s string) []string {
	if s == "FU" {
		return []string{wFresh, wUsed}
	}
	return []string{s}
}

// ------------------------------------------------------------------------------------------- C02.nil

func c02nil(c *an.Ctx) {
	p := c.P
	parse := p.Parse()
	nullable := map[*an.Fn]token.Pos{}
	for _, f := range an.SortedFns(parse) {
		if f.Pkg != p.Jet || f.Decl == nil || f.Sig == nil || f.Sig.Results().Len() != 1 {
			continue
		}
		rt := f.Sig.Results().At(0).Type()
		switch rt.Underlying().(type) {
		case *types.Pointer, *types.Interface:
		default:
			continue
		}
		if isErrorType(rt) {
			continue
		}
		x := p.NewExplorer(f, an.Hooks{})
		x.Run(nil)
		c.States += x.Visited
		for _, ex := range x.Exits {
			if ex.Kind != an.ExitReturn || ex.Ret == nil {
				continue
			}
			if len(ex.Ret.Results) == 1 {
				if id, ok := an.Unparen(ex.Ret.Results[0]).(*ast.Ident); ok && id.Name == "nil" {
					nullable[f] = ex.Ret.Pos()
				}
			}
		}
	}
	var names []string
	for f := range nullable {
		names = append(names, f.Name)
	}
	sort.Strings(names)
	c.Note("nullable parser functions: %v", names)
	c.Expect("C02.nil", "nullable parser functions", len(nullable), 1)
	nSites := 0
	for f := range nullable {
		for _, s := range p.AllCalls(an.FuncName(f.Obj)) {
			info := s.Fn.Info()
			// the variable bound to the result
			var v types.Object
			var bindEnd token.Pos
			for _, enc := range an.EnclosingStmts(s.Fn, s.Call) {
				an.Assigns(enc, func(lhs, rhs ast.Expr, _ token.Token) {
					if rhs != nil && an.Unparen(rhs) == ast.Expr(s.Call) {
						if id, ok := an.Unparen(lhs).(*ast.Ident); ok {
							v = an.ObjOf(info, id)
							bindEnd = enc.End()
						}
					}
				})
			}
			if v == nil {
				// result used directly: x.term().Type() would be a violation; passing it on or dropping it is not
				bad := false
				for _, enc := range an.EnclosingStmts(s.Fn, s.Call) {
					ast.Inspect(enc, func(n ast.Node) bool {
						switch u := n.(type) {
						case *ast.SelectorExpr:
							if an.Unparen(u.X) == ast.Expr(s.Call) {
								bad = true
							}
						case *ast.TypeAssertExpr:
							if an.Unparen(u.X) == ast.Expr(s.Call) {
								bad = true
							}
						}
						return true
					})
				}
				if bad {
					nSites++
					c.Bad("C02.nil", s.Fn.Name+"→"+f.Name, s.Call.Pos(), nil, "the result of %s, which can be nil, is dereferenced directly", f.Name)
				}
				continue
			}
			nSites++
			// every use of v as a method receiver / in a type assertion, while v still holds the nullable
			// result (not after it was reassigned), must lie behind a nil test
			key := s.Fn.Name + "→" + f.Name
			holds := fmt.Sprintf("holds:%d", s.Call.Pos())
			var bad ast.Node
			nUses := 0
			isV := func(e ast.Expr) bool {
				id, ok := an.Unparen(e).(*ast.Ident)
				return ok && an.ObjOf(info, id) == v
			}
			check := func(x *an.Explorer, n ast.Node, st *an.State) {
				if st.Get(holds) == "" {
					return
				}
				nUses++
				if !an.FactIs(st, an.RoleOf(v)+" == nil", false) && bad == nil {
					bad = n
				}
			}
			hooks := an.Hooks{
				Call: func(x *an.Explorer, call *ast.CallExpr, st *an.State) {
					if recv := an.Receiver(call); recv != nil && isV(recv) {
						check(x, call, st)
					}
				},
				PreAssign: func(x *an.Explorer, lhs, rhs ast.Expr, stmt ast.Node, st *an.State) {
					if rhs != nil {
						if ta, ok := an.Unparen(rhs).(*ast.TypeAssertExpr); ok && isV(ta.X) {
							if as, isAs := stmt.(*ast.AssignStmt); isAs && len(as.Lhs) == 1 {
								check(x, stmt, st)
							}
						}
					}
					if isV(lhs) {
						if rhs != nil && an.Unparen(rhs) == ast.Expr(s.Call) {
							st.Set(holds, "1")
						} else {
							st.Set(holds, "")
						}
					}
				},
			}
			x := p.NewExplorer(s.Fn, hooks)
			x.Run(nil)
			c.States += x.Visited
			if bad != nil {
				c.Bad("C02.nil", key, bad.Pos(), nil, "%s can return nil (%s), but %s uses the result %q at %s without a preceding nil test: a nil-pointer dereference, a runtime error that Template.recover re-panics out of Set.Parse/GetTemplate",
					f.Name, p.RelPos(nullable[f]), s.Fn.Name, v.Name(), p.RelPos(bad.Pos()))
			} else {
				c.OK("C02.nil", key, s.Call.Pos(), "every dereference of the nullable result (%d use(s) while it is held) is behind a nil test", nUses)
			}
			_ = bindEnd
		}
	}
	c.Expect("C02.nil", "call sites binding a nullable result", nSites, 2)
}

// ------------------------------------------------------------------------------------------- C02.panicval

// panics in parser code that cannot fire, each with its reason
var parsePanicExceptions = map[string]string{
	"(*ChainNode).Add": "the two string panics guard against a field token without a name; the lexer only emits itemField for '.' followed by at least one alphanumeric rune (lexField), so the argument always starts with '.' and has a name",
	"IsEmptyTree":      "exported helper that is not called by the parser or the evaluator",
}

func c02panicval(c *an.Ctx) {
	p := c.P
	parse := p.Parse()
	errIf := errorIface()
	n := 0
	for _, f := range an.SortedFns(parse) {
		if f.Pkg != p.Jet || f.Body == nil {
			continue
		}
		info := f.Info()
		for _, call := range p.CallsIn(f, "builtin.panic") {
			n++
			arg := call.Args[0]
			if id, ok := an.Unparen(arg).(*ast.Ident); ok {
				reraise := false
				for _, d := range an.LocalDefs(f, an.ObjOf(info, id)) {
					if d != nil && an.CalleeName(info, callOf(d)) == "builtin.recover" {
						reraise = true
					}
				}
				if reraise {
					continue
				}
			}
			key := f.Name + "/panic"
			t := info.Types[arg].Type
			switch {
			case t != nil && types.Implements(t, errIf):
				c.OK("C02.panicval", key, call.Pos(), "panic value implements error")
			case parsePanicExceptions[f.Name] != "":
				c.Note("exception %s (%s): %s", f.Name, p.RelPos(call.Pos()), parsePanicExceptions[f.Name])
			default:
				c.Bad("C02.panicval", key, call.Pos(), nil, "%s panics with a %s: Template.recover does e.(error) on it, which panics again — Set.Parse/GetTemplate crash instead of returning an error", f.Name, an.TypeName(t))
			}
		}
	}
	c.Expect("C02.panicval", "panic sites reachable from Set.parse", n, 4)
}

// ------------------------------------------------------------------------------------------- C02.errs

func c02errs(c *an.Ctx) {
	p := c.P
	parse := p.Parse()
	n := 0
	for _, f := range an.SortedFns(parse) {
		if f.Pkg != p.Jet || f.Body == nil {
			continue
		}
		// the lookup functions of Set are C16.errs' obligation
		if f.Sig != nil && f.Sig.Recv() != nil && an.TypeName(f.Sig.Recv().Type()) == "*jet.Set" && f.Name != "(*Set).parse" {
			continue
		}
		info := f.Info()
		bad, ok := p.DroppedErrors(f, func(name string, call *ast.CallExpr) bool {
			// fmt.Errorf/errors.New create errors (their result is used as a value), Sscan's count is irrelevant
			return !strings.HasPrefix(name, "fmt.Errorf") && name != "errors.New" && !strings.HasPrefix(name, "fmt.Fprint")
		})
		for _, b := range bad {
			c.Bad("C02.errs", f.Name+"/"+an.CalleeName(info, b.Call), b.Pos, b.Trail, "%s: %s — a malformed template would be accepted silently", f.Name, b.Msg)
		}
		for _, o := range ok {
			n++
			c.OK("C02.errs", f.Name+"/"+an.CalleeName(info, o), o.Pos(), "the error is tested and reported, or returned")
		}
	}
	c.Expect("C02.errs", "error-returning calls in parser code", n, 8)
}

// ------------------------------------------------------------------------------------------- C02.eof

func c02eof(c *an.Ctx) {
	p := c.P
	lexer := p.LookupType(p.Jet, "lexer")
	info := p.Jet.TypesInfo
	consuming := func(call *ast.CallExpr) bool {
		switch an.CalleeName(info, call) {
		case "(*jet.lexer).next", "(*jet.lexer).accept", "(*jet.lexer).acceptRun", "(*jet.lexer).scanNumber":
			return true
		}
		return false
	}
	n := 0
	for _, f := range p.Units() {
		if f.Pkg != p.Jet || f.Body == nil || f.Sig == nil {
			continue
		}
		isLex := f.Sig.Recv() != nil && an.NamedOf(f.Sig.Recv().Type()) == lexer
		for i := 0; i < f.Sig.Params().Len(); i++ {
			if an.NamedOf(f.Sig.Params().At(i).Type()) == lexer {
				isLex = true
			}
		}
		if !isLex {
			continue
		}
		an.InspectOwn(f, func(nd ast.Node) bool {
			fs, ok := nd.(*ast.ForStmt)
			if !ok {
				return true
			}
			n++
			key := fmt.Sprintf("%s/loop", f.Name)
			// (a) progress: the loop consumes input (a consuming call, or a store to lexer.pos) or drains a channel
			progress := false
			ast.Inspect(fs, func(m ast.Node) bool {
				switch x := m.(type) {
				case *ast.CallExpr:
					if consuming(x) {
						progress = true
					}
				case *ast.AssignStmt:
					for _, l := range x.Lhs {
						if k := p.FieldKey(info, l); k == "lexer.pos" || k == "lexer.state" {
							progress = true
						}
					}
				}
				return true
			})
			if !progress {
				c.Bad("C02.eof", key, fs.Pos(), nil, "a loop in %s neither consumes input nor advances the cursor: it can spin forever", f.Name)
				return true
			}
			// (b) an exit for end of input
			eofExit := false
			why := ""
			// loop condition is a character-class test on the consumed/peeked rune (false for eof)
			// a character-class test is false for eof: isSpace(r), isAlphaNumeric(r), IndexRune(set, r) >= 0, ContainsRune(set, r)
			classTest := func(e ast.Expr) bool {
				cs := strings.ReplaceAll(an.Str(an.Unparen(e)), " ", "")
				return strings.HasPrefix(cs, "isSpace(") || strings.HasPrefix(cs, "isAlphaNumeric(") || strings.HasPrefix(cs, "strings.IndexRune(") || strings.HasPrefix(cs, "strings.ContainsRune(")
			}
			if fs.Cond != nil {
				for _, cj := range conjuncts(fs.Cond) {
					if classTest(cj) || strings.Contains(an.Str(cj), "l.state != nil") {
						eofExit = true
					}
				}
			}
			// a disjunct of an if condition that is true at end of input: X == eof, !classTest(X), i == -1
			var disjuncts func(e ast.Expr) []ast.Expr
			disjuncts = func(e ast.Expr) []ast.Expr {
				e = an.Unparen(e)
				if b, ok := e.(*ast.BinaryExpr); ok && b.Op == token.LOR {
					return append(disjuncts(b.X), disjuncts(b.Y)...)
				}
				return []ast.Expr{e}
			}
			trueAtEOF := func(cond ast.Expr) bool {
				for _, d := range disjuncts(cond) {
					if b, ok := d.(*ast.BinaryExpr); ok && b.Op == token.EQL && (an.Str(b.Y) == "eof" || an.Str(b.X) == "eof") {
						return true
					}
					if u, ok := d.(*ast.UnaryExpr); ok && u.Op == token.NOT && classTest(u.X) {
						return true
					}
					if strings.ReplaceAll(an.Str(d), " ", "") == "i==-1" {
						return true
					}
				}
				return false
			}
			ast.Inspect(fs.Body, func(m ast.Node) bool {
				switch x := m.(type) {
				case *ast.CaseClause:
					for _, e := range x.List {
						s := strings.ReplaceAll(an.Str(e), " ", "")
						if s == "eof" || s == "r==eof" {
							if leaves(x.Body) {
								eofExit = true
							} else {
								why = "the eof case does not leave the loop"
							}
						}
					}
					// a default arm that leaves the loop, next to class-only cases (lexIdentifier): eof falls into it
					if x.List == nil && leaves(x.Body) {
						eofExit = true
					}
				case *ast.IfStmt:
					if trueAtEOF(x.Cond) && leaves(x.Body.List) {
						eofExit = true
					}
				}
				return true
			})
			if eofExit {
				c.OK("C02.eof", key, fs.Pos(), "the loop consumes input and has an exit for end of input")
			} else {
				c.Bad("C02.eof", key, fs.Pos(), nil, "a loop in %s consumes runes but has no exit that is taken at end of input (%s): next() keeps returning eof and the lexer goroutine never finishes — the parser waits forever", f.Name, firstNonEmpty(why, "no eof case / class test"))
			}
			return true
		})
	}
	c.Expect("C02.eof", "loops in lexer functions", n, 7)
}

// leaves: the statement list ends by leaving the enclosing loop (return, break, goto)
func leaves(list []ast.Stmt) bool {
	if len(list) == 0 {
		return false
	}
	switch s := list[len(list)-1].(type) {
	case *ast.ReturnStmt:
		return true
	case *ast.BranchStmt:
		return s.Tok == token.BREAK || s.Tok == token.GOTO
	}
	return false
}

// ------------------------------------------------------------------------------------------- C02.struct

func c02struct(c *an.Ctx) {
	p := c.P
	info := p.Jet.TypesInfo
	// itemList: falling out of the loop (EOF) reaches a no-return call
	if f := c.Fn("C02.struct", "(*Template).itemList"); f != nil {
		x := p.NewExplorer(f, an.Hooks{})
		x.Run(nil)
		c.States += x.Visited
		ok := true
		nRet := 0
		for _, ex := range x.Exits {
			if ex.Kind != an.ExitReturn {
				continue
			}
			nRet++
			// a normal return must carry a terminator node: `return list, n`
			if ex.Ret == nil || len(ex.Ret.Results) != 2 {
				ok = false
			}
		}
		c.Check(ok && nRet >= 1, "C02.struct", "(*Template).itemList/eof", f.Pos(), "a list only ends at one of its terminators; end of input inside it is an error",
			"itemList can return normally without having seen a terminator ({{end}}): a missing {{end}} is silently accepted")
	}
	// parseTemplate: top-level terminators are errors
	if f := c.Fn("C02.struct", "(*Template).parseTemplate"); f != nil {
		ok := false
		an.InspectOwn(f, func(n ast.Node) bool {
			cc, isCC := n.(*ast.CaseClause)
			if !isCC {
				return true
			}
			got := map[string]bool{}
			for _, e := range cc.List {
				got[an.Str(e)] = true
			}
			if got["nodeEnd"] && got["nodeElse"] && got["nodeContent"] && len(cc.Body) > 0 {
				if es, isEs := cc.Body[len(cc.Body)-1].(*ast.ExprStmt); isEs {
					if call, isCall := es.X.(*ast.CallExpr); isCall && p.CallNeverReturns(info, call) {
						ok = true
					}
				}
			}
			return true
		})
		c.Check(ok, "C02.struct", "(*Template).parseTemplate/surplus-terminator", f.Pos(), "a surplus {{end}}, {{else}} or {{content}} at top level is an error",
			"parseTemplate does not send a top-level nodeEnd/nodeElse/nodeContent to a no-return error: a surplus {{end}} is silently accepted")
	}
	// lexComment: the closing marker is searched after the opening one (else overlapping markers such as
	// `{*}` close themselves and an unterminated comment is accepted)
	if f := c.Fn("C02.struct", "lexComment"); f != nil {
		skipped := false
		okOrder, sawIndex := true, false
		x := p.NewExplorer(f, an.Hooks{
			PreAssign: func(x *an.Explorer, lhs, rhs ast.Expr, stmt ast.Node, st *an.State) {
				if p.FieldKey(info, lhs) == "lexer.pos" && rhs != nil && strings.Contains(an.Norm(f, rhs), "len($p0.leftComment)") {
					if as, ok := stmt.(*ast.AssignStmt); ok && as.Tok == token.ADD_ASSIGN {
						st.Set("skipped", "1")
						skipped = true
					}
				}
				// a local holding the rest of the input: remember whether it was taken after the opening marker was skipped
				if id, ok := an.Unparen(lhs).(*ast.Ident); ok && rhs != nil {
					if _, isSlice := an.Unparen(rhs).(*ast.SliceExpr); isSlice && strings.Contains(an.Norm(f, rhs), "$p0.input[$p0.pos:") {
						when := "before"
						if st.Get("skipped") != "" {
							when = "after"
						}
						st.Set("rest:"+id.Name, when)
					}
				}
			},
			Call: func(x *an.Explorer, call *ast.CallExpr, st *an.State) {
				if an.CalleeName(info, call) == "strings.Index" && len(call.Args) == 2 && strings.Contains(an.Norm(f, call.Args[1]), "$p0.rightComment") {
					sawIndex = true
					hay := an.Unparen(call.Args[0])
					fromPos := strings.Contains(an.Norm(f, hay), "$p0.input[$p0.pos:")
					if id, isId := hay.(*ast.Ident); isId {
						fromPos = st.Get("rest:"+id.Name) == "after"
					}
					if st.Get("skipped") == "" || !fromPos {
						okOrder = false
					}
				}
			},
		})
		x.Run(nil)
		c.States += x.Visited
		c.Check(skipped && sawIndex && okOrder, "C02.struct", "lexComment/close-after-open", f.Pos(), "the closing comment marker is searched after the opening marker",
			"lexComment searches for the closing marker without first skipping the opening one: with overlapping markers (`{*}`) an unterminated comment is silently accepted")
		// not found → error: on every path where the search result is negative the state function returned is
		// the lexer's error (no path goes on lexing with a negative index)
		idxVars := map[types.Object]bool{}
		an.InspectOwn(f, func(n ast.Node) bool {
			if as, ok := n.(*ast.AssignStmt); ok && len(as.Lhs) == 1 && len(as.Rhs) == 1 {
				if call, ok := an.Unparen(as.Rhs[0]).(*ast.CallExpr); ok && an.CalleeName(info, call) == "strings.Index" {
					if id, ok := as.Lhs[0].(*ast.Ident); ok {
						idxVars[an.ObjOf(info, id)] = true
					}
				}
			}
			return true
		})
		xe := p.NewExplorer(f, an.Hooks{Branch: func(x *an.Explorer, cond ast.Expr, val bool, st *an.State) {
			b, ok := an.Unparen(cond).(*ast.BinaryExpr)
			if !ok {
				return
			}
			id, isId := an.Unparen(b.X).(*ast.Ident)
			if !isId || !idxVars[an.ObjOf(info, id)] {
				return
			}
			rhs := an.Str(b.Y)
			neg := (b.Op == token.LSS && rhs == "0") || (b.Op == token.EQL && rhs == "-1") || (b.Op == token.LEQ && rhs == "-1")
			nonneg := (b.Op == token.GEQ && rhs == "0") || (b.Op == token.NEQ && rhs == "-1") || (b.Op == token.GTR && rhs == "-1")
			if (neg && val) || (nonneg && !val) {
				st.Set("missing", "1")
			} else if neg || nonneg {
				st.Set("found", "1")
			}
		}})
		xe.Run(nil)
		c.States += xe.Visited
		okErr, sawMissing := len(idxVars) > 0, false
		for _, ex := range xe.Exits {
			if ex.Kind != an.ExitReturn || ex.Ret == nil || len(ex.Ret.Results) != 1 {
				continue
			}
			isErr := an.CalleeName(info, callOf(ex.Ret.Results[0])) == "(*jet.lexer).errorf"
			switch {
			case ex.State.Get("missing") != "":
				sawMissing = true
				if !isErr {
					okErr = false
				}
			case ex.State.Get("found") == "" && !isErr:
				okErr = false // returned without ever testing the search result
			}
		}
		c.Check(okErr && sawMissing, "C02.struct", "lexComment/unclosed", f.Pos(), "an unclosed comment is a lexing error", "lexComment does not report a comment whose closing marker is missing")
	}
	// delimiters are byte strings of any encoding-valid content: a fragment of one (its first byte, a
	// sub-slice) may only be searched for byte-wise.  Handing such a fragment to a function that interprets
	// its argument as a set of runes (IndexAny, ContainsAny, Trim…, IndexRune) breaks every delimiter
	// that starts with a multi-byte character: the lexer never finds it and accepts any broken template.
	{
		runeSet := map[string]bool{"strings.IndexAny": true, "strings.LastIndexAny": true, "strings.ContainsAny": true, "strings.Trim": true, "strings.TrimLeft": true, "strings.TrimRight": true, "strings.IndexRune": true, "strings.ContainsRune": true}
		nSearch := 0
		for _, f := range p.Units() {
			if f.Pkg != p.Jet || f.Body == nil || !strings.HasSuffix(p.Fset.Position(f.Pos()).Filename, "/lex.go") {
				continue
			}
			finfo := f.Info()
			an.InspectOwn(f, func(n ast.Node) bool {
				call, ok := n.(*ast.CallExpr)
				if !ok {
					return true
				}
				name := an.CalleeName(finfo, call)
				if !strings.HasPrefix(name, "strings.Index") && !runeSet[name] {
					return true
				}
				fragment := false
				var exprs []ast.Expr
				for _, a := range call.Args[1:] {
					exprs = append(exprs, a)
					// a local that holds the fragment (first := l.leftDelim[0])
					ast.Inspect(a, func(m ast.Node) bool {
						if id, ok := m.(*ast.Ident); ok {
							for _, d := range an.LocalDefs(f, an.ObjOf(finfo, id)) {
								if d != nil {
									exprs = append(exprs, d)
								}
							}
						}
						return true
					})
				}
				for _, a := range exprs {
					ast.Inspect(a, func(m ast.Node) bool {
						var base ast.Expr
						switch v := m.(type) {
						case *ast.SliceExpr:
							base = v.X
						case *ast.IndexExpr:
							base = v.X
						}
						if base != nil {
							if k := p.FieldKey(finfo, an.Unparen(base)); strings.HasPrefix(k, "lexer.") && (strings.Contains(k, "Delim") || strings.Contains(k, "Comment")) {
								fragment = true
							}
						}
						return true
					})
				}
				if !fragment {
					return true
				}
				nSearch++
				if runeSet[name] {
					c.Bad("C02.struct", f.Name+"/bytewise-delims", call.Pos(), nil, "%s searches for a fragment of a delimiter with %s, which reads its argument as runes: a delimiter that starts with a multi-byte character is never found, and unterminated actions, strings and surplus {{end}}s are then silently accepted as text", f.Name, name)
				} else {
					c.OK("C02.struct", f.Name+"/bytewise-delims", call.Pos(), "a fragment of a delimiter is searched for byte-wise (%s)", name)
				}
				return true
			})
		}
		c.Expect("C02.struct", "searches for a fragment of a delimiter", nSearch, 2)
	}
	// unexpected(): the extends/import arm
	if f := c.Fn("C02.struct", "(*Template).unexpected"); f != nil {
		// both token kinds are singled out by some test of the function (a case list or a comparison)
		named := map[string]bool{}
		an.InspectOwn(f, func(n ast.Node) bool {
			var exprs []ast.Expr
			switch v := n.(type) {
			case *ast.CaseClause:
				exprs = v.List
			case *ast.BinaryExpr:
				if v.Op == token.EQL || v.Op == token.NEQ {
					exprs = []ast.Expr{v.X, v.Y}
				}
			}
			for _, e := range exprs {
				if id, isId := an.Unparen(e).(*ast.Ident); isId && (id.Name == "itemImport" || id.Name == "itemExtends") {
					named[id.Name] = true
				}
			}
			return true
		})
		ok := named["itemImport"] && named["itemExtends"]
		c.Check(ok && p.NoReturn(f), "C02.struct", "(*Template).unexpected", f.Pos(), "unexpected() never returns and names late extends/import", "Template.unexpected can return, or no longer reports late extends/import clauses")
	}
	// action(): no arm accepts extends/import
	if f := c.Fn("C02.struct", "(*Template).action"); f != nil {
		bad := token.NoPos
		an.InspectOwn(f, func(n ast.Node) bool {
			if cc, isCC := n.(*ast.CaseClause); isCC {
				for _, e := range cc.List {
					if s := an.Str(e); s == "itemExtends" || s == "itemImport" {
						bad = cc.Pos()
					}
				}
			}
			return true
		})
		c.Check(!bad.IsValid(), "C02.struct", "(*Template).action/no-late-header", f.Pos(), "extends/import are not accepted as ordinary actions", "action() accepts extends/import after other content")
	}
}

// ------------------------------------------------------------------------------------------- C02.drain

func c02drain(c *an.Ctx) {
	p := c.P
	info := p.Jet.TypesInfo
	if f := c.Fn("C02.drain", "(*Set).parse"); f != nil {
		var deferPos, runPos token.Pos
		an.InspectOwn(f, func(n ast.Node) bool {
			switch x := n.(type) {
			case *ast.DeferStmt:
				if an.IsCallTo(info, x.Call, "(*jet.Template).recover") && !deferPos.IsValid() {
					deferPos = x.Pos()
				}
			case *ast.CallExpr:
				name := an.CalleeName(info, x)
				if name == "(*jet.lexer).run" {
					runPos = x.Pos()
				}
				if name == "jet.lex" && len(x.Args) == 3 && an.Str(x.Args[2]) == "true" {
					runPos = x.Pos()
				}
			}
			return true
		})
		c.Check(deferPos.IsValid() && runPos.IsValid() && deferPos < runPos, "C02.drain", "(*Set).parse/recover-before-run", f.Pos(), "Template.recover is deferred before the lexer goroutine is started",
			"Set.parse starts the lexer goroutine before deferring Template.recover: a panic in between would leave the goroutine blocked forever")
	}
	// once the template knows its lexer (startParse), a parse failure makes Template.recover drain the
	// lexer's channel; that terminates only if the lexer goroutine is running.  So between startParse and
	// lexer.run() nothing may raise a parse error.
	if f := c.Fn("C02.drain", "(*Set).parse"); f != nil {
		raise := p.FnsReaching("builtin.panic")
		var bad *ast.CallExpr
		nRun := 0
		hooks := an.Hooks{
			Call: func(x *an.Explorer, call *ast.CallExpr, st *an.State) {
				name := an.CalleeName(info, call)
				switch {
				case name == "(*jet.lexer).run", name == "jet.lex" && len(call.Args) == 3 && an.Str(call.Args[2]) == "true":
					st.Set("running", "1")
					nRun++
					return
				case name == "(*jet.Template).startParse":
					st.Set("lexset", "1")
					return
				}
				if st.Get("lexset") == "" || st.Get("running") != "" || bad != nil {
					return
				}
				if p.CallNeverReturns(info, call) {
					bad = call
					return
				}
				if g := p.FnByObj[an.Callee(info, call)]; g != nil && raise[g] {
					bad = call
				}
			},
			PreAssign: func(x *an.Explorer, lhs, rhs ast.Expr, stmt ast.Node, st *an.State) {
				if p.FieldKey(info, lhs) == "Template.lex" && rhs != nil && an.Str(rhs) != "nil" {
					st.Set("lexset", "1")
				}
			},
		}
		x := p.NewExplorer(f, hooks)
		x.Run(nil)
		c.States += x.Visited
		if nRun == 0 {
			c.Anchor("C02.drain", "start of the lexer goroutine in (*Set).parse")
		} else if bad != nil {
			c.Bad("C02.drain", "(*Set).parse/no-failure-before-run", bad.Pos(), nil, "%s can raise a parse error after the template was given its lexer but before the lexer goroutine runs: Template.recover then drains a channel nobody will ever close, and Parse/GetTemplate hang forever", an.Str(bad.Fun))
		} else {
			c.OK("C02.drain", "(*Set).parse/no-failure-before-run", f.Pos(), "nothing can raise a parse error between startParse and the start of the lexer goroutine")
		}
	}
	// parse failures travel by panic only: Template.recover is the one place that drains the lexer, so a
	// token-consuming parser method that *returned* an error would let Set.parse leave with the lexer
	// goroutine still blocked on its channel
	{
		// (paths through Set.parse belong to another template's parse, with its own lexer and recover)
		barrier := map[*an.Fn]bool{}
		if sp := p.Fn("(*Set).parse"); sp != nil {
			barrier[sp] = true
		}
		consumers := p.FnsReachingExcept(barrier, "(*jet.lexer).nextItem")
		n := 0
		for _, f := range an.SortedFns(consumers) {
			if f.Decl == nil || f.Sig == nil || f.Sig.Recv() == nil || an.TypeName(f.Sig.Recv().Type()) != "*jet.Template" || f.Pkg != p.Jet {
				continue
			}
			n++
			bad := false
			for i := 0; i < f.Sig.Results().Len(); i++ {
				if isErrorType(f.Sig.Results().At(i).Type()) {
					bad = true
				}
			}
			if bad {
				c.Bad("C02.drain", f.Name+"/panics-only", f.Pos(), nil, "%s consumes tokens and reports failure through an error result: a caller that returns that error leaves Set.parse without Template.recover draining the lexer — the lexer goroutine stays blocked forever (one leaked goroutine per failed parse)", f.Name)
			}
		}
		c.Expect("C02.drain", "token-consuming parser methods", n, 20)
		if n > 0 {
			c.OK("C02.drain", "parser/panics-only", p.Jet.Syntax[0].Pos(), "no token-consuming parser method has an error result: failures reach Template.recover, which drains the lexer (%d methods)", n)
		}
	}
	if f := c.Fn("C02.drain", "(*Template).recover"); f != nil {
		hooks := an.Hooks{Call: func(x *an.Explorer, call *ast.CallExpr, st *an.State) {
			switch an.CalleeName(info, call) {
			case "(*jet.lexer).drain":
				st.Set("drained", "1")
			case "(*jet.Template).stopParse":
				if st.Get("drained") == "" {
					st.Set("stoppedUndrained", "1")
				}
				st.Set("stopped", "1")
			}
		}}
		x := p.NewExplorer(f, hooks)
		x.Run(nil)
		c.States += x.Visited
		ok, sawErrPath := true, false
		for _, ex := range x.Exits {
			if ex.Kind != an.ExitReturn {
				continue
			}
			if ex.State.Get("stoppedUndrained") != "" {
				ok = false
			}
			if ex.State.Get("drained") != "" {
				sawErrPath = true
			}
		}
		c.Check(ok && sawErrPath, "C02.drain", "(*Template).recover/drain-before-stop", f.Pos(), "on a parse error the lexer is drained before it is dropped",
			"Template.recover drops the lexer without draining it first: the lexer goroutine stays blocked on its channel forever (one leaked goroutine per failed parse)")
		// assigns the error
		stores := false
		an.InspectOwn(f, func(n ast.Node) bool {
			if as, isAs := n.(*ast.AssignStmt); isAs && len(as.Lhs) == 1 {
				if st, isStar := an.Unparen(as.Lhs[0]).(*ast.StarExpr); isStar && an.Norm(f, st.X) == "$p0" {
					stores = true
				}
			}
			return true
		})
		c.Check(stores, "C02.drain", "(*Template).recover/stores-error", f.Pos(), "the recovered error is handed to the caller", "Template.recover does not store the recovered error into the caller's result")
	}
	// the goroutine closes its channel after the loop
	if f := c.Fn("C02.drain", "(*lexer).run"); f != nil {
		ok := false
		// the bodies of the goroutines run starts: literals, or functions/methods started by name
		bodies := append([]*an.Fn(nil), f.Lits...)
		an.InspectOwn(f, func(n ast.Node) bool {
			if g, isGo := n.(*ast.GoStmt); isGo {
				if _, isLit := an.Unparen(g.Call.Fun).(*ast.FuncLit); !isLit {
					if b := p.FnOfValue(info, g.Call.Fun); b != nil && b.Body != nil {
						bodies = append(bodies, b)
					}
				}
			}
			return true
		})
		for _, l := range bodies {
			x := p.NewExplorer(l, an.Hooks{Call: func(x *an.Explorer, call *ast.CallExpr, st *an.State) {
				if an.CalleeName(info, call) == "builtin.close" && p.FieldKey(info, call.Args[0]) == "lexer.items" {
					st.Set("closed", "1")
				}
			}})
			x.Run(nil)
			c.States += x.Visited
			all := len(x.Exits) > 0
			for _, ex := range x.Exits {
				if ex.Kind == an.ExitReturn && ex.State.Get("closed") == "" {
					all = false
				}
			}
			if all {
				ok = true
			}
		}
		c.Check(ok, "C02.drain", "(*lexer).run/close", f.Pos(), "the lexer goroutine closes its channel on every exit", "the lexer goroutine can end without closing lexer.items: drain() and nextItem() block forever")
	}
	// every `return nil` of a state function: errorf's result, or after emit(itemEOF)
	lexer := p.LookupType(p.Jet, "lexer")
	n := 0
	for _, f := range p.Units() {
		if f.Pkg != p.Jet || f.Decl == nil || f.Sig == nil || f.Sig.Recv() != nil || f.Sig.Params().Len() != 1 || an.NamedOf(f.Sig.Params().At(0).Type()) != lexer ||
			f.Sig.Results().Len() != 1 || an.TypeName(f.Sig.Results().At(0).Type()) != "jet.stateFn" {
			continue
		}
		hooks := an.Hooks{Call: func(x *an.Explorer, call *ast.CallExpr, st *an.State) {
			if an.CalleeName(info, call) == "(*jet.lexer).emit" && len(call.Args) == 1 && an.Str(call.Args[0]) == "itemEOF" {
				st.Set("eof", "1")
			}
		}}
		x := p.NewExplorer(f, hooks)
		x.Run(nil)
		c.States += x.Visited
		for _, ex := range x.Exits {
			if ex.Kind != an.ExitReturn || ex.Ret == nil || len(ex.Ret.Results) != 1 {
				continue
			}
			if id, isId := an.Unparen(ex.Ret.Results[0]).(*ast.Ident); isId && id.Name == "nil" {
				n++
				c.Check(ex.State.Get("eof") != "", "C02.drain", f.Name+"/end-of-scan", ex.Ret.Pos(), "the scan ends only after EOF was emitted",
					f.Name+" ends the scan (return nil) without having emitted itemEOF or an error token: the parser waits for a token that never comes / reads a zero token")
			}
		}
	}
	c.Expect("C02.drain", "state functions ending the scan by `return nil`", n, 1)
}

// ------------------------------------------------------------------------------------------- C02.index
//
// The lexer runs in its own goroutine, where an index-out-of-range panic cannot be recovered by
// Template.recover and kills the process; in the parser it surfaces as a re-panicked runtime error.
// Every index expression with a constant index into a string or slice in lex.go / parse.go / node.go
// must therefore be dominated by a length test that covers the index (len(x) > k, len(x) >= k+1,
// len(x) == n with n > k, x != "" for k = 0).  Exceptions are single named operands whose
// non-emptiness is an invariant established elsewhere, each with its reason.
var indexInvariants = map[string]string{
	"lexer.leftDelim":            "set only from non-empty values (constructor default; setDelimiters stores a parameter only under param != \"\", C03.delims)",
	"lexer.leftComment":          "set only from non-empty values (constructor default; setCommentDelimiters stores a parameter only under param != \"\", C03.delims)",
	"(*Template).newNumber/text": "newNumber receives the text of a number or character-constant token, which the lexer emits only after consuming at least its first character (lexNumber / lexChar)",
	"lexIdentifier/word":         "lexIdentifier is entered only with an alphanumeric rune pending (lexInsideAction backs up over it), so input[start:pos] holds at least that rune",
}

func c02index(c *an.Ctx) {
	p := c.P
	n := 0
	for _, f := range p.Units() {
		if f.Pkg != p.Jet || f.Body == nil || f.Lit != nil {
			continue
		}
		file := p.Fset.Position(f.Pos()).Filename
		if !(strings.HasSuffix(file, "/lex.go") || strings.HasSuffix(file, "/parse.go") || strings.HasSuffix(file, "/node.go") || strings.HasSuffix(file, "/constructors.go")) {
			continue
		}
		info := f.Info()
		type site struct {
			ix *ast.IndexExpr
			k  int64
		}
		sites := map[ast.Expr]site{}
		an.InspectOwn(f, func(nd ast.Node) bool {
			ix, ok := nd.(*ast.IndexExpr)
			if !ok {
				return true
			}
			tv, ok := info.Types[ix.X]
			if !ok || tv.Type == nil || tv.Value != nil { // a constant operand is checked by the compiler
				return true
			}
			switch u := tv.Type.Underlying().(type) {
			case *types.Slice:
			case *types.Basic:
				if u.Info()&types.IsString == 0 {
					return true
				}
			default:
				return true
			}
			kv, ok := info.Types[ix.Index]
			if !ok || kv.Value == nil {
				return true
			}
			k, exact := constant.Int64Val(kv.Value)
			if !exact {
				return true
			}
			sites[an.Unparen(ix.X)] = site{ix, k}
			return true
		})
		if len(sites) == 0 {
			continue
		}
		c.FnsAnalysed[f.Name] = true
		verdict := map[*ast.IndexExpr]string{} // "" = guarded on every visit so far
		seen := map[*ast.IndexExpr]bool{}
		numRe := regexp.MustCompile(`^-?\d+$`)
		hooks := an.Hooks{Use: func(x *an.Explorer, e ast.Expr, st *an.State) {
			s, ok := sites[e]
			if !ok {
				return
			}
			seen[s.ix] = true
			key, ok := x.Key(e)
			if !ok {
				verdict[s.ix] = "the operand is not a trackable expression"
				return
			}
			pk := an.PlainKey(key)
			lenKs := []string{"len(" + pk + ")"}
			// a local that holds len(operand), taken after the operand's last change before this index
			an.InspectOwn(f, func(m ast.Node) bool {
				as, ok := m.(*ast.AssignStmt)
				if !ok || len(as.Lhs) != len(as.Rhs) || as.End() > s.ix.Pos() {
					return true
				}
				for i, r := range as.Rhs {
					call, ok := an.Unparen(r).(*ast.CallExpr)
					if !ok || !an.IsCallTo(info, call, "builtin.len") || len(call.Args) != 1 {
						continue
					}
					ak, ok := x.Key(call.Args[0])
					id, isId := as.Lhs[i].(*ast.Ident)
					if !ok || !isId || an.PlainKey(ak) != pk {
						continue
					}
					// the operand must not be assigned between this statement and the index expression
					changed := false
					opnd, _ := an.Unparen(e).(*ast.Ident)
					if opnd == nil {
						changed = true // only plain variables are tracked this way
					} else {
						oo := an.ObjOf(info, opnd)
						an.InspectOwn(f, func(q ast.Node) bool {
							an.Assigns(q, func(lhs, _ ast.Expr, _ token.Token) {
								if lid, ok := an.Unparen(lhs).(*ast.Ident); ok && an.ObjOf(info, lid) == oo && q.Pos() > as.Pos() && q.Pos() < s.ix.Pos() {
									changed = true
								}
							})
							return true
						})
					}
					if !changed && len(an.LocalDefs(f, an.ObjOf(info, id))) == 1 {
						lenKs = append(lenKs, id.Name)
					}
				}
				return true
			})
			guarded := false
			for _, lenK := range lenKs {
				for fk, fv := range st.Facts {
					fp := an.PlainKey(fk)
					switch {
					case strings.HasPrefix(fp, lenK+" < ") && !fv: // len(x) >= N
						if r := strings.TrimPrefix(fp, lenK+" < "); numRe.MatchString(r) {
							if N, _ := strconv.ParseInt(r, 10, 64); N >= s.k+1 {
								guarded = true
							}
						}
					case strings.HasSuffix(fp, " < "+lenK) && fv: // N < len(x)
						if l := strings.TrimSuffix(fp, " < "+lenK); numRe.MatchString(l) {
							if N, _ := strconv.ParseInt(l, 10, 64); N >= s.k {
								guarded = true
							}
						}
					case (fp == lenK+" == 0" || fp == "0 == "+lenK || fp == pk+` == ""` || fp == `"" == `+pk) && !fv:
						if s.k == 0 {
							guarded = true
						}
					}
				}
				for rk, rv := range st.Regs {
					if an.PlainKey(rk) == "eq:"+lenK && numRe.MatchString(rv) {
						if N, _ := strconv.ParseInt(rv, 10, 64); N >= s.k+1 {
							guarded = true
						}
					}
				}
			}
			if !guarded {
				verdict[s.ix] = "no length test covering the index holds on a path to it (facts: " + strings.Join(an.Facts(st), "; ") + ")"
			} else if _, had := verdict[s.ix]; !had {
				verdict[s.ix] = ""
			}
		}}
		x := p.NewExplorer(f, hooks)
		x.Run(nil)
		c.States += x.Visited
		var list []*ast.IndexExpr
		for _, s := range sites {
			list = append(list, s.ix)
		}
		sort.Slice(list, func(i, j int) bool { return list[i].Pos() < list[j].Pos() })
		for _, ix := range list {
			n++
			key := f.Name + "/" + an.Str(ix)
			// named invariants
			inv := ""
			if fk := p.FieldKey(info, an.Unparen(ix.X)); indexInvariants[fk] != "" {
				inv = indexInvariants[fk]
			} else if r := indexInvariants[f.Name+"/"+an.Str(ix.X)]; r != "" {
				inv = r
			}
			if kv, ok := info.Types[ix.Index]; ok && kv.Value != nil {
				if k, _ := constant.Int64Val(kv.Value); k != 0 {
					inv = "" // the invariants say "non-empty": they cover index 0 only
				}
			}
			switch {
			case inv != "":
				c.OK("C02.index", key, ix.Pos(), "non-empty by invariant: %s", inv)
			case !seen[ix]:
				c.Undecided("C02.index", key, ix.Pos(), "the index expression was not reached by the exploration")
			case verdict[ix] != "":
				c.Bad("C02.index", key, ix.Pos(), nil, "%s in %s can be evaluated when the operand is too short (%s): the index panics; in the lexer goroutine this cannot be recovered and kills the process", an.Str(ix), f.Name, verdict[ix])
			default:
				c.OK("C02.index", key, ix.Pos(), "the index is covered by a length test on every path")
			}
		}
	}
	c.Expect("C02.index", "constant index expressions into strings/slices in lexer and parser", n, 4)
}
