package rules

import (
	"go/ast"
	"go/constant"
	"go/token"
	"go/types"
	"sort"
	"strings"

	"jetverif/an"
)

// c02errfmt (C02.errfmt): the text of an error is what the message says only if nothing that comes from the
// outside (a template's name, a piece of its source, another error's text) is interpreted as a format
// string: a '%' in it becomes "%!s(MISSING)" or swallows an argument.  So every call of a printf-like
// function — fmt's, and the module's own wrappers, found by what they forward their format parameter to —
// passes as format a constant, the caller's own format parameter, or a string built by Sprintf from a
// constant format whose %s/%v operands are that parameter or have their '%' doubled.
func c02errfmt(c *an.Ctx) {
	p := c.P
	// ---- printf-like: fmt functions, plus module functions (f(..., format string, args ...interface{}))
	// that hand their format parameter to a printf-like function
	fmtIdx := map[string]int{"fmt.Errorf": 0, "fmt.Sprintf": 0, "fmt.Printf": 0, "fmt.Fprintf": 1}
	wrappers := map[*types.Func]int{}
	formatParam := func(f *an.Fn) (int, *types.Var) {
		if f.Sig == nil || !f.Sig.Variadic() || f.Sig.Params().Len() < 2 {
			return -1, nil
		}
		i := f.Sig.Params().Len() - 2
		v := f.Sig.Params().At(i)
		if bt, ok := v.Type().Underlying().(*types.Basic); !ok || bt.Kind() != types.String {
			return -1, nil
		}
		return i, v
	}
	idxOf := func(info *types.Info, call *ast.CallExpr) int {
		if i, ok := fmtIdx[an.CalleeName(info, call)]; ok {
			return i
		}
		if callee := an.Callee(info, call); callee != nil {
			if i, ok := wrappers[callee]; ok {
				return i
			}
			// an interface method: printf-like when a module implementation is
			if sig, _ := callee.Type().(*types.Signature); sig != nil && sig.Recv() != nil {
				if _, isIface := sig.Recv().Type().Underlying().(*types.Interface); isIface {
					for _, im := range p.Implementations(callee) {
						if im.Obj != nil {
							if i, ok := wrappers[im.Obj]; ok {
								return i
							}
						}
					}
				}
			}
		}
		return -1
	}
	for changed := true; changed; {
		changed = false
		for _, f := range p.Fns {
			if f.Obj == nil || f.Body == nil {
				continue
			}
			if _, done := wrappers[f.Obj]; done {
				continue
			}
			i, fv := formatParam(f)
			if fv == nil {
				continue
			}
			info := f.Info()
			forwards := false
			ast.Inspect(f.Body, func(n ast.Node) bool {
				call, ok := n.(*ast.CallExpr)
				if !ok {
					return true
				}
				if k := idxOf(info, call); k >= 0 && k < len(call.Args) {
					if c02fromFormat(f, call.Args[k], fv, 0) {
						forwards = true
					}
				}
				return true
			})
			if forwards {
				wrappers[f.Obj] = i
				changed = true
			}
		}
	}
	// ---- every call site
	type site struct {
		f    *an.Fn
		call *ast.CallExpr
		why  string
	}
	var sites []site
	nConst := 0
	for _, f := range p.Units() {
		if f.Body == nil {
			continue
		}
		info := f.Info()
		_, fv := formatParam(f.Root())
		if own := p.OwnerFn(f.Pos()); own != nil && fv == nil {
			_, fv = formatParam(own)
		}
		an.InspectOwn(f, func(n ast.Node) bool {
			call, ok := n.(*ast.CallExpr)
			if !ok {
				return true
			}
			k := idxOf(info, call)
			if k < 0 || k >= len(call.Args) {
				return true
			}
			arg := call.Args[k]
			if tv, ok := info.Types[arg]; ok && tv.Value != nil {
				nConst++
				return true
			}
			owner := p.OwnerFn(call.Pos())
			if owner == nil {
				owner = f
			}
			_, ofv := formatParam(owner)
			if ofv == nil {
				ofv = fv
			}
			why := c02formatOK(owner, arg, ofv, 0)
			sites = append(sites, site{f, call, why})
			return true
		})
	}
	sort.Slice(sites, func(i, j int) bool { return sites[i].call.Pos() < sites[j].call.Pos() })
	count := map[string]int{}
	for _, s := range sites {
		key := s.f.Name + "/format"
		count[key]++
		if count[key] > 1 {
			key += "#" + itoa(count[key])
		}
		if s.why == "" {
			c.OK("C02.errfmt", key, s.call.Pos(), "the format is the caller's own format, extended only by escaped or non-string parts")
		} else {
			c.Bad("C02.errfmt", key, s.call.Pos(), nil, "%s passes %s as a format string: %s — a '%%' in it is taken for a verb and garbles the message", s.f.Name, an.Str(s.call.Args[idxOf(s.f.Info(), s.call)]), s.why)
		}
	}
	c.Expect("C02.errfmt", "printf-like calls with a constant format", nConst, 100)
	c.Expect("C02.errfmt", "printf-like calls with a computed format", len(sites), 3)
}

// c02fromFormat: e is the format parameter fv, or a local defined from it.
func c02fromFormat(f *an.Fn, e ast.Expr, fv *types.Var, depth int) bool {
	return fv != nil && c02formatOK(f, e, fv, depth) == "" && c02mentions(f, e, fv, 0)
}

func c02mentions(f *an.Fn, e ast.Expr, fv *types.Var, depth int) bool {
	found := false
	info := f.Info()
	ast.Inspect(e, func(n ast.Node) bool {
		if id, ok := n.(*ast.Ident); ok {
			if an.ObjOf(info, id) == types.Object(fv) {
				found = true
			} else if depth < 3 {
				if v, ok := an.ObjOf(info, id).(*types.Var); ok && !v.IsField() && v.Parent() != v.Pkg().Scope() {
					for _, d := range an.LocalDefs(f, v) {
						if d != nil && c02mentions(f, d, fv, depth+1) {
							found = true
						}
					}
				}
			}
		}
		return !found
	})
	return found
}

// c02formatOK returns "" when e is safe to use as a format inside f (whose own format parameter is fv).
func c02formatOK(f *an.Fn, e ast.Expr, fv *types.Var, depth int) string {
	return c02formatOKs(f, e, fv, depth, map[types.Object]bool{})
}

func c02formatOKs(f *an.Fn, e ast.Expr, fv *types.Var, depth int, seen map[types.Object]bool) string {
	info := f.Info()
	e = an.Unparen(e)
	if tv, ok := info.Types[e]; ok && tv.Value != nil {
		return ""
	}
	if depth > 4 {
		return "it cannot be followed to a constant"
	}
	switch x := e.(type) {
	case *ast.Ident:
		obj := an.ObjOf(info, x)
		if seen[obj] {
			return "" // (the value the variable had before the definition being looked at)
		}
		seen[obj] = true
		defer delete(seen, obj)
		if fv != nil && obj == types.Object(fv) {
			// the parameter itself, and every value assigned to it inside the function
			for _, d := range an.LocalDefs(f, obj) {
				if d == nil {
					return "the format parameter is re-defined by something that is not an expression"
				}
				if why := c02formatOKs(f, d, fv, depth+1, seen); why != "" {
					return why
				}
			}
			return ""
		}
		v, ok := obj.(*types.Var)
		if !ok {
			return "it is not a constant"
		}
		if v.Parent() == v.Pkg().Scope() {
			if v.Name() == "textFormat" { // test-only toggle of TextNode.String ("%s" / "%q"), never set from input
				return ""
			}
			return "it is a package-level variable"
		}
		if _, isParam := an.IsParam(f, v); isParam {
			return "it is a parameter that is not this function's own format"
		}
		defs := an.LocalDefs(f, v)
		if len(defs) == 0 {
			return "it has no definition in this function"
		}
		for _, d := range defs {
			if d == nil {
				return "one of its definitions is not an expression"
			}
			if why := c02formatOKs(f, d, fv, depth+1, seen); why != "" {
				return why
			}
		}
		return ""
	case *ast.BinaryExpr:
		if x.Op == token.ADD {
			if why := c02formatOKs(f, x.X, fv, depth+1, seen); why != "" {
				return why
			}
			return c02formatOKs(f, x.Y, fv, depth+1, seen)
		}
	case *ast.CallExpr:
		switch an.CalleeName(info, x) {
		case "fmt.Sprintf":
			if len(x.Args) == 0 {
				break
			}
			tv, ok := info.Types[x.Args[0]]
			if !ok || tv.Value == nil || tv.Value.Kind() != constant.String {
				return "it is built by Sprintf with a format that is not constant"
			}
			verbs := c02verbs(constant.StringVal(tv.Value))
			if len(verbs) != len(x.Args)-1 {
				return "it is built by Sprintf whose verbs and operands do not match"
			}
			for i, vb := range verbs {
				op := x.Args[i+1]
				switch vb {
				case 'd', 'x', 'X', 'o', 'b', 'c', 'U', 'e', 'f', 'g', 't', 'p', 'T':
					// cannot produce a '%' ... %T could, for a type name? type names contain no '%'
					continue
				case 'q':
					// quoted: a '%' survives quoting
					return "it is built by Sprintf with %q of " + an.Str(op) + ", which keeps a '%'"
				default: // s, v
					if why := c02formatOKs(f, op, fv, depth+1, seen); why != "" {
						if c02escaped(info, op) {
							continue
						}
						if bt, ok := info.Types[op].Type.Underlying().(*types.Basic); ok && bt.Info()&types.IsNumeric != 0 {
							continue
						}
						return "the part " + an.Str(op) + " spliced into it is neither constant nor this function's own format nor has its '%' doubled"
					}
				}
			}
			return ""
		}
		if c02escaped(info, x) {
			return ""
		}
	}
	return "it is not a constant"
}

// c02escaped: strings.Replace(x, "%", "%%", -1) / strings.ReplaceAll(x, "%", "%%")
func c02escaped(info *types.Info, e ast.Expr) bool {
	call, ok := an.Unparen(e).(*ast.CallExpr)
	if !ok {
		return false
	}
	str := func(a ast.Expr) string {
		if tv, ok := info.Types[a]; ok && tv.Value != nil && tv.Value.Kind() == constant.String {
			return constant.StringVal(tv.Value)
		}
		return "\x00"
	}
	switch an.CalleeName(info, call) {
	case "strings.Replace":
		if len(call.Args) == 4 && str(call.Args[1]) == "%" && str(call.Args[2]) == "%%" {
			if tv, ok := info.Types[call.Args[3]]; ok && tv.Value != nil && constant.Sign(tv.Value) < 0 {
				return true
			}
		}
	case "strings.ReplaceAll":
		return len(call.Args) == 3 && str(call.Args[1]) == "%" && str(call.Args[2]) == "%%"
	}
	return false
}

// c02verbs lists the verbs of a format (flags, width and precision skipped; "%%" is no verb).
func c02verbs(format string) []byte {
	var out []byte
	for i := 0; i < len(format); i++ {
		if format[i] != '%' {
			continue
		}
		i++
		for i < len(format) && strings.IndexByte("+-# 0123456789.*[]", format[i]) >= 0 {
			i++
		}
		if i >= len(format) {
			break
		}
		if format[i] == '%' {
			continue
		}
		out = append(out, format[i])
	}
	return out
}

// c02next (C02.width, continued): backup() steps back by lexer.width, so next() must leave width describing
// exactly what it consumed on every path: width is assigned before every return, and the position is advanced
// by that same amount (by `pos += width`, or by the constant just stored into width) — at the end of the
// input nothing is consumed and width is 0, otherwise backup() walks back over a rune that was not read by
// this call and the scanner reads the same input for ever.
func c02next(c *an.Ctx) {
	p := c.P
	f := c.Fn("C02.width", "(*lexer).next")
	if f == nil {
		return
	}
	info := f.Info()
	constOf := func(e ast.Expr) string {
		if tv, ok := info.Types[e]; ok && tv.Value != nil {
			return tv.Value.ExactString()
		}
		return ""
	}
	bad := ""
	badPos := f.Pos()
	var badFacts []string
	x := p.NewExplorer(f, an.Hooks{
		PreAssign: func(x *an.Explorer, lhs, rhs ast.Expr, stmt ast.Node, st *an.State) {
			switch p.FieldKey(info, lhs) {
			case "lexer.width":
				w := "?"
				if rhs != nil {
					if k := constOf(rhs); k != "" {
						w = k
					} else {
						w = "=" + an.Str(rhs)
					}
				}
				st.Set("w", w)
			case "lexer.pos":
				adv := "?"
				switch s := stmt.(type) {
				case *ast.IncDecStmt:
					if s.Tok == token.INC {
						adv = "1"
					}
				case *ast.AssignStmt:
					if s.Tok == token.ADD_ASSIGN && len(s.Rhs) == 1 {
						if p.FieldKey(info, s.Rhs[0]) == "lexer.width" {
							adv = "width"
						} else if k := constOf(s.Rhs[0]); k != "" {
							adv = k
						} else {
							adv = "=" + an.Str(s.Rhs[0])
						}
					}
				}
				if st.Get("adv") != "" {
					adv = "?" // advanced twice
				}
				st.Set("adv", adv)
			}
		},
		Return: func(x *an.Explorer, r *ast.ReturnStmt, st *an.State) {
			if bad != "" {
				return
			}
			w, adv := st.Get("w"), st.Get("adv")
			switch {
			case w == "":
				bad = "returns without having set width: backup() would step back by the width of an earlier rune"
			case adv == "" && w == "0":
			case adv == "width":
			case adv != "" && adv != "?" && w != "?" && (adv == w || "=Pos("+strings.TrimPrefix(adv, "=")+")" == w || adv == "=Pos("+strings.TrimPrefix(w, "=")+")"):
			default:
				bad = "advances the position by " + adv + " but records width " + w
			}
			if bad != "" {
				badPos = r.Pos()
				badFacts = an.Facts(st)
			}
		},
	})
	x.Run(nil)
	c.States += x.Visited
	c.FnsAnalysed[f.Name] = true
	key := "(*lexer).next/width-is-what-was-consumed"
	if x.Undecided != "" {
		c.Undecided("C02.width", key, f.Pos(), "%s", x.Undecided)
		return
	}
	if bad != "" {
		c.Bad("C02.width", key, badPos, badFacts, "next() %s", bad)
	} else {
		c.OK("C02.width", key, f.Pos(), "on every path width is set to what was consumed (0 at the end of the input)")
	}
}
