package rules

import (
	"fmt"
	"go/ast"
	"go/constant"
	"go/token"
	"go/types"
	"regexp"
	"sort"
	"strings"

	"jetverif/an"
)

func init() {
	register(&Property{
		ID:  "C03",
		Run: runC03,
		Meta: an.Meta{
			Technique: "coupled-field invariant on CFG paths, value-preservation provenance of text bytes from lexer to writer, who-may-discard inventory with guard facts, constant-set extraction of the trim predicate, and a who-may-reference rule for the default delimiter constants",
			Explanation: "(C03.coupled) lexer.trimRightDelim must equal rightTrimMarker + rightDelim: every function that stores rightDelim stores trimRightDelim = rightTrimMarker + <the same value> on every path to its " +
				"exit (constructor literal included). (C03.identity) text bytes flow unmodified: TextNode.Text is only set in its constructor as []byte(<text parameter>), the constructor is only called " +
				"with an itemText token's val, emit sends l.input[l.start:l.pos], and the evaluator writes Text raw (C01.sink). (C03.drop) lexed input is only discarded by lexer.ignore(), which is only " +
				"called from lexText, lexLeftDelim, lexRightDelim and lexComment; in the delimiter functions only under the trim-marker fact, in lexText only for the trimLength bytes computed under the " +
				"left-trim-marker test after the pending text was emitted; the parser drops an itemText token without a node only in the header loop of parseTemplate under TrimSpace(val) == \"\". " +
				"(C03.space) the trim predicate isSpace compares with exactly {space, tab, CR, LF} and both trim-length helpers use it. (C03.delims) the lexer reads delimiters only from its " +
				"configured fields; the default* constants are referenced only by the lexer constructor. (C03.next) lexText continues at the nearer of the next action candidate and the next comment candidate: the selection code, which touches the two positions by comparisons only, is executed on one representative of every ordering of absent/present positions. (C03.drop, continued) white-space-only text that parseTemplate consumes while looking for extends/import clauses is saved and built into text nodes again before the body is parsed, unless such a clause was seen. (C03.delims setters, continued) a setter may store through a helper that receives a pointer to the lexer field and a copy of the parameter; what is known about a parameter being empty is kept per parameter. (C03.space, continued) membership in the trim set is spelled out by comparisons: a call that decides it (unicode.IsSpace, a table) is reported.",
			NotDecided:  "the index arithmetic of lexText's search for the next delimiter/comment start; ambiguity between user-chosen delimiters; that exactly the adjacent run is trimmed (the value of trimLength).",
			Assumptions: []string{"strings.TrimLeftFunc/TrimRightFunc/HasPrefix behave as documented"},
			Trusted:     commonTrusted,
		},
		Mutants: []Mutant{
			{Name: "skipped leading white space never put back (original defect)", File: "parse.go", Old: "\tif !sawClause {\n\t\tfor _, text := range skipped {", New: "\tif sawClause {\n\t\tfor _, text := range skipped {", Rule: "C03.drop"},
			{Name: "whitespace-only yield content is not rendered (agent seed C03/2, reduced)", File: "eval.go", Old: "\tmycontent := st.content\n\tif content != nil {", New: "\tmycontent := st.content\n\tif content != nil && !IsEmptyTree(content) {", Rule: "C03.identity"},
			{Name: "custom right delimiter without its trim form (original defect)", File: "lex.go", Old: "\t\tl.rightDelim = rightDelim\n\t\tl.trimRightDelim = rightTrimMarker + rightDelim\n", New: "\t\tl.rightDelim = rightDelim\n", Rule: "C03.coupled"},
			{Name: "trim form built from the default delimiter", File: "lex.go", Old: "\t\tl.trimRightDelim = rightTrimMarker + rightDelim\n", New: "\t\tl.trimRightDelim = rightTrimMarker + defaultRightDelim\n", Rule: "C03."},
			{Name: "text nodes are space-trimmed", File: "constructors.go", Old: "Text: []byte(text)}", New: "Text: []byte(strings.TrimSpace(text))}", Rule: "C03.identity"},
			{Name: "WithDelims forgets the right delimiter", File: "set.go", Old: "\t\ts.rightDelim = right\n", New: "\t\ts.rightDelim = left\n", Rule: "C03.delims"},
			{Name: "WithCommentDelims overwrites the action delimiter", File: "set.go", Old: "\t\ts.leftComment = left\n", New: "\t\ts.leftDelim = left\n", Rule: "C03.delims"},
			{Name: "comment candidate ignored when no action candidate is left (original defect)", File: "lex.go", Old: "if ic > -1 && (i == -1 || ic < i) {", New: "if ic > -1 && ic < i {", Rule: "C03.next"},
			{Name: "farther candidate chosen", File: "lex.go", Old: "if ic > -1 && (i == -1 || ic < i) {", New: "if ic > -1 && (i == -1 || ic > i) {", Rule: "C03.next"},
			{Name: "equivalent: candidates compared the other way round", File: "lex.go", Old: "if ic > -1 && (i == -1 || ic < i) {", New: "if ic >= 0 && (i < 0 || i > ic) {", Rule: "-"},
			{Name: "CR no longer trimmed", File: "lex.go", Old: "return r == ' ' || r == '\\t' || r == '\\r' || r == '\\n'", New: "return r == ' ' || r == '\\t' || r == '\\n'", Rule: "C03.space"},
			{Name: "form feed also trimmed", File: "lex.go", Old: "return r == ' ' || r == '\\t' || r == '\\r' || r == '\\n'", New: "return r == ' ' || r == '\\t' || r == '\\r' || r == '\\n' || r == '\\f'", Rule: "C03.space"},
			{Name: "left trim uses unicode.IsSpace", File: "lex.go", Old: "return Pos(len(s) - len(strings.TrimLeftFunc(s, isSpace)))", New: "return Pos(len(s) - len(strings.TrimLeftFunc(s, unicode.IsSpace)))", Rule: "C03.space"},
			{Name: "spaces inside actions swallow following text", File: "lex.go", Old: "\tl.emit(itemSpace)\n\treturn lexInsideAction\n}", New: "\tl.ignore()\n\treturn lexInsideAction\n}", Rule: "C03.drop"},
			{Name: "right delimiter always trims", File: "lex.go", Old: "\tl.emit(itemRightDelim)\n\tif trimSpace {\n\t\tl.pos += leftTrimLength(l.input[l.pos:])\n\t\tl.ignore()\n\t}", New: "\tl.emit(itemRightDelim)\n\tl.pos += leftTrimLength(l.input[l.pos:])\n\tl.ignore()\n\t_ = trimSpace\n", Rule: "C03.drop"},
			{Name: "atRightDelim hard-codes the default delimiter", File: "lex.go", Old: "\tif strings.HasPrefix(l.input[l.pos:], l.rightDelim) { // Without trim marker.", New: "\tif strings.HasPrefix(l.input[l.pos:], defaultRightDelim) { // Without trim marker.", Rule: "C03.delims"},
			{Name: "whitespace-only text dropped everywhere", File: "parse.go", Old: "\tcase itemText:\n\t\treturn t.newText(token.pos, token.val)", New: "\tcase itemText:\n\t\tif strings.TrimSpace(token.val) == \"\" {\n\t\t\treturn t.textOrAction()\n\t\t}\n\t\treturn t.newText(token.pos, token.val)", Rule: "C03.drop"},
			{Name: "emit drops the last byte of each token", File: "lex.go", Old: "l.items <- item{t, l.start, l.input[l.start:l.pos]}", New: "l.items <- item{t, l.start, l.input[l.start : l.pos-1]}", Rule: "C03.identity"},
			{Name: "text emitted before the trim is applied (trim removes nothing)", File: "lex.go", Old: "\t\t\t\tl.pos -= trimLength\n\t\t\t\tif l.pos > l.start {\n\t\t\t\t\tl.emit(itemText)\n\t\t\t\t}\n\t\t\t\tl.pos += trimLength\n\t\t\t\tl.ignore()", New: "\t\t\t\tif l.pos > l.start {\n\t\t\t\t\tl.emit(itemText)\n\t\t\t\t}\n\t\t\t\t_ = trimLength\n\t\t\t\tl.ignore()", Rule: "C03.drop"},
		},
	})
}

func runC03(c *an.Ctx) {
	c03sourceOnlyLexed(c)
	p := c.P
	info := p.Jet.TypesInfo

	// ---------------------------------------------------------------- C03.coupled
	nStores := 0
	for _, f := range p.Units() {
		if f.Pkg != p.Jet || f.Body == nil {
			continue
		}
		stores := false
		an.InspectOwn(f, func(n ast.Node) bool {
			an.Assigns(n, func(lhs, _ ast.Expr, _ token.Token) {
				if p.FieldKey(info, lhs) == "lexer.rightDelim" {
					stores = true
				}
			})
			return true
		})
		if stores {
			nStores++
			c.FnsAnalysed[f.Name] = true
			hooks := an.Hooks{PreAssign: func(x *an.Explorer, lhs, rhs ast.Expr, stmt ast.Node, st *an.State) {
				switch p.FieldKey(info, lhs) {
				case "lexer.rightDelim":
					st.Set("pending", an.Norm(f, rhs))
				case "lexer.trimRightDelim":
					want := "(rightTrimMarker + " + st.Get("pending") + ")"
					if rhs != nil && an.Norm(f, rhs) == want {
						st.Set("pending", "")
					} else if rhs != nil {
						st.Set("wrong", an.Str(rhs))
					}
				}
			}}
			x := p.NewExplorer(f, hooks)
			x.Run(nil)
			c.States += x.Visited
			ok, why := true, ""
			for _, ex := range x.Exits {
				if ex.Kind != an.ExitReturn {
					continue
				}
				if w := ex.State.Get("wrong"); w != "" {
					ok, why = false, "trimRightDelim is set to "+w+", not to rightTrimMarker + the right delimiter just stored"
				} else if pd := ex.State.Get("pending"); pd != "" {
					ok, why = false, "a path stores rightDelim without updating trimRightDelim to rightTrimMarker + it: ` -<delim>` is no longer recognised as a trimming right delimiter"
				}
			}
			c.Check(ok, "C03.coupled", f.Name, f.Pos(), "rightDelim and trimRightDelim are updated together", f.Name+": "+why)
		}
		// constructor literals
		an.InspectOwn(f, func(n ast.Node) bool {
			cl, ok := n.(*ast.CompositeLit)
			if !ok || an.TypeName(info.Types[cl].Type) != "jet.lexer" {
				return true
			}
			var rd, trd ast.Expr
			for _, el := range cl.Elts {
				if kv, ok := el.(*ast.KeyValueExpr); ok {
					switch an.Str(kv.Key) {
					case "rightDelim":
						rd = kv.Value
					case "trimRightDelim":
						trd = kv.Value
					}
				}
			}
			nStores++
			okLit := rd != nil && trd != nil && an.Str(trd) == "rightTrimMarker + "+an.Str(rd)
			if rd == nil && trd == nil {
				// the literal leaves both unset and the constructor sets them through a coupled writer (a function
				// that stores rightDelim, checked above) with a non-empty constant
				an.InspectOwn(f, func(m ast.Node) bool {
					call, isCall := m.(*ast.CallExpr)
					if !isCall || call.Pos() < cl.End() {
						return true
					}
					g := p.FnByObj[an.Callee(info, call)]
					if g == nil || g.Body == nil {
						return true
					}
					writes := false
					an.InspectBody(g, func(k ast.Node) bool {
						an.Assigns(k, func(lhs, _ ast.Expr, _ token.Token) {
							if p.FieldKey(g.Info(), lhs) == "lexer.rightDelim" {
								writes = true
							}
						})
						return true
					})
					if !writes {
						return true
					}
					allConst := len(call.Args) > 0
					for _, a := range call.Args {
						if tv, ok := info.Types[a]; !ok || tv.Value == nil || tv.Value.Kind() != constant.String || constant.StringVal(tv.Value) == "" {
							allConst = false
						}
					}
					if allConst {
						okLit = true
					}
					return true
				})
			}
			c.Check(okLit, "C03.coupled", f.Name+"/literal", cl.Pos(), "the lexer literal initialises trimRightDelim as rightTrimMarker + rightDelim", "the lexer literal in "+f.Name+" does not initialise trimRightDelim as rightTrimMarker + the rightDelim it sets")
			return true
		})
	}
	c.Expect("C03.coupled", "writers of lexer.rightDelim", nStores, 2)

	// ---------------------------------------------------------------- C03.identity
	nText := 0
	for _, f := range p.Units() {
		if f.Pkg != p.Jet || f.Body == nil {
			continue
		}
		an.InspectOwn(f, func(n ast.Node) bool {
			// stores to TextNode.Text: assignment or literal key
			check := func(val ast.Expr, pos token.Pos) {
				nText++
				got := an.Norm(f, val)
				ok := false
				if call, isCall := an.Unparen(val).(*ast.CallExpr); isCall && len(call.Args) == 1 && an.CalleeName(info, call) == "conv:[]byte" {
					if id, isId := an.Unparen(call.Args[0]).(*ast.Ident); isId {
						if _, isParam := an.IsParam(f, an.ObjOf(info, id)); isParam && len(an.LocalDefs(f, an.ObjOf(info, id))) == 0 {
							ok = true
						}
					}
				}
				c.Check(ok, "C03.identity", f.Name+"/Text", pos, "TextNode.Text is []byte(<text parameter>)", "TextNode.Text is set to "+got+" in "+f.Name+": literal text is altered (or set outside the constructor)")
			}
			switch x := n.(type) {
			case *ast.KeyValueExpr:
				if id, ok := x.Key.(*ast.Ident); ok {
					if fv, ok := an.ObjOf(info, id).(*types.Var); ok && fv.IsField() && p.FieldOwner(fv)+"."+an.RoleOf(fv) == "TextNode.Text" {
						check(x.Value, x.Pos())
					}
				}
			case *ast.AssignStmt:
				for i, l := range x.Lhs {
					if p.FieldKey(info, l) == "TextNode.Text" && len(x.Rhs) == len(x.Lhs) {
						check(x.Rhs[i], l.Pos())
					}
				}
			}
			return true
		})
	}
	c.Expect("C03.identity", "stores to TextNode.Text", nText, 1)
	if nt := c.Fn("C03.identity", "(*Template).newText"); nt != nil {
		sites := p.AllCalls(an.FuncName(nt.Obj))
		c.Expect("C03.identity", "callers of newText", len(sites), 1)
		for _, s := range sites {
			// argument is <token>.val where the enclosing case is itemText
			ok := false
			if sel, isSel := an.Unparen(s.Call.Args[1]).(*ast.SelectorExpr); isSel && p.FieldKey(info, sel) == "item.val" {
				for _, enc := range an.EnclosingStmts(s.Fn, s.Call) {
					if cc, isCC := enc.(*ast.CaseClause); isCC {
						for _, e := range cc.List {
							if an.Str(e) == "itemText" {
								ok = true
							}
						}
					}
				}
			}
			// … or the token comes out of a local list into which only tokens known to be itemText are put
			// (the white space set aside while looking for extends/import clauses)
			if sel, isSel := an.Unparen(s.Call.Args[1]).(*ast.SelectorExpr); !ok && isSel && p.FieldKey(info, sel) == "item.val" {
				if id, isId := an.Unparen(sel.X).(*ast.Ident); isId {
					ok = c03textOnlyList(c, s.Fn, an.ObjOf(s.Fn.Info(), id))
				}
			}
			c.Check(ok, "C03.identity", s.Fn.Name+"→newText", s.Call.Pos(), "a text node is built from an itemText token's val, unchanged", "newText is not called with the unmodified val of an itemText token")
		}
	}
	if em := c.Fn("C03.identity", "(*lexer).emit"); em != nil {
		ok := false
		an.InspectOwn(em, func(n ast.Node) bool {
			if cl, isCl := n.(*ast.CompositeLit); isCl && an.TypeName(info.Types[cl].Type) == "jet.item" {
				// (positional or keyed: the members by name)
				got := map[string]string{}
				for _, m := range litMembers(info, cl) {
					got[m.name] = an.Norm(em, m.val)
				}
				if got["pos"] == "$r.start" && got["val"] == "$r.input[$r.start:$r.pos]" && got["typ"] == "$p0" {
					ok = true
				}
			}
			return true
		})
		c.Check(ok, "C03.identity", "(*lexer).emit", em.Pos(), "emit sends exactly input[start:pos]", "lexer.emit does not send item{t, l.start, l.input[l.start:l.pos]}: token text is not the scanned bytes")
	}

	// while executing, the text of a literal node is only ever written raw: nothing reachable from Execute
	// (other than String() methods, which format nodes for messages) inspects, trims or filters it
	{
		eval, parse := p.Eval(), p.Parse()
		sinks := sinkSites(p, eval)
		nUse := 0
		for _, f := range an.SortedFns(eval) {
			if f.Pkg != p.Jet || f.Body == nil || parse[f] || (f.Decl != nil && f.Decl.Name.Name == "String") {
				continue
			}
			finfo := f.Info()
			an.InspectOwn(f, func(n ast.Node) bool {
				sel, ok := n.(*ast.SelectorExpr)
				if !ok || p.FieldKey(finfo, sel) != "TextNode.Text" {
					return true
				}
				nUse++
				okUse := false
				for _, sk := range sinks {
					for _, d := range sk.data {
						if an.Unparen(d) == ast.Expr(sel) && classifyWriter(p, sk.fn, sk.dest) == wRAW {
							okUse = true
						}
					}
				}
				c.Check(okUse, "C03.identity", f.Name+"/text-use", sel.Pos(), "literal text is only written raw",
					f.Name+" (reachable from Execute) uses TextNode.Text other than as the data of a raw write: literal text is inspected/filtered at run time, so whether or how it is rendered depends on its content")
				return true
			})
		}
		c.Expect("C03.identity", "uses of TextNode.Text while executing", nUse, 1)
	}

	// ---------------------------------------------------------------- C03.drop
	allowed := map[string]bool{"lexText": true, "lexLeftDelim": true, "lexRightDelim": true, "lexComment": true}
	ignores := p.AllCalls("(*jet.lexer).ignore")
	c.Expect("C03.drop", "ignore() call sites", len(ignores), 5)
	for _, s := range ignores {
		c.CallSites++
		key := s.Fn.Name + "/ignore"
		if !allowed[s.Fn.Name] {
			c.Bad("C03.drop", key, s.Call.Pos(), nil, "%s discards lexed input with ignore(): only trim markers (lexText, lexLeftDelim, lexRightDelim) and comments (lexComment) may remove bytes", s.Fn.Name)
			continue
		}
		switch s.Fn.Name {
		case "lexComment":
			c.OK("C03.drop", key, s.Call.Pos(), "a comment contributes nothing")
		case "lexLeftDelim", "lexRightDelim":
			pr := p.ProbeFn(s.Fn, []ast.Node{s.Call}, an.Hooks{PreAssign: func(x *an.Explorer, lhs, rhs ast.Expr, stmt ast.Node, st *an.State) {
				// a helper's parameter bound to one of the trim marker constants
				if id, ok := an.Unparen(lhs).(*ast.Ident); ok && rhs != nil {
					st.Set("mk:"+id.Name, "")
					if rid, ok := an.Unparen(rhs).(*ast.Ident); ok && (rid.Name == "leftTrimMarker" || rid.Name == "rightTrimMarker") {
						st.Set("mk:"+id.Name, rid.Name)
					}
				}
			}, Branch: func(x *an.Explorer, cond ast.Expr, val bool, st *an.State) {
				// the marker test itself, remembered beyond the position update that follows it
				e := an.Unparen(cond)
				if u, ok := e.(*ast.UnaryExpr); ok && u.Op == token.NOT {
					e, val = an.Unparen(u.X), !val
				}
				if call, ok := e.(*ast.CallExpr); ok && val && an.IsCallTo(s.Fn.Info(), call, "strings.HasPrefix") && len(call.Args) == 2 {
					if id, ok := an.Unparen(call.Args[1]).(*ast.Ident); ok && (id.Name == "leftTrimMarker" || id.Name == "rightTrimMarker" || st.Get("mk:"+id.Name) != "") {
						st.Set("markerSeen", "1")
					}
				}
			}})
			c.States += pr.X.Visited
			ok := len(pr.At[s.Call]) > 0
			for _, st := range pr.At[s.Call] {
				marker := false
				for k, v := range st.Facts {
					pk := an.PlainKey(k)
					if v && strings.HasPrefix(pk, "strings.HasPrefix(") && (strings.HasSuffix(pk, "leftTrimMarker)") || strings.HasSuffix(pk, "rightTrimMarker)")) {
						marker = true
					}
					if m := hasPrefixArgRe.FindStringSubmatch(pk); v && m != nil && st.Get("mk:"+m[1]) != "" {
						marker = true
					}
					if v && pk == "trimSpace" {
						marker = true
					}
				}
				if st.Get("markerSeen") != "" {
					marker = true
				}
				if !marker {
					ok = false
				}
			}
			c.Check(ok, "C03.drop", key, s.Call.Pos(), "input is discarded here only when a trim marker was seen", s.Fn.Name+" discards input on a path where no trim marker was seen: text next to a plain delimiter is removed")
		case "lexText":
			c03lexText(c, s.Fn, s.Call)
		}
	}
	// parser: itemText dropped only in the header loop
	if pt := c.Fn("C03.drop", "(*Template).parseTemplate"); pt != nil {
		ok := false
		nCont := 0
		an.InspectOwn(pt, func(n ast.Node) bool {
			br, isBr := n.(*ast.BranchStmt)
			if !isBr || br.Tok != token.CONTINUE {
				return true
			}
			nCont++
			for _, enc := range an.EnclosingStmts(pt, br) {
				if is, isIf := enc.(*ast.IfStmt); isIf {
					s := strings.ReplaceAll(an.Str(is.Cond), " ", "")
					if s == `delim.typ==itemText&&strings.TrimSpace(delim.val)==""` {
						ok = true
					}
				}
			}
			return true
		})
		c.Check(ok && nCont == 1, "C03.drop", "(*Template).parseTemplate/header-whitespace", pt.Pos(), "only whitespace-only text between header clauses is skipped", "parseTemplate skips tokens other than whitespace-only text next to the leading extends/import clauses")
	}
	// … and what is skipped there is put back unless a clause was seen: white space in front of the content of
	// a template without extends/import belongs to the output
	if pt := c.Fn("C03.drop", "(*Template).parseTemplate"); pt != nil {
		c03leadingKept(c, pt)
	}
	if ta := c.Fn("C03.drop", "(*Template).textOrAction"); ta != nil {
		ok := false
		if cc := caseClauseOf(ta, "itemText"); cc != nil && len(cc.Body) == 1 {
			if ret, isRet := cc.Body[0].(*ast.ReturnStmt); isRet && len(ret.Results) == 1 {
				if call, isCall := an.Unparen(ret.Results[0]).(*ast.CallExpr); isCall && an.CalleeName(info, call) == "(*jet.Template).newText" {
					ok = true
				}
			}
		}
		c.Check(ok, "C03.drop", "(*Template).textOrAction/text", ta.Pos(), "every text token becomes a text node", "textOrAction does not turn every itemText token into a text node unconditionally")
	}

	// ---------------------------------------------------------------- C03.space
	if f := c.Fn("C03.space", "isSpace"); f != nil {
		got := map[rune]bool{}
		shape := true
		var calls []string
		an.InspectOwn(f, func(n ast.Node) bool {
			// the set is spelled out: a call that decides membership (unicode.IsSpace, a table lookup) adds characters
			// this rule cannot enumerate — and the property names exactly four
			if call, isCall := n.(*ast.CallExpr); isCall {
				if tv, has := info.Types[an.Unparen(call.Fun)]; !has || !tv.IsType() {
					shape = false
					calls = append(calls, "membership decided by "+an.Str(call.Fun))
				}
				return true
			}
			b, ok := n.(*ast.BinaryExpr)
			if !ok {
				return true
			}
			switch b.Op {
			case token.LOR:
			case token.EQL:
				for _, e := range []ast.Expr{b.X, b.Y} {
					if tv := info.Types[e]; tv.Value != nil && tv.Value.Kind() == constant.Int {
						v, _ := constant.Int64Val(tv.Value)
						got[rune(v)] = true
					}
				}
			default:
				shape = false
			}
			return true
		})
		want := map[rune]bool{' ': true, '\t': true, '\r': true, '\n': true}
		var diff []string
		for r := range want {
			if !got[r] {
				diff = append(diff, fmt.Sprintf("missing %q", r))
			}
		}
		for r := range got {
			if !want[r] {
				diff = append(diff, fmt.Sprintf("extra %q", r))
			}
		}
		diff = append(diff, calls...)
		sort.Strings(diff)
		c.Check(shape && len(diff) == 0 && len(f.Body.List) == 1, "C03.space", "isSpace", f.Pos(), "the trim predicate is exactly {space, tab, CR, LF}", fmt.Sprintf("isSpace is not exactly the set {space, tab, CR, LF}: %v", diff))
	}
	// every measurement of a white-space run, wherever it is written (in the two helpers or inline), is
	// len(X) - len(strings.Trim{Left,Right}Func(X, isSpace)) over one and the same X
	nMeasure := map[string]int{}
	for _, f := range p.Units() {
		if f.Pkg != p.Jet || f.Body == nil {
			continue
		}
		finfo := f.Info()
		an.InspectOwn(f, func(n ast.Node) bool {
			b, ok := n.(*ast.BinaryExpr)
			if !ok || b.Op != token.SUB {
				return true
			}
			lenOf := func(e ast.Expr) ast.Expr {
				if call, ok := an.Unparen(e).(*ast.CallExpr); ok && an.IsCallTo(finfo, call, "builtin.len") && len(call.Args) == 1 {
					return call.Args[0]
				}
				return nil
			}
			whole, trimmed := lenOf(b.X), lenOf(b.Y)
			if whole == nil || trimmed == nil {
				return true
			}
			tc, ok := an.Unparen(trimmed).(*ast.CallExpr)
			if !ok {
				return true
			}
			side, okPred, isTrim := trimSet(finfo, tc)
			if side == "" {
				if isTrim {
					c.Bad("C03.space", f.Name+"/measure", tc.Pos(), nil, "%s measures a run to trim with %s, which does not trim one end by the set {space, tab, CR, LF}: a different set of characters is trimmed", f.Name, an.Str(tc.Fun))
				}
				return true
			}
			nMeasure[side]++
			okSame := len(tc.Args) == 2 && an.Norm(f, tc.Args[0]) == an.Norm(f, whole)
			c.Check(okPred && okSame, "C03.space", f.Name+"/measure-"+side, b.Pos(), "the "+side+" white-space run is len(s) - len(Trim(s, isSpace))",
				f.Name+" does not measure the "+side+" run as len(s) - len(strings.Trim…(s, white space)) over the same s: a different set of characters (or another string) is measured")
			return true
		})
	}
	c.Expect("C03.space", "measurements of a leading white-space run", nMeasure["left"], 1)
	c.Expect("C03.space", "measurements of a trailing white-space run", nMeasure["right"], 1)

	// ---------------------------------------------------------------- C03.delims
	defaults := map[string]bool{"defaultLeftDelim": true, "defaultRightDelim": true, "defaultLeftComment": true, "defaultRightComment": true}
	nRef := 0
	for _, f := range p.Units() {
		if f.Pkg != p.Jet || f.Body == nil {
			continue
		}
		an.InspectOwn(f, func(n ast.Node) bool {
			id, ok := n.(*ast.Ident)
			if !ok || !defaults[id.Name] {
				return true
			}
			if _, isConst := info.Uses[id].(*types.Const); !isConst {
				return true
			}
			nRef++
			if f.Name != "lex" {
				c.Bad("C03.delims", f.Name+"/"+id.Name, id.Pos(), nil, "%s refers to the constant %s instead of the lexer's configured delimiter field: custom delimiters are ignored at this point", f.Name, id.Name)
			}
			return true
		})
	}
	c.Expect("C03.delims", "references to the default delimiter constants", nRef, 4)
	c.OK("C03.delims", "defaults-only-in-constructor", p.Jet.Syntax[0].Pos(), "the default delimiter constants are referenced only by the lexer constructor (%d references)", nRef)
	c03configured(c)
	c03candidates(c)
}

// c03configured: every delimiter configured on the Set reaches the lexer before it runs.  In (*Set).parse,
// on every path to lexer.run(), each of Set.leftDelim/rightDelim/leftComment/rightComment was either
// handed to its lexer setter or is known to be empty on that path; and each setter stores its i-th
// parameter into the corresponding lexer field unless the parameter is empty.
func c03configured(c *an.Ctx) {
	p := c.P
	f := c.Fn("C03.delims", "(*Set).parse")
	if f == nil {
		return
	}
	info := f.Info()
	setters := map[string][]string{
		"(*jet.lexer).setDelimiters":        {"lexer.leftDelim", "lexer.rightDelim"},
		"(*jet.lexer).setCommentDelimiters": {"lexer.leftComment", "lexer.rightComment"},
	}
	// where a configured delimiter lives in the Set is read from the two options that configure it: the
	// storage WithDelims/WithCommentDelims put their i-th parameter into (a field of the Set, or a field
	// of a struct value stored in one) is what must reach the i-th parameter of the matching lexer setter
	options := []struct {
		fn      string
		targets []string
	}{{"WithDelims", setters["(*jet.lexer).setDelimiters"]}, {"WithCommentDelims", setters["(*jet.lexer).setCommentDelimiters"]}}
	var setFields []string        // obligation names: Set.<lexer field>
	want := map[string]string{}   // storage path in the Set → lexer field it configures
	nameOf := map[string]string{} // storage path → obligation name
	for _, o := range options {
		g := c.Fn("C03.delims", o.fn)
		if g == nil {
			return
		}
		paths := c03storedPaths(p, g)
		for i, target := range o.targets {
			name := "Set." + strings.TrimPrefix(target, "lexer.")
			setFields = append(setFields, name)
			if paths[i] == "" {
				c.Bad("C03.delims", o.fn+"/stores:"+name, g.Pos(), nil, "%s does not store its parameter %d in the Set it configures: the delimiter given by the caller is lost", o.fn, i)
				continue
			}
			if prev, dup := want[paths[i]]; dup {
				c.Bad("C03.delims", o.fn+"/stores:"+name, g.Pos(), nil, "%s stores its parameter %d in %s, which already holds the value for %s: one of the two configured delimiters is overwritten", o.fn, i, paths[i], prev)
				continue
			}
			c.OK("C03.delims", o.fn+"/stores:"+name, g.Pos(), "parameter %d is stored in %s", i, paths[i])
			want[paths[i]] = target
			nameOf[paths[i]] = name
		}
	}
	fieldExpr := map[string]ast.Expr{}
	an.InspectOwn(f, func(n ast.Node) bool {
		if sel, ok := n.(*ast.SelectorExpr); ok {
			if k := c03setPath(p, info, sel); want[k] != "" && fieldExpr[nameOf[k]] == nil {
				fieldExpr[nameOf[k]] = sel
			}
		}
		return true
	})
	nRun := 0
	bad := map[string]token.Pos{}
	var badFacts []string
	hooks := an.Hooks{
		Call: func(x *an.Explorer, call *ast.CallExpr, st *an.State) {
			name := an.CalleeName(info, call)
			if targets, ok := setters[name]; ok {
				for i, a := range call.Args {
					if i < len(targets) {
						if k := c03setPath(p, info, a); k != "" && want[k] == targets[i] {
							st.Set("cfg:"+nameOf[k], "1")
						}
					}
				}
			}
			if name == "(*jet.lexer).run" {
				nRun++
				for _, k := range setFields {
					if st.Get("cfg:"+k) != "" {
						continue
					}
					if e := fieldExpr[k]; e != nil {
						probe := &ast.BinaryExpr{X: e, Op: token.EQL, Y: &ast.BasicLit{Kind: token.STRING, Value: `""`}}
						if v, known := x.Truth(probe, st); known && v {
							continue
						}
					}
					if _, dup := bad[k]; !dup {
						bad[k] = call.Pos()
						badFacts = an.Facts(st)
					}
				}
			}
		},
	}
	x := p.NewExplorer(f, hooks)
	x.Run(nil)
	c.States += x.Visited
	c.FnsAnalysed[f.Name] = true
	if x.Undecided != "" {
		c.Undecided("C03.delims", "(*Set).parse/configured", f.Pos(), "%s", x.Undecided)
		return
	}
	if nRun == 0 {
		c.Anchor("C03.delims", "call of lexer.run in (*Set).parse")
		return
	}
	for _, k := range setFields {
		if pos, isBad := bad[k]; isBad {
			c.Bad("C03.delims", "(*Set).parse/configured:"+k, pos, badFacts, "the lexer can run without %s having been handed to its setter although it may be non-empty: a Set configured with that delimiter lexes with the default one", k)
		} else {
			c.OK("C03.delims", "(*Set).parse/configured:"+k, f.Pos(), "%s reaches the lexer (or is empty) on every path to lexer.run()", k)
		}
	}
	// the setters
	for name, targets := range setters {
		g := c.Fn("C03.delims", strings.Replace(name, "jet.", "", 1))
		if g == nil {
			continue
		}
		ginfo := g.Info()
		// paramOf: the setter's parameter an identifier stands for — itself, or a helper's parameter bound to it
		// (register "is:<key>", written where the binding is made)
		paramOf := func(x *an.Explorer, e ast.Expr, st *an.State) int {
			id, ok := an.Unparen(e).(*ast.Ident)
			if !ok {
				return -1
			}
			if i, isParam := an.IsParam(g, an.ObjOf(ginfo, id)); isParam {
				return i
			}
			if k, ok := x.Key(id); ok {
				if v := st.Get("is:" + k); v != "" {
					return int(v[0] - '0')
				}
			}
			return -1
		}
		hk := an.Hooks{
			PreAssign: func(x *an.Explorer, lhs, rhs ast.Expr, stmt ast.Node, st *an.State) {
				if rhs == nil {
					return
				}
				// bindings of a helper's parameters: a pointer to a lexer field, a copy of a parameter
				if lid, ok := an.Unparen(lhs).(*ast.Ident); ok {
					if lk, ok := x.Key(lid); ok {
						st.Set("ptr:"+lk, "")
						st.Set("is:"+lk, "")
						if u, ok := an.Unparen(rhs).(*ast.UnaryExpr); ok && u.Op == token.AND {
							if fk := p.FieldKey(ginfo, u.X); fk != "" {
								st.Set("ptr:"+lk, fk)
							}
						}
						if i := paramOf(x, rhs, st); i >= 0 && i < 10 {
							st.Set("is:"+lk, string(rune('0'+i)))
						}
					}
					return
				}
				// a direct store to a lexer field (whatever is stored): the fields derived from a delimiter are kept in step
				if dk := p.FieldKey(ginfo, lhs); strings.HasPrefix(dk, "lexer.") {
					st.Set("wrote:"+dk, "1")
				}
				i := paramOf(x, rhs, st)
				if i < 0 || i >= len(targets) {
					return
				}
				fk := p.FieldKey(ginfo, lhs)
				if star, ok := an.Unparen(lhs).(*ast.StarExpr); ok {
					if k, ok := x.Key(star.X); ok {
						fk = st.Get("ptr:" + k)
					}
				}
				if fk == targets[i] {
					st.Set("stored:"+targets[i], "1")
				}
			},
			// what is known about a parameter being empty is kept per parameter (a helper tests its own copy)
			Branch: func(x *an.Explorer, cond ast.Expr, val bool, st *an.State) {
				ast.Inspect(cond, func(n ast.Node) bool {
					b, ok := n.(*ast.BinaryExpr)
					if !ok || (b.Op != token.EQL && b.Op != token.NEQ) {
						return true
					}
					for _, pr := range [][2]ast.Expr{{b.X, b.Y}, {b.Y, b.X}} {
						if an.Str(an.Unparen(pr[1])) != `""` {
							continue
						}
						if i := paramOf(x, pr[0], st); i >= 0 {
							if t, known := x.Truth(b, st); known && t == (b.Op == token.EQL) {
								st.Set("empty:"+string(rune('0'+i)), "1")
							}
						}
					}
					return true
				})
			},
		}
		gx := p.NewExplorer(g, hk)
		gx.Run(nil)
		c.States += gx.Visited
		for i, target := range targets {
			ok := len(gx.Exits) > 0
			pv := an.Param(g, i)
			for _, ex := range gx.Exits {
				if ex.Kind != an.ExitReturn || pv == nil {
					continue
				}
				if ex.State.Get("stored:"+target) == "" && !an.FactIs(ex.State, an.RoleOf(pv)+` == ""`, true) && ex.State.Get("empty:"+string(rune('0'+i))) == "" {
					ok = false
				}
			}
			c.Check(ok, "C03.delims", g.Name+"/"+target, g.Pos(), "a non-empty parameter is stored into "+target, g.Name+" can return without storing its non-empty parameter "+fmt.Sprint(i)+" into "+target)
			// a field the constructor computes from this one (trimRightDelim = trim marker + rightDelim) is written on
			// every path on which this one is: the lexer looks for both spellings of the delimiter
			for _, dv := range c03derived(p)[target] {
				in := true
				for _, ex := range gx.Exits {
					if ex.Kind == an.ExitReturn && ex.State.Get("stored:"+target) != "" && ex.State.Get("wrote:"+dv) == "" {
						in = false
					}
				}
				c.Check(in, "C03.delims", g.Name+"/"+dv+"-follows", g.Pos(), dv+" is recomputed wherever "+target+" is set",
					g.Name+" stores a new "+target+" on a path on which it does not recompute "+dv+", which the constructor derives from it: the lexer goes on looking for the default spelling (an action ended by the stale trim form is accepted, the configured one is not recognised)")
			}
		}
	}
}

// c03setPath renders a chain of field selections that starts at a Set ("Set.leftDelim", "Set.delims.left").
func c03setPath(p *an.Prog, info *types.Info, e ast.Expr) string {
	var segs []string
	for {
		sel, ok := an.Unparen(e).(*ast.SelectorExpr)
		if !ok {
			return ""
		}
		fv := an.FieldOf(info, sel)
		if fv == nil {
			return ""
		}
		segs = append([]string{an.RoleOf(fv)}, segs...)
		if p.FieldOwner(fv) == "Set" {
			return "Set." + strings.Join(segs, ".")
		}
		e = sel.X
	}
}

// c03storedPaths: for an option constructor (func(params) Option returning a literal that configures the
// Set), the storage path in the Set its i-th parameter is assigned to — directly, or as a field of a
// struct literal assigned to a Set field.
func c03storedPaths(p *an.Prog, g *an.Fn) map[int]string {
	info := g.Info()
	out := map[int]string{}
	paramIdx := func(e ast.Expr) int {
		if id, ok := an.Unparen(e).(*ast.Ident); ok {
			if i, isParam := an.IsParam(g, an.ObjOf(info, id)); isParam {
				return i
			}
		}
		return -1
	}
	ast.Inspect(g.Body, func(n ast.Node) bool {
		as, ok := n.(*ast.AssignStmt)
		if !ok || len(as.Lhs) != len(as.Rhs) || as.Tok != token.ASSIGN {
			return true
		}
		for k, lhs := range as.Lhs {
			base := c03setPath(p, info, lhs)
			if base == "" {
				continue
			}
			rhs := an.Unparen(as.Rhs[k])
			if i := paramIdx(rhs); i >= 0 {
				out[i] = base
				continue
			}
			if u, ok := rhs.(*ast.UnaryExpr); ok && u.Op == token.AND {
				rhs = an.Unparen(u.X)
			}
			cl, ok := rhs.(*ast.CompositeLit)
			if !ok {
				continue
			}
			st, _ := info.Types[cl].Type.Underlying().(*types.Struct)
			if st == nil {
				continue
			}
			for j, el := range cl.Elts {
				var fv *types.Var
				val := el
				if kv, ok := el.(*ast.KeyValueExpr); ok {
					if id, ok := kv.Key.(*ast.Ident); ok {
						fv, _ = an.ObjOf(info, id).(*types.Var)
					}
					val = kv.Value
				} else if j < st.NumFields() {
					fv = st.Field(j)
				}
				if i := paramIdx(val); i >= 0 && fv != nil {
					out[i] = base + "." + an.RoleOf(fv)
				}
			}
		}
		return true
	})
	return out
}

// c03textOnlyList: elem is the value variable of a range over a local slice, and every element ever
// appended to that slice is a token whose typ is known to be itemText where it is appended.
func c03textOnlyList(c *an.Ctx, f *an.Fn, elem types.Object) bool {
	p := c.P
	info := f.Info()
	if elem == nil {
		return false
	}
	var list types.Object
	an.InspectOwn(f, func(n ast.Node) bool {
		if rs, ok := n.(*ast.RangeStmt); ok {
			if v, ok := rs.Value.(*ast.Ident); ok && an.ObjOf(info, v) == elem {
				if id, ok := an.Unparen(rs.X).(*ast.Ident); ok {
					list = an.ObjOf(info, id)
				}
			}
		}
		return true
	})
	if list == nil {
		return false
	}
	// the list may be handed back by a helper the loop was moved into: its result variable is the same list
	lists := map[types.Object]bool{list: true}
	an.InspectOwn(f, func(n ast.Node) bool {
		as, ok := n.(*ast.AssignStmt)
		if !ok || len(as.Rhs) != 1 {
			return true
		}
		call, ok := an.Unparen(as.Rhs[0]).(*ast.CallExpr)
		if !ok {
			return true
		}
		h := p.NewHelperCallee(f, call)
		if h == nil || h.Sig == nil || h.Sig.Results().Len() != len(as.Lhs) {
			return true
		}
		for i, l := range as.Lhs {
			if id, ok := l.(*ast.Ident); ok && lists[an.ObjOf(info, id)] {
				if rv := h.Sig.Results().At(i); rv.Name() != "" {
					lists[rv] = true
				}
				an.InspectBody(h, func(m ast.Node) bool {
					if ret, ok := m.(*ast.ReturnStmt); ok && len(ret.Results) == len(as.Lhs) {
						if rid, ok := an.Unparen(ret.Results[i]).(*ast.Ident); ok {
							if o := an.ObjOf(info, rid); o != nil {
								lists[o] = true
							}
						}
					}
					return true
				})
			}
		}
		return true
	})
	var appends []ast.Node
	srcOf := map[ast.Node]string{}
	okShape := true
	an.InspectOwn(f, func(n ast.Node) bool {
		as, ok := n.(*ast.AssignStmt)
		if !ok || len(as.Lhs) != 1 || len(as.Rhs) != 1 {
			return true
		}
		id, ok := an.Unparen(as.Lhs[0]).(*ast.Ident)
		if !ok || !lists[an.ObjOf(info, id)] {
			return true
		}
		call, ok := an.Unparen(as.Rhs[0]).(*ast.CallExpr)
		if !ok || !an.IsCallTo(info, call, "builtin.append") || len(call.Args) != 2 || call.Ellipsis.IsValid() {
			okShape = false
			return true
		}
		if first, ok := an.Unparen(call.Args[0]).(*ast.Ident); !ok || !lists[an.ObjOf(info, first)] {
			okShape = false
		}
		appends = append(appends, as)
		srcOf[as] = an.Str(call.Args[1])
		return true
	})
	if !okShape || len(appends) == 0 {
		return false
	}
	pr := p.ProbeFn(f, appends, an.Hooks{})
	c.States += pr.X.Visited
	for _, a := range appends {
		if len(pr.At[a]) == 0 {
			return false
		}
		for _, st := range pr.At[a] {
			if !an.FactIs(st, srcOf[a]+".typ == itemText", true) {
				return false
			}
		}
	}
	return true
}

func caseClauseOf(fn *an.Fn, name string) *ast.CaseClause { return caseClause(fn, name) }

// c03lexText: the ignore() in lexText drops exactly the trimLength bytes, after the pending text was
// emitted.  Decided as a typestate over the paths of lexText (helpers spliced in): on every path to that
// ignore() the events are  pos -= T ; pending text emitted (or nothing pending) ; pos += T  with the same
// T, and T is 0 or — under the left-trim-marker test — rightTrimLength of the pending text.
func c03lexText(c *an.Ctx, f *an.Fn, ign *ast.CallExpr) {
	p := c.P
	info := f.Info()
	key := "lexText/ignore"
	bad, reached := "", false
	var badFacts []string
	note := func(msg string, st *an.State) {
		if bad == "" {
			bad, badFacts = msg, an.Facts(st)
		}
	}
	hooks := an.Hooks{
		PreAssign: func(x *an.Explorer, lhs, rhs ast.Expr, stmt ast.Node, st *an.State) {
			as, isAs := stmt.(*ast.AssignStmt)
			// l.pos -= T / l.pos += T
			if isAs && len(as.Lhs) == 1 && p.FieldKey(info, lhs) == "lexer.pos" && (as.Tok == token.SUB_ASSIGN || as.Tok == token.ADD_ASSIGN) {
				if id, ok := an.Unparen(as.Rhs[0]).(*ast.Ident); ok {
					name := id.Name
					if as.Tok == token.SUB_ASSIGN {
						st.Set("seq", "sub:"+name+":"+st.Get("T:"+name))
					} else if st.Get("seq") != "" {
						st.Set("seq", st.Get("seq")+" add:"+name)
					}
				}
				return
			}
			// definitions of a trim-length variable
			if vs, isSpec := stmt.(*ast.ValueSpec); isSpec && rhs == nil && len(vs.Values) == 0 {
				if id, ok := an.Unparen(lhs).(*ast.Ident); ok {
					st.Set("T:"+id.Name, "zero") // var trimLength Pos
				}
				return
			}
			if id, ok := an.Unparen(lhs).(*ast.Ident); ok && rhs != nil && isAs && (as.Tok == token.DEFINE || as.Tok == token.ASSIGN) {
				kind := ""
				r := an.Unparen(rhs)
				if tv, ok := info.Types[r]; ok && tv.Value != nil && tv.Value.ExactString() == "0" {
					kind = "zero"
				}
				if side, operand, ok := trimMeasure(f, r); ok {
					kind = "other"
					if side == "right" && strings.ReplaceAll(operand, " ", "") == "$p0.input[$p0.start:$p0.pos]" {
						for k, v := range st.Facts {
							pk := an.PlainKey(k)
							if v && strings.Contains(pk, "strings.HasPrefix(") && strings.HasSuffix(pk, "leftTrimMarker)") {
								kind = "rtl"
							}
						}
					}
				}
				if kind != "" {
					st.Set("T:"+id.Name, kind)
				}
			}
		},
		Branch: func(x *an.Explorer, cond ast.Expr, val bool, st *an.State) {
			// nothing pending: l.pos > l.start is false
			if b, ok := an.Unparen(cond).(*ast.BinaryExpr); ok && !val && strings.HasPrefix(st.Get("seq"), "sub:") && !strings.Contains(st.Get("seq"), " ") {
				l, r := p.FieldKey(info, b.X), p.FieldKey(info, b.Y)
				if (b.Op == token.GTR && l == "lexer.pos" && r == "lexer.start") || (b.Op == token.LSS && l == "lexer.start" && r == "lexer.pos") {
					st.Set("seq", st.Get("seq")+" pend")
				}
			}
		},
		Call: func(x *an.Explorer, call *ast.CallExpr, st *an.State) {
			if an.IsCallTo(info, call, "(*jet.lexer).emit") && len(call.Args) == 1 && an.Str(call.Args[0]) == "itemText" {
				if seq := st.Get("seq"); strings.HasPrefix(seq, "sub:") && !strings.Contains(seq, " ") {
					st.Set("seq", seq+" pend")
				}
			}
			if call != ign {
				return
			}
			reached = true
			seq := st.Get("seq")
			parts := strings.Split(seq, " ")
			if len(parts) != 3 || parts[1] != "pend" {
				note("the ignore() is reached after the events `"+seq+"`, not after `pos -= T; emit pending text; pos += T`", st)
				return
			}
			sub := strings.Split(parts[0], ":")
			if len(sub) != 3 || parts[2] != "add:"+sub[1] {
				note("the position is not moved back by the same amount it was moved forward (`"+seq+"`)", st)
				return
			}
			if sub[2] != "zero" && sub[2] != "rtl" {
				note("the trimmed length is neither 0 nor rightTrimLength(pending text) under the left-trim-marker test (`"+seq+"`)", st)
			}
		},
	}
	x := p.NewExplorer(f, hooks)
	x.Run(nil)
	c.States += x.Visited
	switch {
	case x.Undecided != "":
		c.Undecided("C03.drop", key, ign.Pos(), "%s", x.Undecided)
	case !reached:
		c.Undecided("C03.drop", key, ign.Pos(), "the ignore() call was not reached by the exploration")
	case bad != "":
		c.Bad("C03.drop", key, ign.Pos(), badFacts, "lexText's ignore() is not preceded on every path by `pos -= trimLength; emit pending text; pos += trimLength` with trimLength = rightTrimLength(pending text) under the left-trim-marker test (%s): text before an action is dropped or not trimmed", bad)
	default:
		c.OK("C03.drop", key, ign.Pos(), "before a left delimiter exactly the trimmed whitespace run is discarded, after the text before it was emitted")
	}
}

var hasPrefixArgRe = regexp.MustCompile(`^strings\.HasPrefix\(.*, (\w+)\)$`)
var trimCallRe = regexp.MustCompile(`^(left|right)TrimLength\((.+)\)$`)
var trimInlineRe = regexp.MustCompile(`^Pos\(\(len\((.+)\) - len\(strings\.Trim(Left|Right)(?:Func)?\((.+), [^,()]+\)\)\)\)$`)

// trimSet classifies a strings.Trim… call: the end it trims and whether the characters it removes are
// exactly jet's white space — through the predicate isSpace (whose own set C03.space/isSpace decides) or
// through a constant cutset with exactly these four characters.
func trimSet(info *types.Info, tc *ast.CallExpr) (side string, okSet, isTrim bool) {
	name := an.CalleeName(info, tc)
	if !strings.HasPrefix(name, "strings.Trim") {
		return "", false, false
	}
	if len(tc.Args) != 2 {
		return "", false, true
	}
	switch name {
	case "strings.TrimLeftFunc", "strings.TrimRightFunc":
		side = strings.ToLower(strings.TrimSuffix(strings.TrimPrefix(name, "strings.Trim"), "Func"))
		if id, ok := an.Unparen(tc.Args[1]).(*ast.Ident); ok {
			if fn, ok := an.ObjOf(info, id).(*types.Func); ok && an.FuncName(fn) == "jet.isSpace" {
				okSet = true
			}
		}
	case "strings.TrimLeft", "strings.TrimRight":
		side = strings.ToLower(strings.TrimPrefix(name, "strings.Trim"))
		if tv, ok := info.Types[tc.Args[1]]; ok && tv.Value != nil && tv.Value.Kind() == constant.String {
			set := map[rune]bool{}
			for _, r := range constant.StringVal(tv.Value) {
				set[r] = true
			}
			okSet = len(set) == 4 && set[' '] && set['\t'] && set['\r'] && set['\n']
		}
	default:
		return "", false, true
	}
	return side, okSet, true
}

// trimMeasure recognises the length of a white-space run at one end of a string, written through the
// helpers leftTrimLength/rightTrimLength or inline; it returns the side and the normal form of the string.
func trimMeasure(f *an.Fn, e ast.Expr) (side, operand string, ok bool) {
	n := an.Norm(f, e)
	if m := trimCallRe.FindStringSubmatch(n); m != nil {
		return m[1], m[2], true
	}
	if m := trimInlineRe.FindStringSubmatch(n); m != nil && m[1] == m[3] {
		return strings.ToLower(m[2]), m[1], true
	}
	return "", "", false
}

// c03leadingKept: on every path of parseTemplate that consumed a white-space-only text token while looking
// for extends/import clauses and saw no such clause, a text node is built again (newText) before the body
// is parsed or the function returns.
func c03leadingKept(c *an.Ctx, pt *an.Fn) {
	p := c.P
	info := pt.Info()
	var wsTests, clauseTests []ast.Expr
	an.InspectOwn(pt, func(n ast.Node) bool {
		b, ok := n.(*ast.BinaryExpr)
		if !ok || b.Op != token.EQL {
			return true
		}
		for _, pr := range [][2]ast.Expr{{b.X, b.Y}, {b.Y, b.X}} {
			if call, ok := an.Unparen(pr[0]).(*ast.CallExpr); ok && an.CalleeName(info, call) == "strings.TrimSpace" {
				if tv, ok := info.Types[pr[1]]; ok && tv.Value != nil && tv.Value.ExactString() == `""` {
					wsTests = append(wsTests, b)
				}
			}
			if id, ok := an.Unparen(pr[1]).(*ast.Ident); ok && (id.Name == "itemExtends" || id.Name == "itemImport") {
				if _, isConst := an.ObjOf(info, id).(*types.Const); isConst {
					clauseTests = append(clauseTests, b)
				}
			}
		}
		return true
	})
	key := "(*Template).parseTemplate/leading-whitespace-kept"
	an.InspectOwn(pt, func(n ast.Node) bool {
		if cc, ok := n.(*ast.CaseClause); ok {
			for _, e := range cc.List {
				if id, ok := an.Unparen(e).(*ast.Ident); ok && (id.Name == "itemExtends" || id.Name == "itemImport") {
					clauseTests = append(clauseTests, e)
				}
			}
		}
		return true
	})
	if len(wsTests) == 0 || len(clauseTests) == 0 {
		c.Undecided("C03.drop", key, pt.Pos(), "the white-space test or the extends/import test of the header loop was not found")
		return
	}
	lost := token.NoPos
	var lostFacts []string
	check := func(pos token.Pos, st *an.State) {
		if st.Get("ws") != "" && st.Get("clause") == "" && !lost.IsValid() {
			lost = pos
			lostFacts = an.Facts(st)
		}
	}
	// the loops that build text nodes again from a list: entering one puts back what was saved in that list (a
	// token was saved, so the list is not empty)
	flushLoops := map[ast.Expr]types.Object{}
	an.InspectOwn(pt, func(n ast.Node) bool {
		rs, ok := n.(*ast.RangeStmt)
		if !ok {
			return true
		}
		id, ok := an.Unparen(rs.X).(*ast.Ident)
		if !ok {
			return true
		}
		builds := false
		ast.Inspect(rs.Body, func(m ast.Node) bool {
			if call, ok := m.(*ast.CallExpr); ok && an.CalleeName(info, call) == "(*jet.Template).newText" {
				builds = true
			}
			return true
		})
		if builds {
			flushLoops[rs.X] = an.ObjOf(info, id)
		}
		return true
	})
	x := p.NewExplorer(pt, an.Hooks{
		Stmt: func(x *an.Explorer, n ast.Node, st *an.State) {
			if e, ok := n.(ast.Expr); ok {
				// (the list may have been handed back by a helper the header loop was moved into: lists are not told apart)
				if o := flushLoops[e]; o != nil && st.Get("ws") == "saved" {
					st.Set("ws", "")
				}
			}
		},
		Assign: func(x *an.Explorer, lhs, rhs ast.Expr, stmt ast.Node, st *an.State) {
			if st.Get("ws") != "1" || rhs == nil {
				return
			}
			id, ok := an.Unparen(lhs).(*ast.Ident)
			call, isCall := an.Unparen(rhs).(*ast.CallExpr)
			if ok && isCall && an.CalleeName(info, call) == "builtin.append" && len(call.Args) == 2 {
				if first, ok := an.Unparen(call.Args[0]).(*ast.Ident); ok && an.ObjOf(info, first) == an.ObjOf(info, id) {
					st.Set("ws", "saved")
				}
			}
		},
		Branch: func(x *an.Explorer, cond ast.Expr, val bool, st *an.State) {
			for _, t := range wsTests {
				if cond.Pos() <= t.Pos() && t.End() <= cond.End() {
					if v, known := x.Truth(t, st); known && v {
						st.Set("ws", "1")
					}
				}
			}
			ast.Inspect(cond, func(n ast.Node) bool {
				b, ok := n.(*ast.BinaryExpr)
				if !ok || (b.Op != token.EQL && b.Op != token.NEQ) {
					return true
				}
				for _, side := range []ast.Expr{b.X, b.Y} {
					if id, ok := an.Unparen(side).(*ast.Ident); ok && (id.Name == "itemExtends" || id.Name == "itemImport") {
						if _, isConst := an.ObjOf(info, id).(*types.Const); isConst {
							if v, known := x.Truth(b, st); known && v == (b.Op == token.EQL) {
								st.Set("clause", "1")
							}
						}
					}
				}
				return true
			})
		},
		Call: func(x *an.Explorer, call *ast.CallExpr, st *an.State) {
			switch an.CalleeName(info, call) {
			case "(*jet.Template).textOrAction", "(*jet.Template).itemList":
				check(call.Pos(), st)
			}
		},
		Return: func(x *an.Explorer, r *ast.ReturnStmt, st *an.State) { check(r.Pos(), st) },
	})
	x.Run(nil)
	c.States += x.Visited
	if x.Undecided != "" {
		c.Undecided("C03.drop", key, pt.Pos(), "%s", x.Undecided)
		return
	}
	for _, ex := range x.Exits {
		if ex.Kind == an.ExitReturn && ex.Ret == nil {
			check(pt.Body.End(), ex.State)
		}
	}
	if lost.IsValid() {
		c.Bad("C03.drop", key, lost, lostFacts, "parseTemplate reaches the body of the template (or returns) after skipping white-space-only text although no extends/import clause was seen, without building a text node for it: leading white space of a plain template is lost")
	} else {
		c.OK("C03.drop", key, pt.Pos(), "white space skipped while looking for extends/import is put back unless a clause was seen")
	}
}

// c03derived: lexer fields the constructor initialises with an expression built from the initial value of another
// field (`trimRightDelim: rightTrimMarker + defaultRightDelim` next to `rightDelim: defaultRightDelim`): field → the
// fields derived from it.
func c03derived(p *an.Prog) map[string][]string {
	out := map[string][]string{}
	for _, f := range p.Units() {
		if f.Pkg != p.Jet || f.Body == nil {
			continue
		}
		info := f.Info()
		an.InspectBody(f, func(n ast.Node) bool {
			cl, ok := n.(*ast.CompositeLit)
			if !ok {
				return true
			}
			if named := an.NamedOf(info.Types[cl].Type); named == nil || named.Obj().Name() != "lexer" {
				return true
			}
			inits := map[string]ast.Expr{}
			for _, el := range cl.Elts {
				if kv, ok := el.(*ast.KeyValueExpr); ok {
					if k, ok := kv.Key.(*ast.Ident); ok {
						inits[k.Name] = kv.Value
					}
				}
			}
			for b, eb := range inits {
				bin, ok := an.Unparen(eb).(*ast.BinaryExpr)
				if !ok || bin.Op != token.ADD {
					continue
				}
				for a, ea := range inits {
					if a != b && (an.Str(bin.X) == an.Str(ea) || an.Str(bin.Y) == an.Str(ea)) {
						out["lexer."+a] = append(out["lexer."+a], "lexer."+b)
					}
				}
			}
			return true
		})
	}
	for k := range out {
		sort.Strings(out[k])
	}
	return out
}
