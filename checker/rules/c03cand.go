package rules

import (
	"fmt"
	"go/ast"
	"go/constant"
	"go/token"
	"go/types"

	"jetverif/an"
)

// c03candidates (C03.next): lexText looks for the next byte that can start an action and for the next
// byte that can start a comment (two strings.IndexByte results, -1 = absent) and continues at the nearer
// of the two.  The two positions are touched through comparisons only, so the selection is decided by
// executing it on one representative of every ordering of (absent | present) x (absent | present):
// the position it ends up with must be the smaller present one, or -1 when both are absent.  A comment
// whose marker starts with another byte than the action delimiter must be found even when no action
// follows it.
func c03candidates(c *an.Ctx) {
	p := c.P
	f := c.Fn("C03.next", "lexText")
	if f == nil {
		return
	}
	// the two candidate positions: locals defined from strings.IndexByte(·, <lexer>.leftDelim[0] / leftComment[0])
	var vDelim, vComment *types.Var
	var owner *an.Fn
	an.InspectOwn(f, func(n ast.Node) bool {
		an.Assigns(n, func(lhs, rhs ast.Expr, _ token.Token) {
			id, ok := an.Unparen(lhs).(*ast.Ident)
			if !ok || rhs == nil {
				return
			}
			g := p.OwnerFn(lhs.Pos())
			if g == nil {
				return
			}
			info := g.Info()
			call, ok := an.Unparen(rhs).(*ast.CallExpr)
			if !ok || an.CalleeName(info, call) != "strings.IndexByte" || len(call.Args) != 2 {
				return
			}
			ix, ok := an.Unparen(call.Args[1]).(*ast.IndexExpr)
			if !ok {
				return
			}
			v, _ := an.ObjOf(info, id).(*types.Var)
			switch p.FieldKey(info, ix.X) {
			case "lexer.leftDelim":
				vDelim, owner = v, g
			case "lexer.leftComment":
				vComment = v
			}
		})
		return true
	})
	if vDelim == nil || vComment == nil || owner == nil {
		// no such pair: the search is written another way (one combined search, a helper of the library …);
		// nothing to enumerate — the structural rules on lexText (C02.struct, C03.drop) still apply
		c.Note("C03.next: lexText does not compute two candidate positions with strings.IndexByte; the selection rule does not apply")
		c.OK("C03.next", "lexText/nearest-candidate", f.Pos(), "no pair of candidate positions to choose from")
		return
	}
	info := owner.Info()
	// the statement list that holds both definitions
	var list []ast.Stmt
	start := -1
	ast.Inspect(owner.Body, func(n ast.Node) bool {
		var l []ast.Stmt
		switch b := n.(type) {
		case *ast.BlockStmt:
			l = b.List
		case *ast.CaseClause:
			l = b.Body
		}
		seen := 0
		for i, s := range l {
			if as, ok := s.(*ast.AssignStmt); ok && len(as.Lhs) == 1 {
				if id, ok := as.Lhs[0].(*ast.Ident); ok {
					if o := an.ObjOf(info, id); o == types.Object(vDelim) || o == types.Object(vComment) {
						seen++
						if seen == 2 && start < 0 {
							list, start = l, i+1
						}
					}
				}
			}
		}
		return true
	})
	if start < 0 {
		c.Undecided("C03.next", "lexText/nearest-candidate", f.Pos(), "the two candidate positions are not defined in one statement list")
		return
	}
	type env map[types.Object]int64
	var evalInt func(e ast.Expr, ev env) (int64, bool)
	var evalBool func(e ast.Expr, ev env) (bool, bool)
	evalInt = func(e ast.Expr, ev env) (int64, bool) {
		e = an.Unparen(e)
		if tv, ok := info.Types[e]; ok && tv.Value != nil && tv.Value.Kind() == constant.Int {
			v, exact := constant.Int64Val(tv.Value)
			return v, exact
		}
		switch x := e.(type) {
		case *ast.Ident:
			v, ok := ev[an.ObjOf(info, x)]
			return v, ok
		case *ast.UnaryExpr:
			if x.Op == token.SUB {
				v, ok := evalInt(x.X, ev)
				return -v, ok
			}
		}
		return 0, false
	}
	evalBool = func(e ast.Expr, ev env) (bool, bool) {
		e = an.Unparen(e)
		switch x := e.(type) {
		case *ast.UnaryExpr:
			if x.Op == token.NOT {
				v, ok := evalBool(x.X, ev)
				return !v, ok
			}
		case *ast.BinaryExpr:
			switch x.Op {
			case token.LAND, token.LOR:
				l, ok := evalBool(x.X, ev)
				if !ok {
					return false, false
				}
				if x.Op == token.LAND && !l {
					return false, true
				}
				if x.Op == token.LOR && l {
					return true, true
				}
				return evalBool(x.Y, ev)
			case token.LSS, token.LEQ, token.GTR, token.GEQ, token.EQL, token.NEQ:
				a, ok1 := evalInt(x.X, ev)
				b, ok2 := evalInt(x.Y, ev)
				if !ok1 || !ok2 {
					return false, false
				}
				switch x.Op {
				case token.LSS:
					return a < b, true
				case token.LEQ:
					return a <= b, true
				case token.GTR:
					return a > b, true
				case token.GEQ:
					return a >= b, true
				case token.EQL:
					return a == b, true
				default:
					return a != b, true
				}
			}
		}
		return false, false
	}
	// pure: a statement that only moves the candidate positions around
	var pure func(s ast.Stmt, ev env) bool
	pure = func(s ast.Stmt, ev env) bool {
		switch x := s.(type) {
		case *ast.BlockStmt:
			for _, t := range x.List {
				if !pure(t, ev) {
					return false
				}
			}
			return true
		case *ast.IfStmt:
			if x.Init != nil {
				return false
			}
			if _, ok := evalBool(x.Cond, ev); !ok {
				return false
			}
			if !pure(x.Body, ev) {
				return false
			}
			return x.Else == nil || pure(x.Else, ev)
		case *ast.AssignStmt:
			if len(x.Lhs) != 1 || len(x.Rhs) != 1 || (x.Tok != token.ASSIGN && x.Tok != token.DEFINE) {
				return false
			}
			id, ok := x.Lhs[0].(*ast.Ident)
			if !ok {
				return false
			}
			if _, ok := evalInt(x.Rhs[0], ev); !ok {
				return false
			}
			if x.Tok == token.DEFINE {
				ev[an.ObjOf(info, id)] = 0 // known from here on (shape test only)
			}
			_, tracked := ev[an.ObjOf(info, id)]
			return tracked
		case *ast.ReturnStmt:
			if len(x.Results) != 1 {
				return false
			}
			_, ok := evalInt(x.Results[0], ev)
			return ok
		}
		return false
	}
	// exec runs a pure statement; returned reports a return statement and its value
	var exec func(s ast.Stmt, ev env) (ret int64, returned bool)
	exec = func(s ast.Stmt, ev env) (int64, bool) {
		switch x := s.(type) {
		case *ast.BlockStmt:
			for _, t := range x.List {
				if v, r := exec(t, ev); r {
					return v, true
				}
			}
		case *ast.IfStmt:
			if v, _ := evalBool(x.Cond, ev); v {
				return exec(x.Body, ev)
			} else if x.Else != nil {
				return exec(x.Else, ev)
			}
		case *ast.AssignStmt:
			v, _ := evalInt(x.Rhs[0], ev)
			ev[an.ObjOf(info, x.Lhs[0].(*ast.Ident))] = v
		case *ast.ReturnStmt:
			v, _ := evalInt(x.Results[0], ev)
			return v, true
		}
		return 0, false
	}
	// the selection phase: the pure statements that follow the two definitions
	shape := env{vDelim: 0, vComment: 0}
	end := start
	for end < len(list) && pure(list[end], shape) {
		end++
	}
	// which variable carries the result on: the one the first statement after the phase tests or uses
	result := types.Object(vDelim)
	if end < len(list) {
		var used []types.Object
		var root ast.Node = list[end]
		if is, ok := list[end].(*ast.IfStmt); ok {
			root = is.Cond
		}
		ast.Inspect(root, func(n ast.Node) bool {
			if id, ok := n.(*ast.Ident); ok {
				if o := an.ObjOf(info, id); o != nil {
					if _, tracked := shape[o]; tracked {
						used = append(used, o)
					}
				}
			}
			return true
		})
		if len(used) > 0 {
			result = used[0]
		}
	}
	var bad []string
	for _, d := range []int64{-1, 3, 7} {
		for _, cm := range []int64{-1, 3, 7} {
			ev := env{vDelim: d, vComment: cm}
			var got int64
			returned := false
			for _, s := range list[start:end] {
				if v, r := exec(s, ev); r {
					got, returned = v, true
					break
				}
			}
			if !returned {
				got = ev[result]
			}
			want := int64(-1)
			switch {
			case d >= 0 && cm >= 0:
				want = d
				if cm < d {
					want = cm
				}
			case d >= 0:
				want = d
			case cm >= 0:
				want = cm
			}
			if got != want {
				bad = append(bad, fmt.Sprintf("action candidate at %d, comment candidate at %d: continues at %d, not %d", d, cm, got, want))
			}
		}
	}
	c.FnsAnalysed[owner.Name] = true
	c.Check(len(bad) == 0, "C03.next", "lexText/nearest-candidate", list[start-1].Pos(),
		"the lexer continues at the nearer of the next action and comment candidates for every ordering of the two (absent = -1)",
		fmt.Sprintf("lexText does not continue at the nearer of the next action candidate and the next comment candidate: %v — a comment (or an action) that the text still contains is copied to the output as text", bad))
}
