package rules

import (
	"fmt"
	"go/ast"
	"go/constant"
	"go/token"
	"go/types"
	"sort"
	"strings"

	"jetverif/an"
)

func init() {
	register(&Property{
		ID:  "C04",
		Run: runC04,
		Meta: an.Meta{
			Technique: "extraction of the precedence ladder and token tables from the parser/lexer source (iota ranges expanded), sibling agreement of the sign look-ahead with the operand-ending tokens computed from the parser, operator/implementation and kind/accessor agreement inside each evaluator arm, and evaluation-count facts for the lazy operators",
			Explanation: "Grouping structure, operator identity, kind dispatch and laziness — not numeric results: (C04.ladder) each level of the recursive-descent ladder parses its operands with the next-tighter level, " +
				"continues on exactly its own operator tokens (constant ranges expanded through the iota values), nests to the left, builds its own node type, ?: recurses into the top level for both " +
				"arms, unary +/- take a bare operand, parentheses re-enter at the top, and the lexer emits the documented token for every operator spelling (and/or/not included); (C04.sign) the " +
				"token kinds after which `-`/`+` followed by a digit is an operator include every token that can end an operand (computed from term()/operand() and what the lexer emits), identically " +
				"for both signs; (C04.ops) inside the arm for operator X every Go operation on the operands is X's Go operator, in all int/uint/float sub-branches; (C04.kinds) under isInt/isUint/" +
				"isFloat the left operand is read with Int/Uint/Float and the right with toInt/toUint/toFloat (or Float under float promotion, which is !isFloat(left) && isFloat(right)), and " +
				"comparison/logical evaluators return reflect.ValueOf(<bool>); (C04.lazy) the right operand of &&/|| is evaluated only as the right operand of Go's &&/|| after the left one's " +
				"truthiness, and ?: evaluates exactly one arm; (C04.lit) number nodes prefer float over int over uint and every literal that is an int/uint is also a float; isTrue is IsValid && !IsZero. (C04.kinds, continued) checkEquality compares two integers as integers and goes to floating point only where an operand is known to be a float. (C04.ladder, continued) every node constructor of the ladder returns the node it allocates, never one of its operands (no folding at parse time). (C04.kinds result-computed) after both operands were evaluated, the additive and multiplicative evaluators return only the value of a Go arithmetic/concatenation expression (`reflect.ValueOf(a <op> b)`, directly or through the variable it was stored in); returning an operand as it came (`\"\" + x` → x) changes the kind of the result. (C04.ladder, continued) the operator set of a precedence level is obtained by evaluating the loop condition for every token constant (comparisons, &&, ||, !, single-return predicate helpers), not by matching its text. (C04.lazy, continued) which operand of ?: an evaluation concerns is followed through locals.",
			NotDecided:  "numeric values, overflow, float formatting, checkEquality's cross-type results, string→number coercions in toInt/toUint/toFloat.",
			Assumptions: []string{"Go's own operator semantics"},
			Trusted:     commonTrusted,
		},
		Mutants: []Mutant{
			{Name: "!= no longer negates ==", File: "eval.go", Old: "\tif node.Operator.typ == itemNotEquals {\n\t\treturn reflect.ValueOf(!equal)\n\t}", New: "\tif node.Operator.typ == itemNotEquals {\n\t\treturn reflect.ValueOf(equal)\n\t}", Rule: "C04.ops"},
			{Name: "== negated instead of !=", File: "eval.go", Old: "\tif node.Operator.typ == itemNotEquals {\n\t\treturn reflect.ValueOf(!equal)\n\t}", New: "\tif node.Operator.typ == itemEquals {\n\t\treturn reflect.ValueOf(!equal)\n\t}", Rule: "C04.ops"},
			{Name: "equivalent: equality compared with the wanted outcome", File: "eval.go", Old: "\tif node.Operator.typ == itemNotEquals {\n\t\treturn reflect.ValueOf(!equal)\n\t}\n\treturn reflect.ValueOf(equal)", New: "\twant := node.Operator.typ != itemNotEquals\n\treturn reflect.ValueOf(equal == want)", Rule: "-"},
			{Name: "int == float truncates the float (original defect)", File: "eval.go", Old: "\tif (isInt(kind) || isUint(kind)) && isFloat(v2.Kind()) {\n\t\t// a floating-point operand makes the comparison floating-point (2 == 2.5 is false)\n\t\treturn toFloat(v1) == v2.Float()\n\t}\n", New: "", Rule: "C04.kinds"},
			{Name: "sign look-ahead forgets ')' (original defect, one token)", File: "lex.go", Old: "\t\t\titemRightParen != l.lastType &&\n\t\t\titemRightBrackets != l.lastType &&\n\t\t\titemNil != l.lastType &&\n\t\t\titemUnderscore != l.lastType &&\n\t\t\titemTrans != l.lastType {\n\t\t\tl.backup()\n\t\t\treturn lexNumber\n\t\t}\n\t\tl.emit(itemMinus)", New: "\t\t\titemRightBrackets != l.lastType &&\n\t\t\titemNil != l.lastType &&\n\t\t\titemUnderscore != l.lastType &&\n\t\t\titemTrans != l.lastType {\n\t\t\tl.backup()\n\t\t\treturn lexNumber\n\t\t}\n\t\tl.emit(itemMinus)", Rule: "C04.sign"},
			{Name: "<= evaluated as < for unsigned operands", File: "eval.go", Old: "\t\t\t\tisTrue = left.Uint() <= toUint(right)", New: "\t\t\t\tisTrue = left.Uint() < toUint(right)", Rule: "C04.ops"},
			{Name: "* and / swapped for floats", File: "eval.go", Old: "\t\t\tleft = reflect.ValueOf(left.Float() / toFloat(right))", New: "\t\t\tleft = reflect.ValueOf(left.Float() * toFloat(right))", Rule: "C04.ops"},
			{Name: "float promotion dropped in one arm", File: "eval.go", Old: "\tcase itemGreatEquals:\n\t\tif isInt(kind) {\n\t\t\tif needFloatPromotion {\n\t\t\t\tisTrue = float64(left.Int()) >= right.Float()\n\t\t\t} else {\n\t\t\t\tisTrue = left.Int() >= toInt(right)\n\t\t\t}", New: "\tcase itemGreatEquals:\n\t\tif isInt(kind) {\n\t\t\tisTrue = left.Int() >= toInt(right)", Rule: "C04.kinds"},
			{Name: "Int() read under isUint", File: "eval.go", Old: "\t\t\tleft = reflect.ValueOf(left.Uint() % toUint(right))", New: "\t\t\tleft = reflect.ValueOf(uint64(left.Int()) % toUint(right))", Rule: "C04.kinds"},
			{Name: "&& evaluates both operands", File: "eval.go", Old: "\t\ttruthy = truthy && isTrue(st.evalPrimaryExpressionGroup(node.Right))", New: "\t\tr := isTrue(st.evalPrimaryExpressionGroup(node.Right))\n\t\ttruthy = truthy && r", Rule: "C04.lazy"},
			{Name: "?: evaluates both arms", File: "eval.go", Old: "\t\tif isTrue(st.evalPrimaryExpressionGroup(node.Boolean)) {\n\t\t\treturn st.evalPrimaryExpressionGroup(node.Left)\n\t\t}\n\t\treturn st.evalPrimaryExpressionGroup(node.Right)", New: "\t\tl, r := st.evalPrimaryExpressionGroup(node.Left), st.evalPrimaryExpressionGroup(node.Right)\n\t\tif isTrue(st.evalPrimaryExpressionGroup(node.Boolean)) {\n\t\t\treturn l\n\t\t}\n\t\treturn r", Rule: "C04.lazy"},
			{Name: "additive level parses its operands with unary (skipping * / %)", File: "parse.go", Old: "\tleft, endtoken := t.multiplicativeExpression(context)\n\tfor endtoken.typ == itemAdd || endtoken.typ == itemMinus {\n\t\tright, rightendtoken := t.multiplicativeExpression(context)", New: "\tleft, endtoken := t.multiplicativeExpression(context)\n\tfor endtoken.typ == itemAdd || endtoken.typ == itemMinus {\n\t\tright, rightendtoken := t.unaryExpression(context)", Rule: "C04.ladder"},
			{Name: "IsInt tested before IsFloat (literals become ints)", File: "eval.go", Old: "\t\tif node.IsFloat {\n\t\t\treturn reflect.ValueOf(&node.Float64).Elem()\n\t\t}\n\n\t\tif node.IsInt {\n\t\t\treturn reflect.ValueOf(&node.Int64).Elem()\n\t\t}\n", New: "\t\tif node.IsInt {\n\t\t\treturn reflect.ValueOf(&node.Int64).Elem()\n\t\t}\n\n\t\tif node.IsFloat {\n\t\t\treturn reflect.ValueOf(&node.Float64).Elem()\n\t\t}\n", Rule: "C04.lit"},
			{Name: "token order changed so the relational range gains ==", File: "lex.go", Old: "\titemEquals\n\titemNotEquals\n\titemGreat\n", New: "\titemNotEquals\n\titemGreat\n\titemEquals\n", Rule: "C04.ladder"},
			{Name: "'or' keyword lexed as and", File: "lex.go", Old: "\t\"or\":  itemOr,", New: "\t\"or\":  itemAnd,", Rule: "C04.ladder"},
			{Name: "relational level is right-nested", File: "parse.go", Old: "\t\tleft, endtoken = t.newNumericComparativeExpr(left.Position(), t.lex.lineNumber(), left, right, endtoken), rightendtoken", New: "\t\tleft, endtoken = t.newNumericComparativeExpr(left.Position(), t.lex.lineNumber(), right, left, endtoken), rightendtoken", Rule: "C04.ladder"},
			{Name: "string minus silently concatenates", File: "eval.go", Old: "\t\t\tif !isAdditive {\n\t\t\t\tnode.Right.errorf(\"minus signal is not allowed with strings\")\n\t\t\t}\n", New: "", Rule: "C04.ops"},
			{Name: "isTrue treats every valid value as true", File: "eval.go", Old: "\treturn v.IsValid() && !v.IsZero()", New: "\treturn v.IsValid()", Rule: "C04.lit"},
		},
	})
}

// itemConsts returns the itemType constants of the lexer by value.
func itemConsts(p *an.Prog) (byName map[string]int64, byVal map[int64]string) {
	byName, byVal = map[string]int64{}, map[int64]string{}
	sc := p.Jet.Types.Scope()
	for _, n := range sc.Names() {
		if k, ok := sc.Lookup(n).(*types.Const); ok && an.TypeName(k.Type()) == "jet.itemType" {
			if v, ok := constant.Int64Val(k.Val()); ok {
				byName[n] = v
				byVal[v] = n
			}
		}
	}
	return
}

// tokenSet expands a condition over one token-type expression (`<x>.typ`) into the set of token names it accepts,
// by evaluating it for every item constant: comparisons with constants, &&, ||, !, and calls of module predicates
// that are a single `return <condition over the parameter>`.
func tokenSet(p *an.Prog, info *types.Info, cond ast.Expr) ([]string, bool) {
	_, byVal := itemConsts(p)
	var vals []int64
	for v := range byVal {
		vals = append(vals, v)
	}
	sort.Slice(vals, func(i, j int) bool { return vals[i] < vals[j] })
	var out []string
	for _, v := range vals {
		subject := ""
		t, ok := tokEvalBool(p, info, cond, nil, v, &subject, 0)
		if !ok {
			return nil, false
		}
		if t {
			out = append(out, byVal[v])
		}
	}
	return out, true
}

func tokEvalBool(p *an.Prog, info *types.Info, e ast.Expr, env map[types.Object]int64, val int64, subject *string, depth int) (bool, bool) {
	if depth > 6 {
		return false, false
	}
	switch x := an.Unparen(e).(type) {
	case *ast.UnaryExpr:
		if x.Op == token.NOT {
			t, ok := tokEvalBool(p, info, x.X, env, val, subject, depth)
			return !t, ok
		}
	case *ast.BinaryExpr:
		switch x.Op {
		case token.LAND, token.LOR:
			l, ok1 := tokEvalBool(p, info, x.X, env, val, subject, depth)
			r, ok2 := tokEvalBool(p, info, x.Y, env, val, subject, depth)
			if !ok1 || !ok2 {
				return false, false
			}
			if x.Op == token.LAND {
				return l && r, true
			}
			return l || r, true
		case token.EQL, token.NEQ, token.LSS, token.LEQ, token.GTR, token.GEQ:
			l, ok1 := tokEvalInt(info, x.X, env, val, subject)
			r, ok2 := tokEvalInt(info, x.Y, env, val, subject)
			if !ok1 || !ok2 {
				return false, false
			}
			switch x.Op {
			case token.EQL:
				return l == r, true
			case token.NEQ:
				return l != r, true
			case token.LSS:
				return l < r, true
			case token.LEQ:
				return l <= r, true
			case token.GTR:
				return l > r, true
			default:
				return l >= r, true
			}
		}
	case *ast.CallExpr:
		g := p.FnByObj[an.Callee(info, x)]
		if g == nil || g.Body == nil || g.Sig == nil || len(g.Body.List) != 1 || g.Sig.Variadic() || g.Sig.Params().Len() != len(x.Args) {
			return false, false
		}
		ret, ok := g.Body.List[0].(*ast.ReturnStmt)
		if !ok || len(ret.Results) != 1 {
			return false, false
		}
		genv := map[types.Object]int64{}
		for i, a := range x.Args {
			v, ok := tokEvalInt(info, a, env, val, subject)
			if !ok {
				return false, false
			}
			genv[g.Sig.Params().At(i)] = v
		}
		inner := ""
		return tokEvalBool(p, g.Info(), ret.Results[0], genv, val, &inner, depth+1)
	}
	return false, false
}

func tokEvalInt(info *types.Info, e ast.Expr, env map[types.Object]int64, val int64, subject *string) (int64, bool) {
	e = an.Unparen(e)
	if tv, ok := info.Types[e]; ok && tv.Value != nil {
		v, ok := constant.Int64Val(constant.ToInt(tv.Value))
		return v, ok
	}
	if id, ok := e.(*ast.Ident); ok {
		if v, has := env[an.ObjOf(info, id)]; has {
			return v, true
		}
	}
	// the one non-constant token-type expression of the condition stands for the token looked at
	if tv, ok := info.Types[e]; ok && tv.Type != nil && an.TypeName(tv.Type) == "jet.itemType" && env == nil {
		s := an.Str(e)
		if *subject == "" {
			*subject = s
		}
		if *subject == s {
			return val, true
		}
	}
	return 0, false
}

func runC04(c *an.Ctx) {
	c04roles(c)
	c04ladder(c)
	c04lexerOps(c)
	c04sign(c)
	c04ops(c)
	c04kinds(c)
	c04resultComputed(c)
	c04lazy(c)
	c04lit(c)
}

type level struct {
	fn      string
	operand string
	tokens  []string
	ctor    string
}

var wantLadder = []level{
	{"(*Template).logicalExpression", "(*jet.Template).comparativeExpression", []string{"itemAnd", "itemOr"}, "(*jet.Template).newLogicalExpr"},
	{"(*Template).comparativeExpression", "(*jet.Template).numericComparativeExpression", []string{"itemEquals", "itemNotEquals"}, "(*jet.Template).newComparativeExpr"},
	{"(*Template).numericComparativeExpression", "(*jet.Template).additiveExpression", []string{"itemGreat", "itemGreatEquals", "itemLess", "itemLessEquals"}, "(*jet.Template).newNumericComparativeExpr"},
	{"(*Template).additiveExpression", "(*jet.Template).multiplicativeExpression", []string{"itemAdd", "itemMinus"}, "(*jet.Template).newAdditiveExpr"},
	{"(*Template).multiplicativeExpression", "(*jet.Template).unaryExpression", []string{"itemDiv", "itemMod", "itemMul"}, "(*jet.Template).newMultiplicativeExpr"},
}

func c04ladder(c *an.Ctx) {
	p := c.P
	info := p.Jet.TypesInfo
	for _, lv := range wantLadder {
		f := c.Fn("C04.ladder", lv.fn)
		if f == nil {
			continue
		}
		var loop *ast.ForStmt
		an.InspectOwn(f, func(n ast.Node) bool {
			if fs, ok := n.(*ast.ForStmt); ok && loop == nil {
				loop = fs
			}
			return true
		})
		key := lv.fn
		// a level accepts whatever the next-tighter level produced: no failure is conditioned on the node type of an
		// operand (parentheses leave no trace in the tree, so rejecting "a == b" as the operand of == also rejects
		// "(a == b) == c": grouping would no longer decide)
		{
			rejects := token.NoPos
			an.InspectOwn(f, func(n ast.Node) bool {
				ifs, ok := n.(*ast.IfStmt)
				if !ok {
					return true
				}
				testsNodeType := false
				ast.Inspect(ifs.Cond, func(m ast.Node) bool {
					if call, ok := m.(*ast.CallExpr); ok {
						if sel, ok := an.Unparen(call.Fun).(*ast.SelectorExpr); ok && sel.Sel.Name == "Type" && len(call.Args) == 0 {
							if tv, ok := info.Types[call]; ok && an.TypeName(tv.Type) == "jet.NodeType" {
								testsNodeType = true
							}
						}
					}
					if _, ok := m.(*ast.TypeAssertExpr); ok {
						testsNodeType = true
					}
					return true
				})
				if !testsNodeType {
					return true
				}
				fails := false
				ast.Inspect(ifs.Body, func(m ast.Node) bool {
					if call, ok := m.(*ast.CallExpr); ok && p.CallNeverReturns(info, call) {
						fails = true
					}
					return !fails
				})
				if fails && !rejects.IsValid() {
					rejects = ifs.Pos()
				}
				return true
			})
			c.Check(!rejects.IsValid(), "C04.ladder", key+"/accepts-any-operand", f.Pos(), "no operand is rejected for the kind of expression it is",
				lv.fn+" fails for certain kinds of operand node: an expression in parentheses is the same node as without them, so grouping can no longer combine these operators (left-associativity and \"parentheses override\" are lost for this level)")
		}
		if loop == nil {
			c.Bad("C04.ladder", key, f.Pos(), nil, "%s has no operator loop", lv.fn)
			continue
		}
		toks, ok := tokenSet(p, info, loop.Cond)
		sort.Strings(toks)
		want := append([]string{}, lv.tokens...)
		sort.Strings(want)
		if !ok || strings.Join(toks, ",") != strings.Join(want, ",") {
			c.Bad("C04.ladder", key+"/operators", loop.Pos(), nil, "%s continues on the tokens %v (from `%s`), expected exactly %v: an operator is parsed at the wrong precedence level", lv.fn, toks, an.Str(loop.Cond), want)
		} else {
			c.OK("C04.ladder", key+"/operators", loop.Pos(), "continues on exactly %v", want)
		}
		// operands: every call that yields `left`/`right` is the next-tighter level
		var operandCalls []string
		an.InspectOwn(f, func(n ast.Node) bool {
			as, ok := n.(*ast.AssignStmt)
			if !ok || len(as.Rhs) != 1 || len(as.Lhs) != 2 {
				return true
			}
			if call, ok := an.Unparen(as.Rhs[0]).(*ast.CallExpr); ok {
				operandCalls = append(operandCalls, an.CalleeName(info, call))
			}
			return true
		})
		okOperands := len(operandCalls) == 2
		for _, oc := range operandCalls {
			if oc != lv.operand {
				okOperands = false
			}
		}
		c.Check(okOperands, "C04.ladder", key+"/operands", f.Pos(), "both operands are parsed by "+lv.operand, fmt.Sprintf("%s parses its operands with %v instead of twice %s: the precedence ladder is broken", lv.fn, operandCalls, lv.operand))
		// constructor and left nesting: acc = newX(…, acc, rhs, op) with acc the expression the function returns,
		// op the token the loop condition tests and rhs a next-level operand parsed inside the loop
		var accObj, opObj types.Object
		an.InspectOwn(f, func(n ast.Node) bool {
			if ret, ok := n.(*ast.ReturnStmt); ok && len(ret.Results) == 2 {
				if id, ok := an.Unparen(ret.Results[0]).(*ast.Ident); ok {
					accObj = an.ObjOf(info, id)
				}
			}
			return true
		})
		ast.Inspect(loop.Cond, func(n ast.Node) bool {
			if sel, ok := n.(*ast.SelectorExpr); ok && sel.Sel.Name == "typ" {
				if id, ok := an.Unparen(sel.X).(*ast.Ident); ok {
					opObj = an.ObjOf(info, id)
				}
			}
			return true
		})
		// variables defined inside the loop body from the operand parser
		rhsVars := map[types.Object]bool{}
		ast.Inspect(loop.Body, func(n ast.Node) bool {
			if as, ok := n.(*ast.AssignStmt); ok && len(as.Rhs) == 1 && len(as.Lhs) == 2 {
				if call, ok := an.Unparen(as.Rhs[0]).(*ast.CallExpr); ok && an.CalleeName(info, call) == lv.operand {
					if id, ok := as.Lhs[0].(*ast.Ident); ok {
						rhsVars[an.ObjOf(info, id)] = true
					}
				}
			}
			return true
		})
		isObj := func(e ast.Expr, o types.Object) bool {
			id, ok := an.Unparen(e).(*ast.Ident)
			return ok && o != nil && an.ObjOf(info, id) == o
		}
		okCtor := false
		ast.Inspect(loop.Body, func(n ast.Node) bool {
			an.Assigns(n, func(lhs, rhs ast.Expr, _ token.Token) {
				call, ok := an.Unparen(rhs).(*ast.CallExpr)
				if rhs == nil || !ok || an.CalleeName(info, call) != lv.ctor || len(call.Args) != 5 || !isObj(lhs, accObj) {
					return
				}
				rid, isId := an.Unparen(call.Args[3]).(*ast.Ident)
				if isObj(call.Args[2], accObj) && isId && rhsVars[an.ObjOf(info, rid)] && isObj(call.Args[4], opObj) {
					okCtor = true
				}
			})
			return true
		})
		c.Check(okCtor, "C04.ladder", key+"/left-assoc", loop.Pos(), "operators of this level nest to the left and build "+lv.ctor, lv.fn+" does not build `left = "+lv.ctor+"(…, left, right, operator)`: operators of one level no longer associate to the left (or build the wrong node)")
	}
	// parseExpression: logical level, then ?: with both arms parsed by parseExpression
	if f := c.Fn("C04.ladder", "(*Template).parseExpression"); f != nil {
		first := ""
		nRec := 0
		an.InspectOwn(f, func(n ast.Node) bool {
			as, ok := n.(*ast.AssignStmt)
			if !ok || len(as.Rhs) != 1 || len(as.Lhs) != 2 {
				return true
			}
			if call, ok := an.Unparen(as.Rhs[0]).(*ast.CallExpr); ok {
				name := an.CalleeName(info, call)
				if first == "" {
					first = name
				} else if name == "(*jet.Template).parseExpression" {
					nRec++
				}
			}
			return true
		})
		// newTernaryExpr(…, cond, then, else): cond from the logical level, then/else from two recursive parses in
		// that order, under a test of the operator token against itemTernary
		var defCall func(e ast.Expr, depth int) (string, token.Pos)
		defCall = func(e ast.Expr, depth int) (string, token.Pos) {
			id, ok := an.Unparen(e).(*ast.Ident)
			if !ok || depth > 3 {
				return "", token.NoPos
			}
			o := an.ObjOf(info, id)
			name, pos := "", token.NoPos
			an.InspectOwn(f, func(n ast.Node) bool {
				if as, ok := n.(*ast.AssignStmt); ok && len(as.Rhs) == 1 && len(as.Lhs) == 2 {
					if l, ok := as.Lhs[0].(*ast.Ident); ok && an.ObjOf(info, l) == o {
						if call, ok := an.Unparen(as.Rhs[0]).(*ast.CallExpr); ok {
							name, pos = an.CalleeName(info, call), call.Pos()
						}
					}
				}
				return true
			})
			if name == "" {
				// a local that only holds another (condition := expression)
				if defs := an.LocalDefs(f, o); len(defs) == 1 && defs[0] != nil {
					return defCall(defs[0], depth+1)
				}
			}
			return name, pos
		}
		// the ternary node is built only on paths on which the operator token was seen to be `?` (kept in a register:
		// the token variable is reassigned while the arms are parsed), from the three parses in order
		byName, _ := itemConsts(p)
		tern, ternBad := false, false
		tx := p.NewExplorer(f, an.Hooks{
			Branch: func(x *an.Explorer, cond ast.Expr, val bool, st *an.State) {
				branchLeaves(x, cond, val, st, func(e ast.Expr, v bool) {
					b, isBin := an.Unparen(e).(*ast.BinaryExpr)
					if !isBin || (b.Op != token.EQL && b.Op != token.NEQ) {
						return
					}
					for _, side := range []ast.Expr{b.X, b.Y} {
						if tv, has := info.Types[side]; has && tv.Value != nil {
							if cv, isInt := constant.Int64Val(constant.ToInt(tv.Value)); isInt && cv == byName["itemTernary"] && (b.Op == token.EQL) == v {
								st.Set("ternary", "1")
							}
						}
					}
				})
			},
			Call: func(x *an.Explorer, call *ast.CallExpr, st *an.State) {
				if an.CalleeName(info, call) != "(*jet.Template).newTernaryExpr" || len(call.Args) != 5 {
					return
				}
				c0, _ := defCall(call.Args[2], 0)
				c1, p1 := defCall(call.Args[3], 0)
				c2, p2 := defCall(call.Args[4], 0)
				if st.Get("ternary") != "" && c0 == "(*jet.Template).logicalExpression" && c1 == "(*jet.Template).parseExpression" && c2 == "(*jet.Template).parseExpression" && p1 < p2 {
					tern = true
				} else {
					ternBad = true
				}
			},
		})
		tx.Run(nil)
		c.States += tx.Visited
		tern = tern && !ternBad && tx.Undecided == ""
		c.Check(first == "(*jet.Template).logicalExpression" && nRec == 2 && tern, "C04.ladder", "(*Template).parseExpression", f.Pos(), "?: is the loosest level: condition from the logical level, both arms from the top (right-nesting)",
			"parseExpression does not parse `logical ? expression : expression` with both arms re-entering at the top level")
	}
	// unaryExpression: ! → comparative; +/- → operand
	if f := c.Fn("C04.ladder", "(*Template).unaryExpression"); f != nil {
		okNot, okSign := false, false
		if cc := caseClause(f, "itemNot"); cc != nil {
			armInspect(f, cc, func(n ast.Node) bool {
				if call, ok := n.(*ast.CallExpr); ok && an.CalleeName(info, call) == "(*jet.Template).comparativeExpression" {
					okNot = true
				}
				return true
			})
		}
		if cc := caseClause(f, "itemMinus"); cc != nil {
			got := map[string]bool{}
			for _, e := range cc.List {
				got[an.Str(e)] = true
			}
			armInspect(f, cc, func(n ast.Node) bool {
				if call, ok := n.(*ast.CallExpr); ok && an.CalleeName(info, call) == "(*jet.Template).newAdditiveExpr" && len(call.Args) == 5 {
					if an.Str(call.Args[2]) == "nil" {
						// the operand call itself, or a local that holds its result
						for _, o := range valueOrigins(f, call.Args[3], 0) {
							if oc, ok := an.Unparen(o).(*ast.CallExpr); ok && an.CalleeName(info, oc) == "(*jet.Template).operand" {
								okSign = got["itemMinus"] && got["itemAdd"]
							}
						}
					}
				}
				return true
			})
		}
		c.Check(okNot, "C04.ladder", "(*Template).unaryExpression/not", f.Pos(), "! applies to a comparison-level expression", "unary ! no longer parses a comparative expression as its operand")
		// the operator nodes the parser builds are what the grammar says: each constructor of an operator node
		// returns the node it builds and nothing else (a "simplified" tree — !!x as x, x+0 as x — changes the
		// type of the result: a logical operator always yields true or false)
		for _, ctor := range []string{"(*Template).newNotExpr", "(*Template).newLogicalExpr", "(*Template).newComparativeExpr", "(*Template).newNumericComparativeExpr", "(*Template).newAdditiveExpr", "(*Template).newMultiplicativeExpr", "(*Template).newTernaryExpr"} {
			g := p.Fn(ctor)
			if g == nil {
				continue
			}
			ginfo := g.Info()
			nRet, okCtor := 0, true
			an.InspectOwn(g, func(n ast.Node) bool {
				ret, isRet := n.(*ast.ReturnStmt)
				if !isRet || len(ret.Results) != 1 {
					return true
				}
				nRet++
				fresh := false
				for _, o := range valueOrigins(g, ret.Results[0], 0) {
					if u, ok := an.Unparen(o).(*ast.UnaryExpr); ok && u.Op == token.AND {
						if cl, ok := an.Unparen(u.X).(*ast.CompositeLit); ok && strings.HasSuffix(an.TypeName(ginfo.Types[cl].Type), "ExprNode") {
							fresh = true
							continue
						}
					}
					fresh = false
					break
				}
				if !fresh {
					okCtor = false
				}
				return true
			})
			c.Check(okCtor && nRet > 0, "C04.ladder", ctor+"/builds-its-node", g.Pos(), "the constructor returns the operator node it builds", ctor+" can return something other than the operator node it builds: the expression tree no longer has the operator the source has, so the operator's typing (a logical operator yields true or false) is lost")
		}
		c.Check(okSign, "C04.ladder", "(*Template).unaryExpression/sign", f.Pos(), "unary + and - take a bare operand (bind tightest)", "unary +/- do not take a bare operand(): they no longer bind tighter than * / %")
	}
	// parentheses re-enter at the top
	if f := c.Fn("C04.ladder", "(*Template).term"); f != nil {
		ok := false
		if cc := caseClause(f, "itemLeftParen"); cc != nil {
			armInspect(f, cc, func(n ast.Node) bool {
				if call, isCall := n.(*ast.CallExpr); isCall && an.CalleeName(info, call) == "(*jet.Template).expression" {
					ok = true
				}
				return true
			})
		}
		c.Check(ok, "C04.ladder", "(*Template).term/parentheses", f.Pos(), "a parenthesised expression re-enters the ladder at the top", "term() does not parse `( expression )` through the top-level expression parser: parentheses no longer override precedence")
	}
	if f := c.Fn("C04.ladder", "(*Template).expression"); f != nil {
		c.Check(len(p.CallsIn(f, "(*jet.Template).parseExpression")) == 1, "C04.ladder", "(*Template).expression", f.Pos(), "expression() is the top of the ladder", "expression() does not start at parseExpression")
	}
}

// c04lexerOps: operator spellings → tokens
func c04lexerOps(c *an.Ctx) {
	p := c.P
	f := c.Fn("C04.ladder", "lexInsideAction")
	if f == nil {
		return
	}
	info := f.Info()
	got := map[string]string{}
	an.InspectOwn(f, func(n ast.Node) bool {
		cc, ok := n.(*ast.CaseClause)
		if !ok || len(cc.List) != 1 {
			return true
		}
		b, ok := an.Unparen(cc.List[0]).(*ast.BinaryExpr)
		if !ok || b.Op != token.EQL || an.Str(b.X) != "r" {
			return true
		}
		tv := info.Types[b.Y]
		if tv.Value == nil {
			return true
		}
		v, _ := constant.Int64Val(tv.Value)
		ch := string(rune(v))
		emitArg := func(stmts []ast.Stmt) string {
			for _, s := range stmts {
				if es, ok := s.(*ast.ExprStmt); ok {
					if call, ok := es.X.(*ast.CallExpr); ok && an.CalleeName(info, call) == "(*jet.lexer).emit" {
						return an.Str(call.Args[0])
					}
				}
			}
			return ""
		}
		// two-character forms: if l.next() == 'X' { emit(A) } else { backup; emit(B) }
		for _, s := range cc.Body {
			if is, ok := s.(*ast.IfStmt); ok {
				if cb, ok := an.Unparen(is.Cond).(*ast.BinaryExpr); ok && cb.Op == token.EQL && an.Str(cb.X) == "l.next()" {
					if tv2 := info.Types[cb.Y]; tv2.Value != nil {
						v2, _ := constant.Int64Val(tv2.Value)
						if a := emitArg(is.Body.List); a != "" {
							got[ch+string(rune(v2))] = a
						}
						if eb, ok := is.Else.(*ast.BlockStmt); ok {
							if a := emitArg(eb.List); a != "" {
								got[ch] = a
							}
						}
					}
				}
			}
		}
		if _, done := got[ch]; !done {
			// the last emit of the clause (the sign arms emit after their look-ahead test)
			if a := emitArg(cc.Body); a != "" {
				got[ch] = a
			}
		}
		return true
	})
	want := map[string]string{"*": "itemMul", "/": "itemDiv", "%": "itemMod", "-": "itemMinus", "+": "itemAdd", "?": "itemTernary", "&&": "itemAnd", "<=": "itemLessEquals", "<": "itemLess",
		">=": "itemGreatEquals", ">": "itemGreat", "!=": "itemNotEquals", "!": "itemNot", "==": "itemEquals", "||": "itemOr"}
	var bad []string
	for sp, tok := range want {
		if got[sp] != tok {
			bad = append(bad, fmt.Sprintf("%q→%s (expected %s)", sp, got[sp], tok))
		}
	}
	sort.Strings(bad)
	c.Check(len(bad) == 0, "C04.ladder", "lexInsideAction/operator-tokens", f.Pos(), "every operator spelling is lexed to its documented token", fmt.Sprintf("operator spellings are lexed to the wrong tokens: %v", bad))
	// keyword spellings
	kw := map[string]string{}
	for _, file := range p.Jet.Syntax {
		ast.Inspect(file, func(n ast.Node) bool {
			vs, ok := n.(*ast.ValueSpec)
			if !ok || len(vs.Names) != 1 || vs.Names[0].Name != "key" || len(vs.Values) != 1 {
				return true
			}
			if cl, ok := vs.Values[0].(*ast.CompositeLit); ok {
				for _, el := range cl.Elts {
					if kv, ok := el.(*ast.KeyValueExpr); ok {
						kw[strings.Trim(an.Str(kv.Key), `"`)] = an.Str(kv.Value)
					}
				}
			}
			return true
		})
	}
	okKw := kw["and"] == "itemAnd" && kw["or"] == "itemOr" && kw["not"] == "itemNot"
	c.Check(okKw, "C04.ladder", "key/and-or-not", p.Jet.Syntax[0].Pos(), "and/or/not are spelt as the tokens of &&, ||, !", fmt.Sprintf("the keyword table maps and/or/not to %s/%s/%s instead of itemAnd/itemOr/itemNot", kw["and"], kw["or"], kw["not"]))
}

// c04sign: both sign arms exclude every token that can end an operand.
func c04sign(c *an.Ctx) {
	p := c.P
	f := c.Fn("C04.sign", "lexInsideAction")
	term := c.Fn("C04.sign", "(*Template).term")
	if f == nil || term == nil {
		return
	}
	info := f.Info()
	// tokens the lexer emits
	emitted := map[string]bool{}
	for _, g := range p.Units() {
		if g.Pkg != p.Jet || g.Body == nil {
			continue
		}
		for _, call := range p.CallsIn(g, "(*jet.lexer).emit") {
			if id, ok := an.Unparen(call.Args[0]).(*ast.Ident); ok {
				emitted[id.Name] = true
			}
			// emit(key[word]) : all keyword tokens
			if strings.HasPrefix(an.Str(call.Args[0]), "key[") {
				byName, _ := itemConsts(p)
				for n, v := range byName {
					if v > byName["itemKeyword"] {
						emitted[n] = true
					}
				}
			}
		}
	}
	// operand-ending tokens: case labels of term() whose arm returns a node, minus the opener; plus the closers
	ends := map[string]bool{}
	an.InspectOwn(term, func(n ast.Node) bool {
		cc, ok := n.(*ast.CaseClause)
		if !ok || cc.List == nil {
			return true
		}
		returnsNode := false
		for _, s := range cc.Body {
			if ret, ok := s.(*ast.ReturnStmt); ok && len(ret.Results) == 1 && an.Str(ret.Results[0]) != "nil" {
				returnsNode = true
			}
		}
		if !returnsNode {
			return true
		}
		for _, e := range cc.List {
			ends[an.Str(e)] = true
		}
		return true
	})
	delete(ends, "itemLeftParen")
	ends["itemRightParen"], ends["itemRightBrackets"], ends["itemField"] = true, true, true
	var need []string
	for t := range ends {
		if emitted[t] {
			need = append(need, t)
		}
	}
	sort.Strings(need)
	c.Expect("C04.sign", "token kinds that can end an operand", len(need), 9)
	// Decide the two sign arms by enumeration: for every token kind T the lexer can have emitted last,
	// explore lexInsideAction with lastType == T and record what the '-' / '+' arm does: emit the operator
	// token, or back up and hand over to the number lexer.  The form of the look-ahead test (a chain of
	// !=, a switch, a helper function) does not matter.
	var lastType ast.Expr
	an.InspectOwn(f, func(n ast.Node) bool {
		if sel, ok := n.(*ast.SelectorExpr); ok && lastType == nil && p.FieldKey(info, sel) == "lexer.lastType" {
			lastType = sel
		}
		return true
	})
	if lastType == nil {
		c.Anchor("C04.sign", "a read of lexer.lastType in lexInsideAction")
		return
	}
	byName, _ := itemConsts(p)
	opTok := map[string]string{"-": "itemMinus", "+": "itemAdd"}
	type outcome struct{ op, other bool }
	result := map[string]map[string]*outcome{"-": {}, "+": {}}
	var all []string
	for t := range emitted {
		if _, ok := byName[t]; ok {
			all = append(all, t)
		}
	}
	sort.Strings(all)
	for _, T := range all {
		hooks := an.Hooks{
			Branch: func(x *an.Explorer, cond ast.Expr, val bool, st *an.State) {
				if !val {
					return
				}
				switch strings.ReplaceAll(an.Str(cond), " ", "") {
				case "r=='-'":
					st.Set("arm", "-")
				case "r=='+'":
					st.Set("arm", "+")
				}
			},
			Call: func(x *an.Explorer, call *ast.CallExpr, st *an.State) {
				if an.IsCallTo(x.Fn.Info(), call, "(*jet.lexer).emit") && len(call.Args) == 1 && st.Get("arm") != "" {
					st.Set("emit", an.Str(call.Args[0]))
				}
			},
		}
		x := p.NewExplorer(f, hooks)
		init := an.NewState()
		if !x.SetEq(lastType, fmt.Sprint(byName[T]), init) {
			c.Undecided("C04.sign", "lexInsideAction/lastType", f.Pos(), "l.lastType cannot be tracked")
			return
		}
		x.Run(init)
		c.States += x.Visited
		if x.Undecided != "" {
			c.Undecided("C04.sign", "lexInsideAction/"+T, f.Pos(), "%s", x.Undecided)
			return
		}
		for _, ex := range x.Exits {
			arm := ex.State.Get("arm")
			if arm == "" {
				continue
			}
			o := result[arm][T]
			if o == nil {
				o = &outcome{}
				result[arm][T] = o
			}
			if ex.State.Get("emit") == opTok[arm] {
				o.op = true
			} else {
				o.other = true
			}
		}
	}
	c.FnsAnalysed[f.Name] = true
	if len(result["-"]) == 0 || len(result["+"]) == 0 {
		c.Anchor("C04.sign", "sign arms (case r == '-' / case r == '+') in lexInsideAction")
		return
	}
	for _, arm := range []string{"-", "+"} {
		var missing []string
		for _, t := range need {
			if o := result[arm][t]; o == nil || o.other {
				missing = append(missing, t)
			}
		}
		c.Check(len(missing) == 0, "C04.sign", "lexInsideAction/'"+arm+"'", f.Pos(), "after every operand-ending token `"+arm+"<digit>` is an operator",
			fmt.Sprintf("after %v a `%s` directly followed by a digit is lexed as the sign of a number instead of an operator: `x%s1` is a parse error / means something else than `x %s 1`", missing, arm, arm, arm))
	}
	same := true
	for _, t := range all {
		m, pl := result["-"][t], result["+"][t]
		if (m == nil) != (pl == nil) || (m != nil && (m.op != pl.op || m.other != pl.other)) {
			same = false
		}
	}
	c.Check(same, "C04.sign", "lexInsideAction/agree", f.Pos(), "the + and - look-ahead decisions agree for every preceding token kind", "the sign look-ahead of `+` and `-` differ for some preceding token: a+1 and a-1 are tokenised differently")
}

var relOps = map[string]token.Token{"itemGreat": token.GTR, "itemGreatEquals": token.GEQ, "itemLess": token.LSS, "itemLessEquals": token.LEQ}
var mulOps = map[string]token.Token{"itemMul": token.MUL, "itemDiv": token.QUO, "itemMod": token.REM}

func isRel(t token.Token) bool {
	return t == token.GTR || t == token.GEQ || t == token.LSS || t == token.LEQ
}

var compoundOp = map[token.Token]token.Token{token.ADD_ASSIGN: token.ADD, token.SUB_ASSIGN: token.SUB, token.MUL_ASSIGN: token.MUL, token.QUO_ASSIGN: token.QUO, token.REM_ASSIGN: token.REM}

func isArith(t token.Token) bool {
	return t == token.MUL || t == token.QUO || t == token.REM || t == token.ADD || t == token.SUB
}

func c04ops(c *an.Ctx) {
	p := c.P
	n := 0
	check := func(fnName string, table map[string]token.Token, class func(token.Token) bool) {
		f := c.Fn("C04.ops", fnName)
		if f == nil {
			return
		}
		// the arms that dispatch on the operator — in the function itself or in helpers it was split into.
		// An arm for one operator computes with that operator only; an arm shared by several operators
		// computes with none of them (apart from arms nested in it that single one operator out).
		tableItems := func(cc *ast.CaseClause) []string {
			var out []string
			for _, e := range cc.List {
				if id, ok := e.(*ast.Ident); ok {
					if _, isItem := table[id.Name]; isItem {
						out = append(out, id.Name)
					}
				}
			}
			return out
		}
		var clauses []*ast.CaseClause
		an.InspectOwn(f, func(m ast.Node) bool {
			if cc, ok := m.(*ast.CaseClause); ok && len(tableItems(cc)) > 0 {
				clauses = append(clauses, cc)
			}
			return true
		})
		type tally struct {
			cnt   int
			wrong []string
			pos   token.Pos
		}
		tallies := map[string]*tally{}
		for item := range table {
			tallies[item] = &tally{}
		}
		for _, cc := range clauses {
			items := tableItems(cc)
			want := token.ILLEGAL
			if len(items) == 1 && len(cc.List) == 1 {
				want = table[items[0]]
			}
			for _, item := range items {
				if !tallies[item].pos.IsValid() {
					tallies[item].pos = cc.Pos()
				}
			}
			note := func(isOp bool, op token.Token, text string) {
				for _, item := range items {
					t := tallies[item]
					if want != token.ILLEGAL {
						t.cnt++
					}
					if op != want {
						t.wrong = append(t.wrong, text)
					}
				}
			}
			armInspect(f, cc, func(m ast.Node) bool {
				if inner, ok := m.(*ast.CaseClause); ok && inner != cc && len(tableItems(inner)) > 0 {
					return false // an arm of its own
				}
				if b, ok := m.(*ast.BinaryExpr); ok && class(b.Op) {
					n++
					note(true, b.Op, fmt.Sprintf("%s (%s)", an.Str(b), p.RelPos(b.Pos())))
				}
				// compound assignments (r += b, n *= 2 …) are operations too: a result "corrected" after the
				// operator was applied is no longer what the Go operator computes
				if as, ok := m.(*ast.AssignStmt); ok {
					if op, isCompound := compoundOp[as.Tok]; isCompound && class(op) {
						note(true, op, fmt.Sprintf("%s (%s)", an.StmtStr(as), p.RelPos(as.Pos())))
					}
				}
				if inc, ok := m.(*ast.IncDecStmt); ok && class(token.ADD) {
					note(true, token.ILLEGAL+1, fmt.Sprintf("%s (%s)", an.StmtStr(inc), p.RelPos(inc.Pos())))
				}
				return true
			})
		}
		for item, want := range table {
			t := tallies[item]
			switch {
			case !t.pos.IsValid():
				c.Bad("C04.ops", fnName+"/"+item, f.Pos(), nil, "%s has no arm for %s", fnName, item)
			case len(t.wrong) > 0:
				c.Bad("C04.ops", fnName+"/"+item, t.pos, nil, "the %s arm of %s computes %v — not the Go operator `%s` that %s denotes", item, fnName, t.wrong, want, item)
			case t.cnt == 0:
				c.Bad("C04.ops", fnName+"/"+item, t.pos, nil, "the %s arm of %s contains no `%s` operation", item, fnName, want)
			default:
				c.OK("C04.ops", fnName+"/"+item, t.pos, "all %d operations in the arm are `%s`", t.cnt, want)
			}
		}
	}
	check("(*Runtime).evalNumericComparativeExpression", relOps, isRel)
	check("(*Runtime).evalMultiplicativeExpression", mulOps, isArith)
	// additive: if isAdditive { + } else { - }
	if f := c.Fn("C04.ops", "(*Runtime).evalAdditiveExpression"); f != nil {
		info := f.Info()
		okDef := false
		an.InspectOwn(f, func(m ast.Node) bool {
			an.Assigns(m, func(lhs, rhs ast.Expr, _ token.Token) {
				if an.Str(lhs) == "isAdditive" && rhs != nil && strings.ReplaceAll(an.Str(rhs), " ", "") == "node.Operator.typ==itemAdd" {
					okDef = true
				}
			})
			return true
		})
		var wrong []string
		cnt := 0
		an.InspectOwn(f, func(m ast.Node) bool {
			is, ok := m.(*ast.IfStmt)
			if !ok || an.Str(is.Cond) != "isAdditive" {
				return true
			}
			scan := func(node ast.Node, want token.Token) {
				ast.Inspect(node, func(k ast.Node) bool {
					switch e := k.(type) {
					case *ast.BinaryExpr:
						if isArith(e.Op) {
							cnt++
							n++
							if e.Op != want {
								wrong = append(wrong, fmt.Sprintf("%s (%s)", an.Str(e), p.RelPos(e.Pos())))
							}
						}
					case *ast.UnaryExpr:
						if e.Op == token.ADD || e.Op == token.SUB {
							cnt++
							if e.Op != want {
								wrong = append(wrong, fmt.Sprintf("%s (%s)", an.Str(e), p.RelPos(e.Pos())))
							}
						}
					}
					return true
				})
			}
			scan(is.Body, token.ADD)
			if is.Else != nil {
				scan(is.Else, token.SUB)
			}
			return true
		})
		c.Check(okDef && len(wrong) == 0 && cnt >= 12, "C04.ops", "(*Runtime).evalAdditiveExpression/+-", f.Pos(), fmt.Sprintf("all %d additive operations use + under isAdditive and - otherwise", cnt),
			fmt.Sprintf("evalAdditiveExpression computes %v on the wrong side of isAdditive (or isAdditive is not `operator == itemAdd`)", wrong))
		// string minus is an error: every string concatenation is reached only on paths on which the
		// operator is known to be + (the `-` paths end in a call that never returns before it)
		var addDef ast.Expr
		an.InspectOwn(f, func(m ast.Node) bool {
			an.Assigns(m, func(lhs, rhs ast.Expr, _ token.Token) {
				if an.Str(lhs) == "isAdditive" && rhs != nil && addDef == nil && p.OwnerFn(lhs.Pos()) == f {
					addDef = lhs // the flag itself: a test of it and this probe are the same atom
				}
			})
			return true
		})
		concat := map[*ast.BinaryExpr]bool{}
		an.InspectOwn(f, func(m ast.Node) bool {
			if b, ok := m.(*ast.BinaryExpr); ok && b.Op == token.ADD {
				if tv, ok := info.Types[b]; ok && tv.Value == nil && tv.Type != nil {
					if bt, ok := tv.Type.Underlying().(*types.Basic); ok && bt.Info()&types.IsString != 0 {
						concat[b] = true
					}
				}
			}
			return true
		})
		switch {
		case addDef == nil:
			c.Bad("C04.ops", "(*Runtime).evalAdditiveExpression/string-minus", f.Pos(), nil, "evalAdditiveExpression does not record whether its operator is + : `string - x` cannot be told from `string + x`")
		case len(concat) == 0:
			c.Anchor("C04.ops", "string concatenation in evalAdditiveExpression")
		default:
			badAt := token.NoPos
			var trail []string
			reached := 0
			hooks := an.Hooks{Stmt: func(x *an.Explorer, n ast.Node, st *an.State) {
				if _, isCond := n.(ast.Expr); !isCond {
					if _, isStmt := n.(ast.Stmt); !isStmt {
						return
					}
				}
				ast.Inspect(n, func(k ast.Node) bool {
					if _, isLit := k.(*ast.FuncLit); isLit {
						return false
					}
					if b, ok := k.(*ast.BinaryExpr); ok && concat[b] {
						reached++
						if v, known := x.Truth(addDef, st); !(known && v) && !badAt.IsValid() {
							badAt, trail = b.Pos(), an.Facts(st)
						}
					}
					return true
				})
			}}
			x := p.NewExplorer(f, hooks)
			x.Run(nil)
			c.States += x.Visited
			switch {
			case x.Undecided != "":
				c.Undecided("C04.ops", "(*Runtime).evalAdditiveExpression/string-minus", f.Pos(), "%s", x.Undecided)
			case reached == 0:
				c.Undecided("C04.ops", "(*Runtime).evalAdditiveExpression/string-minus", f.Pos(), "no string concatenation was reached by the exploration")
			case badAt.IsValid():
				c.Bad("C04.ops", "(*Runtime).evalAdditiveExpression/string-minus", badAt, trail, "`string - x` is not rejected before the concatenation: it silently concatenates")
			default:
				c.OK("C04.ops", "(*Runtime).evalAdditiveExpression/string-minus", f.Pos(), "`-` on a string is an error: every concatenation is reached only when the operator is +")
			}
		}
	}
	// equality: != is the negation of == (decided by evaluation, c04cmp.go)
	c04equalityOps(c)
	c.Expect("C04.ops", "arithmetic/relational operations inside operator arms", n, 40)
}

func c04kinds(c *an.Ctx) {
	c04equality(c)
	p := c.P
	type fam struct{ guard, method, conv string }
	fams := []fam{{"isInt(kind)", "Int", "jet.toInt"}, {"isUint(kind)", "Uint", "jet.toUint"}, {"isFloat(kind)", "Float", "jet.toFloat"}}
	nBranches := 0
	for _, fnName := range []string{"(*Runtime).evalNumericComparativeExpression", "(*Runtime).evalMultiplicativeExpression", "(*Runtime).evalAdditiveExpression"} {
		f := c.Fn("C04.kinds", fnName)
		if f == nil {
			continue
		}
		info := f.Info()
		var bad []string
		an.InspectOwn(f, func(n ast.Node) bool {
			is, ok := n.(*ast.IfStmt)
			if !ok {
				return true
			}
			var fm *fam
			for i := range fams {
				if strings.ReplaceAll(an.Str(is.Cond), " ", "") == fams[i].guard {
					fm = &fams[i]
				}
			}
			if fm == nil {
				return true
			}
			nBranches++
			// whose kind does the guard test?  kind := <subject>.Kind()
			subject := "left"
			if call, ok := an.Unparen(is.Cond).(*ast.CallExpr); ok && len(call.Args) == 1 {
				if id, ok := an.Unparen(call.Args[0]).(*ast.Ident); ok {
					var best ast.Expr
					for _, d := range an.LocalDefs(f, an.ObjOf(info, id)) {
						if d != nil {
							best = d
						}
					}
					if best != nil {
						if kc, ok := an.Unparen(best).(*ast.CallExpr); ok && an.CalleeName(info, kc) == "(reflect.Value).Kind" {
							subject = an.Str(an.Receiver(kc))
						}
					}
				}
			}
			// is this guard (or the accessor) under `if needFloatPromotion`?
			promotedOuter := false
			for _, enc := range an.EnclosingStmts(f, is) {
				if outer, ok := enc.(*ast.IfStmt); ok && an.Str(outer.Cond) == "needFloatPromotion" && outer.Body.Pos() <= is.Pos() && is.End() <= outer.Body.End() {
					promotedOuter = true
				}
			}
			promoted := map[ast.Node]bool{} // nodes inside `if needFloatPromotion { … }` bodies below the guard
			ast.Inspect(is.Body, func(m ast.Node) bool {
				if inner, ok := m.(*ast.IfStmt); ok && an.Str(inner.Cond) == "needFloatPromotion" {
					ast.Inspect(inner.Body, func(k ast.Node) bool {
						if k != nil {
							promoted[k] = true
						}
						return true
					})
				}
				return true
			})
			ast.Inspect(is.Body, func(m ast.Node) bool {
				call, ok := m.(*ast.CallExpr)
				if !ok {
					return true
				}
				name := an.CalleeName(info, call)
				recv := ""
				if r := an.Receiver(call); r != nil {
					recv = an.Str(r)
				}
				isAccessor := strings.HasPrefix(name, "(reflect.Value).") && (strings.HasSuffix(name, ".Int") || strings.HasSuffix(name, ".Uint") || strings.HasSuffix(name, ".Float"))
				switch {
				case isAccessor && recv == subject:
					if !strings.HasSuffix(name, "."+fm.method) {
						bad = append(bad, fmt.Sprintf("%s.%s() under %s (%s)", recv, strings.TrimPrefix(name, "(reflect.Value)."), fm.guard, p.RelPos(call.Pos())))
					}
				case name == "jet.toInt" || name == "jet.toUint" || name == "jet.toFloat":
					// % on floats converts both sides to int: the only sanctioned mix
					if name != fm.conv && !(fm.method == "Float" && name == "jet.toInt" && inModArm(f, call)) {
						bad = append(bad, fmt.Sprintf("%s(…) under %s (%s)", strings.TrimPrefix(name, "jet."), fm.guard, p.RelPos(call.Pos())))
					}
				case isAccessor && (recv == "left" || recv == "right"):
					// the operand whose kind was not tested: only its Float() under float promotion
					if name != "(reflect.Value).Float" || !(promoted[call] || promotedOuter) {
						bad = append(bad, fmt.Sprintf("%s.%s() outside float promotion under %s (%s)", recv, strings.TrimPrefix(name, "(reflect.Value)."), fm.guard, p.RelPos(call.Pos())))
					}
				}
				return true
			})
			return true
		})
		c.Check(len(bad) == 0, "C04.kinds", fnName+"/accessors", f.Pos(), "operands are read with the accessor of the kind the branch tested", fmt.Sprintf("%s reads operands with accessors that do not match the kind guard: %v (reflect panics, or the value is reinterpreted)", fnName, bad))
		// needFloatPromotion definition
		okDef := false
		an.InspectOwn(f, func(n ast.Node) bool {
			an.Assigns(n, func(lhs, rhs ast.Expr, _ token.Token) {
				if an.Str(lhs) != "needFloatPromotion" || rhs == nil {
					return
				}
				s := strings.ReplaceAll(an.Str(rhs), " ", "")
				if s == "!isFloat(kind)&&isFloat(right.Kind())" || s == "!isFloat(kind)&&kind!=reflect.String&&isFloat(right.Kind())" {
					okDef = true
				}
			})
			return true
		})
		c.Check(okDef, "C04.kinds", fnName+"/promotion-def", f.Pos(), "float promotion is exactly `left is not a float and right is`", fnName+": needFloatPromotion is not !isFloat(left kind) && isFloat(right kind)")
		// wherever the right operand is read integrally (toInt / toUint) for an operator other than %, float
		// promotion is known not to be needed on that path: `int op float` is never computed integrally
		{
			var probe ast.Expr
			probes := map[*an.Fn]ast.Expr{} // the flag of the function a read belongs to (helpers keep their own)
			an.InspectOwn(f, func(n ast.Node) bool {
				an.Assigns(n, func(lhs, rhs ast.Expr, _ token.Token) {
					if an.Str(lhs) == "needFloatPromotion" && rhs != nil {
						if probe == nil {
							probe = lhs
						}
						if o := p.OwnerFn(lhs.Pos()); o != nil && probes[o] == nil {
							probes[o] = lhs
						}
					}
				})
				return true
			})
			var missing []string
			reached := 0
			if probe != nil {
				x := p.NewExplorer(f, an.Hooks{Call: func(x *an.Explorer, call *ast.CallExpr, st *an.State) {
					name := an.CalleeName(info, call)
					if name != "jet.toInt" && name != "jet.toUint" {
						return
					}
					if inModArm(f, call) {
						return
					}
					reached++
					pr := probe
					if o := p.OwnerFn(call.Pos()); o != nil && probes[o] != nil {
						pr = probes[o]
					}
					if v, known := x.Truth(pr, st); !known || v {
						missing = append(missing, fmt.Sprintf("%s (%s)", an.Str(call), p.RelPos(call.Pos())))
					}
				}})
				x.Run(nil)
				c.States += x.Visited
				if x.Undecided != "" {
					c.Undecided("C04.kinds", fnName+"/promotion-used", f.Pos(), "%s", x.Undecided)
					continue
				}
			}
			// … and what is computed where promotion is needed is a floating-point value: every reflect.ValueOf(E) stored
			// on such a path has a float E ("any floating-point operand makes the operation floating-point" — also
			// when the float happens to be a whole number)
			if probe != nil {
				var integral []string
				fx := p.NewExplorer(f, an.Hooks{Assign: func(x *an.Explorer, lhs, rhs ast.Expr, stmt ast.Node, st *an.State) {
					if rhs == nil {
						return
					}
					call, ok := an.Unparen(rhs).(*ast.CallExpr)
					if !ok || an.CalleeName(info, call) != "reflect.ValueOf" || len(call.Args) != 1 {
						return
					}
					pr := probe
					if o := p.OwnerFn(rhs.Pos()); o != nil && probes[o] != nil {
						pr = probes[o]
					}
					if v, known := x.Truth(pr, st); !known || !v {
						return
					}
					if inModArm(f, call) {
						return
					}
					tv, ok := info.Types[call.Args[0]]
					if !ok || tv.Type == nil {
						return
					}
					if bt, ok := tv.Type.Underlying().(*types.Basic); !ok || bt.Info()&types.IsFloat == 0 {
						integral = append(integral, fmt.Sprintf("%s (%s)", an.Str(call), p.RelPos(call.Pos())))
					}
				}})
				fx.Run(nil)
				c.States += fx.Visited
				sort.Strings(integral)
				integral = uniqStrings(integral)
				c.Check(len(integral) == 0 && fx.Undecided == "", "C04.kinds", fnName+"/promotion-yields-float", f.Pos(), "where float promotion is needed the result is a floating-point value",
					fmt.Sprintf("%s: %v store a non-float result on a path where needFloatPromotion is true: an integer combined with a float (every numeric literal is one) must be a float, whatever its value", fnName, integral))
			}
			sort.Strings(missing)
			missing = uniqStrings(missing)
			c.Check(probe != nil && reached > 0 && len(missing) == 0, "C04.kinds", fnName+"/promotion-used", f.Pos(), "every integral reading of the right operand lies on a path where float promotion is known not to be needed",
				fmt.Sprintf("%s: %v read the right operand integrally on a path where needFloatPromotion may be true: `int op float` is computed integrally there", fnName, missing))
		}
	}
	c.Expect("C04.kinds", "kind-guarded branches", nBranches, 25)
	// comparison / logical evaluators return reflect.ValueOf(<bool>)
	for _, fnName := range []string{"(*Runtime).evalNumericComparativeExpression", "(*Runtime).evalLogicalExpression", "(*Runtime).evalComparativeExpression"} {
		f := p.Fn(fnName)
		if f == nil {
			continue
		}
		info := f.Info()
		// every value the function returns — directly, or through a helper whose result it returns — is
		// reflect.ValueOf(<bool>)
		var boolResults func(g *an.Fn, depth int) bool
		boolResults = func(g *an.Fn, depth int) bool {
			ok := depth < 4
			an.InspectBody(g, func(n ast.Node) bool {
				ret, isRet := n.(*ast.ReturnStmt)
				if !isRet || len(ret.Results) != 1 {
					return true
				}
				call, isCall := an.Unparen(ret.Results[0]).(*ast.CallExpr)
				if !isCall {
					ok = false
					return true
				}
				if h := p.NewHelperCallee(g, call); h != nil {
					if !boolResults(h, depth+1) {
						ok = false
					}
					return true
				}
				if an.CalleeName(info, call) != "reflect.ValueOf" {
					ok = false
					return true
				}
				if bt, isB := info.Types[call.Args[0]].Type.Underlying().(*types.Basic); !isB || bt.Info()&types.IsBoolean == 0 {
					ok = false
				}
				return true
			})
			return ok
		}
		ok := boolResults(f, 0)
		c.Check(ok, "C04.kinds", fnName+"/bool-result", f.Pos(), "always yields a Go bool", fnName+" can return something other than reflect.ValueOf(<bool>)")
	}
}

// enclosingIfCond returns the condition of the innermost if statement (below outer) whose body contains n.
func enclosingIfCond(f *an.Fn, n ast.Node, outer *ast.IfStmt) ast.Expr {
	var cond ast.Expr = ast.NewIdent("")
	ast.Inspect(outer.Body, func(m ast.Node) bool {
		if is, ok := m.(*ast.IfStmt); ok && is.Body.Pos() <= n.Pos() && n.End() <= is.Body.End() {
			cond = is.Cond
		}
		return true
	})
	return cond
}

func inModArm(f *an.Fn, n ast.Node) bool {
	for _, enc := range an.EnclosingStmts(f, n) {
		if cc, ok := enc.(*ast.CaseClause); ok {
			for _, e := range cc.List {
				if an.Str(e) == "itemMod" {
					return true
				}
			}
		}
	}
	return false
}

// c04lazyPaths decides short-circuit evaluation on the paths of evalLogicalExpression: the right operand
// is evaluated only where the operator is && and the left operand was true, or the operator is || and
// the left operand was false; every return yields what the truth table demands on its path.  It
// returns "" when that holds.
func c04lazyPaths(c *an.Ctx, f *an.Fn) string {
	p := c.P
	info := f.Info()
	var left *ast.Ident
	var opProbe ast.Expr
	opIsAnd := true
	an.InspectOwn(f, func(n ast.Node) bool {
		an.Assigns(n, func(lhs, rhs ast.Expr, _ token.Token) {
			if id, ok := an.Unparen(lhs).(*ast.Ident); ok && rhs != nil && left == nil {
				if strings.ReplaceAll(an.Norm(f, rhs), " ", "") == "isTrue($r.evalPrimaryExpressionGroup($p0.Left))" {
					left = id
				}
			}
		})
		if b, ok := n.(*ast.BinaryExpr); ok && b.Op == token.EQL && opProbe == nil {
			switch strings.ReplaceAll(an.Norm(f, b), " ", "") {
			case "($p0.Operator.typ==itemAnd)", "(itemAnd==$p0.Operator.typ)":
				opProbe, opIsAnd = b, true
			case "($p0.Operator.typ==itemOr)", "(itemOr==$p0.Operator.typ)":
				opProbe, opIsAnd = b, false
			}
		}
		return true
	})
	if left == nil || opProbe == nil {
		return "evalLogicalExpression does not keep the truthiness of the left operand and test the operator"
	}
	isRight := func(e ast.Expr) bool {
		return strings.ReplaceAll(an.Norm(f, e), " ", "") == "isTrue($r.evalPrimaryExpressionGroup($p0.Right))"
	}
	why := ""
	x := p.NewExplorer(f, an.Hooks{Call: func(x *an.Explorer, call *ast.CallExpr, st *an.State) {
		if an.CalleeName(info, call) != "(*jet.Runtime).evalPrimaryExpressionGroup" || len(call.Args) != 1 || an.Norm(f, call.Args[0]) != "$p0.Right" {
			return
		}
		st.Add("R", 1)
		and, k1 := x.Truth(opProbe, st)
		if !opIsAnd {
			and = !and
		}
		l, k2 := x.Truth(left, st)
		if !k1 || !k2 || and != l {
			if why == "" {
				why = "the right operand is evaluated on a path where the left operand already decides the result (or its truthiness / the operator is not known there)"
			}
		}
	}})
	x.Run(nil)
	c.States += x.Visited
	if x.Undecided != "" {
		return x.Undecided
	}
	nRet := 0
	for _, ex := range x.Exits {
		if ex.Kind != an.ExitReturn || ex.Ret == nil || len(ex.Ret.Results) != 1 {
			continue
		}
		nRet++
		and, k1 := x.Truth(opProbe, ex.State)
		if !opIsAnd {
			and = !and
		}
		l, k2 := x.Truth(left, ex.State)
		if !k1 || !k2 {
			return "a return is reached without the operator and the left operand's truthiness being decided"
		}
		call, ok := an.Unparen(ex.Ret.Results[0]).(*ast.CallExpr)
		if !ok || an.CalleeName(info, call) != "reflect.ValueOf" || len(call.Args) != 1 {
			return "a return does not yield reflect.ValueOf(<bool>)"
		}
		arg := an.Unparen(call.Args[0])
		kind := "?"
		if tv, ok := info.Types[arg]; ok && tv.Value != nil {
			kind = "c:" + tv.Value.ExactString()
		} else if id, ok := arg.(*ast.Ident); ok && an.ObjOf(info, id) == an.ObjOf(info, left) {
			kind = "L"
		} else if isRight(arg) {
			kind = "R"
		}
		switch {
		case and != l: // left decides: false for &&, true for ||
			want := "c:false"
			if l {
				want = "c:true"
			}
			if kind != want && kind != "L" {
				return "a path on which the left operand decides the result returns " + an.Str(arg)
			}
			if ex.State.Int("R") != 0 {
				return "the right operand is evaluated although the left one decides the result"
			}
		default:
			if kind != "R" || ex.State.Int("R") != 1 {
				return "a path on which the left operand does not decide the result does not return the truthiness of the right operand, evaluated once"
			}
		}
	}
	if nRet == 0 {
		return "no return reached"
	}
	return why
}

func c04lazy(c *an.Ctx) {
	p := c.P
	if f := c.Fn("C04.lazy", "(*Runtime).evalLogicalExpression"); f != nil {
		info := f.Info()
		// truthy := isTrue(eval(node.Left)); every eval(node.Right) is the right operand of `truthy && …` / `truthy || …`
		okLeft := false
		an.InspectOwn(f, func(n ast.Node) bool {
			an.Assigns(n, func(lhs, rhs ast.Expr, _ token.Token) {
				if an.Str(lhs) == "truthy" && rhs != nil && strings.ReplaceAll(an.Str(rhs), " ", "") == "isTrue(st.evalPrimaryExpressionGroup(node.Left))" {
					okLeft = true
				}
			})
			return true
		})
		nRight, okRight := 0, true
		why := ""
		an.InspectOwn(f, func(n ast.Node) bool {
			call, ok := n.(*ast.CallExpr)
			if !ok || an.CalleeName(info, call) != "(*jet.Runtime).evalPrimaryExpressionGroup" || an.Str(call.Args[0]) != "node.Right" {
				return true
			}
			nRight++
			// find the enclosing && / || whose Y contains the call and whose X is `truthy`
			lazy := false
			var op token.Token
			for _, enc := range an.EnclosingStmts(f, call) {
				ast.Inspect(enc, func(m ast.Node) bool {
					if b, ok := m.(*ast.BinaryExpr); ok && (b.Op == token.LAND || b.Op == token.LOR) && b.Y.Pos() <= call.Pos() && call.End() <= b.Y.End() && an.Str(b.X) == "truthy" {
						lazy, op = true, b.Op
					}
					return true
				})
			}
			if !lazy {
				okRight, why = false, "the right operand is evaluated outside the right-hand side of `truthy && …` / `truthy || …`: it is evaluated even when the left operand already decides the result"
				return true
			}
			// && under operator == itemAnd, || otherwise
			underAnd := false
			for _, enc := range an.EnclosingStmts(f, call) {
				if is, ok := enc.(*ast.IfStmt); ok && strings.ReplaceAll(an.Str(is.Cond), " ", "") == "node.Operator.typ==itemAnd" {
					underAnd = is.Body.Pos() <= call.Pos() && call.End() <= is.Body.End()
				}
			}
			if (op == token.LAND) != underAnd {
				okRight, why = false, "&& is computed with Go's || (or the reverse)"
			}
			return true
		})
		verdict := okLeft && okRight && nRight == 2
		if !verdict {
			// the same semantics written with early returns instead of Go's && / ||: decided on the paths
			if pathWhy := c04lazyPaths(c, f); pathWhy == "" {
				verdict = true
			} else if why == "" || nRight != 2 {
				why = pathWhy
			}
		}
		c.Check(verdict, "C04.lazy", "(*Runtime).evalLogicalExpression", f.Pos(), "the right operand is evaluated only when the left one does not decide the result", firstNonEmpty(why, "evalLogicalExpression does not evaluate the right operand lazily after the left operand's truthiness"))
	}
	if f := c.Fn("C04.lazy", "(*Runtime).evalPrimaryExpressionGroup"); f != nil {
		info := f.Info()
		cc := caseClause(f, "NodeTernaryExpr")
		if cc == nil {
			c.Anchor("C04.lazy", "case NodeTernaryExpr")
			return
		}
		inClause := func(n ast.Node) bool { return cc.Pos() <= n.Pos() && n.End() <= cc.End() }
		// which operand of the ternary node an expression is: the field itself, or a local last assigned one
		// (register "arm:<key>")
		armOf := func(x *an.Explorer, e ast.Expr, st *an.State) string {
			switch p.FieldKey(info, e) {
			case "TernaryExprNode.Boolean":
				return "B"
			case "TernaryExprNode.Left":
				return "L"
			case "TernaryExprNode.Right":
				return "R"
			}
			if id, ok := an.Unparen(e).(*ast.Ident); ok {
				if k, ok := x.Key(id); ok {
					return st.Get("arm:" + k)
				}
			}
			return ""
		}
		x := p.NewExplorer(f, an.Hooks{
			PreAssign: func(x *an.Explorer, lhs, rhs ast.Expr, stmt ast.Node, st *an.State) {
				if id, ok := an.Unparen(lhs).(*ast.Ident); ok && rhs != nil && inClause(stmt) {
					if k, ok := x.Key(id); ok {
						st.Set("arm:"+k, armOf(x, rhs, st))
					}
				}
			},
			Call: func(x *an.Explorer, call *ast.CallExpr, st *an.State) {
				if !inClause(call) || an.CalleeName(info, call) != "(*jet.Runtime).evalPrimaryExpressionGroup" {
					return
				}
				switch armOf(x, call.Args[0], st) {
				case "B":
					st.Set("cond", "1")
				case "L":
					st.Add("L", 1)
					if st.Get("cond") == "" {
						st.Set("early", "1")
					}
				case "R":
					st.Add("R", 1)
					if st.Get("cond") == "" {
						st.Set("early", "1")
					}
				}
			}})
		x.Run(nil)
		c.States += x.Visited
		ok, why := true, ""
		seen := 0
		for _, ex := range x.Exits {
			if ex.Kind != an.ExitReturn || ex.Ret == nil || !inClause(ex.Ret) {
				continue
			}
			seen++
			l, r := ex.State.Int("L"), ex.State.Int("R")
			switch {
			case l+r != 1:
				ok, why = false, fmt.Sprintf("a path through ?: evaluates the true arm %d time(s) and the false arm %d time(s): exactly one arm must be evaluated", l, r)
			case ex.State.Get("early") != "":
				ok, why = false, "an arm of ?: is evaluated before the condition"
			}
		}
		c.Check(ok && seen >= 2, "C04.lazy", "(*Runtime).evalPrimaryExpressionGroup/ternary", cc.Pos(), "?: evaluates the condition and then exactly one arm", firstNonEmpty(why, "the ternary arm does not return from both of its branches"))
	}
}

func c04lit(c *an.Ctx) {
	p := c.P
	if f := c.Fn("C04.lit", "(*Runtime).evalBaseExpressionGroup"); f != nil {
		cc := caseClause(f, "NodeNumber")
		var order []string
		if cc != nil {
			for _, s := range cc.Body {
				if is, ok := s.(*ast.IfStmt); ok {
					order = append(order, strings.TrimPrefix(an.Str(is.Cond), "node."))
				}
			}
		}
		c.Check(strings.Join(order, ",") == "IsFloat,IsInt,IsUint", "C04.lit", "(*Runtime).evalBaseExpressionGroup/number", f.Pos(), "a numeric literal evaluates to its float value first",
			fmt.Sprintf("number literals are evaluated in the order %v instead of float, int, uint: literals stop being floating-point", order))
	}
	if f := c.Fn("C04.lit", "(*Template).newNumber"); f != nil {
		info := f.Info()
		x := p.NewExplorer(f, an.Hooks{
			PreAssign: func(x *an.Explorer, lhs, rhs ast.Expr, stmt ast.Node, st *an.State) {
				if rhs == nil || an.Str(rhs) != "true" {
					return
				}
				switch p.FieldKey(info, lhs) {
				case "NumberNode.IsInt":
					st.Set("int", "1")
				case "NumberNode.IsUint":
					st.Set("uint", "1")
				case "NumberNode.IsFloat":
					st.Set("float", "1")
				}
			},
			Call: func(x *an.Explorer, call *ast.CallExpr, st *an.State) {
				if an.CalleeName(info, call) == "(*jet.NumberNode).simplifyComplex" {
					st.Set("viaComplex", "1")
				}
			},
		})
		x.Run(nil)
		c.States += x.Visited
		ok := true
		for _, ex := range x.Exits {
			if ex.Kind != an.ExitReturn || ex.Ret == nil || len(ex.Ret.Results) != 2 || an.Str(ex.Ret.Results[1]) != "nil" {
				continue
			}
			if ex.State.Get("viaComplex") != "" {
				continue // checked on simplifyComplex below
			}
			if (ex.State.Get("int") != "" || ex.State.Get("uint") != "") && ex.State.Get("float") == "" {
				ok = false
			}
		}
		c.Check(ok, "C04.lit", "(*Template).newNumber/int-implies-float", f.Pos(), "every literal with an integer value also has its float value", "newNumber can return a literal with IsInt/IsUint but without IsFloat: such a literal is not floating-point")
	}
	if f := c.Fn("C04.lit", "(*NumberNode).simplifyComplex"); f != nil {
		info := f.Info()
		ok := true
		an.InspectOwn(f, func(n ast.Node) bool {
			an.Assigns(n, func(lhs, _ ast.Expr, _ token.Token) {
				k := p.FieldKey(info, lhs)
				if k == "NumberNode.IsInt" || k == "NumberNode.IsUint" {
					guarded := false
					for _, enc := range an.EnclosingStmts(f, lhs) {
						if is, isIf := enc.(*ast.IfStmt); isIf && an.Str(is.Cond) == "n.IsFloat" {
							guarded = true
						}
					}
					if !guarded {
						ok = false
					}
				}
			})
			return true
		})
		c.Check(ok, "C04.lit", "(*NumberNode).simplifyComplex", f.Pos(), "integer views of a complex literal exist only when the float view does", "simplifyComplex can set IsInt/IsUint without IsFloat")
	}
	truthRule(c, "C04.lit")
}

// c04roles names the variables of the operator evaluators by what they hold, so that the rules below can
// describe the code in one vocabulary whatever the variables are called: the receiver is "st", the node
// parameter "node", the evaluated operands "left" and "right", the left operand's kind "kind", the float
// promotion flag "needFloatPromotion", the +/- flag "isAdditive", the accumulated truth value "truthy",
// the equality result "equal".
func c04roles(c *an.Ctx) {
	p := c.P
	for _, name := range []string{"(*Runtime).evalNumericComparativeExpression", "(*Runtime).evalMultiplicativeExpression", "(*Runtime).evalAdditiveExpression",
		"(*Runtime).evalLogicalExpression", "(*Runtime).evalComparativeExpression"} {
		f := p.Fn(name)
		if f == nil || f.Sig == nil {
			continue
		}
		info := f.Info()
		root := ast.Node(f.Decl)
		if f.Sig.Recv() != nil {
			an.SetRole(info, root, f.Sig.Recv(), "st")
		}
		var node types.Object
		if f.Sig.Params().Len() >= 1 {
			node = f.Sig.Params().At(0)
			an.SetRole(info, root, node, "node")
		}
		operandOf := func(e ast.Expr) string { // eval(<node>.Left) → "left"
			call, ok := an.Unparen(e).(*ast.CallExpr)
			if !ok || !an.IsCallTo(info, call, "(*jet.Runtime).evalPrimaryExpressionGroup") || len(call.Args) != 1 {
				return ""
			}
			sel, ok := an.Unparen(call.Args[0]).(*ast.SelectorExpr)
			if !ok {
				return ""
			}
			if id, ok := an.Unparen(sel.X).(*ast.Ident); !ok || an.ObjOf(info, id) != node {
				return ""
			}
			switch sel.Sel.Name {
			case "Left":
				return "left"
			case "Right":
				return "right"
			}
			return ""
		}
		roleOf := map[types.Object]string{}
		countCalls := func(e ast.Expr, callee string) int {
			n := 0
			ast.Inspect(e, func(m ast.Node) bool {
				if call, ok := m.(*ast.CallExpr); ok && an.IsCallTo(info, call, callee) {
					n++
				}
				return true
			})
			return n
		}
		for pass := 0; pass < 2; pass++ {
			an.InspectBody(f, func(n ast.Node) bool {
				an.Assigns(n, func(lhs, rhs ast.Expr, tok token.Token) {
					id, ok := lhs.(*ast.Ident)
					if !ok || rhs == nil || tok != token.DEFINE {
						return
					}
					o := an.ObjOf(info, id)
					if o == nil || roleOf[o] != "" {
						return
					}
					switch {
					case operandOf(rhs) != "":
						roleOf[o] = operandOf(rhs)
					case func() bool { // <left>.Kind()
						call, ok := an.Unparen(rhs).(*ast.CallExpr)
						if !ok || an.CalleeName(info, call) != "(reflect.Value).Kind" {
							return false
						}
						rid, ok := an.Unparen(an.Receiver(call)).(*ast.Ident)
						return ok && roleOf[an.ObjOf(info, rid)] == "left"
					}():
						roleOf[o] = "kind"
					case countCalls(rhs, "jet.isFloat") >= 2:
						roleOf[o] = "needFloatPromotion"
					case func() bool {
						b, ok := an.Unparen(rhs).(*ast.BinaryExpr)
						return ok && b.Op == token.EQL && an.Str(b.Y) == "itemAdd"
					}():
						roleOf[o] = "isAdditive"
					case func() bool {
						call, ok := an.Unparen(rhs).(*ast.CallExpr)
						return ok && an.IsCallTo(info, call, "jet.isTrue") && len(call.Args) == 1 && operandOf(call.Args[0]) == "left"
					}():
						roleOf[o] = "truthy"
					case countCalls(rhs, "jet.checkEquality") == 1:
						roleOf[o] = "equal"
					}
				})
				return true
			})
		}
		for o, r := range roleOf {
			an.SetRole(info, root, o, r)
		}
	}
}

func uniqStrings(in []string) []string {
	var out []string
	for i, v := range in {
		if i == 0 || v != in[i-1] {
			out = append(out, v)
		}
	}
	return out
}
