package rules

import (
	"go/ast"
	"go/token"

	"jetverif/an"
)

// c04equalityOps (C04.ops): `!=` is the negation of `==`.  Decided by evaluating evalComparativeExpression for
// the four combinations of (the operands are equal, the operator is !=) with a small interpreter over its
// statements — assignments, if/else, a switch on the operator token, return — so that any formulation that
// is determined by those two facts is accepted, and only by what it returns.
func c04equalityOps(c *an.Ctx) {
	f := c.Fn("C04.ops", "(*Runtime).evalComparativeExpression")
	if f == nil {
		return
	}
	info := f.Info()
	key := "(*Runtime).evalComparativeExpression"
	type env struct {
		equal, notEq bool
		vars         map[string]ast.Expr
	}
	undecided := ""
	var evalBool func(e ast.Expr, en *env, depth int) (val, ok bool)
	// isOpTok: e is <…>.Operator.typ (or a local holding it)
	var isOpTok func(e ast.Expr, en *env, depth int) bool
	isOpTok = func(e ast.Expr, en *env, depth int) bool {
		e = an.Unparen(e)
		if id, ok := e.(*ast.Ident); ok && depth < 4 {
			if d := en.vars[id.Name]; d != nil {
				return isOpTok(d, en, depth+1)
			}
			return false
		}
		sel, ok := e.(*ast.SelectorExpr)
		if !ok || sel.Sel.Name != "typ" {
			return false
		}
		inner, ok := an.Unparen(sel.X).(*ast.SelectorExpr)
		return ok && inner.Sel.Name == "Operator"
	}
	tokIs := func(e ast.Expr) (isNotEq, isEq bool) {
		if id, ok := an.Unparen(e).(*ast.Ident); ok {
			return id.Name == "itemNotEquals", id.Name == "itemEquals"
		}
		return false, false
	}
	evalBool = func(e ast.Expr, en *env, depth int) (bool, bool) {
		e = an.Unparen(e)
		if depth > 12 {
			return false, false
		}
		switch x := e.(type) {
		case *ast.Ident:
			switch x.Name {
			case "true":
				return true, true
			case "false":
				return false, true
			}
			if d := en.vars[x.Name]; d != nil {
				return evalBool(d, en, depth+1)
			}
			return false, false
		case *ast.UnaryExpr:
			if x.Op == token.NOT {
				v, ok := evalBool(x.X, en, depth+1)
				return !v, ok
			}
		case *ast.CallExpr:
			if an.CalleeName(info, x) == "jet.checkEquality" {
				return en.equal, true
			}
		case *ast.BinaryExpr:
			switch x.Op {
			case token.LAND, token.LOR:
				l, ok1 := evalBool(x.X, en, depth+1)
				r, ok2 := evalBool(x.Y, en, depth+1)
				if !ok1 || !ok2 {
					return false, false
				}
				if x.Op == token.LAND {
					return l && r, true
				}
				return l || r, true
			case token.EQL, token.NEQ:
				// operator-token comparison
				for _, pr := range [][2]ast.Expr{{x.X, x.Y}, {x.Y, x.X}} {
					if isOpTok(pr[0], en, 0) {
						ne, eq := tokIs(pr[1])
						if !ne && !eq {
							return false, false
						}
						v := en.notEq
						if eq {
							v = !en.notEq
						}
						if x.Op == token.NEQ {
							v = !v
						}
						return v, true
					}
				}
				// bool == bool
				l, ok1 := evalBool(x.X, en, depth+1)
				r, ok2 := evalBool(x.Y, en, depth+1)
				if !ok1 || !ok2 {
					return false, false
				}
				if x.Op == token.EQL {
					return l == r, true
				}
				return l != r, true
			}
		}
		return false, false
	}
	// run: returns (returned value, returned?, ok)
	var run func(stmts []ast.Stmt, en *env) (val, returned, ok bool)
	run = func(stmts []ast.Stmt, en *env) (bool, bool, bool) {
		for _, s := range stmts {
			switch x := s.(type) {
			case *ast.AssignStmt:
				if len(x.Lhs) == len(x.Rhs) {
					for i, l := range x.Lhs {
						if id, ok := l.(*ast.Ident); ok {
							en.vars[id.Name] = x.Rhs[i]
						}
					}
				}
			case *ast.DeclStmt, *ast.ExprStmt, *ast.EmptyStmt:
			case *ast.BlockStmt:
				if v, r, ok := run(x.List, en); !ok || r {
					return v, r, ok
				}
			case *ast.IfStmt:
				if x.Init != nil {
					if _, _, ok := run([]ast.Stmt{x.Init}, en); !ok {
						return false, false, false
					}
				}
				cv, ok := evalBool(x.Cond, en, 0)
				if !ok {
					undecided = "the condition " + an.Str(x.Cond) + " is not determined by (operands equal, operator is !=)"
					return false, false, false
				}
				if cv {
					if v, r, ok := run(x.Body.List, en); !ok || r {
						return v, r, ok
					}
				} else if x.Else != nil {
					if v, r, ok := run([]ast.Stmt{x.Else}, en); !ok || r {
						return v, r, ok
					}
				}
			case *ast.SwitchStmt:
				if x.Tag == nil || !isOpTok(x.Tag, en, 0) {
					undecided = "a switch that is not on the operator token"
					return false, false, false
				}
				var chosen, def *ast.CaseClause
				for _, cl := range x.Body.List {
					cc := cl.(*ast.CaseClause)
					if cc.List == nil {
						def = cc
					}
					for _, e := range cc.List {
						ne, eq := tokIs(e)
						if (ne && en.notEq) || (eq && !en.notEq) {
							chosen = cc
						}
					}
				}
				if chosen == nil {
					chosen = def
				}
				if chosen != nil {
					if v, r, ok := run(chosen.Body, en); !ok || r {
						return v, r, ok
					}
				}
			case *ast.ReturnStmt:
				if len(x.Results) != 1 {
					return false, false, false
				}
				call, ok := an.Unparen(x.Results[0]).(*ast.CallExpr)
				if !ok || an.CalleeName(info, call) != "reflect.ValueOf" || len(call.Args) != 1 {
					// a named constant value such as valueBoolTRUE
					if id, ok := an.Unparen(x.Results[0]).(*ast.Ident); ok {
						switch id.Name {
						case "valueBoolTRUE":
							return true, true, true
						case "valueBoolFALSE":
							return false, true, true
						}
					}
					undecided = "returns " + an.Str(x.Results[0]) + ", which is not reflect.ValueOf(<bool>)"
					return false, false, false
				}
				v, ok := evalBool(call.Args[0], en, 0)
				if !ok {
					undecided = "the returned " + an.Str(call.Args[0]) + " is not determined by (operands equal, operator is !=)"
					return false, false, false
				}
				return v, true, true
			default:
				undecided = "a statement the rule does not interpret: " + an.StmtStr(s)
				return false, false, false
			}
		}
		return false, false, true
	}
	// the body seen through new helpers is not supported here: only the function's own statements
	wrong := ""
	for _, equal := range []bool{true, false} {
		for _, notEq := range []bool{true, false} {
			en := &env{equal: equal, notEq: notEq, vars: map[string]ast.Expr{}}
			v, returned, ok := run(f.Body.List, en)
			if !ok || !returned {
				if undecided == "" {
					undecided = "no return reached"
				}
				c.Undecided("C04.ops", key, f.Pos(), "%s", undecided)
				return
			}
			if v != (equal != notEq) && wrong == "" {
				op := "=="
				if notEq {
					op = "!="
				}
				eqs := "equal"
				if !equal {
					eqs = "different"
				}
				wrong = "for " + eqs + " operands `" + op + "` yields " + map[bool]string{true: "true", false: "false"}[v]
			}
		}
	}
	c.Check(wrong == "", "C04.ops", key, f.Pos(), "== yields the equality of the operands and != its negation (all four combinations evaluated)",
		"evalComparativeExpression: "+wrong)
}
