package rules

import (
	"fmt"
	"go/ast"
	"go/token"
	"strings"

	"jetverif/an"
)

// c04equality (C04.kinds/equality): == and != follow the typing rule of the other operators.  In
// checkEquality a comparison of two numeric readings is returned only where the kinds say so: an integral
// comparison (Int()/toInt, Uint()/toUint) where the left operand is known to be of that kind — "two Go
// integers combine integrally" — and a floating-point comparison (Float()/toFloat) only where one of the
// operands is known to be a float.
func c04equality(c *an.Ctx) {
	p := c.P
	f := c.Fn("C04.kinds", "checkEquality")
	if f == nil {
		return
	}
	info := f.Info()
	reading := func(e ast.Expr) string {
		call, ok := an.Unparen(e).(*ast.CallExpr)
		if !ok {
			return ""
		}
		switch an.CalleeName(info, call) {
		case "(reflect.Value).Int", "jet.toInt":
			return "int"
		case "(reflect.Value).Uint", "jet.toUint":
			return "uint"
		case "(reflect.Value).Float", "jet.toFloat":
			return "float"
		}
		return ""
	}
	has := func(st *an.State, pred string, v bool) bool {
		for k, fv := range st.Facts {
			pk := strings.ReplaceAll(an.PlainKey(k), " ", "")
			if fv == v && strings.HasPrefix(pk, pred+"(") {
				return true
			}
		}
		return false
	}
	// the test "the right operand is a float": isFloat(<second parameter>.Kind())
	var floatRight ast.Expr
	an.InspectOwn(f, func(n ast.Node) bool {
		if call, ok := n.(*ast.CallExpr); ok && floatRight == nil && an.CalleeName(info, call) == "jet.isFloat" && len(call.Args) == 1 {
			if strings.ReplaceAll(an.Norm(f, call.Args[0]), " ", "") == "indirectInterface($p1).Kind()" || an.Norm(f, call.Args[0]) == "$p1.Kind()" {
				floatRight = call
			}
		}
		return true
	})
	x := p.NewExplorer(f, an.Hooks{})
	x.Run(nil)
	c.States += x.Visited
	var bad []string
	n := 0
	for _, ex := range x.Exits {
		if ex.Kind != an.ExitReturn || ex.Ret == nil || len(ex.Ret.Results) != 1 {
			continue
		}
		b, ok := an.Unparen(ex.Ret.Results[0]).(*ast.BinaryExpr)
		if !ok || b.Op != token.EQL {
			continue
		}
		l, r := reading(b.X), reading(b.Y)
		if l == "" || r == "" {
			continue
		}
		n++
		okPath := false
		switch {
		case l == "int" && r == "int", l == "uint" && r == "uint":
			okPath = has(ex.State, map[string]string{"int": "isInt", "uint": "isUint"}[l], true)
			// … and the right operand is known not to be a float (a float must not be truncated: 2 == 2.5)
			if floatRight == nil {
				okPath = false
			} else if v, known := x.Truth(floatRight, ex.State); !known || v {
				okPath = false
			}
		case l == "float" && r == "float":
			// some operand is known to be a float on this path
			okPath = has(ex.State, "isFloat", true)
		}
		if !okPath {
			bad = append(bad, fmt.Sprintf("%s (%s)", an.Str(b), p.RelPos(b.Pos())))
		}
	}
	if x.Undecided != "" {
		c.Undecided("C04.kinds", "checkEquality/numeric-kinds", f.Pos(), "%s", x.Undecided)
		return
	}
	c.Check(n >= 3 && len(bad) == 0, "C04.kinds", "checkEquality/numeric-kinds", f.Pos(), "integers are compared integrally, floats only where an operand is a float",
		fmt.Sprintf("checkEquality returns %v on a path where the kinds of the operands do not call for that comparison: two integers are compared as floats (equal above 2^53 although different), or a float is compared integrally", bad))
}
