package rules

import (
	"fmt"
	"go/ast"
	"go/constant"
	"go/token"
	"go/types"
	"strings"

	"jetverif/an"
)

func init() {
	register(&Property{
		ID:  "C05",
		Run: runC05,
		Meta: an.Meta{
			Technique: "call counting and element-consumption typestate on the CFG of the if/range arms of executeList, guard facts for the variable bindings, cursor-advance counting in every built-in Range method, reset completeness of pooled rangers, and shape rules for else-if parsing",
			Explanation: "(C05.if) in the if arm the condition is evaluated once, the then-list only in the true branch of isTrue(condition), the else-list only in its false branch under ElseList != nil, and no path " +
				"executes a branch twice or both. (C05.loop) in the range arm every Range() result is consumed by exactly one execution of the body before the next Range() (typestate FRESH/CONSUMED, " +
				"with the `end` fact), the body never runs for an end result, the else list runs only when the first Range() reported end and ElseList != nil; every conjunct of the loop condition other " +
				"than !end is reported. (C05.bind) the key/value variables are bound (by := or =) to indexValue/rangeValue of the current element under keyVarSlot/valVarSlot >= 0, '.' becomes the " +
				"element exactly when no value variable exists, and a two-variable range over an index-less ranger reaches a no-return error. (C05.pool) pooled rangers: Setup assigns every field, no " +
				"use after cleanup, objects come from the pool, every pool has a reset discipline. (C05.rangers) each built-in Range advances its cursor exactly once on the non-end path (at most once where it reports the end) " +
				"and reads the element before advancing. (C05.elseif) `else if` builds an else list holding exactly the nested if without consuming another {{end}}; range does " +
				"not allow else-if. (C05.truth) every return of isTrue equals v.IsValid() && !v.IsZero() under the facts of its path, so the branch an if chain takes depends on nothing but `valid and not the zero value` (false, 0, \"\", nil). (C05.bind, continued) whether '.' is replaced depends on the number of loop variables only, never on what a variable is called; '.' and the loop variables receive the element unwrapped from its interface, and Runtime.resolve unwraps what it reads from the scope chain (shared with C06.same). (C05.elseif, path form) along every path of parseControl: the nested if of `else if` is parsed only where else-if is allowed and the token after {{else was seen to be `if`, it is appended to a fresh list that is the else list returned, such a path parses exactly one list of its own, no path treats an allowed `else if` as a plain else, and a plain else exists. (C05.pool custom-first, continued) a path on which the value is known to be a nil value of an interface type is not a path of a value that implements Ranger.",
			NotDecided:  "ints(a,b) arithmetic, map iteration order, channel blocking, user-defined Rangers, reflect.Value.IsZero itself (trusted: zero value of the kind).",
			Assumptions: []string{"a Ranger's Range() result is meaningful only until the next call (interface contract)"},
			Trusted:     commonTrusted,
		},
		Mutants: []Mutant{
			{Name: "'.' keeps the interface wrapping of the element (original defect)", File: "eval.go", Old: "st.context = indirectEface(rangeValue)", New: "st.context = rangeValue", Rule: "C05.bind"},
			{Name: "else branch executed although the condition held (no else keyword)", File: "eval.go", Old: "\t\t\t\tifReturn = st.executeList(node.List)\n\t\t\t} else if node.ElseList != nil {\n\t\t\t\tifReturn = st.executeList(node.ElseList)\n\t\t\t}", New: "\t\t\t\tifReturn = st.executeList(node.List)\n\t\t\t}\n\t\t\tif node.ElseList != nil {\n\t\t\t\tifReturn = st.executeList(node.ElseList)\n\t\t\t}", Rule: "C05.if"},
			{Name: "range calls Range twice per iteration (skips every other element)", File: "eval.go", Old: "\t\t\t\t\trangeReturn = st.executeList(node.List)\n\t\t\t\t\tindexValue, rangeValue, end = ranger.Range()\n", New: "\t\t\t\t\trangeReturn = st.executeList(node.List)\n\t\t\t\t\tindexValue, rangeValue, end = ranger.Range()\n\t\t\t\t\tif !end && !isTrue(rangeValue) {\n\t\t\t\t\t\tindexValue, rangeValue, end = ranger.Range()\n\t\t\t\t\t}\n", Rule: "C05.loop"},
			{Name: "else list also runs after a non-empty range", File: "eval.go", Old: "\t\t\t} else if node.ElseList != nil {\n\t\t\t\trangeReturn = st.executeList(node.ElseList)\n\t\t\t}\n\t\t\tif rangeReturn.IsValid() {", New: "\t\t\t}\n\t\t\tif end && node.ElseList != nil {\n\t\t\t\trangeReturn = st.executeList(node.ElseList)\n\t\t\t}\n\t\t\tif rangeReturn.IsValid() {", Rule: "C05.loop"},
			{Name: "body executed once more after the end", File: "eval.go", Old: "\t\t\tif !end {\n\t\t\t\tfor !end && !rangeReturn.IsValid() {", New: "\t\t\tif !end {\n\t\t\t\tfor ok := true; ok; ok = !end && !rangeReturn.IsValid() {", Rule: "C05.loop"},
			{Name: "context set even when a value variable exists", File: "eval.go", Old: "\t\t\t\t\tif valVarSlot < 0 {\n\t\t\t\t\t\tst.context = indirectEface(rangeValue)\n\t\t\t\t\t}", New: "\t\t\t\t\tif valVarSlot <= 0 {\n\t\t\t\t\t\tst.context = indirectEface(rangeValue)\n\t\t\t\t\t}", Rule: "C05.bind"},
			{Name: "key variable receives the value", File: "eval.go", Old: "\t\t\t\t\t\t\t\tst.variables[node.Set.Left[keyVarSlot].String()] = indexValue", New: "\t\t\t\t\t\t\t\tst.variables[node.Set.Left[keyVarSlot].String()] = rangeValue", Rule: "C05.bind"},
			{Name: "slice ranger advances before reading", File: "ranger.go", Old: "\tindex = reflect.ValueOf(r.i)\n\tvalue = r.v.Index(r.i)\n\tr.i++\n\treturn", New: "\tr.i++\n\tindex = reflect.ValueOf(r.i - 1)\n\tvalue = r.v.Index(r.i)\n\treturn", Rule: "C05.rangers"},
			{Name: "map ranger forgets to advance", File: "ranger.go", Old: "\tkey, value = r.iter.Key(), r.iter.Value()\n\tr.hasMore = r.iter.Next()\n\treturn", New: "\tkey, value = r.iter.Key(), r.iter.Value()\n\tr.hasMore = r.hasMore && r.iter != nil\n\treturn", Rule: "C05.rangers"},
			{Name: "slice ranger keeps its cursor from the previous use", File: "ranger.go", Old: "func (r *sliceRanger) Setup(v reflect.Value) {\n\tr.i = 0\n\tr.v = v\n}", New: "func (r *sliceRanger) Setup(v reflect.Value) {\n\tr.v = v\n}", Rule: "C05.pool"},
			{Name: "else-if consumes a second {{end}}", File: "parse.go", Old: "\t\t\telseList = t.newList(next.Position())\n\t\t\telseList.append(t.ifControl())\n\t\t\t// Do not consume the next item - only one {{end}} required.", New: "\t\t\telseList = t.newList(next.Position())\n\t\t\telseList.append(t.ifControl())\n\t\t\t_, next = t.itemList(nodeEnd)", Rule: "C05.elseif"},
			{Name: "two-variable range over an index-less ranger silently binds", File: "eval.go", Old: "\t\t\t\tif isSet && len(node.Set.Left) > 1 {\n\t\t\t\t\t// two-vars assignment with ranger that doesn't provide an index\n\t\t\t\t\tnode.error(errors.New(\"two-var range over ranger that does not provide an index\"))\n\t\t\t\t} else if isSet {", New: "\t\t\t\tif isSet {", Rule: "C05.bind"},
			{Name: "numeric fast path truncates fractional floats to false (agent seed C05/1)", File: "eval.go", Old: "func isTrue(v reflect.Value) bool {\n", New: "func isTrue(v reflect.Value) bool {\n\tif canNumber(v.Kind()) {\n\t\treturn castInt64(v) != 0\n\t}\n", Rule: "C05.truth"},
			{Name: "equivalent: isTrue written with an early return", File: "eval.go", Old: "\treturn v.IsValid() && !v.IsZero()", New: "\tif !v.IsValid() {\n\t\treturn false\n\t}\n\tif v.IsZero() {\n\t\treturn false\n\t}\n\treturn true", Rule: "-"},
			{Name: "equivalent: isTrue as negated disjunction", File: "eval.go", Old: "\treturn v.IsValid() && !v.IsZero()", New: "\treturn !(!v.IsValid() || v.IsZero())", Rule: "-"},
			{Name: "condition evaluated twice", File: "eval.go", Old: "\t\t\tif isTrue(st.evalPrimaryExpressionGroup(node.Expression)) {\n\t\t\t\tifReturn = st.executeList(node.List)", New: "\t\t\tif isTrue(st.evalPrimaryExpressionGroup(node.Expression)) && isTrue(st.evalPrimaryExpressionGroup(node.Expression)) {\n\t\t\t\tifReturn = st.executeList(node.List)", Rule: "C05.if"},
		},
	})
}

func runC05(c *an.Ctx) {
	unwrapRule(c, "C05.truth")
	c05noSecondLookup(c)
	p := c.P
	el := c.Fn("C05.if", "(*Runtime).executeList")
	if el == nil {
		return
	}
	info := el.Info()
	ifCC, rangeCC := caseClause(el, "NodeIf"), caseClause(el, "NodeRange")
	if ifCC == nil || rangeCC == nil {
		c.Anchor("C05.if", "case NodeIf / case NodeRange in executeList")
		return
	}
	in := func(cc *ast.CaseClause, n ast.Node) bool { return inArm(el, cc, n) }

	// ---- roles, found by type and data flow (not by the names the code happens to use)
	typeOf := func(e ast.Expr) string {
		if tv, ok := info.Types[e]; ok && tv.Type != nil {
			return an.TypeName(tv.Type)
		}
		return ""
	}
	// listKind: executeList(X.List / X.ElseList) with X an *IfNode or *RangeNode
	listKind := func(call *ast.CallExpr) (stmt, which string) {
		if !an.IsCallTo(info, call, execList) || len(call.Args) != 1 {
			return "", ""
		}
		sel, ok := an.Unparen(call.Args[0]).(*ast.SelectorExpr)
		if !ok {
			return "", ""
		}
		switch typeOf(sel.X) {
		case "*jet.IfNode":
			stmt = "if"
		case "*jet.RangeNode":
			stmt = "range"
		default:
			return "", ""
		}
		switch sel.Sel.Name {
		case "List":
			which = "then"
		case "ElseList":
			which = "else"
		default:
			return stmt, "other:" + sel.Sel.Name
		}
		return
	}
	elseNil := func(st *an.State) bool { // X.ElseList != nil established
		for k, v := range st.Facts {
			pk := an.PlainKey(k)
			if !v && (strings.HasSuffix(pk, ".ElseList == nil") || strings.HasPrefix(pk, "nil == ") && strings.HasSuffix(pk, ".ElseList")) {
				return true
			}
		}
		return false
	}
	idxVars, valVars, endVars := map[types.Object]bool{}, map[types.Object]bool{}, map[types.Object]bool{}
	bodyTmp := map[types.Object]bool{}  // variables receiving the value of a range body execution
	var condEvals []*ast.CallExpr       // evaluations of an if's condition
	condVars := map[types.Object]bool{} // variables holding such an evaluation
	an.InspectOwn(el, func(n ast.Node) bool {
		as, ok := n.(*ast.AssignStmt)
		if !ok || len(as.Rhs) != 1 {
			return true
		}
		call, ok := an.Unparen(as.Rhs[0]).(*ast.CallExpr)
		if !ok {
			return true
		}
		if an.IsCallTo(info, call, "(jet.Ranger).Range") && len(as.Lhs) == 3 {
			for i, m := range []map[types.Object]bool{idxVars, valVars, endVars} {
				if id, ok := as.Lhs[i].(*ast.Ident); ok && id.Name != "_" {
					m[an.ObjOf(info, id)] = true
				}
			}
		}
		if st, which := listKind(call); st == "range" && which == "then" && len(as.Lhs) == 1 {
			if id, ok := as.Lhs[0].(*ast.Ident); ok {
				bodyTmp[an.ObjOf(info, id)] = true
			}
		}
		return true
	})
	isCondEval := func(call *ast.CallExpr) bool {
		if !an.IsCallTo(info, call, "(*jet.Runtime).evalPrimaryExpressionGroup") || len(call.Args) != 1 {
			return false
		}
		sel, ok := an.Unparen(call.Args[0]).(*ast.SelectorExpr)
		return ok && sel.Sel.Name == "Expression" && typeOf(sel.X) == "*jet.IfNode"
	}
	an.InspectOwn(el, func(n ast.Node) bool {
		switch v := n.(type) {
		case *ast.CallExpr:
			if isCondEval(v) {
				condEvals = append(condEvals, v)
			}
		case *ast.AssignStmt:
			if len(v.Lhs) == 1 && len(v.Rhs) == 1 {
				if call, ok := an.Unparen(v.Rhs[0]).(*ast.CallExpr); ok && isCondEval(call) {
					if id, ok := v.Lhs[0].(*ast.Ident); ok {
						condVars[an.ObjOf(info, id)] = true
					}
				}
			}
		}
		return true
	})
	// through: a parameter of a new helper the arm was split into stands for the argument it is bound to
	binds := p.HelperBinds(el)
	var through func(e ast.Expr, depth int) ast.Expr
	through = func(e ast.Expr, depth int) ast.Expr {
		e = an.Unparen(e)
		// the element unwrapped from the interface{} it may be stored in is still the element
		if call, ok := e.(*ast.CallExpr); ok && len(call.Args) == 1 && an.IsCallTo(info, call, "jet.indirectEface") {
			e = an.Unparen(call.Args[0])
		}
		if id, ok := e.(*ast.Ident); ok && depth < 4 {
			if v, ok := an.ObjOf(info, id).(*types.Var); ok {
				if bs := binds[v]; len(bs) == 1 {
					return through(bs[0].Arg, depth+1)
				}
			}
		}
		return e
	}
	identIn := func(e ast.Expr, set map[types.Object]bool) (string, bool) {
		id, ok := through(e, 0).(*ast.Ident)
		if !ok {
			return "", false
		}
		return id.Name, set[an.ObjOf(info, id)]
	}
	anyFact := func(st *an.State, set map[types.Object]bool, val bool) bool {
		for o := range set {
			if an.FactIs(st, an.RoleOf(o), val) {
				return true
			}
		}
		return false
	}
	// slotOf: the variable S in  X.Set.Left[S]  (X a *RangeNode) anywhere inside e
	slotOf := func(e ast.Node) *ast.Ident {
		var slot *ast.Ident
		ast.Inspect(e, func(m ast.Node) bool {
			ix, ok := m.(*ast.IndexExpr)
			if !ok {
				return true
			}
			if sel, ok := through(ix.X, 0).(*ast.SelectorExpr); ok && sel.Sel.Name == "Left" { // (also a helper's parameter bound to the list)
				if inner, ok := through(sel.X, 0).(*ast.SelectorExpr); ok && inner.Sel.Name == "Set" && typeOf(inner.X) == "*jet.RangeNode" {
					if id, ok := through(ix.Index, 0).(*ast.Ident); ok {
						slot = id
					}
				}
			}
			return true
		})
		return slot
	}
	// the slot variable that selects the value variable: the one bound to a Range() value somewhere
	var valSlot types.Object
	var valSlotIdent *ast.Ident
	noteSlot := func(target ast.Node, value ast.Expr) {
		if s := slotOf(target); s != nil {
			if _, isVal := identIn(value, valVars); isVal {
				valSlot = an.ObjOf(info, s)
				valSlotIdent = s
			}
		}
	}
	an.InspectOwn(el, func(n ast.Node) bool {
		switch v := n.(type) {
		case *ast.AssignStmt:
			if len(v.Lhs) == 1 && len(v.Rhs) == 1 {
				if ix, ok := an.Unparen(v.Lhs[0]).(*ast.IndexExpr); ok && p.FieldKey(info, ix.X) == "scope.variables" {
					noteSlot(ix.Index, v.Rhs[0])
				}
			}
		case *ast.CallExpr:
			if an.IsCallTo(info, v, "(*jet.Runtime).executeSet") && len(v.Args) == 2 {
				noteSlot(v.Args[0], v.Args[1])
			}
		}
		return true
	})

	// one exploration of executeList carries the registers of both arms
	var ifBad, loopBad, bindBad []pairFinding
	addOnce := func(list *[]pairFinding, pos token.Pos, msg string, st *an.State) {
		for _, b := range *list {
			if b.pos == pos && b.msg == msg {
				return
			}
		}
		*list = append(*list, pairFinding{pos, msg, an.Facts(st)})
	}
	// slotNegative: what is known about `<slot> < 0` — as a recorded fact or through the constant the slot holds
	slotNegative := func(x *an.Explorer, st *an.State, name string, id *ast.Ident) (val, known bool) {
		if an.FactIs(st, name+" < 0", true) {
			return true, true
		}
		if an.FactIs(st, name+" < 0", false) {
			return false, true
		}
		if x != nil && id != nil {
			return x.Truth(&ast.BinaryExpr{X: id, Op: token.LSS, Y: &ast.BasicLit{Kind: token.INT, Value: "0"}}, st)
		}
		return false, false
	}
	// binding of one loop variable: the slot decides key or value, and must be known to be >= 0
	checkBind := func(x *an.Explorer, st *an.State, target ast.Node, value ast.Expr, pos token.Pos) {
		s := slotOf(target)
		if s == nil {
			return
		}
		vname, isVal := identIn(value, valVars)
		_, isIdx := identIn(value, idxVars)
		so := an.ObjOf(info, s)
		switch {
		case so == valSlot && !isVal:
			addOnce(&bindBad, pos, fmt.Sprintf("the variable in the value slot (%s) is bound to %s instead of the current element's value", s.Name, an.Str(value)), st)
		case so != valSlot && !isIdx:
			addOnce(&bindBad, pos, fmt.Sprintf("the variable in the key slot (%s) is bound to %s instead of the current element's index/key", s.Name, an.Str(value)), st)
		}
		_ = vname
		if neg, known := slotNegative(x, st, s.Name, s); !known || neg {
			addOnce(&bindBad, pos, fmt.Sprintf("the variable in slot %s is bound on a path where %s >= 0 was not established", s.Name, s.Name), st)
		}
	}
	resetIf := func(st *an.State) {
		st.Set("if:cond", "")
		st.Set("if:then", "")
		st.Set("if:else", "")
		st.Set("if:br", "")
	}
	resetRange := func(st *an.State) {
		st.Set("rg:fresh", "")
		st.Set("rg:calls", "")
		st.Set("rg:ran", "")
		st.Set("rg:noidx", "")
	}
	nIfExec, nBody, nElse, nRange := 0, 0, 0, 0
	hooks := an.Hooks{
		Branch: func(x *an.Explorer, cond ast.Expr, val bool, st *an.State) {
			e := an.Unparen(cond)
			// dispatch on the node type: a new statement begins
			if b, ok := e.(*ast.BinaryExpr); ok && b.Op == token.EQL && val {
				switch an.Str(b.Y) {
				case "NodeIf":
					resetIf(st)
				case "NodeRange":
					resetRange(st)
				}
			}
			// isTrue(<condition of the if>) decides the branch
			if call, ok := e.(*ast.CallExpr); ok && an.IsCallTo(info, call, "jet.isTrue") && len(call.Args) == 1 {
				arg := an.Unparen(call.Args[0])
				isCond := false
				if ac, ok := arg.(*ast.CallExpr); ok && isCondEval(ac) {
					isCond = true
				}
				if _, ok := identIn(arg, condVars); ok {
					isCond = true
				}
				if isCond {
					if val {
						st.Set("if:br", "T")
					} else {
						st.Set("if:br", "F")
					}
				}
			}
			// !ranger.ProvidesIndex()
			neg := false
			if u, ok := e.(*ast.UnaryExpr); ok && u.Op == token.NOT {
				neg, e = true, an.Unparen(u.X)
			}
			if call, ok := e.(*ast.CallExpr); ok && an.IsCallTo(info, call, "(jet.Ranger).ProvidesIndex") {
				if val == neg {
					st.Set("rg:noidx", "1")
				}
			}
		},
		PreAssign: func(x *an.Explorer, lhs, rhs ast.Expr, stmt ast.Node, st *an.State) {
			// entering an arm: `node := node.(*IfNode)` resets the per-statement registers
			if ta, ok := an.Unparen(rhs).(*ast.TypeAssertExpr); ok && rhs != nil {
				switch an.Str(ta.Type) {
				case "*IfNode":
					resetIf(st)
				case "*RangeNode":
					resetRange(st)
				}
			}
			if rhs == nil {
				return
			}
			// '.' becomes the current element exactly when there is no value variable
			if p.FieldKey(info, lhs) == "Runtime.context" {
				if _, isVal := identIn(rhs, valVars); isVal {
					// the element of a []interface{} (map[K]interface{}, chan interface{}) arrives wrapped: like a loop
					// variable (unwrapped when it is looked up) '.' must be the element itself, or {{if .}} is true
					// for a wrapped 0, "" or false
					if call, ok := an.Unparen(rhs).(*ast.CallExpr); !ok || !an.IsCallTo(info, call, "jet.indirectEface") {
						addOnce(&bindBad, lhs.Pos(), "'.' is set to the element as the ranger returned it, not unwrapped from the interface it may be stored in (indirectEface): truthiness and conversions of '.' differ from those of a loop variable", st)
					}
					// the two-variable form leaves '.' alone whatever the second variable is called (also `_`)
					for k, v := range st.Facts {
						if pk := an.PlainKey(k); v && strings.HasPrefix(pk, "1 < len(") && strings.HasSuffix(pk, ".Set.Left)") {
							addOnce(&bindBad, lhs.Pos(), "'.' is set to the current element in a range with two loop variables: the two-variable form must leave '.' alone", st)
						}
					}
					valSlotNeg := false
					if valSlot != nil {
						neg, known := slotNegative(x, st, an.RoleOf(valSlot), valSlotIdent)
						valSlotNeg = known && neg
					}
					if valSlot == nil || !valSlotNeg {
						addOnce(&bindBad, lhs.Pos(), "'.' is set to the current element on a path where a value variable may exist (value slot < 0 not established)", st)
					} else {
						st.Set("rg:ctx", "1")
					}
				} else if in(rangeCC, stmt) {
					if _, restore := isRestoreSource(p, el, rhs, "Runtime.context"); !restore {
						addOnce(&bindBad, lhs.Pos(), "'.' is set to "+an.Str(rhs)+" in the range arm, not to the current element", st)
					}
				}
			}
			if ix, ok := an.Unparen(lhs).(*ast.IndexExpr); ok && p.FieldKey(info, ix.X) == "scope.variables" {
				checkBind(x, st, ix.Index, rhs, lhs.Pos())
			}
		},
		Call: func(x *an.Explorer, call *ast.CallExpr, st *an.State) {
			name := an.CalleeName(info, call)
			stmtKind, which := listKind(call)
			switch {
			case isCondEval(call):
				if st.Add("if:cond", 1) > 1 {
					addOnce(&ifBad, call.Pos(), "the condition of an if is evaluated more than once", st)
				}
			case stmtKind == "if":
				nIfExec++
				reg := "if:then"
				switch {
				case which == "else":
					reg = "if:else"
					if !elseNil(st) {
						addOnce(&ifBad, call.Pos(), "the else list is executed without ElseList != nil having been established", st)
					}
					if st.Get("if:br") != "F" {
						addOnce(&ifBad, call.Pos(), "the else list of an if is executed on a path that is not the false branch of isTrue(condition)", st)
					}
				case which == "then":
					if st.Get("if:br") != "T" {
						addOnce(&ifBad, call.Pos(), "the then list of an if is executed on a path that is not the true branch of isTrue(condition)", st)
					}
				default:
					addOnce(&ifBad, call.Pos(), "the if arm executes "+an.Str(call.Args[0])+", which is neither its then-list nor its else-list", st)
				}
				if st.Int("if:cond") != 1 {
					addOnce(&ifBad, call.Pos(), "a branch of an if is executed without its condition having been evaluated exactly once before", st)
				}
				st.Add(reg, 1)
				if st.Int("if:then")+st.Int("if:else") > 1 {
					addOnce(&ifBad, call.Pos(), "a path through the if arm executes more than one branch (or one branch twice)", st)
				}
			case name == "(jet.Ranger).Range":
				nRange++
				// the previous element must have been consumed by a body execution (or be the end marker)
				if st.Get("rg:fresh") == "1" && !anyFact(st, endVars, true) {
					addOnce(&loopBad, call.Pos(), "Range() is called again although the element returned by the previous call was not yet handed to the body: an element is skipped", st)
				}
				if st.Get("rg:noidx") != "" {
					for k, v := range st.Facts {
						if pk := an.PlainKey(k); v && strings.HasPrefix(pk, "1 < len(") && strings.HasSuffix(pk, ".Set.Left)") {
							addOnce(&bindBad, call.Pos(), "a two-variable range over a ranger that provides no index does not reach an error: the variables are bound to the wrong things", st)
						}
					}
				}
				st.Set("rg:fresh", "1")
				if st.Int("rg:calls") < 2 {
					st.Add("rg:calls", 1)
				}
			case stmtKind == "range" && which == "then":
				nBody++
				if st.Get("rg:fresh") != "1" {
					addOnce(&loopBad, call.Pos(), "the range body is executed again for an element that was already consumed (no Range() call in between)", st)
				}
				if !anyFact(st, endVars, false) {
					addOnce(&loopBad, call.Pos(), "the range body can be executed although Range() reported end", st)
				}
				st.Set("rg:fresh", "")
				st.Set("rg:ran", "1")
			case stmtKind == "range" && which == "else":
				nElse++
				if !anyFact(st, endVars, true) || st.Int("rg:calls") != 1 || st.Get("rg:ran") != "" {
					addOnce(&loopBad, call.Pos(), "the else list of a range is executed on a path where the first Range() did not report end (it must run exactly when there are no elements)", st)
				}
				if !elseNil(st) {
					addOnce(&loopBad, call.Pos(), "the else list is executed without ElseList != nil having been established", st)
				}
			case name == "(*jet.Runtime).executeSet" && len(call.Args) == 2:
				checkBind(x, st, call.Args[0], call.Args[1], call.Pos())
			}
		},
	}
	x := p.NewExplorer(el, hooks)
	x.Run(nil)
	c.States += x.Visited
	c.FnsAnalysed[el.Name] = true
	if x.Undecided != "" {
		c.Undecided("C05.loop", "(*Runtime).executeList", el.Pos(), "%s", x.Undecided)
	}
	report := func(rule, key string, pos token.Pos, bad []pairFinding, okMsg string) {
		if len(bad) == 0 {
			c.OK(rule, key, pos, "%s", okMsg)
			return
		}
		for _, b := range bad {
			c.Bad(rule, key, b.pos, b.trail, "%s", b.msg)
		}
	}
	report("C05.if", "(*Runtime).executeList/case NodeIf", ifCC.Pos(), ifBad, "the condition is evaluated once, the then-list runs only in the true branch of isTrue(condition), the else-list only in its false branch, and exactly one of them (or none) is executed")
	report("C05.loop", "(*Runtime).executeList/case NodeRange", rangeCC.Pos(), loopBad, "every element returned by Range() is handed to the body exactly once; the else list runs only for an empty range")
	report("C05.bind", "(*Runtime).executeList/case NodeRange", rangeCC.Pos(), bindBad, "key/value variables and '.' are bound to the current element as documented; a two-variable range over an index-less ranger is an error")
	c.Expect("C05.if", "branch executions in the if arm (state visits)", nIfExec, 2)
	c.Expect("C05.loop", "body executions / Range calls / else executions in the range arm (state visits)", min3(nBody, nRange, nElse), 1)
	c.Expect("C05.bind", "loop variables of Range() results (index, value, end)", min3(len(idxVars), len(valVars), len(endVars)), 1)
	if valSlot == nil {
		c.Anchor("C05.bind", "binding of the range value variable through Set.Left[slot]")
	}

	// loop condition: conjuncts other than !end
	armInspect(el, rangeCC, func(n ast.Node) bool {
		fs, ok := n.(*ast.ForStmt)
		if !ok || fs.Cond == nil {
			return true
		}
		hasEnd := false
		for _, cj := range conjuncts(fs.Cond) {
			if u, ok := an.Unparen(cj).(*ast.UnaryExpr); ok && u.Op == token.NOT {
				if _, isEnd := identIn(u.X, endVars); isEnd {
					hasEnd = true
					continue
				}
				// !tmp.IsValid() with tmp the value of the body execution (or the list's result)
				if call, ok := an.Unparen(u.X).(*ast.CallExpr); ok && an.CalleeName(info, call) == "(reflect.Value).IsValid" {
					if _, isTmp := identIn(an.Receiver(call), bodyTmp); isTmp {
						c.Bad("C05.loop", "(*Runtime).executeList/range-stops-at-first-return", cj.Pos(), nil,
							"the range loop also stops when its body executed a {{return}} (`%s`): `{{range slice(1,2,3)}}{{.}}{{return .}}{{end}}` renders `1`, not `123`", an.Str(cj))
						continue
					}
				}
			}
			s := strings.ReplaceAll(an.Str(cj), " ", "")
			c.Bad("C05.loop", "(*Runtime).executeList/loop-condition:"+s, cj.Pos(), nil, "the range loop continues only while `%s` holds: the body does not run once per element", an.Str(cj))
		}
		if !hasEnd {
			// not every for statement of the arm is the element loop: only one that executes the body
			isElementLoop := false
			ast.Inspect(fs.Body, func(m ast.Node) bool {
				if call, ok := m.(*ast.CallExpr); ok {
					if k, w := listKind(call); k == "range" && w == "then" {
						isElementLoop = true
					}
				}
				return true
			})
			if !isElementLoop {
				return true
			}
		}
		c.Check(hasEnd, "C05.loop", "(*Runtime).executeList/loop-condition", fs.Pos(), "the loop runs while the ranger has not reported end", "the range loop condition does not test the ranger's end result")
		return true
	})

	rangerPools(c, "C05.pool")
	c05rangers(c)
	c05elseif(c)
	truthRule(c, "C05.truth")
}

func min3(a, b, d int) int {
	if b < a {
		a = b
	}
	if d < a {
		a = d
	}
	return a
}

// checkSlot: a binding whose target is Left[keyVarSlot] gets indexValue under keyVarSlot >= 0; Left[valVarSlot] gets rangeValue under valVarSlot >= 0.
func checkSlot(bad *[]pairFinding, addOnce func(*[]pairFinding, token.Pos, string, *an.State), st *an.State, target, value string, pos token.Pos) {
	for _, s := range []struct{ slot, want string }{{"keyVarSlot", "indexValue"}, {"valVarSlot", "rangeValue"}} {
		if !strings.Contains(target, "["+s.slot+"]") {
			continue
		}
		if value != s.want {
			addOnce(bad, pos, fmt.Sprintf("the variable in slot %s is bound to %s instead of %s", s.slot, value, s.want), st)
		}
		if !an.FactIs(st, s.slot+" < 0", false) {
			addOnce(bad, pos, fmt.Sprintf("the variable in slot %s is bound on a path where %s >= 0 was not established", s.slot, s.slot), st)
		}
	}
}

func c05rangers(c *an.Ctx) {
	p := c.P
	iface := p.Iface("", "Ranger")
	if iface == nil {
		c.Anchor("C05.rangers", "interface Ranger")
		return
	}
	var rangeM *types.Func
	for i := 0; i < iface.NumMethods(); i++ {
		if iface.Method(i).Name() == "Range" {
			rangeM = iface.Method(i)
		}
	}
	impls := p.Implementations(rangeM)
	c.Expect("C05.rangers", "built-in Range implementations", len(impls), 4)
	for _, f := range impls {
		info := f.Info()
		recv := types.Object(f.Sig.Recv())
		isRecvField := func(e ast.Expr) (string, bool) {
			sel, ok := an.Unparen(e).(*ast.SelectorExpr)
			if !ok {
				return "", false
			}
			id, ok := an.Unparen(sel.X).(*ast.Ident)
			return sel.Sel.Name, ok && an.ObjOf(info, id) == recv
		}
		var orderBad string
		hooks := an.Hooks{
			PreAssign: func(x *an.Explorer, lhs, rhs ast.Expr, stmt ast.Node, st *an.State) {
				if fld, ok := isRecvField(lhs); ok {
					if _, isInc := stmt.(*ast.IncDecStmt); isInc {
						if st.Add("adv:"+fld, 1) > 2 {
							st.SetInt("adv:"+fld, 2)
						}
						return
					}
				}
			},
			Call: func(x *an.Explorer, call *ast.CallExpr, st *an.State) {
				switch an.CalleeName(info, call) {
				case "(*reflect.MapIter).Next":
					st.Add("adv:iter", 1)
				case "(reflect.Value).Recv":
					st.Add("adv:recv", 1)
				case "(reflect.Value).Index", "(*reflect.MapIter).Key", "(*reflect.MapIter).Value":
					// the element is read before the cursor moves
					for k := range st.Regs {
						if strings.HasPrefix(k, "adv:") {
							orderBad = "reads the element after the cursor was advanced"
						}
					}
					st.Set("read", "1")
				}
			},
		}
		x := p.NewExplorer(f, hooks)
		x.Run(nil)
		c.States += x.Visited
		c.FnsAnalysed[f.Name] = true
		ok, why := orderBad == "", orderBad
		nExits := 0
		for _, ex := range x.Exits {
			if ex.Kind != an.ExitReturn {
				continue
			}
			nExits++
			total := 0
			over := false
			for k := range ex.State.Regs {
				if strings.HasPrefix(k, "adv:") {
					total++
					if ex.State.Int(k) != 1 {
						over = true
					}
				}
			}
			// does this exit report end? (third result: an explicit constant, or the named result's last value)
			endPath := false
			if ex.Ret != nil && len(ex.Ret.Results) == 3 {
				if v, known := x.Truth(ex.Ret.Results[2], ex.State); known && v {
					endPath = true
				}
			} else if f.Sig != nil && f.Sig.Results().Len() == 3 && f.Sig.Results().At(2).Name() != "" {
				endPath = an.FactIs(ex.State, an.RoleOf(f.Sig.Results().At(2)), true)
			}
			switch {
			case endPath && over:
				ok, why = false, "advances a cursor more than once in one call"
			case endPath:
				// (a ranger that learns it is exhausted by advancing — a channel receive, a counter compared after
				// the increment — has moved its cursor on this path too; nothing is produced from it)
			case over:
				ok, why = false, "advances a cursor more than once in one call"
			case total == 0:
				ok, why = false, "returns an element without advancing its cursor: the same element is produced forever"
			}
		}
		c.Check(ok && nExits > 0, "C05.rangers", f.Name, f.Pos(), "the cursor advances exactly once per produced element and the element is read before it moves", f.Name+" "+why)
	}
}

func c05elseif(c *an.Ctx) {
	p := c.P
	f := c.Fn("C05.elseif", "(*Template).parseControl")
	if f == nil {
		return
	}
	info := f.Info()
	// Path rule.  Along every path through parseControl: the nested if of `else if` is parsed (ifControl) only where
	// else-if is allowed and the token after {{else was seen to be `if`; it is appended to a fresh list, which is the
	// else list returned; such a path parses exactly one list of its own (the nested if consumes the one {{end}});
	// where else-if is allowed and the next token is `if`, no path treats the else as a plain one; and a plain else
	// (two lists, no nested if) exists.
	allow := an.Param(f, 0)
	byVal, _ := itemConsts(p)
	isPeekIf := func(cond ast.Expr) (eq bool, ok bool) {
		b, isB := an.Unparen(cond).(*ast.BinaryExpr)
		if !isB || (b.Op != token.EQL && b.Op != token.NEQ) {
			return false, false
		}
		for _, pr := range [][2]ast.Expr{{b.X, b.Y}, {b.Y, b.X}} {
			tv, has := info.Types[pr[1]]
			if !has || tv.Value == nil {
				continue
			}
			if v, isInt := constant.Int64Val(constant.ToInt(tv.Value)); !isInt || v != byVal["itemIf"] {
				continue
			}
			sel, isSel := an.Unparen(pr[0]).(*ast.SelectorExpr)
			if !isSel {
				continue
			}
			if call := callOf(sel.X); call != nil {
				switch an.CalleeName(info, call) {
				case "(*jet.Template).peek", "(*jet.Template).peekNonSpace":
					return b.Op == token.EQL, true
				}
			}
		}
		return false, false
	}
	bad := ""
	x := p.NewExplorer(f, an.Hooks{
		Branch: func(x *an.Explorer, cond ast.Expr, val bool, st *an.State) {
			branchLeaves(x, cond, val, st, func(e ast.Expr, val bool) {
				if eq, isPeek := isPeekIf(e); isPeek {
					if eq == val {
						st.Set("peek", "if")
					} else {
						st.Set("peek", "other")
					}
				}
			})
		},
		PreAssign: func(x *an.Explorer, lhs, rhs ast.Expr, stmt ast.Node, st *an.State) {
			if id, isId := an.Unparen(lhs).(*ast.Ident); isId && rhs != nil {
				if k, has := x.Key(id); has {
					if an.CalleeName(info, callOf(rhs)) == "(*jet.Template).newList" {
						st.Set("fresh:"+k, "1")
					} else {
						st.Set("fresh:"+k, "")
						if st.Get("nestedIn") == k {
							st.Set("nestedIn", "")
						}
					}
				}
			}
		},
		Call: func(x *an.Explorer, call *ast.CallExpr, st *an.State) {
			switch an.CalleeName(info, call) {
			case "(*jet.Template).itemList":
				st.Add("lists", 1)
			case "(*jet.Template).ifControl":
				st.Add("nested", 1)
				t, known := false, false
				if allow != nil {
					for _, id := range identsOf(f, allow) {
						t, known = x.Truth(id, st)
						break
					}
				}
				if !(known && t) && bad == "" {
					bad = "the nested if of `else if` is parsed on a path where else-if is not known to be allowed (range … else must not take it)"
				}
				if st.Get("peek") != "if" && bad == "" {
					bad = "the nested if of `else if` is parsed on a path where the token after {{else was not seen to be `if`"
				}
			case "(*jet.ListNode).append":
				if k, has := x.Key(an.Receiver(call)); has && len(call.Args) == 1 && an.CalleeName(info, callOf(call.Args[0])) == "(*jet.Template).ifControl" {
					if st.Get("fresh:"+k) != "" {
						st.Set("nestedIn", k)
					}
				}
			}
		},
	})
	x.Run(nil)
	c.States += x.Visited
	if x.Undecided != "" {
		c.Undecided("C05.elseif", "(*Template).parseControl/else-if", f.Pos(), "%s", x.Undecided)
		return
	}
	var elseRes *types.Var
	if f.Sig.Results().Len() == 6 {
		elseRes = f.Sig.Results().At(5)
	}
	nNested, nPlain := 0, 0
	for _, ex := range x.Exits {
		if ex.Kind != an.ExitReturn {
			continue
		}
		st := ex.State
		nested, lists := st.Int("nested"), st.Int("lists")
		switch {
		case nested > 1:
			bad = firstNonEmpty(bad, "a path parses more than one nested if for one `else if`")
		case nested == 1:
			nNested++
			if lists != 1 {
				bad = firstNonEmpty(bad, "`else if` parses a further list: a second {{end}} is consumed (or required)")
			}
			// the else list returned is the fresh list holding the nested if
			var ret ast.Expr
			if ex.Ret != nil && len(ex.Ret.Results) == 6 {
				ret = ex.Ret.Results[5]
			} else if elseRes != nil {
				for _, id := range identsOf(f, elseRes) {
					ret = id
					break
				}
			}
			k, has := "", false
			if ret != nil {
				k, has = x.Key(ret)
			}
			if !has || st.Get("nestedIn") == "" || st.Get("nestedIn") != k {
				bad = firstNonEmpty(bad, "`else if` does not build a fresh else list holding exactly the nested if")
			}
		default:
			if lists == 2 {
				nPlain++
				t, known := false, false
				for _, id := range identsOf(f, allow) {
					t, known = x.Truth(id, st)
					break
				}
				if st.Get("peek") == "if" && known && t {
					bad = firstNonEmpty(bad, "`else if` is parsed as a plain else although else-if is allowed and the next token is `if`")
				}
			}
		}
	}
	ok, why := bad == "", bad
	if ok && nNested == 0 {
		ok, why = false, "no `else if` branch guarded by allowElseIf && next token is `if`"
	}
	if ok && nPlain == 0 {
		ok, why = false, "no plain else branch"
	}
	c.Check(ok, "C05.elseif", "(*Template).parseControl/else-if", f.Pos(), "`else if` nests an if in a fresh else list and needs only one {{end}}", why)
	for name, want := range map[string]string{"(*Template).ifControl": "true", "(*Template).rangeControl": "false"} {
		if g := c.Fn("C05.elseif", name); g != nil {
			okArg := false
			for _, call := range p.CallsIn(g, "(*jet.Template).parseControl") {
				if len(call.Args) == 2 && an.Str(call.Args[0]) == want {
					okArg = true
				}
			}
			c.Check(okArg, "C05.elseif", name, g.Pos(), "else-if allowed: "+want, name+" does not call parseControl with allowElseIf = "+want)
		}
	}
}

// identsOf: the identifiers in f's body that refer to object o (in source order).
func identsOf(f *an.Fn, o types.Object) []*ast.Ident {
	var out []*ast.Ident
	if o == nil || f.Body == nil {
		return nil
	}
	info := f.Info()
	ast.Inspect(f.Body, func(n ast.Node) bool {
		if id, ok := n.(*ast.Ident); ok && an.ObjOf(info, id) == o {
			out = append(out, id)
		}
		return true
	})
	return out
}
