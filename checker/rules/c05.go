package rules

import (
	"fmt"
	"go/ast"
	"go/token"
	"go/types"
	"strings"

	"jetverif/an"
)

func init() {
	register(&Property{
		ID:  "C05",
		Run: runC05,
		Meta: an.Meta{
			Technique: "call counting and element-consumption typestate on the CFG of the if/range arms of executeList, guard facts for the variable bindings, cursor-advance counting in every built-in Range method, reset completeness of pooled rangers, and shape rules for else-if parsing",
			Explanation: "(C05.if) in the if arm the condition is evaluated once, the then-list only in the true branch of isTrue(condition), the else-list only in its false branch under ElseList != nil, and no path " +
				"executes a branch twice or both. (C05.loop) in the range arm every Range() result is consumed by exactly one execution of the body before the next Range() (typestate FRESH/CONSUMED, " +
				"with the `end` fact), the body never runs for an end result, the else list runs only when the first Range() reported end and ElseList != nil; every conjunct of the loop condition other " +
				"than !end is reported. (C05.bind) the key/value variables are bound (by := or =) to indexValue/rangeValue of the current element under keyVarSlot/valVarSlot >= 0, '.' becomes the " +
				"element exactly when no value variable exists, and a two-variable range over an index-less ranger reaches a no-return error. (C05.pool) pooled rangers: Setup assigns every field, no " +
				"use after cleanup, objects come from the pool, every pool has a reset discipline. (C05.rangers) each built-in Range advances its cursor exactly once on the non-end path and not at " +
				"all on the end path, and reads the element before advancing. (C05.elseif) `else if` builds an else list holding exactly the nested if without consuming another {{end}}; range does " +
				"not allow else-if. (C05.truth) every return of isTrue equals v.IsValid() && !v.IsZero() under the facts of its path, so the branch an if chain takes depends on nothing but `valid and not the zero value` (false, 0, \"\", nil).",
			NotDecided:  "ints(a,b) arithmetic, map iteration order, channel blocking, user-defined Rangers, reflect.Value.IsZero itself (trusted: zero value of the kind).",
			Assumptions: []string{"a Ranger's Range() result is meaningful only until the next call (interface contract)"},
			Trusted:     commonTrusted,
		},
		Mutants: []Mutant{
			{Name: "else branch executed although the condition held (no else keyword)", File: "eval.go", Old: "\t\t\t\tifReturn = st.executeList(node.List)\n\t\t\t} else if node.ElseList != nil {\n\t\t\t\tifReturn = st.executeList(node.ElseList)\n\t\t\t}", New: "\t\t\t\tifReturn = st.executeList(node.List)\n\t\t\t}\n\t\t\tif node.ElseList != nil {\n\t\t\t\tifReturn = st.executeList(node.ElseList)\n\t\t\t}", Rule: "C05.if"},
			{Name: "range calls Range twice per iteration (skips every other element)", File: "eval.go", Old: "\t\t\t\t\trangeReturn = st.executeList(node.List)\n\t\t\t\t\tindexValue, rangeValue, end = ranger.Range()\n", New: "\t\t\t\t\trangeReturn = st.executeList(node.List)\n\t\t\t\t\tindexValue, rangeValue, end = ranger.Range()\n\t\t\t\t\tif !end && !isTrue(rangeValue) {\n\t\t\t\t\t\tindexValue, rangeValue, end = ranger.Range()\n\t\t\t\t\t}\n", Rule: "C05.loop"},
			{Name: "else list also runs after a non-empty range", File: "eval.go", Old: "\t\t\t} else if node.ElseList != nil {\n\t\t\t\trangeReturn = st.executeList(node.ElseList)\n\t\t\t}\n\t\t\tif rangeReturn.IsValid() {", New: "\t\t\t}\n\t\t\tif end && node.ElseList != nil {\n\t\t\t\trangeReturn = st.executeList(node.ElseList)\n\t\t\t}\n\t\t\tif rangeReturn.IsValid() {", Rule: "C05.loop"},
			{Name: "body executed once more after the end", File: "eval.go", Old: "\t\t\tif !end {\n\t\t\t\tfor !end && !rangeReturn.IsValid() {", New: "\t\t\tif !end {\n\t\t\t\tfor ok := true; ok; ok = !end && !rangeReturn.IsValid() {", Rule: "C05.loop"},
			{Name: "context set even when a value variable exists", File: "eval.go", Old: "\t\t\t\t\tif valVarSlot < 0 {\n\t\t\t\t\t\tst.context = rangeValue\n\t\t\t\t\t}", New: "\t\t\t\t\tif valVarSlot <= 0 {\n\t\t\t\t\t\tst.context = rangeValue\n\t\t\t\t\t}", Rule: "C05.bind"},
			{Name: "key variable receives the value", File: "eval.go", Old: "\t\t\t\t\t\t\t\tst.variables[node.Set.Left[keyVarSlot].String()] = indexValue", New: "\t\t\t\t\t\t\t\tst.variables[node.Set.Left[keyVarSlot].String()] = rangeValue", Rule: "C05.bind"},
			{Name: "slice ranger advances before reading", File: "ranger.go", Old: "\tindex = reflect.ValueOf(r.i)\n\tvalue = r.v.Index(r.i)\n\tr.i++\n\treturn", New: "\tr.i++\n\tindex = reflect.ValueOf(r.i - 1)\n\tvalue = r.v.Index(r.i)\n\treturn", Rule: "C05.rangers"},
			{Name: "map ranger forgets to advance", File: "ranger.go", Old: "\tkey, value = r.iter.Key(), r.iter.Value()\n\tr.hasMore = r.iter.Next()\n\treturn", New: "\tkey, value = r.iter.Key(), r.iter.Value()\n\tr.hasMore = r.hasMore && r.iter != nil\n\treturn", Rule: "C05.rangers"},
			{Name: "slice ranger keeps its cursor from the previous use", File: "ranger.go", Old: "func (r *sliceRanger) Setup(v reflect.Value) {\n\tr.i = 0\n\tr.v = v\n}", New: "func (r *sliceRanger) Setup(v reflect.Value) {\n\tr.v = v\n}", Rule: "C05.pool"},
			{Name: "else-if consumes a second {{end}}", File: "parse.go", Old: "\t\t\telseList = t.newList(next.Position())\n\t\t\telseList.append(t.ifControl())\n\t\t\t// Do not consume the next item - only one {{end}} required.", New: "\t\t\telseList = t.newList(next.Position())\n\t\t\telseList.append(t.ifControl())\n\t\t\t_, next = t.itemList(nodeEnd)", Rule: "C05.elseif"},
			{Name: "two-variable range over an index-less ranger silently binds", File: "eval.go", Old: "\t\t\t\tif isSet && len(node.Set.Left) > 1 {\n\t\t\t\t\t// two-vars assignment with ranger that doesn't provide an index\n\t\t\t\t\tnode.error(errors.New(\"two-var range over ranger that does not provide an index\"))\n\t\t\t\t} else if isSet {", New: "\t\t\t\tif isSet {", Rule: "C05.bind"},
			{Name: "numeric fast path truncates fractional floats to false (agent seed C05/1)", File: "eval.go", Old: "func isTrue(v reflect.Value) bool {\n", New: "func isTrue(v reflect.Value) bool {\n\tif canNumber(v.Kind()) {\n\t\treturn castInt64(v) != 0\n\t}\n", Rule: "C05.truth"},
			{Name: "equivalent: isTrue written with an early return", File: "eval.go", Old: "\treturn v.IsValid() && !v.IsZero()", New: "\tif !v.IsValid() {\n\t\treturn false\n\t}\n\tif v.IsZero() {\n\t\treturn false\n\t}\n\treturn true", Rule: "-"},
			{Name: "equivalent: isTrue as negated disjunction", File: "eval.go", Old: "\treturn v.IsValid() && !v.IsZero()", New: "\treturn !(!v.IsValid() || v.IsZero())", Rule: "-"},
			{Name: "condition evaluated twice", File: "eval.go", Old: "\t\t\tif isTrue(st.evalPrimaryExpressionGroup(node.Expression)) {\n\t\t\t\tifReturn = st.executeList(node.List)", New: "\t\t\tif isTrue(st.evalPrimaryExpressionGroup(node.Expression)) && isTrue(st.evalPrimaryExpressionGroup(node.Expression)) {\n\t\t\t\tifReturn = st.executeList(node.List)", Rule: "C05.if"},
		},
	})
}

func runC05(c *an.Ctx) {
	p := c.P
	el := c.Fn("C05.if", "(*Runtime).executeList")
	if el == nil {
		return
	}
	info := el.Info()
	ifCC, rangeCC := caseClause(el, "NodeIf"), caseClause(el, "NodeRange")
	if ifCC == nil || rangeCC == nil {
		c.Anchor("C05.if", "case NodeIf / case NodeRange in executeList")
		return
	}
	in := func(cc *ast.CaseClause, n ast.Node) bool { return inArm(el, cc, n) }
	argOf := func(call *ast.CallExpr) string {
		if len(call.Args) == 0 {
			return ""
		}
		return an.Str(call.Args[0])
	}

	// one exploration of executeList carries the registers of both arms
	var ifBad, loopBad, bindBad []pairFinding
	addOnce := func(list *[]pairFinding, pos token.Pos, msg string, st *an.State) {
		for _, b := range *list {
			if b.pos == pos && b.msg == msg {
				return
			}
		}
		*list = append(*list, pairFinding{pos, msg, an.Facts(st)})
	}
	nIfExec, nBody, nElse, nRange := 0, 0, 0, 0
	hooks := an.Hooks{
		PreAssign: func(x *an.Explorer, lhs, rhs ast.Expr, stmt ast.Node, st *an.State) {
			// entering an arm: `node := node.(*IfNode)` resets the per-statement registers
			if ta, ok := an.Unparen(rhs).(*ast.TypeAssertExpr); ok && rhs != nil {
				switch an.Str(ta.Type) {
				case "*IfNode":
					st.Set("if:cond", "")
					st.Set("if:then", "")
					st.Set("if:else", "")
				case "*RangeNode":
					st.Set("rg:fresh", "")
					st.Set("rg:calls", "")
					st.Set("rg:ran", "")
				}
			}
			// range bindings inside the loop
			if !in(rangeCC, stmt) {
				return
			}
			if p.FieldKey(info, lhs) == "Runtime.context" && rhs != nil && an.Str(rhs) != "context" {
				if an.Str(rhs) != "rangeValue" {
					addOnce(&bindBad, lhs.Pos(), "'.' is set to "+an.Str(rhs)+" in the range arm, not to the current element", st)
				} else if !an.FactIs(st, "valVarSlot < 0", true) {
					addOnce(&bindBad, lhs.Pos(), "'.' is set to the current element on a path where a value variable may exist (valVarSlot < 0 not established)", st)
				} else {
					st.Set("rg:ctx", "1")
				}
			}
			if ix, ok := an.Unparen(lhs).(*ast.IndexExpr); ok && p.FieldKey(info, ix.X) == "scope.variables" && rhs != nil {
				checkSlot(&bindBad, addOnce, st, an.Str(ix.Index), an.Str(rhs), lhs.Pos())
			}
		},
		Call: func(x *an.Explorer, call *ast.CallExpr, st *an.State) {
			name := an.CalleeName(info, call)
			switch {
			case in(ifCC, call) && name == "(*jet.Runtime).evalPrimaryExpressionGroup" && argOf(call) == "node.Expression":
				if st.Add("if:cond", 1) > 1 {
					addOnce(&ifBad, call.Pos(), "the condition of an if is evaluated more than once", st)
				}
			case in(ifCC, call) && name == execList:
				nIfExec++
				which := "if:then"
				if argOf(call) == "node.ElseList" {
					which = "if:else"
					if !an.FactIs(st, "node.ElseList == nil", false) {
						addOnce(&ifBad, call.Pos(), "the else list is executed without ElseList != nil having been established", st)
					}
				} else if argOf(call) != "node.List" {
					addOnce(&ifBad, call.Pos(), "the if arm executes "+argOf(call)+", which is neither its then-list nor its else-list", st)
				}
				if st.Int("if:cond") != 1 {
					addOnce(&ifBad, call.Pos(), "a branch of an if is executed without its condition having been evaluated exactly once before", st)
				}
				st.Add(which, 1)
				if st.Int("if:then")+st.Int("if:else") > 1 {
					addOnce(&ifBad, call.Pos(), "a path through the if arm executes more than one branch (or one branch twice)", st)
				}
			case in(rangeCC, call) && name == "(jet.Ranger).Range":
				nRange++
				// the previous element must have been consumed by a body execution (or be the end marker)
				if st.Get("rg:fresh") == "1" && !an.FactIs(st, "end", true) {
					addOnce(&loopBad, call.Pos(), "Range() is called again although the element returned by the previous call was not yet handed to the body: an element is skipped", st)
				}
				st.Set("rg:fresh", "1")
				if st.Int("rg:calls") < 2 {
					st.Add("rg:calls", 1)
				}
			case in(rangeCC, call) && name == execList && argOf(call) == "node.List":
				nBody++
				if st.Get("rg:fresh") != "1" {
					addOnce(&loopBad, call.Pos(), "the range body is executed again for an element that was already consumed (no Range() call in between)", st)
				}
				if !an.FactIs(st, "end", false) {
					addOnce(&loopBad, call.Pos(), "the range body can be executed although Range() reported end", st)
				}
				st.Set("rg:fresh", "")
				st.Set("rg:ran", "1")
			case in(rangeCC, call) && name == execList && argOf(call) == "node.ElseList":
				nElse++
				if !an.FactIs(st, "end", true) || st.Int("rg:calls") != 1 || st.Get("rg:ran") != "" {
					addOnce(&loopBad, call.Pos(), "the else list of a range is executed on a path where the first Range() did not report end (it must run exactly when there are no elements)", st)
				}
				if !an.FactIs(st, "node.ElseList == nil", false) {
					addOnce(&loopBad, call.Pos(), "the else list is executed without ElseList != nil having been established", st)
				}
			case in(rangeCC, call) && name == "(*jet.Runtime).executeSet" && len(call.Args) == 2:
				checkSlot(&bindBad, addOnce, st, an.Str(call.Args[0]), an.Str(call.Args[1]), call.Pos())
			}
		},
	}
	x := p.NewExplorer(el, hooks)
	x.Run(nil)
	c.States += x.Visited
	c.FnsAnalysed[el.Name] = true
	if x.Undecided != "" {
		c.Undecided("C05.loop", "(*Runtime).executeList", el.Pos(), "%s", x.Undecided)
	}
	report := func(rule, key string, pos token.Pos, bad []pairFinding, okMsg string) {
		if len(bad) == 0 {
			c.OK(rule, key, pos, "%s", okMsg)
			return
		}
		for _, b := range bad {
			c.Bad(rule, key, b.pos, b.trail, "%s", b.msg)
		}
	}
	report("C05.if", "(*Runtime).executeList/case NodeIf", ifCC.Pos(), ifBad, "the condition is evaluated once and exactly one branch (or none) is executed")
	report("C05.loop", "(*Runtime).executeList/case NodeRange", rangeCC.Pos(), loopBad, "every element returned by Range() is handed to the body exactly once; the else list runs only for an empty range")
	report("C05.bind", "(*Runtime).executeList/case NodeRange", rangeCC.Pos(), bindBad, "key/value variables and '.' are bound to the current element as documented")
	c.Expect("C05.if", "branch executions in the if arm (state visits)", nIfExec, 2)
	c.Expect("C05.loop", "body executions / Range calls / else executions in the range arm (state visits)", min3(nBody, nRange, nElse), 1)

	// structural part of C05.if: then in the true branch of isTrue(condition), else in its false branch
	okShape := false
	armInspect(el, ifCC, func(n ast.Node) bool {
		is, ok := n.(*ast.IfStmt)
		if !ok || strings.ReplaceAll(an.Str(is.Cond), " ", "") != "isTrue(st.evalPrimaryExpressionGroup(node.Expression))" {
			return true
		}
		thenOK, elseOK := false, false
		ast.Inspect(is.Body, func(m ast.Node) bool {
			if call, ok := m.(*ast.CallExpr); ok && an.CalleeName(info, call) == execList && argOf(call) == "node.List" {
				thenOK = true
			}
			return true
		})
		if is.Else != nil {
			ast.Inspect(is.Else, func(m ast.Node) bool {
				if call, ok := m.(*ast.CallExpr); ok && an.CalleeName(info, call) == execList && argOf(call) == "node.ElseList" {
					elseOK = true
				}
				return true
			})
		}
		okShape = thenOK && elseOK
		return true
	})
	c.Check(okShape, "C05.if", "(*Runtime).executeList/case NodeIf/branches", ifCC.Pos(), "the then-list is executed in the true branch of isTrue(condition), the else-list in its false branch",
		"the if arm does not execute its then-list under isTrue(condition) and its else-list in the else of that very test")

	// loop condition: conjuncts other than !end
	armInspect(el, rangeCC, func(n ast.Node) bool {
		fs, ok := n.(*ast.ForStmt)
		if !ok || fs.Cond == nil {
			return true
		}
		hasEnd := false
		for _, cj := range conjuncts(fs.Cond) {
			s := strings.ReplaceAll(an.Str(cj), " ", "")
			if s == "!end" {
				hasEnd = true
				continue
			}
			if s == "!rangeReturn.IsValid()" || s == "!returnValue.IsValid()" {
				c.Bad("C05.loop", "(*Runtime).executeList/range-stops-at-first-return", cj.Pos(), nil,
					"the range loop also stops when its body executed a {{return}} (`%s`): `{{range slice(1,2,3)}}{{.}}{{return .}}{{end}}` renders `1`, not `123`", an.Str(cj))
				continue
			}
			c.Bad("C05.loop", "(*Runtime).executeList/loop-condition:"+s, cj.Pos(), nil, "the range loop continues only while `%s` holds: the body does not run once per element", an.Str(cj))
		}
		c.Check(hasEnd, "C05.loop", "(*Runtime).executeList/loop-condition", fs.Pos(), "the loop runs while the ranger has not reported end", "the range loop condition does not test the ranger's end result")
		return true
	})

	// two-variable range over an index-less ranger
	okTwo := false
	armInspect(el, rangeCC, func(n ast.Node) bool {
		is, ok := n.(*ast.IfStmt)
		if !ok || strings.ReplaceAll(an.Str(is.Cond), " ", "") != "!ranger.ProvidesIndex()" {
			return true
		}
		if len(is.Body.List) == 1 {
			if inner, ok := is.Body.List[0].(*ast.IfStmt); ok && strings.ReplaceAll(an.Str(inner.Cond), " ", "") == "isSet&&len(node.Set.Left)>1" && len(inner.Body.List) >= 1 {
				if es, ok := inner.Body.List[len(inner.Body.List)-1].(*ast.ExprStmt); ok {
					if call, ok := es.X.(*ast.CallExpr); ok && p.CallNeverReturns(info, call) {
						okTwo = true
					}
				}
			}
		}
		return true
	})
	c.Check(okTwo, "C05.bind", "(*Runtime).executeList/two-var-without-index", rangeCC.Pos(), "a two-variable range over a ranger without index is an error", "a two-variable range over a ranger that provides no index does not reach an error: the variables are bound to the wrong things")

	rangerPools(c, "C05.pool")
	c05rangers(c)
	c05elseif(c)
	truthRule(c, "C05.truth")
}

func min3(a, b, d int) int {
	if b < a {
		a = b
	}
	if d < a {
		a = d
	}
	return a
}

// checkSlot: a binding whose target is Left[keyVarSlot] gets indexValue under keyVarSlot >= 0; Left[valVarSlot] gets rangeValue under valVarSlot >= 0.
func checkSlot(bad *[]pairFinding, addOnce func(*[]pairFinding, token.Pos, string, *an.State), st *an.State, target, value string, pos token.Pos) {
	for _, s := range []struct{ slot, want string }{{"keyVarSlot", "indexValue"}, {"valVarSlot", "rangeValue"}} {
		if !strings.Contains(target, "["+s.slot+"]") {
			continue
		}
		if value != s.want {
			addOnce(bad, pos, fmt.Sprintf("the variable in slot %s is bound to %s instead of %s", s.slot, value, s.want), st)
		}
		if !an.FactIs(st, s.slot+" < 0", false) {
			addOnce(bad, pos, fmt.Sprintf("the variable in slot %s is bound on a path where %s >= 0 was not established", s.slot, s.slot), st)
		}
	}
}

func c05rangers(c *an.Ctx) {
	p := c.P
	iface := p.Iface("", "Ranger")
	if iface == nil {
		c.Anchor("C05.rangers", "interface Ranger")
		return
	}
	var rangeM *types.Func
	for i := 0; i < iface.NumMethods(); i++ {
		if iface.Method(i).Name() == "Range" {
			rangeM = iface.Method(i)
		}
	}
	impls := p.Implementations(rangeM)
	c.Expect("C05.rangers", "built-in Range implementations", len(impls), 4)
	for _, f := range impls {
		info := f.Info()
		recv := types.Object(f.Sig.Recv())
		isRecvField := func(e ast.Expr) (string, bool) {
			sel, ok := an.Unparen(e).(*ast.SelectorExpr)
			if !ok {
				return "", false
			}
			id, ok := an.Unparen(sel.X).(*ast.Ident)
			return sel.Sel.Name, ok && an.ObjOf(info, id) == recv
		}
		var orderBad string
		hooks := an.Hooks{
			PreAssign: func(x *an.Explorer, lhs, rhs ast.Expr, stmt ast.Node, st *an.State) {
				if fld, ok := isRecvField(lhs); ok {
					if _, isInc := stmt.(*ast.IncDecStmt); isInc {
						if st.Add("adv:"+fld, 1) > 2 {
							st.SetInt("adv:"+fld, 2)
						}
						return
					}
				}
			},
			Call: func(x *an.Explorer, call *ast.CallExpr, st *an.State) {
				switch an.CalleeName(info, call) {
				case "(*reflect.MapIter).Next":
					st.Add("adv:iter", 1)
				case "(reflect.Value).Recv":
					st.Add("adv:recv", 1)
				case "(reflect.Value).Index", "(*reflect.MapIter).Key", "(*reflect.MapIter).Value":
					// the element is read before the cursor moves
					for k := range st.Regs {
						if strings.HasPrefix(k, "adv:") {
							orderBad = "reads the element after the cursor was advanced"
						}
					}
					st.Set("read", "1")
				}
			},
		}
		x := p.NewExplorer(f, hooks)
		x.Run(nil)
		c.States += x.Visited
		c.FnsAnalysed[f.Name] = true
		ok, why := orderBad == "", orderBad
		nExits := 0
		for _, ex := range x.Exits {
			if ex.Kind != an.ExitReturn {
				continue
			}
			nExits++
			total := 0
			over := false
			for k := range ex.State.Regs {
				if strings.HasPrefix(k, "adv:") {
					total++
					if ex.State.Int(k) != 1 {
						over = true
					}
				}
			}
			endPath := an.FactIs(ex.State, "end", true)
			switch {
			case endPath && total != 0:
				ok, why = false, "advances its cursor on the path that reports end"
			case endPath:
			case over:
				ok, why = false, "advances a cursor more than once in one call"
			case total == 0:
				ok, why = false, "returns an element without advancing its cursor: the same element is produced forever"
			}
		}
		c.Check(ok && nExits > 0, "C05.rangers", f.Name, f.Pos(), "the cursor advances exactly once per produced element and the element is read before it moves", f.Name+" "+why)
	}
}

func c05elseif(c *an.Ctx) {
	p := c.P
	f := c.Fn("C05.elseif", "(*Template).parseControl")
	if f == nil {
		return
	}
	info := f.Info()
	ok, why := false, "no `else if` branch guarded by allowElseIf && next token is `if`"
	an.InspectOwn(f, func(n ast.Node) bool {
		is, isIf := n.(*ast.IfStmt)
		if !isIf || strings.ReplaceAll(an.Str(is.Cond), " ", "") != "allowElseIf&&t.peek().typ==itemIf" {
			return true
		}
		fresh, nested, consumes := false, false, false
		ast.Inspect(is.Body, func(m ast.Node) bool {
			switch x := m.(type) {
			case *ast.AssignStmt:
				if an.Str(x.Lhs[0]) == "elseList" && len(x.Rhs) == 1 && an.CalleeName(info, callOf(x.Rhs[0])) == "(*jet.Template).newList" {
					fresh = true
				}
			case *ast.CallExpr:
				switch an.CalleeName(info, x) {
				case "(*jet.ListNode).append":
					if an.Str(an.Receiver(x)) == "elseList" && an.CalleeName(info, callOf(x.Args[0])) == "(*jet.Template).ifControl" {
						nested = true
					}
				case "(*jet.Template).itemList":
					consumes = true
				}
			}
			return true
		})
		switch {
		case !fresh || !nested:
			why = "`else if` does not build a fresh else list holding exactly the nested if"
		case consumes:
			why = "`else if` parses a further list: a second {{end}} is consumed (or required)"
		default:
			ok = true
		}
		// the plain else branch parses its list up to {{end}}
		if ok && is.Else == nil {
			ok, why = false, "no plain else branch"
		}
		return true
	})
	c.Check(ok, "C05.elseif", "(*Template).parseControl/else-if", f.Pos(), "`else if` nests an if in a fresh else list and needs only one {{end}}", why)
	for name, want := range map[string]string{"(*Template).ifControl": "true", "(*Template).rangeControl": "false"} {
		if g := c.Fn("C05.elseif", name); g != nil {
			okArg := false
			for _, call := range p.CallsIn(g, "(*jet.Template).parseControl") {
				if len(call.Args) == 2 && an.Str(call.Args[0]) == want {
					okArg = true
				}
			}
			c.Check(okArg, "C05.elseif", name, g.Pos(), "else-if allowed: "+want, name+" does not call parseControl with allowElseIf = "+want)
		}
	}
}
