package rules

import (
	"fmt"
	"go/ast"
	"go/constant"
	"go/token"
	"go/types"
	"strings"

	"jetverif/an"
)

func init() {
	register(&Property{
		ID:  "C06",
		Run: runC06,
		Meta: an.Meta{
			Technique: "taint rule from template-derived integers to reflect index/slice sinks with the package's own bounds checker as sanitiser, guard facts for reflect conversions and unexported fields, error-discipline of the resolver's failing paths, and a who-may-look-up rule for the access evaluators",
			Explanation: "The guard structure around reflect calls that panic, not what reflection returns: (C06.bounds) every integer argument of reflect.Value.Index/Slice/Slice3 reachable from Execute is the result of " +
				"indexArg (which returns only when 0 <= x < cap), an interpreter-internal counter bounded by Len(), or lies behind explicit facts 0 <= low <= high <= Len() whose failing branch is " +
				"no-return; Slice is only applied to a value whose kind was tested. (C06.conv) every reflect Convert is reached only after ConvertibleTo on the same value (a test of the element " +
				"kind is not one) and its result is used. (C06.unexp) a struct field value returned by resolveIndex comes from the exported-only cache (buildCache stores a field only under PkgPath == \"\") " +
				"or lies behind the PkgPath test. (C06.nil) resolveIndex tests for a nil interface before MethodByName, indirect() stops at nil, every failing return of the resolver carries a " +
				"non-nil error, the only (zero value, nil error) result is the absent map key at the end of a chain, and promoted fields are reached by a walker that tests IsNil before Elem (never reflect.Value.FieldByIndex/FieldByName, which panic on a nil embedded pointer — also when a field is assigned). (C06.same) a.b, a.b.c, a[\"b\"] and isset all resolve through resolveIndex " +
				"and perform no reflect lookup of their own. (C06.cache) every value stored into the struct field-index cache (the per-type map and each field's index path) is a fresh allocation made for that entry, never storage shared with a sibling path or the caller. (C06.cache, continued) buildCache writes an entry only where none exists or the new index path is not longer (the shallowest field wins, as in Go); the field table resolveIndex consults is the one found in or stored into the package-level map on every path. (C06.nil, continued) indirect() returns a non-nil result only for a value that is neither pointer nor interface. (C06.same, continued) the name argument of resolveIndex is a node's field/identifier name, or empty together with an evaluated index value (never a string literal's text); the method lookup takes the address of every addressable value that is neither pointer nor interface; every store into a template variable and every read from the scope chain agree on unwrapping interfaces. (C06.cache, continued) buildCache's walk is depth first, so an existing entry is replaced when a field at a shallower depth has the same name. (C06.same methods-first) every path of resolveIndex that reaches the dispatch on the value's kind has asked MethodByName, or was turned away by a gate around the lookup whose condition depends on the name only (is it a string?) — not on the value being resolved or anything derived from it (its type, kind, nil-ness). (C06.nil indirect, path form) Elem() is called only on a value known not to be nil, `true` is returned only for a value known to be nil and `false` only for one known to be neither pointer nor interface. (C06.bounds, continued) a loop counter handed to Index is in range only when the bound of its loop is the length of the very value indexed, or of a value whose length is known to be equal (two values compared element-wise).",
			NotDecided:  "that reflection finds the right field for every type shape (promoted/shadowed fields), pointer-receiver methods on non-addressable values, executeSet's writes.",
			Assumptions: []string{"Go's reflect package panics exactly as documented"},
			Trusted:     commonTrusted,
		},
		Mutants: []Mutant{
			{Name: "arrays of equal length compare unequal, the elements of unequal ones are paired (original defect)", File: "eval.go", Old: "\tcase reflect.Array:\n\t\tvlen := v1.Len()\n\t\tif vlen != v2.Len() {", New: "\tcase reflect.Array:\n\t\tvlen := v1.Len()\n\t\tif vlen == v2.Len() {", Rule: "C06.bounds"},
			{Name: "byte slices converted to string after a test of the element kind only (original defect)", File: "eval.go", Old: "right.Type().Elem().Kind() == reflect.Uint8 && right.Type().ConvertibleTo(left.Type()) {", New: "right.Type().Elem().Kind() == reflect.Uint8 {", Rule: "C06.conv"},
			{Name: "promoted fields overwrite outer fields (original defect)", File: "eval.go", Old: "\t\tif old, ok := cache[field.Name]; !ok || len(index) <= len(old) {\n\t\t\tcache[field.Name] = index\n\t\t}", New: "\t\tcache[field.Name] = index", Rule: "C06.cache"},
			{Name: "deeper field wins", File: "eval.go", Old: "!ok || len(index) <= len(old) {", New: "!ok || len(index) >= len(old) {", Rule: "C06.cache"},
			{Name: "equivalent: depth test mirrored", File: "eval.go", Old: "!ok || len(index) <= len(old) {", New: "!ok || len(old) >= len(index) {", Rule: "-"},
			{Name: "slice bounds unchecked (original defect)", File: "eval.go", Old: "\t\tif index < 0 || length < index || length > baseExpression.Len() {\n\t\t\tnode.errorf(\"slice bounds out of range [%d:%d] with length %d\", index, length, baseExpression.Len())\n\t\t}\n", New: "", Rule: "C06.bounds"},
			{Name: "upper bound off by one is not the issue: upper bound not checked at all", File: "eval.go", Old: "\t\tif index < 0 || length < index || length > baseExpression.Len() {", New: "\t\tif index < 0 || length < index {", Rule: "C06.bounds"},
			{Name: "kind of the sliced value no longer tested", File: "eval.go", Old: "\t\tswitch baseExpression.Kind() {\n\t\tcase reflect.Array, reflect.Slice, reflect.String:\n\t\tdefault:\n\t\t\tnode.errorf(\"cannot slice value of type %s\", getTypeString(baseExpression))\n\t\t}\n", New: "", Rule: "C06.bounds"},
			{Name: "indexArg accepts x == cap", File: "eval.go", Old: "\tif int(x) < 0 || int(x) >= cap {", New: "\tif int(x) < 0 || int(x) > cap {", Rule: "C06.bounds"},
			{Name: "index used without indexArg", File: "eval.go", Old: "\t\tx, err := indexArg(indexVal, v.Len())\n\t\tif err != nil {\n\t\t\treturn reflect.Value{}, err\n\t\t}\n\t\treturn indirectEface(v.Index(x)), nil", New: "\t\treturn indirectEface(v.Index(int(castInt64(indexVal)))), nil", Rule: "C06.bounds"},
			{Name: "converted map key dropped (original defect)", File: "eval.go", Old: "\t\tindexVal = indexVal.Convert(v.Type().Key()) // noop in most cases, but not expensive", New: "\t\tindex = indexVal.Convert(v.Type().Key()) // noop in most cases, but not expensive", Rule: "C06.conv"},
			{Name: "unexported fields readable through the slow path", File: "eval.go", Old: "\t\t\tif tField.PkgPath != \"\" { // field is unexported\n\t\t\t\treturn reflect.Value{}, fmt.Errorf(\"%s is an unexported field of struct type %s\", indexAsStr, v.Type())\n\t\t\t}\n", New: "", Rule: "C06.unexp"},
			{Name: "field cache also stores unexported fields", File: "eval.go", Old: "\t\tif field.PkgPath != \"\" {\n\t\t\t// field is unexported, skip\n\t\t\tcontinue\n\t\t}\n", New: "", Rule: "C06.unexp"},
			{Name: "method lookup before the nil-interface test", File: "eval.go", Old: "\tv, isNil := indirect(v)\n\tif v.Kind() == reflect.Interface && isNil {\n\t\t// Calling a method on a nil interface can't work. The\n\t\t// MethodByName method call below would panic.\n\t\treturn reflect.Value{}, fmt.Errorf(\"nil pointer evaluating %s.%s\", v.Type(), index)\n\t}\n", New: "\tv, isNil := indirect(v)\n", Rule: "C06.nil"},
			{Name: "missing struct field yields nil instead of an error", File: "eval.go", Old: "\t\treturn reflect.Value{}, fmt.Errorf(\"can't use %s as field name in struct type %s\", indexAsStr, v.Type())", New: "\t\treturn reflect.Value{}, nil", Rule: "C06.nil"},
			{Name: "a second resolver for single-segment field access", File: "eval.go", Old: "\t\tfor i := 0; i < len(node.Ident); i++ {\n\t\t\tfield, err := resolveIndex(resolved, reflect.Value{}, node.Ident[i])\n\t\t\tif err != nil {\n\t\t\t\tnode.errorf(\"%v\", err)\n\t\t\t}", New: "\t\tfor i := 0; i < len(node.Ident); i++ {\n\t\t\tif resolved.Kind() == reflect.Map {\n\t\t\t\tresolved = resolved.MapIndex(reflect.ValueOf(node.Ident[i]))\n\t\t\t\tcontinue\n\t\t\t}\n\t\t\tfield, err := resolveIndex(resolved, reflect.Value{}, node.Ident[i])\n\t\t\tif err != nil {\n\t\t\t\tnode.errorf(\"%v\", err)\n\t\t\t}", Rule: "C06.same"},
			{Name: "field paths share the parent's backing array (agent seed C06/1)", File: "eval.go", Old: "\t\tindex := make([]int, max)\n\t\tcopy(index, parent)\n\t\tindex[len(parent)] = i\n", New: "\t\tindex := append(parent, i)\n\t\t_ = max\n", Rule: "C06.cache"},
			{Name: "one scratch path allocated outside the field loop", File: "eval.go", Old: "\tfor i := 0; i < numFields; i++ {\n\n\t\tindex := make([]int, max)\n", New: "\tindex := make([]int, max)\n\tfor i := 0; i < numFields; i++ {\n\n", Rule: "C06.cache"},
			{Name: "equivalent: path built by appending onto a clipped copy", File: "eval.go", Old: "\t\tindex := make([]int, max)\n\t\tcopy(index, parent)\n\t\tindex[len(parent)] = i\n", New: "\t\tindex := append(parent[:len(parent):len(parent)], i)\n\t\t_ = max\n", Rule: "-"},
			{Name: "field assigned through reflect.Value.FieldByName (original defect: nil embedded pointer panics)", File: "eval.go", Old: "\t\tfield, found := value.Type().FieldByName(fields[lef])\n\t\tif !found {", New: "\t\tfield, found := value.Type().FieldByName(fields[lef])\n\t\t_ = value.FieldByName(fields[lef])\n\t\tif !found {", Rule: "C06.nil"},
			{Name: "promoted field read with FieldByIndex (original defect: nil embedded pointer panics)", File: "eval.go", Old: "\t\t\tfield, err := fieldByIndex(v, id)\n\t\t\tif err != nil {\n\t\t\t\treturn reflect.Value{}, err\n\t\t\t}\n", New: "\t\t\tfield := v.FieldByIndex(id)\n", Rule: "C06.nil"},
			{Name: "field-path walker dereferences without the nil test", File: "eval.go", Old: "\t\t\tif v.IsNil() {\n\t\t\t\treturn reflect.Value{}, fmt.Errorf(\"nil pointer to embedded struct %s\", v.Type().Elem())\n\t\t\t}\n\t\t\tv = v.Elem()", New: "\t\t\tv = v.Elem()", Rule: "C06.nil"},
			{Name: "variables unwrapped at assignment instead of at lookup, loop variables forgotten (agent seed C06/6)", File: "eval.go", Old: "\t\tv, ok := sc.variables[name]\n\t\tif ok {\n\t\t\treturn indirectEface(v), nil\n\t\t}", New: "\t\tv, ok := sc.variables[name]\n\t\tif ok {\n\t\t\treturn v, nil\n\t\t}", Rule: "C06.same"},
			{Name: "map key converted only when the kinds differ (agent seed C17/6)", File: "eval.go", Old: "\t\tindexVal = indexVal.Convert(v.Type().Key()) // noop in most cases, but not expensive", New: "\t\tif indexVal.Kind() != v.Type().Key().Kind() {\n\t\t\tindexVal = indexVal.Convert(v.Type().Key())\n\t\t}", Rule: "C06.conv"},
			{Name: "absent key in the middle of a chain yields nil instead of an error", File: "eval.go", Old: "\t\t\tif resolved.Kind() == reflect.Map && i == len(node.Field)-1 {", New: "\t\t\tif resolved.Kind() == reflect.Map {", Rule: "C06.nil"},
		},
	})
}

func runC06(c *an.Ctx) {
	c06bounds(c)
	convGuards(c, "C06.conv", nil)
	c06unexp(c)
	c06nil(c)
	c06same(c)
	c06cache(c)
	c06fieldPath(c)
	c06unwrap(c)
	c06mapKey(c)
	c06shallowest(c)
	memoRule(c, "C06.cache")
	c06indexArgs(c, "C06.same")
	c06methodSet(c)
}

func c06bounds(c *an.Ctx) { boundsRule(c, "C06.bounds") }

// boundsRule: every integer handed to reflect Index/Slice is range-checked first (shared with C12.panicval:
// reflect panics with a string, which Execute re-panics instead of returning an error).
func boundsRule(c *an.Ctx, rule string) {
	p := c.P
	eval := p.Eval()
	n := 0
	for _, f := range an.SortedFns(eval) {
		if f.Pkg != p.Jet || f.Body == nil {
			continue
		}
		info := f.Info()
		calls := p.CallsIn(f, "(reflect.Value).Index", "(reflect.Value).Slice", "(reflect.Value).Slice3")
		if len(calls) == 0 {
			continue
		}
		c.FnsAnalysed[f.Name] = true
		var targets []ast.Node
		for _, call := range calls {
			targets = append(targets, call)
		}
		pr := p.ProbeFn(f, targets, an.Hooks{})
		c.States += pr.X.Visited
		for _, call := range calls {
			n++
			c.CallSites++
			name := an.CalleeName(info, call)
			recv := an.Str(an.Unparen(an.Receiver(call)))
			key := f.Name + "/" + strings.TrimPrefix(name, "(reflect.Value).")
			var problems []string
			for ai, a := range call.Args {
				switch cls := classifyIndex(p, f, a); cls {
				case "indexArg", "const":
					continue
				case "counter":
					// an internal counter is in range when the bound of its loop is the length of the value indexed — or
					// of a value whose length is known to be the same (element-wise comparison of two values)
					if name == "(reflect.Value).Index" && ai == 0 {
						if why := counterBound(p, f, pr.X, call, a, pr.At[call]); why != "" {
							problems = append(problems, why)
						}
					}
					continue
				}
				// template-derived (or unknown) integer: explicit facts are needed on every path
				as := an.Str(a)
				for _, st := range pr.At[call] {
					lower := an.FactIs(st, as+" < 0", false)
					upper := an.FactIs(st, recv+".Len() < "+as, false)
					ordered := true
					if ai > 0 {
						prev := an.Str(call.Args[ai-1])
						ordered = an.FactIs(st, as+" < "+prev, false)
						lower = lower || (ordered && an.FactIs(st, prev+" < 0", false))
					}
					if name == "(reflect.Value).Index" {
						upper = an.FactIs(st, as+" < "+recv+".Len()", true)
					}
					isLast := ai == len(call.Args)-1
					if !lower {
						problems = append(problems, as+" may be negative")
					}
					if !ordered {
						problems = append(problems, as+" may be below the previous bound")
					}
					if (isLast || name == "(reflect.Value).Index") && !upper {
						problems = append(problems, as+" may exceed "+recv+".Len()")
					}
					break
				}
				if len(pr.At[call]) == 0 {
					problems = append(problems, "call not reached")
				}
			}
			// Slice needs a sliceable kind
			if strings.HasPrefix(name, "(reflect.Value).Slice") {
				kindKnown := len(pr.At[call]) > 0
				for _, st := range pr.At[call] {
					known := false
					for k, v := range st.Facts {
						if v && strings.HasSuffix(an.PlainKey(k), " == "+recv+".Kind()") {
							known = true
						}
					}
					for k := range st.Regs {
						if an.PlainKey(k) == "eq:"+recv+".Kind()" {
							known = true
						}
					}
					if !known {
						kindKnown = false
					}
				}
				if !kindKnown {
					problems = append(problems, "the kind of "+recv+" was not tested (Slice panics for everything but arrays, slices and strings)")
				}
			}
			if len(problems) > 0 {
				c.Bad(rule, key, call.Pos(), nil, "%s calls %s with arguments that are not proven in range: %s — reflect panics with a string, which Runtime.recover re-panics out of Execute", f.Name, an.Str(call), strings.Join(dedup(problems), "; "))
			} else {
				c.OK(rule, key, call.Pos(), "arguments are sanitised by indexArg, are internal counters, or lie behind explicit bounds facts")
			}
		}
	}
	c.Expect(rule, "reflect Index/Slice sites reachable from Execute", n, 5)
	// the sanitiser itself
	if f := c.Fn(rule, "indexArg"); f != nil {
		x := p.NewExplorer(f, an.Hooks{})
		x.Run(nil)
		c.States += x.Visited
		ok, seen := true, false
		for _, ex := range x.Exits {
			if ex.Kind != an.ExitReturn || ex.Ret == nil || len(ex.Ret.Results) != 2 || an.Str(ex.Ret.Results[1]) != "nil" {
				continue
			}
			seen = true
			// what is returned as the index — whatever it is called — is known to be >= 0 and < the bound parameter
			lo, hi := false, false
			ret := ex.Ret.Results[0]
			zero := &ast.BasicLit{Kind: token.INT, Value: "0"}
			if v, known := x.Truth(&ast.BinaryExpr{X: ret, Op: token.LSS, Y: zero}, ex.State); known && !v {
				lo = true
			}
			if v, known := x.Truth(&ast.BinaryExpr{X: ret, Op: token.GEQ, Y: zero}, ex.State); known && v {
				lo = true
			}
			var bound *ast.Ident
			if f.Sig != nil && f.Sig.Params().Len() == 2 {
				bp := f.Sig.Params().At(1)
				an.InspectOwn(f, func(n ast.Node) bool {
					if id, isId := n.(*ast.Ident); isId && bound == nil && an.ObjOf(f.Info(), id) == types.Object(bp) && f.Info().Uses[id] != nil {
						bound = id
					}
					return bound == nil
				})
			}
			if bound != nil {
				if v, known := x.Truth(&ast.BinaryExpr{X: ret, Op: token.LSS, Y: bound}, ex.State); known && v {
					hi = true
				}
			}
			if !lo || !hi {
				ok = false
			}
		}
		c.Check(ok && seen, rule, "indexArg/two-sided", f.Pos(), "indexArg returns an index only when 0 <= x < cap", "indexArg can return an index without having established both x >= 0 and x < cap: out-of-range indexes reach reflect.Value.Index")
	}
}

func dedup(in []string) []string {
	seen := map[string]bool{}
	var out []string
	for _, s := range in {
		if !seen[s] {
			seen[s] = true
			out = append(out, s)
		}
	}
	return out
}

// classifyIndex: where does an index/bound argument come from?
func classifyIndex(p *an.Prog, f *an.Fn, e ast.Expr) string {
	info := f.Info()
	e = an.Unparen(e)
	if tv := info.Types[e]; tv.Value != nil {
		return "const"
	}
	switch v := e.(type) {
	case *ast.Ident:
		o := an.ObjOf(info, v)
		defs := an.LocalDefs(f, o)
		mds := an.LocalMultiDefs(f, o)
		if len(mds) > 0 {
			all := true
			for _, md := range mds {
				if !(an.CalleeName(info, md.Call) == "jet.indexArg" && md.Index == 0) {
					all = false
				}
			}
			if all && len(defs) == len(mds) {
				return "indexArg"
			}
		}
		// internal counter: only constant initialisation and ++, bounded by a loop condition i < <Len-derived>
		counter := len(defs) > 0
		for _, d := range defs {
			if d == nil {
				continue // ++
			}
			if tv := info.Types[d]; tv.Value == nil {
				counter = false
			}
		}
		if counter {
			bounded := false
			an.InspectOwn(f, func(n ast.Node) bool {
				if fs, ok := n.(*ast.ForStmt); ok && fs.Cond != nil {
					if b, ok := an.Unparen(fs.Cond).(*ast.BinaryExpr); ok && b.Op == token.LSS && an.Str(b.X) == v.Name {
						bounded = true
					}
				}
				return true
			})
			if bounded {
				return "counter"
			}
		}
	case *ast.SelectorExpr:
		// a ranger's own cursor field (r.i), compared with Len() before use
		if fv := an.FieldOf(info, v); fv != nil && strings.HasSuffix(p.FieldOwner(fv), "Ranger") {
			return "counter"
		}
	}
	return "template"
}

func c06unexp(c *an.Ctx) {
	p := c.P
	ri := c.Fn("C06.unexp", "resolveIndex")
	bc := c.Fn("C06.unexp", "buildCache")
	if ri == nil || bc == nil {
		return
	}
	info := ri.Info()
	// the type of the per-type cache (field name → index path)
	var cacheT types.Type
	if o, _ := p.Jet.Types.Scope().Lookup("cachedStructsFieldIndex").(*types.Var); o != nil {
		if m, ok := o.Type().Underlying().(*types.Map); ok {
			cacheT = m.Elem()
		}
	}
	if cacheT == nil {
		c.Anchor("C06.unexp", "package variable cachedStructsFieldIndex (a map of per-type caches)")
		return
	}
	isFieldRead := func(call *ast.CallExpr) bool {
		switch an.CalleeName(info, call) {
		case "(reflect.Value).FieldByIndex", "(reflect.Value).FieldByName", "(reflect.Value).Field", "jet.fieldByIndex":
			return true
		}
		return false
	}
	// defsOf: single-value definitions plus the comma-ok form  v, ok := m[k]
	defsOf := func(id *ast.Ident) []ast.Expr {
		o := an.ObjOf(info, id)
		var out []ast.Expr
		for _, d := range an.LocalDefs(ri, o) {
			if d != nil {
				out = append(out, d)
			}
		}
		an.InspectOwn(ri, func(m ast.Node) bool {
			if as, ok := m.(*ast.AssignStmt); ok && len(as.Lhs) == 2 && len(as.Rhs) == 1 {
				if l, ok := as.Lhs[0].(*ast.Ident); ok && an.ObjOf(info, l) == o {
					out = append(out, as.Rhs[0])
				}
			}
			return true
		})
		return out
	}
	var findRead func(e ast.Expr, depth int) *ast.CallExpr
	findRead = func(e ast.Expr, depth int) *ast.CallExpr {
		var found *ast.CallExpr
		if depth > 4 || e == nil {
			return nil
		}
		ast.Inspect(e, func(m ast.Node) bool {
			if found != nil {
				return false
			}
			switch v := m.(type) {
			case *ast.CallExpr:
				if isFieldRead(v) {
					found = v
				}
			case *ast.Ident:
				for _, d := range defsOf(v) {
					if r := findRead(d, depth+1); r != nil {
						found = r
					}
				}
			}
			return found == nil
		})
		return found
	}
	var fromCache func(e ast.Expr, depth int) bool
	fromCache = func(e ast.Expr, depth int) bool {
		if depth > 4 {
			return false
		}
		switch v := an.Unparen(e).(type) {
		case *ast.IndexExpr:
			if tv, ok := info.Types[v.X]; ok && tv.Type != nil && types.Identical(tv.Type, cacheT) {
				return true
			}
		case *ast.Ident:
			ds := defsOf(v)
			if len(ds) == 0 {
				return false
			}
			for _, d := range ds {
				if !fromCache(d, depth+1) {
					return false
				}
			}
			return true
		}
		return false
	}
	var rets []ast.Node
	readOf := map[ast.Node]*ast.CallExpr{}
	an.InspectOwn(ri, func(n ast.Node) bool {
		ret, ok := n.(*ast.ReturnStmt)
		if !ok || len(ret.Results) != 2 {
			return true
		}
		if r := findRead(ret.Results[0], 0); r != nil {
			rets = append(rets, ret)
			readOf[ret] = r
		}
		return true
	})
	c.Expect("C06.unexp", "returns of struct field values in resolveIndex", len(rets), 2)
	pr := p.ProbeFn(ri, rets, an.Hooks{})
	c.States += pr.X.Visited
	for _, r := range rets {
		read := readOf[r]
		s := an.Str(read)
		key := "resolveIndex/field-return"
		cached := len(read.Args) >= 1 && fromCache(read.Args[len(read.Args)-1], 0) // the index path is the last argument
		guarded := len(pr.At[r]) > 0
		for _, st := range pr.At[r] {
			g := false
			for k, v := range st.Facts {
				pk := an.PlainKey(k)
				if v && (strings.HasSuffix(pk, `.PkgPath == ""`) || strings.HasPrefix(pk, `"" == `) && strings.HasSuffix(pk, ".PkgPath")) {
					g = true
				}
			}
			if !g {
				guarded = false
			}
		}
		if cached {
			c.OK("C06.unexp", key, r.Pos(), "the field index comes from the exported-only cache")
		} else if guarded {
			c.OK("C06.unexp", key, r.Pos(), "the field is returned only after PkgPath == \"\" was established")
		} else {
			c.Bad("C06.unexp", key, r.Pos(), nil, "resolveIndex returns a struct field value (%s) that neither comes from the exported-only cache nor lies behind the PkgPath test: unexported fields become readable (and Interface() on them panics)", s)
		}
	}
	// buildCache stores only exported fields
	binfo := bc.Info()
	var stores []ast.Node
	an.InspectOwn(bc, func(n ast.Node) bool {
		if as, ok := n.(*ast.AssignStmt); ok && len(as.Lhs) == 1 {
			if ix, ok := as.Lhs[0].(*ast.IndexExpr); ok {
				if id, ok := an.Unparen(ix.X).(*ast.Ident); ok {
					if _, isParam := an.IsParam(bc, an.ObjOf(binfo, id)); isParam {
						stores = append(stores, as)
					}
				}
			}
		}
		return true
	})
	pb := p.ProbeFn(bc, stores, an.Hooks{})
	c.States += pb.X.Visited
	ok := len(stores) > 0
	for _, s := range stores {
		for _, st := range pb.At[s] {
			g := false
			for k, v := range st.Facts {
				pk := an.PlainKey(k)
				if v && (strings.HasSuffix(pk, `.PkgPath == ""`) || strings.HasPrefix(pk, `"" == `)) {
					g = true
				}
			}
			if !g {
				ok = false
			}
		}
		if len(pb.At[s]) == 0 {
			ok = false
		}
	}
	c.Check(ok, "C06.unexp", "buildCache/exported-only", bc.Pos(), "the field cache stores a field only when its PkgPath is empty (exported)", "buildCache stores a field index without having established PkgPath == \"\": unexported fields become reachable through the fast path")
}

// c06shallowest: the field cache follows Go's selector rule for embedded structs — a field hides the
// fields of the same name promoted from deeper levels.  buildCache walks embedded structs recursively,
// so an entry may only be (over)written where no entry exists yet or the new index path is not longer
// than the one it replaces.
func c06shallowest(c *an.Ctx) {
	p := c.P
	bc := c.Fn("C06.cache", "buildCache")
	if bc == nil {
		return
	}
	info := bc.Info()
	recursive := false
	for _, call := range p.CallsIn(bc, "jet.buildCache") {
		_ = call
		recursive = true
	}
	if !recursive {
		c.OK("C06.cache", "buildCache/shallowest-wins", bc.Pos(), "the cache is not built by recursion into embedded structs")
		return
	}
	var stores []ast.Node
	type storeInfo struct{ m, key, val string }
	sinfo := map[ast.Node]storeInfo{}
	an.InspectOwn(bc, func(n ast.Node) bool {
		if as, ok := n.(*ast.AssignStmt); ok && len(as.Lhs) == 1 && len(as.Rhs) == 1 {
			if ix, ok := as.Lhs[0].(*ast.IndexExpr); ok {
				if id, ok := an.Unparen(ix.X).(*ast.Ident); ok {
					if _, isParam := an.IsParam(bc, an.ObjOf(info, id)); isParam {
						stores = append(stores, as)
						sinfo[as] = storeInfo{an.Str(ix.X), an.Norm(bc, ix.Index), an.Str(as.Rhs[0])}
					}
				}
			}
		}
		return true
	})
	// comma-ok lookups of the same map: old, ok := cache[key]
	type lookup struct{ old, ok, key string }
	var lookups []lookup
	an.InspectOwn(bc, func(n ast.Node) bool {
		as, isAs := n.(*ast.AssignStmt)
		if !isAs || len(as.Lhs) != 2 || len(as.Rhs) != 1 {
			return true
		}
		ix, isIx := an.Unparen(as.Rhs[0]).(*ast.IndexExpr)
		if !isIx {
			return true
		}
		lookups = append(lookups, lookup{an.Str(as.Lhs[0]), an.Str(as.Lhs[1]), an.Str(ix.X) + "|" + an.Norm(bc, ix.Index)})
		return true
	})
	pb := p.ProbeFn(bc, stores, an.Hooks{})
	c.States += pb.X.Visited
	ok := len(stores) > 0
	for _, s := range stores {
		si := sinfo[s]
		if len(pb.At[s]) == 0 {
			ok = false
		}
		for _, st := range pb.At[s] {
			guarded := false
			for _, lk := range lookups {
				if lk.key != si.m+"|"+si.key {
					continue
				}
				if an.FactIs(st, lk.ok, false) {
					guarded = true // nothing stored under that name yet
				}
				nw, od := "len("+si.val+")", "len("+lk.old+")"
				for k, v := range st.Facts {
					pk := strings.ReplaceAll(an.PlainKey(k), " ", "")
					switch {
					case v && (pk == nw+"<="+od || pk == nw+"<"+od || pk == od+">="+nw || pk == od+">"+nw):
						guarded = true
					case !v && (pk == nw+">"+od || pk == od+"<"+nw):
						guarded = true
					}
				}
			}
			if !guarded {
				ok = false
			}
		}
	}
	c.Check(ok, "C06.cache", "buildCache/shallowest-wins", bc.Pos(), "an entry of the field cache is written only where none exists or the new index path is not longer than the old one",
		"buildCache overwrites an entry of the field cache without comparing depths: a field promoted from an embedded struct replaces the outer field of the same name declared before it, and {{ .Name }} yields the embedded struct's value")
	// … and, the walk being depth first (an embedded struct's fields are entered while its own level is still being
	// walked), an entry that exists must give way to a shallower field: some store is reached with an entry present
	replaces := false
	for _, s := range stores {
		si := sinfo[s]
		for _, st := range pb.At[s] {
			for _, lk := range lookups {
				if lk.key == si.m+"|"+si.key && an.FactIs(st, lk.ok, true) {
					replaces = true
				}
			}
		}
	}
	c.Check(replaces, "C06.cache", "buildCache/shallower-replaces", bc.Pos(), "an existing entry is replaced when a field at a shallower depth has the same name",
		"buildCache never replaces an entry that exists: the walk is depth first, so the fields promoted from an embedded struct are entered before the outer fields declared after it, and an outer field loses to the promoted field of the same name")
}

// c06indexArgs: resolveIndex is told the member either as a value (index) or as a name (indexAsStr) and
// recognises "as a name" by the name being non-empty.  Every caller therefore passes as the name either
// the constant "" (next to a value) or an element of a field/chain node's list of identifiers (which the
// lexer never leaves empty) — never an arbitrary string that may be empty, such as a string literal of
// the template: a[""] would then arrive as "no member at all".
func c06indexArgs(c *an.Ctx, rule string) {
	p := c.P
	n := 0
	for _, f := range p.Units() {
		if f.Pkg != p.Jet || f.Body == nil {
			continue
		}
		info := f.Info()
		for i, call := range p.CallsIn(f, "jet.resolveIndex") {
			if len(call.Args) != 3 {
				continue
			}
			n++
			key := f.Name + "/resolveIndex-name"
			if i > 0 {
				key += "#" + itoa(i+1)
			}
			name := an.Unparen(call.Args[2])
			ok := false
			if tv, isConst := info.Types[name]; isConst && tv.Value != nil && tv.Value.ExactString() == `""` {
				ok = true
			}
			for _, o := range valueOrigins(f, name, 0) {
				if ix, isIx := an.Unparen(o).(*ast.IndexExpr); isIx {
					switch p.FieldKey(info, ix.X) {
					case "FieldNode.Ident", "ChainNode.Field":
						ok = true
					}
					// a local slice that holds one of these lists
					for _, lo := range valueOrigins(f, ix.X, 0) {
						switch p.FieldKey(info, lo) {
						case "FieldNode.Ident", "ChainNode.Field":
							ok = true
						}
					}
				}
			}
			// … or the value variable of a range over one of these lists
			if id, isId := name.(*ast.Ident); isId && !ok {
				obj := an.ObjOf(info, id)
				an.InspectOwn(f, func(m ast.Node) bool {
					if rs, isRange := m.(*ast.RangeStmt); isRange {
						if v, isV := rs.Value.(*ast.Ident); isV && an.ObjOf(info, v) == obj {
							switch p.FieldKey(info, rs.X) {
							case "FieldNode.Ident", "ChainNode.Field":
								if len(an.LocalDefs(f, obj)) <= 1 {
									ok = true
								}
							}
						}
					}
					return true
				})
			}
			c.Check(ok, rule, key, call.Pos(), "the member name handed to resolveIndex is \"\" or an identifier of a field/chain node",
				f.Name+" hands resolveIndex a name ("+an.Str(name)+") that may be empty: resolveIndex takes an empty name for \"no name given\" and looks at the (absent) index value instead, so a[\"\"] fails or yields nothing although the entry exists")
		}
	}
	c.Expect(rule, "calls of resolveIndex", n, 5)
}

// c06methodSet: "methods on values and on pointers" — resolveIndex looks a method up on the address of
// the value whenever the value is addressable and is neither a pointer nor an interface (whatever its
// kind: a named slice, map or integer type has pointer-receiver methods too); the lookup on the value
// itself happens only where one of the three is known not to hold.
func c06methodSet(c *an.Ctx) {
	p := c.P
	f := c.Fn("C06.same", "resolveIndex")
	if f == nil {
		return
	}
	info := f.Info()
	var bad token.Pos
	var badFacts []string
	n := 0
	x := p.NewExplorer(f, an.Hooks{
		PreAssign: func(x *an.Explorer, lhs, rhs ast.Expr, stmt ast.Node, st *an.State) {
			id, ok := an.Unparen(lhs).(*ast.Ident)
			if !ok || rhs == nil {
				return
			}
			if call, ok := an.Unparen(rhs).(*ast.CallExpr); ok && an.CalleeName(info, call) == "(reflect.Value).Addr" {
				st.Set("addr:"+id.Name, "1")
			} else {
				st.Set("addr:"+id.Name, "")
			}
		},
		Call: func(x *an.Explorer, call *ast.CallExpr, st *an.State) {
			if an.CalleeName(info, call) != "(reflect.Value).MethodByName" {
				return
			}
			recv, ok := an.Unparen(an.Receiver(call)).(*ast.Ident)
			if !ok {
				return
			}
			n++
			if st.Get("addr:"+recv.Name) != "" {
				return
			}
			r := recv.Name
			okPath := false
			for k, v := range st.Facts {
				pk := strings.ReplaceAll(an.PlainKey(k), " ", "")
				switch {
				case v && (pk == "reflect.Interface=="+r+".Kind()" || pk == r+".Kind()==reflect.Interface"),
					v && (pk == "reflect.Ptr=="+r+".Kind()" || pk == r+".Kind()==reflect.Ptr" || pk == "reflect.Pointer=="+r+".Kind()" || pk == r+".Kind()==reflect.Pointer"),
					!v && pk == r+".CanAddr()":
					okPath = true
				}
			}
			if !okPath && !bad.IsValid() {
				bad, badFacts = call.Pos(), an.Facts(st)
			}
		},
	})
	x.Run(nil)
	c.States += x.Visited
	key := "resolveIndex/method-set"
	switch {
	case x.Undecided != "":
		c.Undecided("C06.same", key, f.Pos(), "%s", x.Undecided)
	case n == 0:
		c.Anchor("C06.same", "MethodByName lookup in resolveIndex")
	case bad.IsValid():
		c.Bad("C06.same", key, bad, badFacts, "resolveIndex looks a method up on the value itself on a path where the value may be addressable and neither pointer nor interface: methods declared on *T are not found for a T that is not a struct (named slice, map, integer …)")
	default:
		c.OK("C06.same", key, f.Pos(), "a method is looked up on the address of every addressable non-pointer, non-interface value")
	}
	c06methodsFirst(c, f)
}

// c06methodsFirst (C06.same methods-first): a member named by a string is a method first, whatever the value is — a
// value of any kind can have methods (named maps and slices, unnamed structs embedding a type with methods).  On
// every path of resolveIndex that reaches the dispatch on the value's kind (fields, keys, indexes) with the name
// known — or not known not — to be a string, MethodByName has been asked before; a gate derived from the value's
// type in front of it ("only named types have methods") hides promoted methods.
func c06methodsFirst(c *an.Ctx, f *an.Fn) {
	p := c.P
	info := f.Info()
	var kindSwitch *ast.SwitchStmt
	an.InspectOwn(f, func(n ast.Node) bool {
		if sw, ok := n.(*ast.SwitchStmt); ok && kindSwitch == nil && sw.Tag != nil {
			if call := callOf(sw.Tag); call != nil && an.CalleeName(info, call) == "(reflect.Value).Kind" {
				kindSwitch = sw
			}
		}
		return true
	})
	if kindSwitch == nil {
		c.Anchor("C06.same", "dispatch on the value's kind in resolveIndex")
		return
	}
	// the gates: if statements that enclose the method lookup.  A gate may depend on the name (is it a string?), not on
	// the value being resolved or anything derived from it (its type, its kind, whether it is nil)
	var lookups []*ast.CallExpr
	an.InspectOwn(f, func(n ast.Node) bool {
		if call, ok := n.(*ast.CallExpr); ok && an.CalleeName(info, call) == "(reflect.Value).MethodByName" {
			lookups = append(lookups, call)
		}
		return true
	})
	tainted := map[types.Object]bool{}
	if v := an.Param(f, 0); v != nil {
		tainted[v] = true
	}
	mentionsTainted := func(e ast.Node) bool {
		found := false
		if e == nil {
			return false
		}
		ast.Inspect(e, func(n ast.Node) bool {
			if id, ok := n.(*ast.Ident); ok && tainted[an.ObjOf(info, id)] {
				found = true
			}
			return !found
		})
		return found
	}
	for changed := true; changed; {
		changed = false
		an.InspectOwn(f, func(n ast.Node) bool {
			as, ok := n.(*ast.AssignStmt)
			if !ok {
				return true
			}
			dep := false
			for _, r := range as.Rhs {
				if mentionsTainted(r) {
					dep = true
				}
			}
			if !dep {
				return true
			}
			for _, l := range as.Lhs {
				if id, ok := l.(*ast.Ident); ok {
					if o := an.ObjOf(info, id); o != nil && !tainted[o] {
						tainted[o] = true
						changed = true
					}
				}
			}
			return true
		})
	}
	type gate struct {
		cond    ast.Expr
		tainted bool
	}
	var gates []gate
	// (a lookup made inside a new helper is gated by what encloses the call of that helper)
	sites := append([]*ast.CallExpr{}, lookups...)
	an.InspectBody(f, func(n ast.Node) bool {
		call, ok := n.(*ast.CallExpr)
		if !ok {
			return true
		}
		if h := p.NewHelperCallee(f, call); h != nil {
			for g := range p.Reach(h) {
				if g.Body != nil && len(p.CallsIn(g, "(reflect.Value).MethodByName")) > 0 {
					sites = append(sites, call)
					break
				}
			}
		}
		return true
	})
	for _, lk := range sites {
		for _, enc := range an.EnclosingStmts(f, lk) {
			if is, ok := enc.(*ast.IfStmt); ok && lk.Pos() >= is.Body.Pos() && lk.End() <= is.Body.End() {
				gates = append(gates, gate{is.Cond, mentionsTainted(is.Cond) || mentionsTainted(is.Init)})
			}
		}
	}
	bad := token.NoPos
	var badFacts []string
	reached := false
	x := p.NewExplorer(f, an.Hooks{
		Branch: func(x *an.Explorer, cond ast.Expr, val bool, st *an.State) {
			if val {
				return
			}
			for _, g := range gates {
				if !g.tainted && cond.Pos() >= g.cond.Pos() && cond.End() <= g.cond.End() {
					st.Set("gate-said-no", "1")
				}
			}
		},
		Call: func(x *an.Explorer, call *ast.CallExpr, st *an.State) {
			if an.CalleeName(info, call) == "(reflect.Value).MethodByName" {
				st.Set("asked", "1")
			}
		},
		Stmt: func(x *an.Explorer, n ast.Node, st *an.State) {
			if n != ast.Node(kindSwitch.Tag) && n != ast.Node(kindSwitch) {
				return
			}
			reached = true
			if st.Get("asked") != "" || st.Get("gate-said-no") != "" {
				return
			}
			if !bad.IsValid() {
				bad, badFacts = kindSwitch.Pos(), an.Facts(st)
			}
		},
	})
	x.Run(nil)
	c.States += x.Visited
	key := "resolveIndex/methods-first"
	switch {
	case x.Undecided != "":
		c.Undecided("C06.same", key, f.Pos(), "%s", x.Undecided)
	case !reached:
		c.Anchor("C06.same", "dispatch on the value's kind reached by the exploration of resolveIndex")
	case bad.IsValid():
		c.Bad("C06.same", key, bad, badFacts, "resolveIndex reaches the dispatch on the value's kind with a name that may be a string without having asked MethodByName: for some values (whatever gate stands before the lookup) methods are no longer found and the name is taken for a field, key or index")
	default:
		c.OK("C06.same", key, f.Pos(), "MethodByName is asked on every path that reaches the kind dispatch with a string name")
	}
}

func findIdentArg(ret *ast.ReturnStmt) (*ast.Ident, bool) {
	var found *ast.Ident
	ast.Inspect(ret, func(n ast.Node) bool {
		if call, ok := n.(*ast.CallExpr); ok {
			if sel, ok := call.Fun.(*ast.SelectorExpr); ok && sel.Sel.Name == "FieldByIndex" && len(call.Args) == 1 {
				if id, ok := an.Unparen(call.Args[0]).(*ast.Ident); ok {
					found = id
				}
			}
		}
		return true
	})
	return found, found != nil
}

func c06nil(c *an.Ctx) {
	p := c.P
	ri := c.Fn("C06.nil", "resolveIndex")
	if ri == nil {
		return
	}
	info := ri.Info()
	// nil-interface test before MethodByName
	var testPos, methodPos token.Pos
	for _, st := range ri.Body.List {
		if is, ok := st.(*ast.IfStmt); ok && !testPos.IsValid() {
			cs := strings.ReplaceAll(an.Str(is.Cond), " ", "")
			if strings.Contains(cs, "reflect.Interface") && strings.Contains(cs, "isNil") && len(is.Body.List) > 0 {
				if ret, ok := is.Body.List[len(is.Body.List)-1].(*ast.ReturnStmt); ok && len(ret.Results) == 2 && an.Str(ret.Results[1]) != "nil" {
					testPos = is.Pos()
				}
			}
		}
	}
	for _, call := range p.CallsIn(ri, "(reflect.Value).MethodByName") {
		methodPos = call.Pos()
	}
	c.Check(testPos.IsValid() && methodPos.IsValid() && testPos < methodPos, "C06.nil", "resolveIndex/nil-interface-first", ri.Pos(), "a nil interface is rejected before MethodByName is attempted",
		"resolveIndex calls MethodByName without first rejecting a nil interface: reflect panics (nil dereference re-panicked out of Execute)")
	// every failing return carries a non-nil error
	// (the returns of resolveIndex itself, on its paths: a helper it was split into may well hand back "nothing
	// found, no error" for its caller to act on)
	nFail, bad := 0, token.NoPos
	seenRet := map[token.Pos]bool{}
	fx := p.NewExplorer(ri, an.Hooks{Return: func(x *an.Explorer, ret *ast.ReturnStmt, st *an.State) {
		if len(ret.Results) != 2 || seenRet[ret.Pos()] {
			return
		}
		seenRet[ret.Pos()] = true
		if an.Str(ret.Results[0]) == "reflect.Value{}" {
			nFail++
			if an.Str(ret.Results[1]) == "nil" {
				bad = ret.Pos()
			}
		}
	}})
	fx.Run(nil)
	c.States += fx.Visited
	c.Expect("C06.nil", "failing returns of resolveIndex", nFail, 8)
	c.Check(!bad.IsValid(), "C06.nil", "resolveIndex/failures-are-errors", ri.Pos(), "every failing path of resolveIndex returns a non-nil error", "resolveIndex returns (zero value, nil error) on a failing path: a missing member silently evaluates to nil instead of being an error")
	// indirect stops at nil
	if ind := c.Fn("C06.nil", "indirect"); ind != nil {
		// path rule: Elem() is called only on a value known not to be nil; `true` is returned only for a value known
		// to be nil, `false` only for one known to be neither a pointer nor an interface
		iinfo := ind.Info()
		ok := true
		nElem, nRet := 0, 0
		kindIs := func(x *an.Explorer, v ast.Expr, kind string, st *an.State) (bool, bool) {
			var kc ast.Expr = &ast.CallExpr{Fun: &ast.SelectorExpr{X: v, Sel: ast.NewIdent("Kind")}}
			// use a Kind() call of the function on the same value, so that types are known to the explorer
			an.InspectOwn(ind, func(n ast.Node) bool {
				if call, isCall := n.(*ast.CallExpr); isCall && an.CalleeName(iinfo, call) == "(reflect.Value).Kind" {
					if k1, ok1 := x.Key(an.Receiver(call)); ok1 {
						if k2, ok2 := x.Key(v); ok2 && k1 == k2 {
							kc = call
						}
					}
				}
				return true
			})
			return x.Truth(&ast.BinaryExpr{X: kc, Op: token.EQL, Y: &ast.SelectorExpr{X: ast.NewIdent("reflect"), Sel: ast.NewIdent(kind)}}, st)
		}
		isNilOf := func(x *an.Explorer, v ast.Expr, st *an.State) (bool, bool) {
			known, val := false, false
			an.InspectOwn(ind, func(n ast.Node) bool {
				if call, isCall := n.(*ast.CallExpr); isCall && an.CalleeName(iinfo, call) == "(reflect.Value).IsNil" {
					if k1, ok1 := x.Key(an.Receiver(call)); ok1 {
						if k2, ok2 := x.Key(v); ok2 && k1 == k2 {
							if t, kn := x.Truth(call, st); kn {
								known, val = true, t
							}
						}
					}
				}
				return true
			})
			return val, known
		}
		ix := p.NewExplorer(ind, an.Hooks{
			Call: func(x *an.Explorer, call *ast.CallExpr, st *an.State) {
				if an.CalleeName(iinfo, call) == "(reflect.Value).Elem" {
					nElem++
					if t, known := isNilOf(x, an.Receiver(call), st); !known || t {
						ok = false
					}
				}
			},
			Return: func(x *an.Explorer, ret *ast.ReturnStmt, st *an.State) {
				if len(ret.Results) != 2 {
					ok = false
					return
				}
				nRet++
				tv, has := iinfo.Types[ret.Results[1]]
				if !has || tv.Value == nil {
					ok = false // the flag is computed: not followed
					return
				}
				if constant.BoolVal(tv.Value) {
					if t, known := isNilOf(x, ret.Results[0], st); !known || !t {
						ok = false
					}
					return
				}
				for _, kind := range []string{"Ptr", "Interface"} {
					if t, known := kindIs(x, ret.Results[0], kind, st); !known || t {
						ok = false
					}
				}
			},
		})
		ix.Run(nil)
		c.States += ix.Visited
		if ix.Undecided != "" || nElem == 0 || nRet < 2 {
			ok = false
		}
		c.Check(ok, "C06.nil", "indirect/stops-at-nil", ind.Pos(), "indirect() tests IsNil before every Elem()", "indirect() does not stop at a nil pointer/interface before dereferencing it")
		// … and runs to the end of the chain: a "not nil" result is returned only where the value is known to be
		// neither a pointer nor an interface (access reaches the data "through any pointers and interfaces")
		_ = iinfo
		x := p.NewExplorer(ind, an.Hooks{})
		x.Run(nil)
		c.States += x.Visited
		okEnd, nRet := true, 0
		var trail []string
		for _, ex := range x.Exits {
			if ex.Kind != an.ExitReturn || ex.Ret == nil || len(ex.Ret.Results) != 2 {
				continue
			}
			if tv, ok := iinfo.Types[ex.Ret.Results[1]]; !ok || tv.Value == nil || tv.Value.ExactString() != "false" {
				continue
			}
			nRet++
			notPtr, notIface := false, false
			for k, v := range ex.State.Facts {
				pk := strings.ReplaceAll(an.PlainKey(k), " ", "")
				if !v && (strings.HasPrefix(pk, "reflect.Ptr==") || strings.HasSuffix(pk, "==reflect.Ptr") || strings.HasPrefix(pk, "reflect.Pointer==") || strings.HasSuffix(pk, "==reflect.Pointer")) && strings.Contains(pk, ".Kind()") {
					notPtr = true
				}
				if !v && (strings.HasPrefix(pk, "reflect.Interface==") || strings.HasSuffix(pk, "==reflect.Interface")) && strings.Contains(pk, ".Kind()") {
					notIface = true
				}
			}
			if !notPtr || !notIface {
				okEnd, trail = false, ex.Trail
			}
		}
		c.Check(okEnd && nRet > 0 && x.Undecided == "", "C06.nil", "indirect/runs-to-the-end", ind.Pos(), "indirect() returns a non-nil result only for a value that is neither pointer nor interface",
			"indirect() can stop at a pointer or interface that is not nil: data behind it (fields, elements, methods of the dynamic value) is no longer reached")
		_ = trail
	}
	// the only (zero, nil) result: absent map key at the end of a chain
	if ch := c.Fn("C06.nil", "(*Runtime).evalChainNodeExpression"); ch != nil {
		var rets []ast.Node
		an.InspectOwn(ch, func(n ast.Node) bool {
			if ret, ok := n.(*ast.ReturnStmt); ok && len(ret.Results) == 2 && an.Str(ret.Results[0]) == "reflect.Value{}" && an.Str(ret.Results[1]) == "nil" {
				rets = append(rets, ret)
			}
			return true
		})
		pr := p.ProbeFn(ch, rets, an.Hooks{})
		c.States += pr.X.Visited
		ok := len(rets) == 1
		for _, r := range rets {
			for _, st := range pr.At[r] {
				isMap, last := false, false
				for k, v := range st.Facts {
					pk := an.PlainKey(k)
					if v && strings.Contains(pk, "reflect.Map == ") && strings.Contains(pk, ".Kind()") {
						isMap = true
					}
					if v && strings.Contains(pk, "len(node.Field) - 1") {
						last = true
					}
				}
				if !isMap || !last {
					ok = false
				}
			}
		}
		_ = info
		c.Check(ok, "C06.nil", "(*Runtime).evalChainNodeExpression/absent-key", ch.Pos(), "only an absent map key in the last position of a chain evaluates to nil without an error",
			"evalChainNodeExpression returns (zero value, nil error) other than for an absent map key in the last position of the chain: a missing member in the middle of a path is silently nil")
	}
}

func c06same(c *an.Ctx) {
	p := c.P
	lookups := []string{"(reflect.Value).FieldByName", "(reflect.Value).FieldByIndex", "(reflect.Value).Field", "(reflect.Value).MapIndex", "(reflect.Value).MethodByName", "(reflect.Value).Method"}
	users := []string{"(*Runtime).evalBaseExpressionGroup", "(*Runtime).evalChainNodeExpression", "(*Runtime).evalPrimaryExpressionGroup", "(*Runtime).isSet"}
	for _, name := range users {
		f := c.Fn("C06.same", name)
		if f == nil {
			continue
		}
		uses := len(p.CallsIn(f, "jet.resolveIndex")) > 0 || name == "(*Runtime).evalPrimaryExpressionGroup" && len(p.CallsIn(f, "jet.resolveIndex")) > 0
		own := p.CallsIn(f, lookups...)
		if len(own) > 0 {
			c.Bad("C06.same", name, own[0].Pos(), nil, "%s performs its own reflect lookup (%s) next to resolveIndex: a.b, a.b.c, a[\"b\"] and isset no longer reach Go data through one resolver and may disagree", name, an.Str(own[0]))
			continue
		}
		c.Check(uses, "C06.same", name, f.Pos(), "member access goes through resolveIndex only", fmt.Sprintf("%s no longer resolves members through resolveIndex", name))
	}
	_ = types.Typ
}

// c06cache: the lazily built field-index cache must own every index path and every per-type map it
// stores.  A path that shares its backing array with a sibling's path (append onto the parent path) makes
// a.b resolve to another field's value without any error.
// c06fieldPath: reflect.Value.FieldByIndex panics (with a string) when the path of a promoted field leads
// through a nil embedded pointer, so evaluator code never calls it: promoted fields are reached by a walker
// that tests IsNil before every Elem on the path.
func c06fieldPath(c *an.Ctx) {
	p := c.P
	eval := p.Eval()
	n := 0
	for _, f := range an.SortedFns(eval) {
		if f.Pkg != p.Jet || f.Body == nil {
			continue
		}
		info := f.Info()
		for _, call := range p.CallsIn(f, "(reflect.Value).FieldByIndex", "(reflect.Value).FieldByName", "(reflect.Value).FieldByNameFunc") {
			n++
			c.Bad("C06.nil", f.Name+"/field-path", call.Pos(), nil, "%s reaches a field through reflect.Value.%s: for a promoted field behind a nil embedded pointer it panics with a string, which Execute re-panics instead of returning an error", f.Name, call.Fun.(*ast.SelectorExpr).Sel.Name)
		}
		// a walker: a loop over an index path ([]int) applying Field(i) — every Elem() in it lies behind IsNil() == false
		var elems []ast.Node
		walker := false
		an.InspectOwn(f, func(m ast.Node) bool {
			if rs, ok := m.(*ast.RangeStmt); ok {
				if tv, has := info.Types[rs.X]; has && tv.Type != nil && tv.Type.Underlying().String() == "[]int" { // also a named []int
					ast.Inspect(rs.Body, func(k ast.Node) bool {
						if call, ok := k.(*ast.CallExpr); ok {
							switch an.CalleeName(info, call) {
							case "(reflect.Value).Field":
								walker = true
							case "(reflect.Value).Elem":
								elems = append(elems, call)
							}
						}
						return true
					})
				}
			}
			return true
		})
		if !walker {
			continue
		}
		n++
		pr := p.ProbeFn(f, elems, an.Hooks{})
		c.States += pr.X.Visited
		ok := true
		for _, e := range elems {
			if len(pr.At[e]) == 0 {
				ok = false
			}
			for _, st := range pr.At[e] {
				guarded := false
				for k, v := range st.Facts {
					if !v && strings.HasSuffix(an.PlainKey(k), ".IsNil()") {
						guarded = true
					}
				}
				if !guarded {
					ok = false
				}
			}
		}
		c.Check(ok, "C06.nil", f.Name+"/field-path", f.Pos(), "the field-path walker dereferences an embedded pointer only after IsNil() was false", f.Name+" walks a field index path and dereferences an embedded pointer without a preceding IsNil() test: a nil embedded pointer panics")
	}
	c.Expect("C06.nil", "field-path walkers / FieldByIndex sites", n, 1)
}

func c06cache(c *an.Ctx) {
	p := c.P
	o, _ := p.Jet.Types.Scope().Lookup("cachedStructsFieldIndex").(*types.Var)
	if o == nil {
		c.Anchor("C06.cache", "package variable cachedStructsFieldIndex")
		return
	}
	outer, ok := o.Type().Underlying().(*types.Map)
	if !ok {
		c.Anchor("C06.cache", "cachedStructsFieldIndex is a map")
		return
	}
	inner := outer.Elem()
	stores := indexStores(c, func(t types.Type) bool {
		return types.Identical(t, o.Type()) || (refType(inner) && types.Identical(t, inner))
	})
	n := checkFresh(c, "C06.cache", stores, "a cached field path that shares storage with another path (or with its caller's scratch path) is overwritten by the sibling that is cached next, so field access silently yields another field's value", false)
	c.Expect("C06.cache", "stores into the struct field-index cache", n, 2)
}

// c06unwrap: a variable's value reaches every access "through any interfaces in between": either
// Runtime.resolve unwraps what it reads from the scope chain (indirectEface at every such return), or —
// if it does not — every store into a scope's variables during execution stores an unwrapped value.
func c06unwrap(c *an.Ctx) { unwrapRule(c, "C06.same") }

// unwrapRule (C06.same, C05.truth): a template variable is the value itself, not the interface it may have
// been stored in — truthiness ({{if x}} for a wrapped 0), indexing and conversions all look at the value.
func unwrapRule(c *an.Ctx, rule string) {
	p := c.P
	f := c.Fn(rule, "(*Runtime).resolve")
	if f == nil {
		return
	}
	info := f.Info()
	// returns of resolve that yield a value read from a variables map / globals / built-ins
	nRead, nRaw := 0, 0
	an.InspectOwn(f, func(n ast.Node) bool {
		ret, ok := n.(*ast.ReturnStmt)
		if !ok || len(ret.Results) != 2 {
			return true
		}
		res := an.Unparen(ret.Results[0])
		inner := res
		wrapped := false
		if call, ok := res.(*ast.CallExpr); ok && an.IsCallTo(info, call, "jet.indirectEface") && len(call.Args) == 1 {
			inner, wrapped = an.Unparen(call.Args[0]), true
		}
		id, ok := inner.(*ast.Ident)
		if !ok {
			return true
		}
		fromMap := false
		o := an.ObjOf(info, id)
		an.InspectOwn(f, func(m ast.Node) bool {
			if as, ok := m.(*ast.AssignStmt); ok && len(as.Lhs) == 2 && len(as.Rhs) == 1 {
				if l, ok := as.Lhs[0].(*ast.Ident); ok && an.ObjOf(info, l) == o {
					if _, isIx := an.Unparen(as.Rhs[0]).(*ast.IndexExpr); isIx {
						fromMap = true
					}
				}
			}
			return true
		})
		if !fromMap {
			return true
		}
		nRead++
		if !wrapped {
			nRaw++
		}
		return true
	})
	c.Expect(rule, "returns of resolve that yield a looked-up variable", nRead, 2)
	if nRaw == 0 {
		c.OK(rule, "(*Runtime).resolve/unwraps", f.Pos(), "every looked-up variable is unwrapped (indirectEface) before it is used (%d returns)", nRead)
		return
	}
	// resolve hands out raw values: then every store must unwrap
	var raw []string
	for _, g := range an.SortedFns(p.Eval()) {
		if g.Pkg != p.Jet || g.Body == nil {
			continue
		}
		ginfo := g.Info()
		an.InspectOwn(g, func(n ast.Node) bool {
			an.Assigns(n, func(lhs, rhs ast.Expr, _ token.Token) {
				ix, ok := an.Unparen(lhs).(*ast.IndexExpr)
				if !ok || rhs == nil || p.FieldKey(ginfo, ix.X) != "scope.variables" {
					return
				}
				r := an.Unparen(rhs)
				if call, ok := r.(*ast.CallExpr); ok && an.IsCallTo(ginfo, call, "jet.indirectEface", "reflect.ValueOf") {
					return
				}
				if id, ok := r.(*ast.Ident); ok && (id.Name == "valueBoolTRUE" || id.Name == "valueBoolFALSE") {
					return
				}
				raw = append(raw, fmt.Sprintf("%s (%s)", an.StmtStr(n), p.RelPos(lhs.Pos())))
			})
			return true
		})
	}
	if len(raw) == 0 {
		c.OK(rule, "(*Runtime).resolve/unwraps", f.Pos(), "resolve returns stored values as they are, and every store into a scope unwraps the value first")
	} else {
		c.Bad(rule, "(*Runtime).resolve/unwraps", f.Pos(), raw, "resolve returns variables without unwrapping interface values, and %d store(s) into a scope keep the value wrapped: indexing, slicing or using such a variable as an index fails although the value behind the interface supports it", len(raw))
	}
}

// c06mapKey: reflect.Value.MapIndex panics (with a string) unless the key is assignable to the map's key
// type.  In resolveIndex the key handed to MapIndex is, on every path, the result of Convert to
// <map>.Type().Key(): a key of the same kind but another (named) type is converted too.
func c06mapKey(c *an.Ctx) { mapKeyRule(c, "C06.conv") }

// mapKeyRule is shared with C17.steps: inside isset the reflect panic is swallowed and an existing key
// of a map with a named key type is reported as not set.
func mapKeyRule(c *an.Ctx, rule string) {
	p := c.P
	f := c.Fn(rule, "resolveIndex")
	if f == nil {
		return
	}
	info := f.Info()
	isKeyType := func(e ast.Expr) bool { return strings.HasSuffix(an.Norm(f, e), ".Type().Key()") }
	n, bad := 0, token.NoPos
	hooks := an.Hooks{
		PreAssign: func(x *an.Explorer, lhs, rhs ast.Expr, stmt ast.Node, st *an.State) {
			id, ok := an.Unparen(lhs).(*ast.Ident)
			if !ok {
				return
			}
			conv := ""
			if call, ok := an.Unparen(rhs).(*ast.CallExpr); ok && rhs != nil && an.CalleeName(info, call) == "(reflect.Value).Convert" && len(call.Args) == 1 && isKeyType(call.Args[0]) {
				conv = "1"
			}
			st.Set("keyconv:"+id.Name, conv)
		},
		Call: func(x *an.Explorer, call *ast.CallExpr, st *an.State) {
			if an.CalleeName(info, call) != "(reflect.Value).MapIndex" || len(call.Args) != 1 {
				return
			}
			n++
			ok := false
			switch a := an.Unparen(call.Args[0]).(type) {
			case *ast.Ident:
				ok = st.Get("keyconv:"+a.Name) != ""
			case *ast.CallExpr:
				ok = an.CalleeName(info, a) == "(reflect.Value).Convert" && len(a.Args) == 1 && isKeyType(a.Args[0])
			}
			if !ok && !bad.IsValid() {
				bad = call.Pos()
			}
		},
	}
	x := p.NewExplorer(f, hooks)
	x.Run(nil)
	c.States += x.Visited
	c.Expect(rule, "MapIndex calls in resolveIndex (state visits)", n, 1)
	c.Check(!bad.IsValid(), rule, "resolveIndex/map-key-converted", f.Pos(), "the key handed to MapIndex was converted to the map's key type on every path",
		"resolveIndex can hand MapIndex a key that was not converted to the map's key type: a key of the right kind but another type (a string for map[Role]…) makes reflect panic with a string, which escapes Execute (and makes isset answer false for an existing key)")
}

// counterBound: the loop counter i handed to recv.Index(i) is known, in every state at the call, to be below a bound
// that is recv.Len() or known to equal it.  Returns "" when that holds, the problem otherwise.  A counter that is a
// field of a ranger (its own cursor) is not looked at here.
func counterBound(p *an.Prog, f *an.Fn, x *an.Explorer, call *ast.CallExpr, idx ast.Expr, states []*an.State) string {
	info := f.Info()
	id, ok := an.Unparen(idx).(*ast.Ident)
	if !ok {
		return ""
	}
	recv := an.Receiver(call)
	rk, ok := x.Key(recv)
	if !ok {
		return ""
	}
	// the bounds the counter is compared with in loop conditions, and the Len() calls of the function
	var bounds []ast.Expr
	var lens []*ast.CallExpr
	an.InspectOwn(f, func(n ast.Node) bool {
		switch s := n.(type) {
		case *ast.ForStmt:
			if b, ok := an.Unparen(s.Cond).(*ast.BinaryExpr); ok && s.Cond != nil && b.Op == token.LSS {
				if bid, ok := an.Unparen(b.X).(*ast.Ident); ok && an.ObjOf(info, bid) == an.ObjOf(info, id) {
					bounds = append(bounds, b.Y)
				}
			}
		case *ast.CallExpr:
			if an.CalleeName(info, s) == "(reflect.Value).Len" {
				lens = append(lens, s)
			}
		}
		return true
	})
	if len(bounds) == 0 {
		return ""
	}
	for _, st := range states {
		okState := false
		for _, b := range bounds {
			if t, known := x.Truth(&ast.BinaryExpr{X: id, Op: token.LSS, Y: b}, st); !known || !t {
				continue
			}
			// b is recv.Len() (or a local that holds it) …
			cands := []ast.Expr{b}
			if bid, ok := an.Unparen(b).(*ast.Ident); ok {
				for _, d := range an.LocalDefs(f, an.ObjOf(info, bid)) {
					if d != nil {
						cands = append(cands, d)
					}
				}
			}
			for _, cand := range cands {
				if bc := callOf(cand); bc != nil && an.CalleeName(info, bc) == "(reflect.Value).Len" {
					if k, ok := x.Key(an.Receiver(bc)); ok && k == rk {
						okState = true
					}
				}
			}
			// … or equal to it
			for _, l := range lens {
				k, ok := x.Key(an.Receiver(l))
				if !ok || k != rk {
					continue
				}
				if t, known := x.Truth(&ast.BinaryExpr{X: b, Op: token.NEQ, Y: l}, st); known && !t {
					okState = true
				}
				if t, known := x.Truth(&ast.BinaryExpr{X: b, Op: token.EQL, Y: l}, st); known && t {
					okState = true
				}
				if bk, ok := x.Key(b); ok {
					if lk, ok := x.Key(l); ok && bk == lk {
						okState = true
					}
				}
			}
		}
		if !okState {
			return an.Str(idx) + " runs up to a bound that is not known to be " + an.Str(recv) + ".Len() (the lengths of the two values were not found equal before their elements are paired)"
		}
	}
	return ""
}
