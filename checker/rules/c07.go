package rules

import (
	"fmt"
	"go/ast"
	"go/token"
	"go/types"
	"sort"
	"strings"

	"jetverif/an"
)

func init() {
	register(&Property{
		ID:  "C07",
		Run: runC07,
		Meta: an.Meta{
			Technique: "pairing/typestate analysis on CFGs with condition facts (scope push/pop counter, save/restore of context, content and Writer), dominance of declarations by a scope push, lookup-order and aliasing lints",
			Explanation: "For every function and function literal reachable from Execute: (C07.scope) newScope/releaseScope balance on every feasible normal path (deferred pops included; correlated guards such as " +
				"isLet/needNewScope/inNewScope are resolved by condition facts) and no function pops a scope it did not push; (C07.decl) every store into a scope's variables map through the runtime is " +
				"dominated by a newScope of the same function (or is a rebinding under `_, ok := m[k]; ok`), and helpers that declare at depth 0 are only called below a push; (C07.ctx) every change of " +
				"Runtime.context / Runtime.content / the output Writer is preceded by a load into a local and followed on every normal path by a store of that local back (or a deferred restore); " +
				"(C07.blocks) block tables are only installed into a freshly pushed scope; (C07.order) identifier lookup consults scope chain → Set globals → built-ins in that order; (C07.set) `=` " +
				"walks the scope chain to the end and fails after it; (C07.alias) no Range method returns a view of ranger state that the next Range call mutates. (C07.set, continued) setValue leaves a scope for its parent only where its presence test for the name is known to have failed. (C07.swallow) every function inside the evaluation, other than executeTry (C13.restore), whose deferred guard recovers a panic and returns normally — isSet — saves, before the guard is installed, every piece of runtime state that some construct puts back only by a plain statement (the set M of C13.restore: scope chain, context, content; computed on every run) and stores it back on every recovered path of the guard; otherwise a failure swallowed by isset below a range, a block or YieldBlock leaves '.', the variables or the block content of the failed construct in place for the rest of the template. (C07.ctx, continued) a deferred restore of a runtime field is registered before anything that can fail runs with the field already changed (otherwise a failure swallowed by try or isset leaves the field changed). (C07.alias, continued) nor does Range hand out a reflect.Value kept in a ranger field that it overwrites in place (Set…) on every call. (C07.scope swap-deferred) a function inside the evaluation that switches Runtime.scope to another chain (the content closure) switches back by a deferred statement registered before anything that can fail: the lists still open below release their scopes relative to the current chain while a failure unwinds.",
			NotDecided:  "unwinding by a panic that ends Execute (C10) or a try body (C13); the values stored; shadowing between a caller-supplied VarMap and globals beyond the lookup order; user-defined Rangers.",
			Assumptions: []string{"AST nodes, Template and Set are immutable during execution (C10.ast, C11.frozen): facts about their fields survive calls"},
			Trusted:     commonTrusted,
		},
		Mutants: []Mutant{
			{Name: "content closure switches the scope back by a plain statement (original defect)", File: "eval.go", Old: "\t\t\tdefer func() {\n\t\t\t\tst.scope = outscope\n\t\t\t\tst.content = outcontent\n\t\t\t}()\n\n\t\t\tst.scope = myscope\n\t\t\tst.content = mycontent\n\n\t\t\tif expression != nil {\n\t\t\t\tcontext := st.context\n\t\t\t\tst.context = st.evalPrimaryExpressionGroup(expression)\n\t\t\t\tst.executeList(content)\n\t\t\t\tst.context = context\n\t\t\t} else {\n\t\t\t\tst.executeList(content)\n\t\t\t}\n", New: "\t\t\tst.scope = myscope\n\t\t\tst.content = mycontent\n\n\t\t\tif expression != nil {\n\t\t\t\tcontext := st.context\n\t\t\t\tst.context = st.evalPrimaryExpressionGroup(expression)\n\t\t\t\tst.executeList(content)\n\t\t\t\tst.context = context\n\t\t\t} else {\n\t\t\t\tst.executeList(content)\n\t\t\t}\n\t\t\tst.scope = outscope\n\t\t\tst.content = outcontent\n", Rule: "C07.scope"},
			{Name: "isset swallows a failure without putting the runtime state back (original defect)", File: "eval.go", Old: "\t\t\t// something panicked while evaluating node\n\t\t\tst.scope, st.context, st.content = scope, context, content\n", New: "\t\t\t// something panicked while evaluating node\n\t\t\t_, _, _ = scope, context, content\n", Rule: "C07.swallow"},
			{Name: "isset puts the scope back but not the context", File: "eval.go", Old: "\t\t\t// something panicked while evaluating node\n\t\t\tst.scope, st.context, st.content = scope, context, content\n", New: "\t\t\t// something panicked while evaluating node\n\t\t\tst.scope, st.content = scope, content\n\t\t\t_ = context\n", Rule: "C07.swallow"},
			{Name: "equivalent: isset puts the state back whether or not something was recovered", File: "eval.go", Old: "\t\tif r := recover(); r != nil {\n\t\t\t// something panicked while evaluating node\n\t\t\tst.scope, st.context, st.content = scope, context, content\n", New: "\t\tr := recover()\n\t\tst.scope, st.context, st.content = scope, context, content\n\t\tif r != nil {\n\t\t\t// something panicked while evaluating node\n", Rule: "-"},
			{Name: "new per-call scratch state on the runtime that is never put back (agent seed C14/2 seen from C07)", File: "eval.go", Old: "\targValues := make([]reflect.Value, numArgs)\n", New: "\tif cap(st.argBuf) < numArgs {\n\t\tst.argBuf = make([]reflect.Value, numArgs, numArgs+4)\n\t}\n\targValues := st.argBuf[:numArgs]\n", More: []Edit{{File: "eval.go", Old: "\tcontext reflect.Value\n}", New: "\tcontext reflect.Value\n\targBuf  []reflect.Value\n}"}}, Rule: "C07.ctx"},
			{Name: "equivalent: a nesting-depth counter that is incremented and decremented around list execution", File: "eval.go", Old: "\t\t\tif isTrue(st.evalPrimaryExpressionGroup(node.Expression)) {\n\t\t\t\tifReturn = st.executeList(node.List)\n\t\t\t}", New: "\t\t\tif isTrue(st.evalPrimaryExpressionGroup(node.Expression)) {\n\t\t\t\tst.depth++\n\t\t\t\tifReturn = st.executeList(node.List)\n\t\t\t\tst.depth--\n\t\t\t}", More: []Edit{{File: "eval.go", Old: "\tcontext reflect.Value\n}", New: "\tcontext reflect.Value\n\tdepth   int\n}"}, {File: "exec.go", Old: "\tst.Writer = w\n", New: "\tst.Writer = w\n\tst.depth = 0\n"},
				// (the counter is state that a plain statement puts back: whoever swallows a panic restores it, like scope, context and content)
				{File: "eval.go", Old: "\tscope, context, content := st.scope, st.context, st.content\n\n\tdefer func() {\n\t\tif r := recover(); r != nil {\n\t\t\t// something panicked while evaluating node\n\t\t\tst.scope, st.context, st.content = scope, context, content\n", New: "\tscope, context, content, depth := st.scope, st.context, st.content, st.depth\n\n\tdefer func() {\n\t\tif r := recover(); r != nil {\n\t\t\t// something panicked while evaluating node\n\t\t\tst.scope, st.context, st.content, st.depth = scope, context, content, depth\n"},
				{File: "eval.go", Old: "\tscope, context, content := st.scope, st.context, st.content\n\n\tdefer func() {\n\t\tr := recover()\n", New: "\tscope, context, content, depth := st.scope, st.context, st.content, st.depth\n\n\tdefer func() {\n\t\tr := recover()\n"},
				{File: "eval.go", Old: "\t\t\t// st.Writer is already set to its original value since the later defer ran first\n\t\t\tst.scope, st.context, st.content = scope, context, content\n", New: "\t\t\t// st.Writer is already set to its original value since the later defer ran first\n\t\t\tst.scope, st.context, st.content, st.depth = scope, context, content, depth\n"}}, Rule: "-"},
			{Name: "content closure restores '.' from a save taken by the enclosing call (agent seed C07/2, reduced)", File: "eval.go", Old: "\t\t\tif expression != nil {\n\t\t\t\tcontext := st.context\n\t\t\t\tst.context = st.evalPrimaryExpressionGroup(expression)\n\t\t\t\tst.executeList(content)\n\t\t\t\tst.context = context\n\t\t\t} else {", New: "\t\t\tif expression != nil {\n\t\t\t\tst.context = st.evalPrimaryExpressionGroup(expression)\n\t\t\t\tst.executeList(content)\n\t\t\t\tst.context = mycontext\n\t\t\t} else {",
				More: []Edit{{File: "eval.go", Old: "\tmycontent := st.content\n\tif content != nil {", New: "\tmycontent, mycontext := st.content, st.context\n\tif content != nil {"}}, Rule: "C07.ctx"},
			{Name: "if with := forgets to pop its scope", File: "eval.go", Old: "\t\t\tif isLet {\n\t\t\t\tst.releaseScope()\n\t\t\t}\n\t\tcase NodeRange:", New: "\t\t\t_ = isLet\n\t\tcase NodeRange:", Rule: "C07.scope"},
			{Name: "range pops its scope only when it ran at least once", File: "eval.go", Old: "\t\t\tcleanup()\n\t\t\tst.context = context\n\t\t\tif isLet {\n\t\t\t\tst.releaseScope()\n\t\t\t}", New: "\t\t\tcleanup()\n\t\t\tst.context = context\n\t\t\tif isLet && rangeReturn.IsValid() {\n\t\t\t\tst.releaseScope()\n\t\t\t}", Rule: "C07.scope"},
			{Name: "range does not restore the context", File: "eval.go", Old: "\t\t\tcleanup()\n\t\t\tst.context = context\n", New: "\t\t\tcleanup()\n\t\t\t_ = context\n", Rule: "C07.ctx"},
			{Name: "equivalent: range restores the context exactly when it changed it", File: "eval.go", Old: "\t\t\tcleanup()\n\t\t\tst.context = context\n", New: "\t\t\tcleanup()\n\t\t\tif valVarSlot < 0 {\n\t\t\t\tst.context = context\n\t\t\t}\n", Rule: "-"},
			{Name: "block with context: context not restored", File: "eval.go", Old: "\t\tst.executeList(block.List)\n\t\tst.context = context\n\t} else {\n\t\tst.executeList(block.List)\n\t}\n\n\tst.content = mycontent", New: "\t\tst.executeList(block.List)\n\t\t_ = context\n\t} else {\n\t\tst.executeList(block.List)\n\t}\n\n\tst.content = mycontent", Rule: "C07.ctx"},
			{Name: "block does not restore the caller's content", File: "eval.go", Old: "\tst.content = mycontent\n\tif needNewScope {\n\t\tst.releaseScope()\n\t}", New: "\tif needNewScope {\n\t\tst.releaseScope()\n\t}", Rule: "C07.ctx"},
			{Name: "block parameters pushed but scope released only with yield params", File: "eval.go", Old: "\tst.content = mycontent\n\tif needNewScope {\n\t\tst.releaseScope()\n\t}", New: "\tst.content = mycontent\n\tif len(yieldParam.List) > 0 {\n\t\tst.releaseScope()\n\t}", Rule: "C07.scope"},
			{Name: ":= in an action declares into the enclosing scope", File: "eval.go", Old: "\t\t\t\t\tif !inNewScope {\n\t\t\t\t\t\tst.newScope()\n\t\t\t\t\t\tinNewScope = true\n\t\t\t\t\t\tdefer st.releaseScope()\n\t\t\t\t\t}\n", New: "\t\t\t\t\t_ = inNewScope\n", Rule: "C07.decl"},
			{Name: "include installs blocks before pushing its scope", File: "eval.go", Old: "\tst.newScope()\n\tdefer st.releaseScope()\n\n\tst.blocks = t.processedBlocks\n", New: "\tst.blocks = t.processedBlocks\n\n\tst.newScope()\n\tdefer st.releaseScope()\n", Rule: "C07.blocks"},
			{Name: "include pops without defer only on success path (early return leak)", File: "eval.go", Old: "\tst.newScope()\n\tdefer st.releaseScope()\n\n\tst.blocks = t.processedBlocks\n", New: "\tst.newScope()\n\n\tst.blocks = t.processedBlocks\n", Rule: "C07.scope"},
			{Name: "globals shadow local variables", File: "eval.go", Old: "\t// try current, then parent variable scopes\n\tsc := state.scope\n\tfor sc != nil {\n\t\tv, ok := sc.variables[name]\n\t\tif ok {\n\t\t\treturn indirectEface(v), nil\n\t\t}\n\t\tsc = sc.parent\n\t}\n\n\t// try globals\n\tstate.set.gmx.RLock()\n\tv, ok := state.set.globals[name]\n\tstate.set.gmx.RUnlock()\n\tif ok {\n\t\treturn indirectEface(v), nil\n\t}\n", New: "\t// try globals\n\tstate.set.gmx.RLock()\n\tv, ok := state.set.globals[name]\n\tstate.set.gmx.RUnlock()\n\tif ok {\n\t\treturn indirectEface(v), nil\n\t}\n\n\t// try current, then parent variable scopes\n\tsc := state.scope\n\tfor sc != nil {\n\t\tv, ok := sc.variables[name]\n\t\tif ok {\n\t\t\treturn indirectEface(v), nil\n\t\t}\n\t\tsc = sc.parent\n\t}\n", Rule: "C07.order"},
			{Name: "= only looks at the innermost scope", File: "eval.go", Old: "\t\t\tsc.variables[name] = val\n\t\t\treturn nil\n\t\t}\n\t\tsc = sc.parent\n\t}", New: "\t\t\tsc.variables[name] = val\n\t\t\treturn nil\n\t\t}\n\t\tbreak\n\t}", Rule: "C07.set"},
			{Name: "ints ranger hands out views of its counters (original defect)", File: "ranger.go", Old: "\tindex = reflect.ValueOf(r.i)\n\tvalue = reflect.ValueOf(r.val)\n", New: "\tindex = reflect.ValueOf(&r.i).Elem()\n\tvalue = reflect.ValueOf(&r.val).Elem()\n", Rule: "C07.alias"},
			{Name: "catch variable declared without its own scope", File: "eval.go", Old: "\t\t\t\tif try.Catch.Err != nil {\n\t\t\t\t\tst.newScope()\n\t\t\t\t\tst.scope.variables[try.Catch.Err.Ident] = reflect.ValueOf(r)\n\t\t\t\t}", New: "\t\t\t\tif try.Catch.Err != nil {\n\t\t\t\t\tst.scope.variables[try.Catch.Err.Ident] = reflect.ValueOf(r)\n\t\t\t\t}", Rule: "C07."},
			{Name: "YieldBlock does not restore the context", File: "eval.go", Old: "\t\tst.executeList(block.List)\n\t\tst.context = current\n\t\treturn\n", New: "\t\tst.executeList(block.List)\n\t\t_ = current\n\t\treturn\n", Rule: "C07.ctx"},
		},
	})
}

// pairFns selects the functions of package jet, reachable from Execute, that take part in the paired operations.
func pairFns(p *an.Prog) (fns []*an.Fn, poolFns map[*an.Fn]bool) {
	pairedFields := pairedFieldsFor(p)
	eval := p.Eval()
	poolFns = map[*an.Fn]bool{}
	for _, f := range an.SortedFns(eval) {
		if f.Pkg != p.Jet || f.Body == nil {
			continue
		}
		info := f.Info()
		interesting := false
		an.InspectOwn(f, func(n ast.Node) bool {
			switch x := n.(type) {
			case *ast.CallExpr:
				name := an.CalleeName(info, x)
				if name == newScopeFn || name == releaseScopeFn {
					interesting = true
				}
				if (name == "(*sync.Pool).Get" || name == "(*sync.Pool).Put") && isRuntimePool(info, an.Receiver(x)) {
					poolFns[f] = true
				}
			case *ast.DeferStmt:
				if fl, ok := x.Call.Fun.(*ast.FuncLit); ok {
					_ = fl
				}
			}
			an.Assigns(n, func(lhs, rhs ast.Expr, _ token.Token) {
				fk := p.FieldKey(info, lhs)
				for _, pf := range pairedFields {
					if fk == pf {
						interesting = true
					}
				}
				if fk == "scope.blocks" {
					interesting = true
				}
				if ix, ok := an.Unparen(lhs).(*ast.IndexExpr); ok && p.FieldKey(info, ix.X) == "scope.variables" {
					interesting = true
				}
			})
			return true
		})
		if interesting {
			fns = append(fns, f)
		}
	}
	return fns, poolFns
}

func runC07(c *an.Ctx) {
	p := c.P
	fns, poolFns := pairFns(p)
	c.Expect("C07.scope", "functions taking part in paired operations", len(fns), 10)
	c07swallow(c)
	c07scopeSwap(c)
	results := map[*an.Fn]*pairResult{}
	nPush, nPop, nDecl, nBlocks, nFieldFns := 0, 0, 0, 0, 0
	declarers := map[*an.Fn][]token.Pos{}
	for _, f := range fns {
		c.FnsAnalysed[f.Name] = true
		r := explorePairs(p, f)
		results[f] = r
		if len(r.pushSites)+len(r.popSites) > 0 {
			reportScope(c, "C07.scope", r)
			nPush += len(r.pushSites)
			nPop += len(r.popSites)
		} else {
			c.States += r.x.Visited
		}
		if !poolFns[f] {
			if len(r.fieldSeen) > 0 {
				nFieldFns++
			}
			reportFields(c, "C07.ctx", r, nil)
		}
		// declarations
		seenPos := map[token.Pos]bool{}
		for _, pos := range r.declOK {
			if !seenPos[pos] {
				seenPos[pos] = true
				nDecl++
				c.OK("C07.decl", f.Name+"/store", pos, "variable store is dominated by a newScope of this function")
			}
		}
		isAPI := f.Obj != nil && f.Obj.Exported()
		for _, pos := range r.declAt0 {
			if seenPos[pos] {
				continue
			}
			seenPos[pos] = true
			nDecl++
			if isAPI {
				c.Note("%s (%s) stores into the current scope by design (Go-side API, see C18.top)", f.Name, p.RelPos(pos))
				continue
			}
			declarers[f] = append(declarers[f], pos)
		}
		// blocks
		seenPos = map[token.Pos]bool{}
		for _, pos := range r.blocksOK {
			if !seenPos[pos] {
				seenPos[pos] = true
				nBlocks++
				c.OK("C07.blocks", f.Name, pos, "the block table is installed into a scope pushed by this function")
			}
		}
		for _, pos := range r.blocksAt0 {
			if seenPos[pos] || poolFns[f] {
				continue
			}
			seenPos[pos] = true
			nBlocks++
			c.Bad("C07.blocks", f.Name, pos, nil, "%s installs a block table into a scope it did not push: the caller's blocks are replaced and never restored", f.Name)
		}
	}
	// declaring helpers (stores at depth 0): every call must sit below a push of the caller
	for f, poss := range declarers {
		if f.Obj == nil {
			for _, pos := range poss {
				c.Bad("C07.decl", f.Name+"/store", pos, nil, "%s stores a variable into a scope it did not push: the declaration leaks into the enclosing scope", f.Name)
			}
			continue
		}
		sites := p.AllCalls(an.FuncName(f.Obj))
		if len(sites) == 0 {
			for _, pos := range poss {
				c.Bad("C07.decl", f.Name+"/store", pos, nil, "%s stores a variable into a scope it did not push and has no callers that push one", f.Name)
			}
			continue
		}
		for _, s := range sites {
			r := results[s.Fn]
			if r == nil {
				r = explorePairs(p, s.Fn)
				c.States += r.x.Visited
				results[s.Fn] = r
			}
			c.CallSites++
			d, reached := r.callDepth[s.Call]
			key := s.Fn.Name + "→" + f.Name
			switch {
			case !reached:
				c.Undecided("C07.decl", key, s.Call.Pos(), "call not reached by the exploration")
			case d >= 1:
				c.OK("C07.decl", key, s.Call.Pos(), "the declaring helper %s is called below a newScope of %s", f.Name, s.Fn.Name)
			default:
				c.Bad("C07.decl", key, s.Call.Pos(), nil, "%s declares variables into the current scope and is called by %s on a path without a preceding newScope: `:=` would write into the enclosing scope (or the caller's VarMap)", f.Name, s.Fn.Name)
			}
		}
	}
	// a variable declared by the header of an if or range (`if x := …`, `range k, v := …`) lives in a scope
	// of that very construct: the innermost scope open at the declaration was pushed by the same arm (or
	// by the same helper method), not by an earlier statement of the enclosing list
	nHeader := 0
	var hdrFns []*an.Fn
	for f := range results {
		hdrFns = append(hdrFns, f)
	}
	sort.Slice(hdrFns, func(i, j int) bool { return hdrFns[i].Name < hdrFns[j].Name })
	for _, f := range hdrFns {
		r := results[f]
		for n, pushes := range r.callPush {
			kind := branchHeaderDecl(p, f, n, declarers)
			if kind == "" {
				continue
			}
			nHeader++
			key := f.Name + "/header-scope:" + kind
			bad := ""
			for pos := range pushes {
				if !pos.IsValid() {
					bad = "no scope pushed by this function is open"
					break
				}
				if !sameConstruct(f, pos, n.Pos()) {
					bad = "the innermost open scope was pushed at " + p.RelPos(pos) + ", by another statement of the list"
					break
				}
			}
			if bad != "" {
				c.Bad("C07.decl", key, n.Pos(), nil, "the header variable of an %s statement is declared into a scope that does not belong to the statement (%s): it stays visible after {{end}} and overwrites a variable of the enclosing body with the same name", kind, bad)
			} else {
				c.OK("C07.decl", key, n.Pos(), "the header variable of the %s statement is declared into a scope pushed by the statement itself", kind)
			}
		}
	}
	c.Expect("C07.decl", "header declarations of if/range statements", nHeader, 3)
	c.Expect("C07.scope", "newScope sites", nPush, 7)
	c.Expect("C07.scope", "releaseScope sites (incl. deferred)", nPop, 7)
	c.Expect("C07.decl", "variable stores through the runtime", nDecl, 6)
	c.Expect("C07.blocks", "block table installs outside Execute", nBlocks, 3)
	c.Expect("C07.ctx", "functions changing context/content/Writer", nFieldFns, 5)

	c07order(c)
	c07set(c)
	c07alias(c)
}

// c07order: resolve consults scope chain → globals → built-ins.
func c07order(c *an.Ctx) {
	p := c.P
	f := c.Fn("C07.order", "(*Runtime).resolve")
	if f == nil {
		return
	}
	info := f.Info()
	classify := func(e ast.Expr) string {
		switch p.FieldKey(info, e) {
		case "scope.variables":
			return "S"
		case "Set.globals":
			return "G"
		}
		if id, ok := an.Unparen(e).(*ast.Ident); ok && id.Name == "defaultVariables" {
			if v, ok := an.ObjOf(info, id).(*types.Var); ok && v.Parent() == v.Pkg().Scope() {
				return "D"
			}
		}
		return ""
	}
	indexed := map[ast.Expr]bool{} // only map reads m[k] count, not other mentions of the map (e.g. in the error message)
	an.InspectOwn(f, func(n ast.Node) bool {
		if ix, ok := n.(*ast.IndexExpr); ok {
			indexed[an.Unparen(ix.X)] = true
		}
		return true
	})
	hooks := an.Hooks{
		Use: func(x *an.Explorer, e ast.Expr, st *an.State) {
			if !indexed[e] {
				return
			}
			if k := classify(e); k != "" {
				seq := st.Get("seq")
				if !strings.HasSuffix(seq, k) {
					st.Set("seq", seq+k)
				}
			}
		},
		// a table may be read by a function of the module that is called for it (a lookup under the lock with a
		// deferred unlock is not spliced into the caller): the call counts as the read
		Call: func(x *an.Explorer, call *ast.CallExpr, st *an.State) {
			g := p.FnByObj[an.Callee(info, call)]
			if g == nil || g.Body == nil || g == f {
				return
			}
			ginfo := g.Info()
			an.InspectBody(g, func(n ast.Node) bool {
				ix, ok := n.(*ast.IndexExpr)
				if !ok {
					return true
				}
				k := ""
				switch p.FieldKey(ginfo, ix.X) {
				case "scope.variables":
					k = "S"
				case "Set.globals":
					k = "G"
				}
				if id, ok := an.Unparen(ix.X).(*ast.Ident); ok && id.Name == "defaultVariables" {
					k = "D"
				}
				if k != "" {
					seq := st.Get("seq")
					if !strings.HasSuffix(seq, k) {
						st.Set("seq", seq+k)
					}
				}
				return true
			})
		},
	}
	x := p.NewExplorer(f, hooks)
	x.Run(nil)
	c.States += x.Visited
	// the scope chain may be empty on a CFG path (zero loop iterations), so S is optional but must come first
	valid := func(seq string) (string, bool) {
		rest := strings.TrimPrefix(seq, "S")
		return rest, rest == "" || rest == "G" || rest == "GD"
	}
	bad := false
	sawFull := false
	for _, ex := range x.Exits {
		if ex.Kind != an.ExitReturn || ex.Ret == nil {
			continue
		}
		seq := ex.State.Get("seq")
		rest, ok := valid(seq)
		if seq == "SGD" {
			sawFull = true
		}
		if !ok && !bad {
			bad = true
			c.Bad("C07.order", "(*Runtime).resolve", ex.Ret.Pos(), ex.Trail, "identifier lookup consults the tables in the order %q (S=scope chain, G=Set globals, D=built-ins) instead of scope chain, then globals, then built-ins", seq)
		}
		// an error return must have consulted globals and built-ins
		if len(ex.Ret.Results) == 2 {
			if id, isId := an.Unparen(ex.Ret.Results[1]).(*ast.Ident); !(isId && id.Name == "nil") && rest != "GD" && !bad {
				bad = true
				c.Bad("C07.order", "(*Runtime).resolve", ex.Ret.Pos(), ex.Trail, "identifier lookup reports failure after consulting only %q", seq)
			}
		}
	}
	if !bad {
		c.Check(sawFull, "C07.order", "(*Runtime).resolve", f.Pos(), "lookup order is scope chain → globals → built-ins → error", "no path consults all of scope chain, globals and built-ins")
	}
	// the scope walk is a loop to the root
	okLoop := false
	an.InspectOwn(f, func(n ast.Node) bool {
		fs, ok := n.(*ast.ForStmt)
		if !ok {
			return true
		}
		adv := false
		stmts := append([]ast.Stmt{}, fs.Body.List...)
		if fs.Post != nil {
			stmts = append(stmts, fs.Post) // for sc := …; sc != nil; sc = sc.parent
		}
		for _, st := range stmts {
			if as, ok := st.(*ast.AssignStmt); ok && len(as.Lhs) == 1 && len(as.Rhs) == 1 && p.FieldKey(info, as.Rhs[0]) == "scope.parent" {
				adv = true
			}
		}
		if b, isBin := an.Unparen(fs.Cond).(*ast.BinaryExpr); adv && fs.Cond != nil && isBin && b.Op == token.NEQ && (an.Str(b.Y) == "nil" || an.Str(b.X) == "nil") {
			okLoop = true
		}
		return true
	})
	c.Check(okLoop, "C07.order", "(*Runtime).resolve/chain", f.Pos(), "the scope chain is walked to its root", "identifier lookup does not walk the scope chain to its root")
}

// c07set: setValue rebinds in the innermost declaring scope, walking to the root, and fails after the loop.
func c07set(c *an.Ctx) {
	p := c.P
	f := c.Fn("C07.set", "(*Runtime).setValue")
	if f == nil {
		return
	}
	info := f.Info()
	// the presence flags of lookups in a scope's variables: _, ok := sc.variables[name]
	presentVars := map[string]bool{}
	an.InspectOwn(f, func(n ast.Node) bool {
		if as, isAs := n.(*ast.AssignStmt); isAs && len(as.Lhs) == 2 && len(as.Rhs) == 1 {
			if ix, isIx := an.Unparen(as.Rhs[0]).(*ast.IndexExpr); isIx && p.FieldKey(info, ix.X) == "scope.variables" {
				presentVars[an.Str(as.Lhs[1])] = true
			}
		}
		return true
	})
	skipped := ""
	x := p.NewExplorer(f, an.Hooks{
		Branch: func(x *an.Explorer, cond ast.Expr, val bool, st *an.State) {
			if id, ok := an.Unparen(cond).(*ast.Ident); ok && presentVars[id.Name] {
				if val {
					st.Set("absent", "")
				} else {
					st.Set("absent", "1")
				}
			}
			// the walker ran off the end of the chain: <scope pointer> != nil is false (== nil is true)
			if b, ok := an.Unparen(cond).(*ast.BinaryExpr); ok && (b.Op == token.NEQ || b.Op == token.EQL) {
				xe, ye := an.Unparen(b.X), an.Unparen(b.Y)
				if an.Str(xe) == "nil" {
					xe, ye = ye, xe
				}
				if an.Str(ye) == "nil" && val == (b.Op == token.EQL) {
					if tv, ok := info.Types[xe]; ok && tv.Type != nil && an.TypeName(tv.Type) == "*jet.scope" {
						st.Set("walkedOut", "1")
					}
				}
			}
		},
		PreAssign: func(x *an.Explorer, lhs, rhs ast.Expr, stmt ast.Node, st *an.State) {
			if as, isAs := stmt.(*ast.AssignStmt); isAs && len(as.Lhs) == 2 && len(as.Rhs) == 1 {
				if ix, isIx := an.Unparen(as.Rhs[0]).(*ast.IndexExpr); isIx && p.FieldKey(info, ix.X) == "scope.variables" {
					st.Set("absent", "") // a new lookup: nothing known yet
				}
			}
			if ix, ok := an.Unparen(lhs).(*ast.IndexExpr); ok && p.FieldKey(info, ix.X) == "scope.variables" {
				if rebinding(x, st, ix) {
					st.Set("stored", "rebind")
				} else {
					st.Set("stored", "blind")
				}
			}
			if p.FieldKey(info, rhs) == "scope.parent" {
				st.Set("walked", "1")
				// the walk leaves a scope only when the name is known to be absent from it: a scope that
				// declares the name — whatever value it holds, nil included — is the one `=` rebinds
				absent := st.Get("absent") == "1" // (a register: the flag's own scope may have ended by now)
				for okName := range presentVars {
					if an.FactIs(st, okName, false) {
						absent = true
					}
				}
				st.Set("absent", "")
				if !absent && skipped == "" {
					skipped = "setValue walks on to the parent scope on a path where the current scope may declare the name (its presence test is not known to have failed): an outer variable of the same name is assigned instead"
				}
			}
		},
	})
	x.Run(nil)
	c.States += x.Visited
	ok := true
	why := skipped
	sawErr, sawOK := false, false
	for _, ex := range x.Exits {
		if ex.Kind != an.ExitReturn || ex.Ret == nil || len(ex.Ret.Results) != 1 {
			continue
		}
		isNil := false
		if id, isId := an.Unparen(ex.Ret.Results[0]).(*ast.Ident); isId && id.Name == "nil" {
			isNil = true
		}
		switch {
		case isNil && ex.State.Get("stored") != "rebind":
			ok, why = false, "setValue reports success without having rebound an existing variable"
		case isNil:
			sawOK = true
		case !isNil && ex.State.Get("stored") != "":
			ok, why = false, "setValue stores and still reports an error"
		case !isNil:
			sawErr = true
			// the error exit must lie after a loop that walked parents: the fact sc == nil holds
			walkedOut := ex.State.Get("walkedOut") != ""
			if !walkedOut {
				ok, why = false, "setValue gives up before the scope chain was walked to its end"
			}
		}
	}
	walks := false
	an.InspectOwn(f, func(n ast.Node) bool {
		if fs, isFor := n.(*ast.ForStmt); isFor {
			stmts := append([]ast.Stmt{}, fs.Body.List...)
			if fs.Post != nil {
				stmts = append(stmts, fs.Post)
			}
			for _, st := range stmts {
				if as, isAs := st.(*ast.AssignStmt); isAs && len(as.Rhs) == 1 && p.FieldKey(info, as.Rhs[0]) == "scope.parent" {
					walks = true
				}
			}
		}
		return true
	})
	if ok && !(sawErr && sawOK && walks) {
		ok, why = false, "setValue does not both rebind on a hit (walking parent scopes) and fail after the chain is exhausted"
	}
	if skipped != "" {
		ok = false
	}
	c.Check(ok, "C07.set", "(*Runtime).setValue", f.Pos(), "`=` rebinds the innermost scope that declares the name, walks to the root and fails after it", why)
}

// c07alias: Range methods must not return addressable views of receiver fields they mutate.
func c07alias(c *an.Ctx) {
	p := c.P
	iface := p.Iface("", "Ranger")
	if iface == nil {
		c.Anchor("C07.alias", "interface Ranger")
		return
	}
	var rangeM *types.Func
	for i := 0; i < iface.NumMethods(); i++ {
		if iface.Method(i).Name() == "Range" {
			rangeM = iface.Method(i)
		}
	}
	impls := p.Implementations(rangeM)
	c.Expect("C07.alias", "Range implementations", len(impls), 4)
	for _, f := range impls {
		c.FnsAnalysed[f.Name] = true
		info := f.Info()
		recv := f.Sig.Recv()
		mutated := map[string]bool{}
		an.InspectOwn(f, func(n ast.Node) bool {
			an.Assigns(n, func(lhs, _ ast.Expr, _ token.Token) {
				if sel, ok := an.Unparen(lhs).(*ast.SelectorExpr); ok {
					if id, ok := an.Unparen(sel.X).(*ast.Ident); ok && an.ObjOf(info, id) == types.Object(recv) {
						mutated[sel.Sel.Name] = true
					}
				}
			})
			return true
		})
		bad := false
		an.InspectOwn(f, func(n ast.Node) bool {
			u, ok := n.(*ast.UnaryExpr)
			if !ok || u.Op != token.AND {
				return true
			}
			sel, ok := an.Unparen(u.X).(*ast.SelectorExpr)
			if !ok {
				return true
			}
			if id, ok := an.Unparen(sel.X).(*ast.Ident); ok && an.ObjOf(info, id) == types.Object(recv) && mutated[sel.Sel.Name] {
				bad = true
				c.Bad("C07.alias", f.Name, u.Pos(), nil, "%s takes the address of %s, a field it mutates on every call: a value handed to the template (loop variable) changes after the next iteration", f.Name, an.Str(sel))
			}
			return true
		})
		// … nor a reflect.Value kept in a field that Range overwrites in place (v.Set…(…)): every iteration would hand
		// out the same settable value, and what a template stored from an earlier iteration changes with the next
		setInPlace := map[string]bool{}
		isRecvField := func(e ast.Expr) (string, bool) {
			sel, ok := an.Unparen(e).(*ast.SelectorExpr)
			if !ok {
				return "", false
			}
			if id, ok := an.Unparen(sel.X).(*ast.Ident); ok && an.ObjOf(info, id) == types.Object(recv) {
				return sel.Sel.Name, true
			}
			return "", false
		}
		an.InspectOwn(f, func(n ast.Node) bool {
			if call, ok := n.(*ast.CallExpr); ok && strings.HasPrefix(an.CalleeName(info, call), "(reflect.Value).Set") {
				if name, ok := isRecvField(an.Receiver(call)); ok {
					setInPlace[name] = true
				}
			}
			return true
		})
		if len(setInPlace) > 0 && !bad {
			results := map[types.Object]bool{}
			for i := 0; i < f.Sig.Results().Len(); i++ {
				results[f.Sig.Results().At(i)] = true
			}
			handedOut := func(e ast.Expr, pos token.Pos) {
				for _, o := range valueOrigins(f, e, 0) {
					if name, ok := isRecvField(o); ok && setInPlace[name] && !bad {
						bad = true
						c.Bad("C07.alias", f.Name, pos, nil, "%s hands out %s, a reflect.Value it overwrites in place (Set…) on every call: a value the template kept from one iteration (loop variable copied into an outer variable) changes with the next", f.Name, an.Str(o))
					}
				}
			}
			an.InspectOwn(f, func(n ast.Node) bool {
				if ret, ok := n.(*ast.ReturnStmt); ok {
					for _, r := range ret.Results {
						handedOut(r, r.Pos())
					}
				}
				an.Assigns(n, func(lhs, rhs ast.Expr, _ token.Token) {
					if id, ok := an.Unparen(lhs).(*ast.Ident); ok && rhs != nil && results[an.ObjOf(info, id)] {
						handedOut(rhs, rhs.Pos())
					}
				})
				return true
			})
		}
		if !bad {
			c.OK("C07.alias", f.Name, f.Pos(), "no returned value aliases ranger state that Range mutates (mutated fields: %s)", fmt.Sprint(keys(mutated)))
		}
	}
}

func keys(m map[string]bool) []string {
	var out []string
	for k := range m {
		out = append(out, k)
	}
	return out
}

// branchHeaderDecl: n is a declaration made for the header of an if or range statement — a call of a
// declaring helper, or a direct store into the variables map, whose operands mention X.Set with X an
// *IfNode or *RangeNode.  Returns "if", "range" or "".
func branchHeaderDecl(p *an.Prog, f *an.Fn, n ast.Node, declarers map[*an.Fn][]token.Pos) string {
	info := f.Info()
	switch v := n.(type) {
	case *ast.CallExpr:
		g := p.FnByObj[an.Callee(info, v)]
		if g == nil || declarers[g] == nil {
			return ""
		}
	case *ast.IndexExpr:
	default:
		return ""
	}
	kind := ""
	ast.Inspect(n, func(m ast.Node) bool {
		sel, ok := m.(*ast.SelectorExpr)
		if !ok || sel.Sel.Name != "Set" {
			return true
		}
		if tv, ok := info.Types[sel.X]; ok && tv.Type != nil {
			switch an.TypeName(tv.Type) {
			case "*jet.IfNode":
				kind = "if"
			case "*jet.RangeNode":
				kind = "range"
			}
		}
		return true
	})
	return kind
}

// sameConstruct: the scope pushed at a belongs to the statement that declares at b — both lie in the same
// function and in the same arm of its dispatch on node types (the clauses of a switch with a tag or of
// a type switch; a tag-less `switch { case cond: }` is an if-else chain and separates nothing).  The
// declaration may sit deeper, in a dispatch of its own inside that arm.
func sameConstruct(f *an.Fn, a, b token.Pos) bool {
	p := f.P
	fa, fb := p.OwnerFn(a), p.OwnerFn(b)
	if fa == nil || fb == nil || fa != fb {
		return false
	}
	arm := func(pos token.Pos, innermost bool) *ast.CaseClause {
		var best *ast.CaseClause
		ast.Inspect(fa.Body, func(n ast.Node) bool {
			if n == nil || pos < n.Pos() || pos >= n.End() {
				return n == nil || false
			}
			var clauses []ast.Stmt
			switch sw := n.(type) {
			case *ast.SwitchStmt:
				if sw.Tag != nil {
					clauses = sw.Body.List
				}
			case *ast.TypeSwitchStmt:
				clauses = sw.Body.List
			}
			for _, cl := range clauses {
				if cc := cl.(*ast.CaseClause); cc.Pos() <= pos && pos < cc.End() && (innermost || best == nil) {
					best = cc
				}
			}
			return true
		})
		return best
	}
	push := arm(a, true)
	if push == nil {
		return arm(b, false) == nil
	}
	return push.Pos() <= b && b < push.End()
}
