package rules

import (
	"go/ast"
	"go/token"
	"go/types"
	"sort"
	"strings"

	"jetverif/an"
)

// c07swallow (C07.swallow): the constructs of the interpreter put the scope chain, '.', and the block content back by
// plain statements, which a panic skips (M of C13.restore, computed on every run).  A function *inside* the
// evaluation that recovers a panic and lets the evaluation go on — other than executeTry, whose handler is
// C13.restore's subject — therefore continues with the state of whatever construct failed below it unless it
// saved M before anything could fail and stores it back on every recovered path of its handler.  (isset: the
// failure of `exec()` below a range inside `isset(m[exec("t")])` left '.' at the range element.)
func c07swallow(c *an.Ctx) {
	p := c.P
	fields, scopeWhere := unwindState(c)
	type member struct{ field, why string }
	var M []member
	if scopeWhere != "" {
		M = append(M, member{"Runtime.scope", scopeWhere})
	}
	var fks []string
	for f := range fields {
		fks = append(fks, f)
	}
	sort.Strings(fks)
	for _, f := range fks {
		if f == "escapeeWriter.Writer" {
			continue // every change of the Writer in the evaluation is put back by a deferred statement (C07.ctx, C13.buffer)
		}
		M = append(M, member{f, fields[f]})
	}
	// functions from which a construct with a plain restore is reachable
	changers := map[*an.Fn]bool{}
	fns, poolFns := pairFns(p)
	for _, f := range fns {
		if poolFns[f] {
			continue
		}
		r := explorePairs(p, f)
		if len(r.plainRestore) > 0 || (r.plainPop.IsValid() && len(r.pushSites) > 0) {
			changers[f.Root()] = true
		}
	}
	reachesChanger := func(f *an.Fn) bool {
		for g := range p.Reach(f) {
			if changers[g.Root()] {
				return true
			}
		}
		return false
	}
	inside := p.Reach(p.Fn("(*Runtime).executeList"))
	try := p.Fn("(*Runtime).executeTry")
	nGuards := 0
	for _, f := range p.Units() {
		if f.Pkg != p.Jet || f.Body == nil || f.Decl == nil || f == try || !inside[f] {
			continue
		}
		info := f.Info()
		// the guard: a deferred literal (or function) of f's own body that calls recover()
		var handler *an.Fn
		guardAt := -1
		for i, s := range f.Body.List {
			d, ok := s.(*ast.DeferStmt)
			if !ok {
				continue
			}
			if fl, ok := an.Unparen(d.Call.Fun).(*ast.FuncLit); ok {
				if lf := p.FnByLit[fl]; lf != nil && len(p.CallsIn(lf, "builtin.recover")) > 0 {
					handler, guardAt = lf, i
					break
				}
			} else if g := p.FnByObj[an.Callee(info, d.Call)]; g != nil && g.Body != nil && len(p.CallsIn(g, "builtin.recover")) > 0 {
				handler, guardAt = g, i
				break
			}
		}
		if handler == nil || !reachesChanger(f) {
			continue
		}
		nGuards++
		c.FnsAnalysed[f.Name] = true
		// saved: local ← st.<field> by a top-level statement before the guard is installed
		saved := map[string]types.Object{}
		for _, s := range f.Body.List[:guardAt] {
			an.Assigns(s, func(lhs, rhs ast.Expr, _ token.Token) {
				if id, ok := lhs.(*ast.Ident); ok && rhs != nil {
					if fk := p.FieldKey(info, rhs); fk != "" && throughRuntime(p, info, rhs) {
						if _, dup := saved[fk]; !dup {
							saved[fk] = an.ObjOf(info, id)
						}
					}
				}
			})
		}
		hinfo := handler.Info()
		var recovered types.Object
		an.InspectOwn(handler, func(n ast.Node) bool {
			an.Assigns(n, func(lhs, rhs ast.Expr, _ token.Token) {
				if call, ok := an.Unparen(rhs).(*ast.CallExpr); ok && rhs != nil && an.IsCallTo(hinfo, call, "builtin.recover") {
					if id, ok := lhs.(*ast.Ident); ok {
						recovered = an.ObjOf(hinfo, id)
					}
				}
			})
			return true
		})
		// what is known about the recovered value is kept in a register: the variable may be local to an if
		recFact := func(st *an.State) {
			if recovered == nil {
				return
			}
			for k, v := range st.Facts {
				pk := an.PlainKey(k)
				if pk == an.RoleOf(recovered)+" == nil" || pk == "nil == "+an.RoleOf(recovered) {
					if v {
						st.Set("rec", "no")
					} else {
						st.Set("rec", "yes")
					}
				}
			}
		}
		// (a path on which nothing is known may have recovered something)
		isRecovered := func(st *an.State) bool { return st.Get("rec") != "no" }
		x := p.NewExplorer(handler, an.Hooks{
			Branch: func(x *an.Explorer, cond ast.Expr, val bool, st *an.State) {
				recFact(st)
				// `if recover() != nil`
				if b, ok := an.Unparen(cond).(*ast.BinaryExpr); ok && (b.Op == token.NEQ || b.Op == token.EQL) {
					for _, pair := range [][2]ast.Expr{{b.X, b.Y}, {b.Y, b.X}} {
						call, isCall := an.Unparen(pair[0]).(*ast.CallExpr)
						if isCall && an.IsCallTo(hinfo, call, "builtin.recover") && an.Str(an.Unparen(pair[1])) == "nil" {
							if (b.Op == token.NEQ) == val {
								st.Set("rec", "yes")
							} else {
								st.Set("rec", "no")
							}
						}
					}
				}
			},
			PreAssign: func(x *an.Explorer, lhs, rhs ast.Expr, stmt ast.Node, st *an.State) {
				fk := p.FieldKey(hinfo, lhs)
				if fk == "" || rhs == nil || !throughRuntime(p, hinfo, lhs) {
					return
				}
				if id, ok := an.Unparen(rhs).(*ast.Ident); ok && saved[fk] != nil && an.ObjOf(hinfo, id) == saved[fk] {
					st.Set("rest:"+fk, "1")
				}
			},
		})
		x.Run(nil)
		c.States += x.Visited
		if x.Undecided != "" {
			c.Undecided("C07.swallow", f.Name+"/guard", f.Pos(), "%s", x.Undecided)
			continue
		}
		type verdict struct {
			pos   token.Pos
			trail []string
		}
		bad := map[string]*verdict{}
		swallows := false
		for _, ex := range x.Exits {
			if ex.Kind != an.ExitReturn || !isRecovered(ex.State) {
				continue
			}
			swallows = true
			for _, m := range M {
				if ex.State.Get("rest:"+m.field) == "" && bad[m.field] == nil {
					bad[m.field] = &verdict{handler.Pos(), ex.Trail}
				}
			}
		}
		if !swallows {
			c.OK("C07.swallow", f.Name+"/guard", handler.Pos(), "the guard never returns normally after recovering something: the evaluation does not go on")
			continue
		}
		for _, m := range M {
			key := f.Name + "/" + m.field
			sv := saved[m.field]
			switch {
			case sv == nil:
				c.Bad("C07.swallow", key, f.Pos(), nil,
					"%s recovers panics raised below it and lets the evaluation go on, but does not save %s before its guard is installed: %s puts it back only on normal exits, so after a swallowed failure the rest of the template runs with the value of the construct that failed",
					f.Name, m.field, m.why)
			case bad[m.field] != nil:
				c.Bad("C07.swallow", key, bad[m.field].pos, bad[m.field].trail,
					"%s (restored only on normal exits by %s) is not stored back from %q on every path of %s's guard that recovered something and returns", m.field, m.why, sv.Name(), f.Name)
			default:
				c.OK("C07.swallow", key, handler.Pos(), "saved in %q before the guard and stored back on every recovered path (needed because of %s)", sv.Name(), strings.TrimSpace(m.why))
			}
		}
	}
	c.Expect("C07.swallow", "functions inside the evaluation that swallow a panic (other than executeTry)", nGuards, 1)
}
