package rules

import (
	"go/ast"
	"go/token"
	"go/types"
	"sort"
	"strings"

	"jetverif/an"
)

// c07swallow (C07.swallow): the constructs of the interpreter put the scope chain, '.', and the block content back by
// plain statements, which a panic skips (M of C13.restore, computed on every run).  A function *inside* the
// evaluation that recovers a panic and lets the evaluation go on — other than executeTry, whose handler is
// C13.restore's subject — therefore continues with the state of whatever construct failed below it unless it
// saved M before anything could fail and stores it back on every recovered path of its handler.  (isset: the
// failure of `exec()` below a range inside `isset(m[exec("t")])` left '.' at the range element.)
func c07swallow(c *an.Ctx) {
	p := c.P
	fields, scopeWhere := unwindState(c)
	type member struct{ field, why string }
	var M []member
	if scopeWhere != "" {
		M = append(M, member{"Runtime.scope", scopeWhere})
	}
	var fks []string
	for f := range fields {
		fks = append(fks, f)
	}
	sort.Strings(fks)
	for _, f := range fks {
		if f == "escapeeWriter.Writer" {
			continue // every change of the Writer in the evaluation is put back by a deferred statement (C07.ctx, C13.buffer)
		}
		M = append(M, member{f, fields[f]})
	}
	// functions from which a construct with a plain restore is reachable
	changers := map[*an.Fn]bool{}
	fns, poolFns := pairFns(p)
	for _, f := range fns {
		if poolFns[f] {
			continue
		}
		r := explorePairs(p, f)
		if len(r.plainRestore) > 0 || (r.plainPop.IsValid() && len(r.pushSites) > 0) {
			changers[f.Root()] = true
		}
	}
	reachesChanger := func(f *an.Fn) bool {
		for g := range p.Reach(f) {
			if changers[g.Root()] {
				return true
			}
		}
		return false
	}
	inside := p.Reach(p.Fn("(*Runtime).executeList"))
	try := p.Fn("(*Runtime).executeTry")
	nGuards := 0
	for _, f := range p.Units() {
		if f.Pkg != p.Jet || f.Body == nil || f.Decl == nil || f == try || !inside[f] {
			continue
		}
		info := f.Info()
		// the guard: a deferred literal (or function) of f's own body that calls recover()
		var handler *an.Fn
		guardAt := -1
		for i, s := range f.Body.List {
			d, ok := s.(*ast.DeferStmt)
			if !ok {
				continue
			}
			if fl, ok := an.Unparen(d.Call.Fun).(*ast.FuncLit); ok {
				if lf := p.FnByLit[fl]; lf != nil && len(p.CallsIn(lf, "builtin.recover")) > 0 {
					handler, guardAt = lf, i
					break
				}
			} else if g := p.FnByObj[an.Callee(info, d.Call)]; g != nil && g.Body != nil && len(p.CallsIn(g, "builtin.recover")) > 0 {
				handler, guardAt = g, i
				break
			}
		}
		if handler == nil || !reachesChanger(f) {
			continue
		}
		nGuards++
		c.FnsAnalysed[f.Name] = true
		// saved: local ← st.<field> by a top-level statement before the guard is installed
		saved := map[string]types.Object{}
		savedIn := map[string]string{} // field → member of the struct local that carries it (saved := T{scope: st.scope, …}, or the result of a helper that builds it)
		for _, s := range f.Body.List[:guardAt] {
			an.Assigns(s, func(lhs, rhs ast.Expr, _ token.Token) {
				if id, ok := lhs.(*ast.Ident); ok && rhs != nil {
					if fk := p.FieldKey(info, rhs); fk != "" && throughRuntime(p, info, rhs) {
						if _, dup := saved[fk]; !dup {
							saved[fk] = an.ObjOf(info, id)
						}
					}
					if obj := an.ObjOf(info, id); obj != nil {
						if lit := savedStructLit(p, f, obj); lit != nil {
							linfo := info
							if o := p.OwnerFn(lit.Pos()); o != nil {
								linfo = o.Info()
							}
							for _, m := range litMembers(linfo, lit) {
								if efk := p.FieldKey(linfo, m.val); efk != "" && throughRuntime(p, linfo, m.val) {
									if _, dup := saved[efk]; !dup {
										saved[efk] = obj
										savedIn[efk] = m.name
									}
								}
							}
						}
					}
				}
			})
		}
		hinfo := handler.Info()
		recBranch, isRecovered := recTracker(handler)
		x := p.NewExplorer(handler, an.Hooks{
			Branch: recBranch,
			PreAssign: func(x *an.Explorer, lhs, rhs ast.Expr, stmt ast.Node, st *an.State) {
				fk := p.FieldKey(hinfo, lhs)
				if fk == "" || rhs == nil || !throughRuntime(p, hinfo, lhs) {
					return
				}
				if id, ok := an.Unparen(rhs).(*ast.Ident); ok && saved[fk] != nil && savedIn[fk] == "" && an.ObjOf(hinfo, id) == saved[fk] {
					st.Set("rest:"+fk, "1")
				}
				if savedIn[fk] != "" {
					if o, member, ok := structMember(p, handler, rhs); ok && o == saved[fk] && member == savedIn[fk] {
						st.Set("rest:"+fk, "1")
					}
				}
			},
		})
		x.Run(nil)
		c.States += x.Visited
		if x.Undecided != "" {
			c.Undecided("C07.swallow", f.Name+"/guard", f.Pos(), "%s", x.Undecided)
			continue
		}
		type verdict struct {
			pos   token.Pos
			trail []string
		}
		bad := map[string]*verdict{}
		swallows := false
		for _, ex := range x.Exits {
			if ex.Kind != an.ExitReturn || !isRecovered(ex.State) {
				continue
			}
			swallows = true
			for _, m := range M {
				if ex.State.Get("rest:"+m.field) == "" && bad[m.field] == nil {
					bad[m.field] = &verdict{handler.Pos(), ex.Trail}
				}
			}
		}
		if !swallows {
			c.OK("C07.swallow", f.Name+"/guard", handler.Pos(), "the guard never returns normally after recovering something: the evaluation does not go on")
			continue
		}
		for _, m := range M {
			key := f.Name + "/" + m.field
			sv := saved[m.field]
			switch {
			case sv == nil:
				c.Bad("C07.swallow", key, f.Pos(), nil,
					"%s recovers panics raised below it and lets the evaluation go on, but does not save %s before its guard is installed: %s puts it back only on normal exits, so after a swallowed failure the rest of the template runs with the value of the construct that failed",
					f.Name, m.field, m.why)
			case bad[m.field] != nil:
				c.Bad("C07.swallow", key, bad[m.field].pos, bad[m.field].trail,
					"%s (restored only on normal exits by %s) is not stored back from %q on every path of %s's guard that recovered something and returns", m.field, m.why, sv.Name(), f.Name)
			default:
				c.OK("C07.swallow", key, handler.Pos(), "saved in %q before the guard and stored back on every recovered path (needed because of %s)", sv.Name(), strings.TrimSpace(m.why))
			}
		}
	}
	c.Expect("C07.swallow", "functions inside the evaluation that swallow a panic (other than executeTry)", nGuards, 1)
}

// recTracker follows, through a recover handler, what is known about the recovered value: the Branch hook keeps it
// in the register "rec" ("yes"/"no") — the variable holding recover()'s result may be local to an if, or there may
// be none (`if recover() == nil { return }`); isRecovered reports whether a state may have recovered something (a
// path on which nothing is known counts).
func recTracker(handler *an.Fn) (func(x *an.Explorer, cond ast.Expr, val bool, st *an.State), func(st *an.State) bool) {
	hinfo := handler.Info()
	var recovered types.Object
	an.InspectOwn(handler, func(n ast.Node) bool {
		an.Assigns(n, func(lhs, rhs ast.Expr, _ token.Token) {
			if call, ok := an.Unparen(rhs).(*ast.CallExpr); ok && rhs != nil && an.IsCallTo(hinfo, call, "builtin.recover") {
				if id, ok := lhs.(*ast.Ident); ok {
					recovered = an.ObjOf(hinfo, id)
				}
			}
		})
		return true
	})
	branch := func(x *an.Explorer, cond ast.Expr, val bool, st *an.State) {
		if recovered != nil {
			for k, v := range st.Facts {
				pk := an.PlainKey(k)
				if pk == an.RoleOf(recovered)+" == nil" || pk == "nil == "+an.RoleOf(recovered) {
					if v {
						st.Set("rec", "no")
					} else {
						st.Set("rec", "yes")
					}
				}
			}
		}
		// `if recover() != nil`
		if b, ok := an.Unparen(cond).(*ast.BinaryExpr); ok && (b.Op == token.NEQ || b.Op == token.EQL) {
			for _, pair := range [][2]ast.Expr{{b.X, b.Y}, {b.Y, b.X}} {
				call, isCall := an.Unparen(pair[0]).(*ast.CallExpr)
				if isCall && an.IsCallTo(hinfo, call, "builtin.recover") && an.Str(an.Unparen(pair[1])) == "nil" {
					if (b.Op == token.NEQ) == val {
						st.Set("rec", "yes")
					} else {
						st.Set("rec", "no")
					}
				}
			}
		}
	}
	return branch, func(st *an.State) bool { return st.Get("rec") != "no" }
}

// c07scopeSwap (C07.scope swap-deferred): the lists of the interpreter release their scopes relative to the current
// chain (`st.scope = st.scope.parent`), many of them by a deferred call that also runs while a failure unwinds.  A
// function inside the evaluation that switches Runtime.scope to another chain altogether (the content closure runs
// the caller's content in the scope of the yield site) must therefore switch back by a *deferred* statement registered
// before anything that can fail: with a plain statement, a failure of the content leaves the foreign chain in place,
// the still-open lists of the block pop *its* scopes — past the bottom for two or more, a nil dereference that
// replaces the template's error and is re-panicked out of Execute.
func c07scopeSwap(c *an.Ctx) {
	p := c.P
	inside := p.Reach(p.Fn("(*Runtime).executeList"))
	n := 0
	for _, f := range p.Units() {
		if f.Pkg != p.Jet || f.Body == nil || (!inside[f] && !inside[f.Root()]) {
			continue
		}
		switch f.Root().Name {
		case "(*Runtime).newScope", "(*Runtime).releaseScope":
			continue
		}
		info := f.Info()
		// recover handlers put the chain back after a failure: not a swap
		if len(p.CallsIn(f, "builtin.recover")) > 0 {
			continue
		}
		var stores []ast.Expr
		an.InspectBody(f, func(nd ast.Node) bool {
			an.Assigns(nd, func(lhs, rhs ast.Expr, _ token.Token) {
				if p.FieldKey(info, lhs) == "Runtime.scope" && throughRuntime(p, info, lhs) && rhs != nil {
					stores = append(stores, lhs)
				}
			})
			return true
		})
		if len(stores) == 0 {
			continue
		}
		// a literal that is itself the operand of a defer statement restores: its stores are not swaps
		if f.Lit != nil && deferredInParent(f) {
			continue
		}
		c.FnsAnalysed[f.Name] = true
		bad := token.NoPos
		what := ""
		x := p.NewExplorer(f, an.Hooks{
			PreAssign: func(x *an.Explorer, lhs, rhs ast.Expr, stmt ast.Node, st *an.State) {
				if id, ok := an.Unparen(lhs).(*ast.Ident); ok && rhs != nil && p.FieldKey(info, rhs) == "Runtime.scope" {
					st.Set("saved", id.Name)
					return
				}
				if p.FieldKey(info, lhs) != "Runtime.scope" || !throughRuntime(p, info, lhs) || rhs == nil {
					return
				}
				if id, ok := an.Unparen(rhs).(*ast.Ident); ok && id.Name == st.Get("saved") {
					st.Set("swapped", "") // the plain switch back
					return
				}
				if st.Get("dres") == "" {
					st.Set("swapped", p.RelPos(lhs.Pos()))
				}
			},
			Defer: func(x *an.Explorer, d *ast.DeferStmt, st *an.State) {
				if fl, ok := an.Unparen(d.Call.Fun).(*ast.FuncLit); ok {
					ast.Inspect(fl.Body, func(nd ast.Node) bool {
						an.Assigns(nd, func(lhs, rhs ast.Expr, _ token.Token) {
							if p.FieldKey(info, lhs) == "Runtime.scope" && rhs != nil {
								if id, ok := an.Unparen(rhs).(*ast.Ident); ok && id.Name == st.Get("saved") {
									st.Set("dres", "1")
								}
							}
						})
						return true
					})
				}
			},
			Call: func(x *an.Explorer, call *ast.CallExpr, st *an.State) {
				if st.Get("swapped") != "" && st.Get("dres") == "" && !bad.IsValid() && !c11cannotPanic(p, f, call, 0) {
					bad, what = call.Pos(), an.Str(call.Fun)
				}
			},
		})
		x.Run(nil)
		c.States += x.Visited
		n++
		key := f.Name + "/swap-deferred"
		switch {
		case x.Undecided != "":
			c.Undecided("C07.scope", key, f.Pos(), "%s", x.Undecided)
		case bad.IsValid():
			c.Bad("C07.scope", key, bad, nil, "%s switches Runtime.scope to another chain and calls %s before a deferred statement that switches back is registered: if that call fails, the lists still open below release their scopes on the foreign chain (past its bottom: a nil dereference replaces the template's error and escapes Execute)", f.Name, what)
		default:
			c.OK("C07.scope", key, f.Pos(), "Runtime.scope is switched to another chain only under a deferred switch back")
		}
	}
	c.Expect("C07.scope", "functions inside the evaluation that switch Runtime.scope to another chain", n, 1)
}
