package rules

import (
	"fmt"
	"go/ast"
	"go/token"
	"go/types"
	"strings"

	"jetverif/an"
)

func init() {
	register(&Property{
		ID:  "C08",
		Run: runC08,
		Meta: an.Meta{
			Technique: "order/provenance rules on the typed AST plus CFG exploration with facts and generation counters (extends walk, leaf block table, content closure pairing)",
			Explanation: "Order, provenance and pairing rules on the inheritance machinery: (C08.order) Set.parse merges block tables in the order extended chain → imports (forward range) → own blocks, " +
				"addBlocks overwrites unconditionally (later wins) and parseBlock registers every block under its own name; (C08.root) every function that executes a template's Root " +
				"(Execute, executeInclude, exec, includeIfExists) reaches executeList only with X.Root under the fact X.extends == nil (the chain was walked to its end, on every CFG path); " +
				"(C08.leaf) the block table installed is the *incoming* template's processedBlocks; (C08.lookup) a block definition site executes getBlock(name) if present else itself, a yield " +
				"executes getBlock(name) or fails, getBlock walks the parent chain, imported roots are never executed; (C08.params) yield arguments are bound before defaults, defaults only " +
				"when not already bound; (C08.content) the content closure switches to the captured caller scope/content before running the content list and restores the callee's afterwards; " +
				"(C08.header) extends after an import or a second extends reaches a no-return error. (C08.params, path form) a block parameter's default is stored only on paths where a presence test `_, ok := variables[<the very name stored>]` answered no (kept per name in a register: the flag may be local to an if; re-defining a variable the name is built from forgets it); the yield's arguments are bound before (also across a helper); both loops walk their whole list (plain index walk or range, no way out but a return; `continue` in the defaults loop only where the name is known bound).",
			NotDecided:  "argument values, recursion depth, run-time string equality of names; scope release and context restore around the block body are C07.scope / C07.ctx.",
			Assumptions: []string{"Template fields are immutable after parse (C11.frozen), so facts about t.extends survive calls"},
			Trusted:     commonTrusted,
		},
		Mutants: []Mutant{
			{Name: "content closure skipped for blank content (agent seed C03/2 seen from C08)", File: "eval.go", Old: "\tmycontent := st.content\n\tif content != nil {", New: "\tmycontent := st.content\n\tif content != nil && !IsEmptyTree(content) {", Rule: "C08.content"},
			{Name: "re-imported templates are merged only once (agent seed C08/1)", File: "parse.go", Old: "\tfor _, _import := range t.imports {\n\t\tt.addBlocks(_import.processedBlocks)\n\t}", New: "\tmerged := make(map[*Template]struct{}, len(t.imports))\n\tfor _, _import := range t.imports {\n\t\tif _, done := merged[_import]; done {\n\t\t\tcontinue\n\t\t}\n\t\tmerged[_import] = struct{}{}\n\t\tt.addBlocks(_import.processedBlocks)\n\t}", Rule: "C08.order"},
			{Name: "defaults loop stops once enough variables exist (agent seed C08/2)", File: "eval.go", Old: "\t\tfor i := 0; i < len(blockParam.List); i++ {\n\t\t\tp := &blockParam.List[i]\n\t\t\tif _, found", New: "\t\tfor i := 0; i < len(blockParam.List) && len(st.variables) < len(blockParam.List); i++ {\n\t\t\tp := &blockParam.List[i]\n\t\t\tif _, found", Rule: "C08.params"},
			{Name: "own blocks merged before the extended chain", File: "parse.go", Old: "\tif t.extends != nil {\n\t\tt.addBlocks(t.extends.processedBlocks)\n\t}\n\n\tfor _, _import := range t.imports {\n\t\tt.addBlocks(_import.processedBlocks)\n\t}\n\n\tt.addBlocks(t.passedBlocks)\n", New: "\tt.addBlocks(t.passedBlocks)\n\n\tif t.extends != nil {\n\t\tt.addBlocks(t.extends.processedBlocks)\n\t}\n\n\tfor _, _import := range t.imports {\n\t\tt.addBlocks(_import.processedBlocks)\n\t}\n", Rule: "C08.order"},
			{Name: "imports merged before the extended chain", File: "parse.go", Old: "\tif t.extends != nil {\n\t\tt.addBlocks(t.extends.processedBlocks)\n\t}\n\n\tfor _, _import := range t.imports {\n\t\tt.addBlocks(_import.processedBlocks)\n\t}\n", New: "\tfor _, _import := range t.imports {\n\t\tt.addBlocks(_import.processedBlocks)\n\t}\n\n\tif t.extends != nil {\n\t\tt.addBlocks(t.extends.processedBlocks)\n\t}\n", Rule: "C08.order"},
			{Name: "first definition wins in addBlocks", File: "parse.go", Old: "\tfor key, value := range blocks {\n\t\tt.processedBlocks[key] = value\n\t}", New: "\tfor key, value := range blocks {\n\t\tif _, ok := t.processedBlocks[key]; !ok {\n\t\t\tt.processedBlocks[key] = value\n\t\t}\n\t}", Rule: "C08.order"},
			{Name: "imports iterated backwards", File: "parse.go", Old: "\tfor _, _import := range t.imports {\n\t\tt.addBlocks(_import.processedBlocks)\n\t}", New: "\tfor i := len(t.imports) - 1; i >= 0; i-- {\n\t\tt.addBlocks(t.imports[i].processedBlocks)\n\t}", Rule: "C08.order"},
			{Name: "exec walks only one level of extends (original defect)", File: "default.go", Old: "\t\t\tw := a.runtime.Writer\n\t\t\tdefer func() { a.runtime.Writer = w }()\n\t\t\ta.runtime.Writer = ioutil.Discard\n\n\t\t\ta.runtime.blocks = t.processedBlocks\n\t\t\troot := t.Root\n\t\t\tfor t.extends != nil {\n\t\t\t\tt = t.extends\n\t\t\t\troot = t.Root\n\t\t\t}", New: "\t\t\tw := a.runtime.Writer\n\t\t\tdefer func() { a.runtime.Writer = w }()\n\t\t\ta.runtime.Writer = ioutil.Discard\n\n\t\t\ta.runtime.blocks = t.processedBlocks\n\t\t\troot := t.Root\n\t\t\tif t.extends != nil {\n\t\t\t\troot = t.extends.Root\n\t\t\t}", Rule: "C08.root"},
			{Name: "Execute renders the leaf instead of the root layout", File: "exec.go", Old: "\tfor t.extends != nil {\n\t\tt = t.extends\n\t}\n", New: "", Rule: "C08.root"},
			{Name: "include installs the root's block table instead of the leaf's", File: "eval.go", Old: "\tst.blocks = t.processedBlocks\n\n\tvar context reflect.Value\n\tif node.Context != nil {\n\t\tcontext = st.context\n\t\tdefer func() { st.context = context }()\n\t\tst.context = st.evalPrimaryExpressionGroup(node.Context)\n\t}\n\n\tRoot := t.Root\n\tfor t.extends != nil {\n\t\tt = t.extends\n\t\tRoot = t.Root\n\t}\n", New: "\tvar context reflect.Value\n\tif node.Context != nil {\n\t\tcontext = st.context\n\t\tdefer func() { st.context = context }()\n\t\tst.context = st.evalPrimaryExpressionGroup(node.Context)\n\t}\n\n\tRoot := t.Root\n\tfor t.extends != nil {\n\t\tt = t.extends\n\t\tRoot = t.Root\n\t}\n\tst.blocks = t.processedBlocks\n", Rule: "C08.leaf"},
			{Name: "block definition site always renders its own definition", File: "eval.go", Old: "\t\t\tblock, has := st.getBlock(node.Name)\n\t\t\tif has == false {\n\t\t\t\tblock = node\n\t\t\t}", New: "\t\t\tblock, has := st.getBlock(node.Name)\n\t\t\tif has == false || block != node {\n\t\t\t\tblock = node\n\t\t\t}", Rule: "C08.lookup"},
			{Name: "defaults overwrite the yield's arguments", File: "eval.go", Old: "\t\t\tif _, found := st.variables[p.Identifier]; !found {\n\t\t\t\tif p.Expression == nil {", New: "\t\t\tif _, found := st.variables[p.Identifier]; !found || p.Expression != nil {\n\t\t\t\tif p.Expression == nil {", Rule: "C08.params"},
			{Name: "content runs in the callee's scope", File: "eval.go", Old: "\t\t\tst.scope = myscope\n\t\t\tst.content = mycontent\n", New: "\t\t\t_ = myscope\n\t\t\tst.content = mycontent\n", Rule: "C08.content"},
			{Name: "content closure does not restore the callee's content", File: "eval.go", Old: "\t\t\t\tst.scope = outscope\n\t\t\t\tst.content = outcontent\n", New: "\t\t\t\tst.scope = outscope\n\t\t\t\t_ = outcontent\n", Rule: "C08.content"},
			{Name: "second extends silently accepted", File: "parse.go", Old: "\t\t\t\t\tif t.extends != nil {\n\t\t\t\t\t\tt.errorf(\"Unexpected extends clause: each template can only extend one template\")\n\t\t\t\t\t} else if len(t.imports) > 0 {", New: "\t\t\t\t\tif len(t.imports) > 0 {", Rule: "C08.header"},
			{Name: "getBlock looks at the innermost scope only", File: "eval.go", Old: "\tfor !has && st.parent != nil {\n\t\tst = st.parent\n\t\tblock, has = st.blocks[name]\n\t}\n", New: "", Rule: "C08.lookup"},
			{Name: "parseBlock registers blocks only once (first definition in a file wins)", File: "parse.go", Old: "\tt.passedBlocks[block.Name] = block\n", New: "\tif _, dup := t.passedBlocks[block.Name]; !dup {\n\t\tt.passedBlocks[block.Name] = block\n\t}\n", Rule: "C08.order"},
		},
	})
}

const execList = "(*jet.Runtime).executeList"

// caseClause finds `case <name>:` in the first switch of fn whose cases are NodeType constants.
func caseClause(fn *an.Fn, name string) *ast.CaseClause {
	var found *ast.CaseClause
	an.InspectOwn(fn, func(n ast.Node) bool {
		cc, ok := n.(*ast.CaseClause)
		if !ok || found != nil {
			return true
		}
		for _, e := range cc.List {
			if id, ok := e.(*ast.Ident); ok && id.Name == name {
				found = cc
			}
		}
		return true
	})
	return found
}

func runC08(c *an.Ctx) {
	c08paramScope(c, "C08.params")
	c08order(c)
	c08root(c)
	c08lookup(c)
	c08params(c)
	c08content(c)
	c08header(c)
}

func c08order(c *an.Ctx) {
	p := c.P
	parse := c.Fn("C08.order", "(*Set).parse")
	add := c.Fn("C08.order", "(*Template).addBlocks")
	if parse == nil || add == nil {
		return
	}
	info := parse.Info()
	// classify each addBlocks call by the provenance of its argument and by the top-level statement it sits in
	type site struct {
		class string
		idx   int // index of the top-level statement
		call  *ast.CallExpr
	}
	var sites []site
	for i, st := range parse.Body.List {
		ast.Inspect(st, func(n ast.Node) bool {
			call, ok := n.(*ast.CallExpr)
			if !ok || !an.IsCallTo(info, call, an.FuncName(add.Obj)) || len(call.Args) != 1 {
				return true
			}
			c.CallSites++
			arg := an.Unparen(call.Args[0])
			class := "?" + an.Str(arg)
			switch p.FieldKey(info, arg) {
			case "Template.passedBlocks":
				class = "own"
			case "Template.processedBlocks":
				sel := arg.(*ast.SelectorExpr)
				switch {
				case p.FieldKey(info, sel.X) == "Template.extends":
					class = "extends"
				default:
					// element of a forward range over t.imports
					if id, ok := an.Unparen(sel.X).(*ast.Ident); ok {
						if rs, ok := st.(*ast.RangeStmt); ok && p.FieldKey(info, rs.X) == "Template.imports" {
							if vid, ok := rs.Value.(*ast.Ident); ok && an.ObjOf(info, vid) == an.ObjOf(info, id) {
								class = "imports"
								// every import must be merged, in order: the call is a direct statement of the loop body
								// and nothing in the body can skip it
								direct := false
								for _, bs := range rs.Body.List {
									if es, ok := bs.(*ast.ExprStmt); ok && es.X == ast.Expr(call) {
										direct = true
									}
								}
								skips := false
								ast.Inspect(rs.Body, func(m ast.Node) bool {
									switch m.(type) {
									case *ast.BranchStmt, *ast.ReturnStmt:
										skips = true
									}
									return true
								})
								if !direct || skips {
									class = "imports-merged-conditionally"
								}
							}
						}
					}
					if class[0] == '?' && strings.Contains(an.Str(sel.X), "imports") {
						class = "imports-not-forward-range"
					}
				}
			}
			sites = append(sites, site{class, i, call})
			return true
		})
	}
	c.Expect("C08.order", "addBlocks calls in Set.parse", len(sites), 3)
	want := []string{"extends", "imports", "own"}
	okOrder := len(sites) == 3
	for i := range sites {
		if i < len(want) && sites[i].class != want[i] {
			okOrder = false
		}
		if i > 0 && sites[i].idx <= sites[i-1].idx {
			okOrder = false
		}
	}
	var got []string
	for _, s := range sites {
		got = append(got, s.class)
	}
	pos := parse.Pos()
	if len(sites) > 0 {
		pos = sites[0].call.Pos()
	}
	c.Check(okOrder, "C08.order", "(*Set).parse/merge-order", pos, "block tables are merged extends → imports (forward) → own",
		fmt.Sprintf("block tables are merged in the order %v instead of [extends imports own]: since later definitions win, the most-derived definition no longer has the highest precedence", got))

	// addBlocks: unconditional overwrite inside a range over the parameter
	ainfo := add.Info()
	okAdd := false
	an.InspectOwn(add, func(n ast.Node) bool {
		rs, ok := n.(*ast.RangeStmt)
		if !ok {
			return true
		}
		if id, ok := an.Unparen(rs.X).(*ast.Ident); !ok || an.ObjOf(ainfo, id) != types.Object(an.Param(add, 0)) {
			return true
		}
		for _, st := range rs.Body.List {
			if as, ok := st.(*ast.AssignStmt); ok && len(as.Lhs) == 1 {
				if ix, ok := as.Lhs[0].(*ast.IndexExpr); ok && p.FieldKey(ainfo, ix.X) == "Template.processedBlocks" {
					k, _ := rs.Key.(*ast.Ident)
					v, _ := rs.Value.(*ast.Ident)
					if k != nil && v != nil && an.Str(ix.Index) == k.Name && an.Str(as.Rhs[0]) == v.Name {
						okAdd = true
					}
				}
			}
		}
		return true
	})
	c.Check(okAdd, "C08.order", "(*Template).addBlocks/overwrite", add.Pos(), "addBlocks stores every entry unconditionally (later wins)",
		"addBlocks does not unconditionally store every (key, value) of its argument: precedence by merge order is lost")

	// parseBlock registers every block under its own name, unconditionally
	if pb := c.Fn("C08.order", "(*Template).parseBlock"); pb != nil {
		pinfo := pb.Info()
		okReg := false
		for _, st := range pb.Body.List {
			if as, ok := st.(*ast.AssignStmt); ok && len(as.Lhs) == 1 {
				if ix, ok := as.Lhs[0].(*ast.IndexExpr); ok && p.FieldKey(pinfo, ix.X) == "Template.passedBlocks" {
					if p.FieldKey(pinfo, ix.Index) == "BlockNode.Name" && an.Str(ix.Index.(*ast.SelectorExpr).X) == an.Str(as.Rhs[0]) {
						okReg = true
					}
				}
			}
		}
		c.Check(okReg, "C08.order", "(*Template).parseBlock/register", pb.Pos(), "every parsed block is registered under its own name",
			"parseBlock does not unconditionally register the block under its own name in passedBlocks (later definitions in a file must override earlier ones)")
	}
}

// c08root: X.Root reaches executeList only under the fact X.extends == nil; the blocks table comes from the incoming template.
func c08root(c *an.Ctx) {
	rootLeafRule(c, "C08.root", "C08.leaf", nil, 4)
}

// rootLeafRule: every function that executes a Template.Root installs the incoming (most-derived)
// template's block table and executes the root only after walking the extends chain to its end.
// C09 runs it over the include family under its own rule id (include, includeIfExists and exec must agree).
func rootLeafRule(c *an.Ctx, rootID, leafID string, only func(f *an.Fn) bool, min int) {
	p := c.P
	tmpl := p.LookupType(p.Jet, "Template")
	if tmpl == nil {
		c.Anchor(rootID, "type Template")
		return
	}
	n := 0
	for _, f := range p.Units() {
		if f.Pkg != p.Jet || f.Body == nil {
			continue
		}
		info := f.Info()
		// candidate: calls executeList with an argument of provenance Template.Root
		var calls []*ast.CallExpr
		an.InspectOwn(f, func(nd ast.Node) bool {
			if call, ok := nd.(*ast.CallExpr); ok && an.IsCallTo(info, call, execList) && len(call.Args) == 1 {
				if strings.HasSuffix(an.Norm(f, call.Args[0]), ".Root") || rootVar(p, f, call.Args[0]) {
					calls = append(calls, call)
				}
			}
			return true
		})
		if len(calls) == 0 || (only != nil && !only(f)) {
			continue
		}
		n++
		c.FnsAnalysed[f.Name] = true
		gen := func(o types.Object) string { return fmt.Sprintf("gen:%s·%d", o.Name(), int(o.Pos())) }
		rootOf := func(o types.Object) string {
			if o == nil {
				return "rootof:?"
			}
			return fmt.Sprintf("rootof:%s·%d", o.Name(), int(o.Pos()))
		}
		chainEnd := func(o types.Object) string { return fmt.Sprintf("end:%s·%d", o.Name(), int(o.Pos())) }
		type verdict struct {
			bad   bool
			msg   string
			trail []string
		}
		res := map[*ast.CallExpr]*verdict{}
		leafStores := map[token.Pos]*verdict{}
		hooks := an.Hooks{
			PreAssign: func(x *an.Explorer, lhs, rhs ast.Expr, stmt ast.Node, st *an.State) {
				// C08.leaf: store to scope.blocks
				if p.FieldKey(info, lhs) == "scope.blocks" && rhs != nil {
					v := leafStores[lhs.Pos()]
					if v == nil {
						v = &verdict{}
						leafStores[lhs.Pos()] = v
					}
					if p.FieldKey(info, rhs) != "Template.processedBlocks" {
						v.bad, v.msg = true, "the block table installed is "+an.Str(rhs)+", not a template's processedBlocks"
					} else if id, ok := an.Unparen(rhs.(*ast.SelectorExpr).X).(*ast.Ident); ok {
						if st.Int(gen(an.ObjOf(info, id))) != 0 {
							v.bad, v.msg = true, "the block table is taken from "+id.Name+" after it was advanced along the extends chain: the executed (most-derived) template's own blocks are lost"
						}
					} else {
						v.bad, v.msg = true, "the block table is taken from "+an.Str(rhs)
					}
				}
				id, ok := an.Unparen(lhs).(*ast.Ident)
				if !ok {
					return
				}
				o := an.ObjOf(info, id)
				if o == nil {
					return
				}
				if rhs != nil {
					// root2 := root : the copy denotes the same list
					if rid, ok := an.Unparen(rhs).(*ast.Ident); ok {
						if ro := st.Get(rootOf(an.ObjOf(info, rid))); ro != "" {
							st.Set(rootOf(o), ro)
						}
					}
				}
				if an.NamedOf(o.Type()) == tmpl && rhs != nil {
					// a copy of a template variable that is known to be the end of its chain is the end of its chain
					copiedEnd := false
					if rid, ok := an.Unparen(rhs).(*ast.Ident); ok {
						if ro := an.ObjOf(info, rid); ro != nil && ro != o && st.Get(chainEnd(ro)) != "" && st.Get(chainEnd(ro)) == fmt.Sprintf("@%d", st.Int(gen(ro))) {
							copiedEnd = true
						}
					}
					st.Set(chainEnd(o), "") // whatever was known about the end of the chain concerned the old value
					// t = t.extends advances the generation; any other assignment (t, err := GetTemplate) resets
					if p.FieldKey(info, rhs) == "Template.extends" {
						if st.Int(gen(o)) < 2 { // capped: 0 = incoming template, 1 = advanced once, 2 = advanced more often
							st.Add(gen(o), 1)
						}
					} else {
						st.SetInt(gen(o), 0)
					}
					if copiedEnd {
						st.Set(chainEnd(o), "@0")
					}
				}
				if rhs != nil && p.FieldKey(info, rhs) == "Template.Root" {
					// root = <expr>.Root : remember whose root (normalised selector base + its generation)
					base := an.Unparen(rhs.(*ast.SelectorExpr).X)
					if bid, ok := base.(*ast.Ident); ok {
						bo := an.ObjOf(info, bid)
						st.Set(rootOf(o), fmt.Sprintf("%s·%d@%d", bo.Name(), int(bo.Pos()), st.Int(gen(bo))))
					} else {
						st.Set(rootOf(o), "expr:"+an.Str(base))
					}
				}
			},
			Branch: func(x *an.Explorer, cond ast.Expr, val bool, st *an.State) {
				// X.extends == nil established (true branch of ==, false branch of !=): X is the end of its chain
				b, ok := an.Unparen(cond).(*ast.BinaryExpr)
				if !ok || (b.Op != token.EQL && b.Op != token.NEQ) || an.Str(b.Y) != "nil" || p.FieldKey(info, b.X) != "Template.extends" {
					return
				}
				if val != (b.Op == token.EQL) {
					return
				}
				if id, ok := an.Unparen(an.Unparen(b.X).(*ast.SelectorExpr).X).(*ast.Ident); ok {
					if o := an.ObjOf(info, id); o != nil {
						st.Set(chainEnd(o), fmt.Sprintf("@%d", st.Int(gen(o))))
					}
				}
			},
			Call: func(x *an.Explorer, call *ast.CallExpr, st *an.State) {
				isTarget := false
				for _, tc := range calls {
					if tc == call {
						isTarget = true
					}
				}
				if !isTarget {
					return
				}
				v := res[call]
				if v == nil {
					v = &verdict{}
					res[call] = v
				}
				if v.bad {
					return
				}
				arg := an.Unparen(call.Args[0])
				// whose Root is executed, and at which generation of that template variable
				who := ""
				switch a := arg.(type) {
				case *ast.SelectorExpr: // X.Root
					if id, ok := an.Unparen(a.X).(*ast.Ident); ok {
						if o := an.ObjOf(info, id); o != nil {
							who = fmt.Sprintf("%s·%d@%d", o.Name(), int(o.Pos()), st.Int(gen(o)))
						}
					}
				case *ast.Ident: // root variable
					who = st.Get(rootOf(an.ObjOf(info, a)))
				}
				if who == "" || strings.HasPrefix(who, "expr:") {
					v.bad, v.msg = true, "cannot tell whose Root "+an.Str(arg)+" is"
					return
				}
				at := strings.LastIndex(who, "@")
				name := strings.SplitN(who, "·", 2)[0]
				if st.Get("end:"+who[:at]) != who[at:] {
					v.bad, v.trail = true, an.Facts(st)
					v.msg = fmt.Sprintf("%s.Root is executed on a path where %s.extends may still be non-nil (or %s was advanced since its Root was taken): an extending template's own body is rendered instead of the root layout's", name, name, name)
				}
			},
		}
		x := p.NewExplorer(f, hooks)
		x.Run(nil)
		c.States += x.Visited
		for _, call := range calls {
			key := f.Name
			v := res[call]
			switch {
			case v == nil:
				c.Undecided(rootID, key, call.Pos(), "the executeList call was not reached by the exploration")
			case v.bad:
				c.Bad(rootID, key, call.Pos(), v.trail, "%s", v.msg)
			default:
				c.OK(rootID, key, call.Pos(), "Root is executed only after the extends chain was walked to its end")
			}
		}
		for pos, v := range leafStores {
			if v.bad {
				c.Bad(leafID, f.Name, pos, nil, "%s", v.msg)
			} else {
				c.OK(leafID, f.Name, pos, "the block table installed is the incoming template's processedBlocks")
			}
		}
		if len(leafStores) == 0 {
			c.Bad(leafID, f.Name, f.Pos(), nil, "%s executes a template's Root but never installs that template's block table", f.Name)
		}
	}
	c.Expect(rootID, "functions executing a Template.Root", n, min)
}

func templateVars(f *an.Fn, info *types.Info, tmpl *types.Named) []types.Object {
	seen := map[types.Object]bool{}
	var out []types.Object
	ast.Inspect(f.Root().Body, func(n ast.Node) bool {
		if id, ok := n.(*ast.Ident); ok {
			if o, ok := an.ObjOf(info, id).(*types.Var); ok && !o.IsField() && an.NamedOf(o.Type()) == tmpl && !seen[o] {
				seen[o] = true
				out = append(out, o)
			}
		}
		return true
	})
	if f.Decl != nil && f.Decl.Recv != nil {
		for _, fl := range f.Decl.Recv.List {
			for _, nm := range fl.Names {
				if o := info.Defs[nm]; o != nil && !seen[o] && an.NamedOf(o.Type()) == tmpl {
					out = append(out, o)
				}
			}
		}
	}
	return out
}

// rootVar: the argument is a local variable some definition of which is <template>.Root
func rootVar(p *an.Prog, f *an.Fn, e ast.Expr) bool { return rootExpr(p, f, e, 0) }

// rootExpr: e denotes some template's Root list — X.Root itself, a local defined from one, or the
// result of a new helper all of whose returns are such expressions.
func rootExpr(p *an.Prog, f *an.Fn, e ast.Expr, depth int) bool {
	if depth > 4 {
		return false
	}
	info := f.Info()
	switch v := an.Unparen(e).(type) {
	case *ast.SelectorExpr:
		return p.FieldKey(info, v) == "Template.Root"
	case *ast.Ident:
		for _, d := range an.LocalDefs(f, an.ObjOf(info, v)) {
			if d != nil && rootExpr(p, f, d, depth+1) {
				return true
			}
		}
	case *ast.CallExpr:
		if h := p.NewHelperCallee(f, v); h != nil {
			n, ok := 0, true
			an.InspectBody(h, func(m ast.Node) bool {
				if ret, isRet := m.(*ast.ReturnStmt); isRet && len(ret.Results) == 1 {
					n++
					if !rootExpr(p, h, ret.Results[0], depth+1) {
						ok = false
					}
				}
				return true
			})
			return ok && n > 0
		}
	}
	return false
}

func c08lookup(c *an.Ctx) {
	p := c.P
	el := c.Fn("C08.lookup", "(*Runtime).executeList")
	if el == nil {
		return
	}
	info := el.Info()
	const yieldFn = "(*jet.Runtime).executeYieldBlock"
	const getBlock = "(*jet.scope).getBlock"
	// --- NodeBlock arm
	if cc := caseClause(el, "NodeBlock"); cc == nil {
		c.Anchor("C08.lookup", "case NodeBlock in executeList")
	} else {
		var yb *ast.CallExpr
		armInspect(el, cc, func(n ast.Node) bool {
			if call, ok := n.(*ast.CallExpr); ok && an.IsCallTo(info, call, yieldFn) {
				yb = call
			}
			return true
		})
		ok, why := false, "no executeYieldBlock call in the NodeBlock arm"
		if yb != nil && len(yb.Args) == 5 {
			why = "the block executed at a definition site is not `getBlock(node.Name)` when present, else the node itself"
			if bid, isId := an.Unparen(yb.Args[0]).(*ast.Ident); isId {
				bo := an.ObjOf(info, bid)
				// definitions of the block variable inside the clause
				var fromGet, fromNode, other int
				var hasVar types.Object
				var nodeGuardOK bool
				armInspect(el, cc, func(n ast.Node) bool {
					as, isAs := n.(*ast.AssignStmt)
					if !isAs {
						return true
					}
					for i, l := range as.Lhs {
						lid, isId := l.(*ast.Ident)
						if !isId || an.ObjOf(info, lid) != bo {
							continue
						}
						switch {
						case len(as.Rhs) == 1 && len(as.Lhs) == 2 && i == 0:
							if call, isCall := an.Unparen(as.Rhs[0]).(*ast.CallExpr); isCall && an.IsCallTo(info, call, getBlock) && len(call.Args) == 1 && p.FieldKey(info, call.Args[0]) == "BlockNode.Name" {
								fromGet++
								if hid, isId := as.Lhs[1].(*ast.Ident); isId {
									hasVar = an.ObjOf(info, hid)
								}
								continue
							}
							other++
						case len(as.Rhs) == len(as.Lhs):
							if rid, isId := an.Unparen(as.Rhs[i]).(*ast.Ident); isId && an.NamedOf(an.ObjOf(info, rid).Type()) != nil && an.NamedOf(an.ObjOf(info, rid).Type()).Obj().Name() == "BlockNode" {
								fromNode++
								// guard: enclosing if has == false / !has
								for _, enc := range an.EnclosingStmts(el, as) {
									if is, isIf := enc.(*ast.IfStmt); isIf && hasVar != nil {
										s := strings.ReplaceAll(an.Str(is.Cond), " ", "")
										if s == an.RoleOf(hasVar)+"==false" || s == "!"+an.RoleOf(hasVar) {
											nodeGuardOK = true
										}
									}
								}
								continue
							}
							other++
						default:
							other++
						}
					}
					return true
				})
				if fromGet == 1 && fromNode == 1 && other == 0 && nodeGuardOK {
					ok = true
				}
				// remaining arguments come from the chosen block
				if ok {
					for i, fld := range []string{"BlockNode.Parameters", "BlockNode.Parameters", "BlockNode.Expression", "BlockNode.Content"} {
						a := yb.Args[i+1]
						if p.FieldKey(info, a) != fld || an.Str(a.(*ast.SelectorExpr).X) != bid.Name {
							ok, why = false, "executeYieldBlock is not given the chosen block's own "+fld
						}
					}
				}
			}
		}
		pos := cc.Pos()
		if yb != nil {
			pos = yb.Pos()
		}
		c.Check(ok, "C08.lookup", "(*Runtime).executeList/case NodeBlock", pos, "a block definition site renders getBlock(name) if present, else itself", why)
	}
	// --- NodeYield arm
	if cc := caseClause(el, "NodeYield"); cc == nil {
		c.Anchor("C08.lookup", "case NodeYield in executeList")
	} else {
		var yb *ast.CallExpr
		armInspect(el, cc, func(n ast.Node) bool {
			if call, ok := n.(*ast.CallExpr); ok && an.IsCallTo(info, call, yieldFn) {
				yb = call
			}
			return true
		})
		ok, why := false, "no executeYieldBlock call in the NodeYield arm"
		if yb != nil && len(yb.Args) == 5 {
			ok, why = true, ""
			bid, isId := an.Unparen(yb.Args[0]).(*ast.Ident)
			if !isId {
				ok, why = false, "the yielded block is not a variable bound to getBlock(node.Name)"
			} else {
				mds := an.LocalMultiDefs(el, an.ObjOf(info, bid))
				good := false
				for _, md := range mds {
					if md.Index == 0 && an.IsCallTo(info, md.Call, getBlock) && len(md.Call.Args) == 1 && p.FieldKey(info, md.Call.Args[0]) == "YieldNode.Name" {
						good = true
					}
				}
				if !good || len(an.LocalDefs(el, an.ObjOf(info, bid))) != 1 {
					ok, why = false, "the yielded block is not exactly getBlock(node.Name)"
				}
				want := []string{"BlockNode.Parameters", "YieldNode.Parameters", "YieldNode.Expression", "YieldNode.Content"}
				for i, fld := range want {
					if p.FieldKey(info, yb.Args[i+1]) != fld {
						ok, why = false, fmt.Sprintf("argument %d of executeYieldBlock in the yield arm is %s, expected the %s", i+2, an.Str(yb.Args[i+1]), fld)
					}
				}
			}
			// absent block → no-return: probe facts at the call
			if ok {
				pr := p.ProbeFn(el, []ast.Node{yb}, an.Hooks{})
				c.States += pr.X.Visited
				for _, st := range pr.At[yb] {
					if !an.FactIs(st, "has", true) {
						ok, why = false, "executeYieldBlock can be reached in the yield arm although getBlock reported the block absent (an unknown block must be an error)"
					}
				}
				if len(pr.At[yb]) == 0 {
					ok, why = false, "yield arm not reached by the exploration"
				}
			}
		}
		pos := cc.Pos()
		if yb != nil {
			pos = yb.Pos()
		}
		c.Check(ok, "C08.lookup", "(*Runtime).executeList/case NodeYield", pos, "a yield renders getBlock(name) with the yield's own parameters, context and content, and fails when the block is unknown", why)
	}
	// --- getBlock walks the parent chain
	if gb := c.Fn("C08.lookup", "(*scope).getBlock"); gb != nil {
		ginfo := gb.Info()
		// decided on the paths: the scope cursor only ever advances to its parent; every return hands back the
		// result of a lookup of the requested name in the scope the cursor is at; and a "not found" is
		// returned only where that scope has no parent
		ok := true
		nRet := 0
		nameParam := an.Param(gb, 0)
		hooks := an.Hooks{PreAssign: func(x *an.Explorer, lhs, rhs ast.Expr, stmt ast.Node, st *an.State) {
			if rhs != nil && p.FieldKey(ginfo, rhs) == "scope.parent" && an.Str(lhs) == an.Str(rhs.(*ast.SelectorExpr).X) {
				st.Set("looked", "") // the cursor moved: what was looked up belongs to the previous scope
				return
			}
			if as, isAs := stmt.(*ast.AssignStmt); isAs && len(as.Rhs) == 1 && len(as.Lhs) == 2 {
				if ix, isIx := an.Unparen(as.Rhs[0]).(*ast.IndexExpr); isIx && p.FieldKey(ginfo, ix.X) == "scope.blocks" {
					if id, isId := an.Unparen(ix.Index).(*ast.Ident); isId && nameParam != nil && an.ObjOf(ginfo, id) == types.Object(nameParam) {
						st.Set("looked", an.Str(as.Lhs[1]))
					}
				}
			}
		}}
		x := p.NewExplorer(gb, hooks)
		x.Run(nil)
		c.States += x.Visited
		for _, ex := range x.Exits {
			if ex.Kind != an.ExitReturn {
				continue
			}
			nRet++
			found := ex.State.Get("looked")
			if found == "" {
				ok = false
				continue
			}
			if an.FactIs(ex.State, found, true) {
				continue // found in the scope the cursor is at
			}
			atRoot := false
			for k, v := range ex.State.Facts {
				pk := an.PlainKey(k)
				if v && (strings.HasSuffix(pk, ".parent == nil") || strings.HasPrefix(pk, "nil == ") && strings.HasSuffix(pk, ".parent")) {
					atRoot = true
				}
			}
			if !atRoot {
				ok = false
			}
		}
		if nRet == 0 || x.Undecided != "" {
			ok = false
		}
		c.Check(ok, "C08.lookup", "(*scope).getBlock/parent-walk", gb.Pos(), "getBlock walks the parent chain until the name is found", "getBlock does not walk the scope's parent chain: blocks of the executing template are invisible inside nested scopes")
	}
	// --- imported roots are never executed
	bad := false
	for _, s := range p.AllCalls(execList) {
		if strings.Contains(an.Norm(s.Fn, s.Call.Args[0]), ".imports") {
			bad = true
			c.Bad("C08.lookup", "imports-not-executed/"+s.Fn.Name, s.Call.Pos(), nil, "an imported template's Root is executed: an import must render nothing itself")
		}
	}
	if !bad {
		c.OK("C08.lookup", "imports-not-executed", el.Pos(), "no executeList argument derives from Template.imports")
	}
}

func c08params(c *an.Ctx) {
	p := c.P
	f := c.Fn("C08.params", "(*Runtime).executeYieldBlock")
	if f == nil {
		return
	}
	info := f.Info()
	blockParam, yieldParam := an.ParamByName(f, "blockParam"), an.ParamByName(f, "yieldParam")
	if f.Sig.Params().Len() >= 3 {
		blockParam, yieldParam = an.Param(f, 1), an.Param(f, 2)
	}
	if blockParam == nil || yieldParam == nil {
		c.Anchor("C08.params", "block/yield parameter lists of executeYieldBlock")
		return
	}
	// which parameter list an expression is an element of: follows locals to their definitions and a helper's
	// parameters to what the call binds them to
	var listOf func(e ast.Expr, depth int) string
	listOf = func(e ast.Expr, depth int) string {
		out := "?"
		if depth > 4 || e == nil {
			return out
		}
		ast.Inspect(e, func(n ast.Node) bool {
			id, ok := n.(*ast.Ident)
			if !ok || out != "?" {
				return out == "?"
			}
			obj := boundObj(p, f, id)
			switch obj {
			case types.Object(yieldParam):
				out = "yield"
				return false
			case types.Object(blockParam):
				out = "block"
				return false
			}
			if v, isVar := obj.(*types.Var); isVar && !v.IsField() && v.Pkg() != nil && v.Parent() != v.Pkg().Scope() {
				for _, d := range an.LocalDefs(f, v) {
					if d == nil {
						continue
					}
					if _, isIx := an.Unparen(stripAddr(d)).(*ast.IndexExpr); !isIx {
						continue // (the element, not a count or an index)
					}
					if l := listOf(d, depth+1); l != "?" {
						out = l
						return false
					}
				}
			}
			return true
		})
		return out
	}
	// stores into variables[<x>.Identifier]; classify by which list x ranges over
	type store struct {
		list string
		as   *ast.AssignStmt
		ix   *ast.IndexExpr
	}
	var stores []store
	// presence tests: `_, ok := variables[<name>]`
	type lookup struct {
		ok *ast.Ident
		ix *ast.IndexExpr
	}
	var lookups []lookup
	an.InspectOwn(f, func(n ast.Node) bool {
		as, ok := n.(*ast.AssignStmt)
		if !ok {
			return true
		}
		if len(as.Lhs) == 2 && len(as.Rhs) == 1 {
			if ix, ok := an.Unparen(as.Rhs[0]).(*ast.IndexExpr); ok && p.FieldKey(info, ix.X) == "scope.variables" {
				if id, ok := as.Lhs[1].(*ast.Ident); ok && id.Name != "_" {
					lookups = append(lookups, lookup{id, ix})
				}
			}
			return true
		}
		if len(as.Lhs) != 1 {
			return true
		}
		ix, ok := as.Lhs[0].(*ast.IndexExpr)
		if !ok || p.FieldKey(info, ix.X) != "scope.variables" {
			return true
		}
		stores = append(stores, store{listOf(ix.Index, 0), as, ix})
		return true
	})
	c.Expect("C08.params", "parameter stores in executeYieldBlock", len(stores), 3)
	// the parameter loops
	type loop struct {
		n    ast.Node
		body *ast.BlockStmt
		list string
	}
	var loops []loop
	an.InspectOwn(f, func(n ast.Node) bool {
		var body *ast.BlockStmt
		switch l := n.(type) {
		case *ast.ForStmt:
			body = l.Body
		case *ast.RangeStmt:
			body = l.Body
		default:
			return true
		}
		for _, s := range stores {
			if s.as.Pos() >= body.Pos() && s.as.End() <= body.End() {
				loops = append(loops, loop{n, body, s.list})
				break
			}
		}
		return true
	})
	inBlockLoop := func(pos token.Pos) bool {
		for _, l := range loops {
			if l.list == "block" && pos >= l.body.Pos() && pos < l.body.End() {
				return true
			}
		}
		return false
	}
	// explore: what is known about the presence of a name is kept in a register keyed by the name looked up
	// (the comma-ok variable is often local to an if); re-defining a variable the name is built from forgets it
	storeBad := map[*ast.AssignStmt]bool{}
	storeSeen := map[*ast.AssignStmt]bool{}
	matched := false
	contBad := token.NoPos
	isStore := map[ast.Node]*store{}
	for i := range stores {
		isStore[stores[i].as] = &stores[i]
	}
	x := p.NewExplorer(f, an.Hooks{
		Branch: func(x *an.Explorer, cond ast.Expr, val bool, st *an.State) {
			for _, l := range lookups {
				k, ok := x.Key(l.ix.Index)
				if !ok {
					continue
				}
				if t, known := x.Truth(l.ok, st); known {
					if t {
						st.Set("pres:"+k, "bound")
					} else {
						st.Set("pres:"+k, "unbound")
					}
				}
			}
		},
		Assign: func(x *an.Explorer, lhs, rhs ast.Expr, stmt ast.Node, st *an.State) {
			id, ok := an.Unparen(lhs).(*ast.Ident)
			if !ok {
				return
			}
			if ak, ok := x.Key(id); ok {
				for k := range st.Regs {
					if strings.HasPrefix(k, "pres:") && strings.Contains(k, ak) {
						st.Set(k, "")
					}
				}
			}
		},
		Stmt: func(x *an.Explorer, n ast.Node, st *an.State) {
			if s := isStore[n]; s != nil && s.list == "block" {
				storeSeen[s.as] = true
				k, ok := x.Key(s.ix.Index)
				if !ok || st.Get("pres:"+k) != "unbound" {
					storeBad[s.as] = true
				} else {
					matched = true
				}
			}
			if b, ok := n.(*ast.BranchStmt); ok && b.Tok == token.CONTINUE && inBlockLoop(b.Pos()) {
				bound := false
				for k, v := range st.Regs {
					if strings.HasPrefix(k, "pres:") && v == "bound" {
						bound = true
					}
				}
				if !bound && contBad == token.NoPos {
					contBad = b.Pos()
				}
			}
		},
	})
	x.Run(nil)
	c.States += x.Visited
	if x.Undecided != "" {
		c.Undecided("C08.params", "(*Runtime).executeYieldBlock/default-only-if-unbound", f.Pos(), "%s", x.Undecided)
		return
	}
	lastYield, firstBlock := token.NoPos, token.NoPos
	for _, s := range stores {
		switch s.list {
		case "yield":
			if s.as.Pos() > lastYield {
				lastYield = s.as.Pos()
			}
		case "block":
			if firstBlock == token.NoPos || s.as.Pos() < firstBlock {
				firstBlock = s.as.Pos()
			}
			c.Check(storeSeen[s.as] && !storeBad[s.as], "C08.params", "(*Runtime).executeYieldBlock/default-only-if-unbound", s.as.Pos(), "a declared parameter gets its default only when the yield did not bind it",
				"a block parameter's default is stored on a path where the name may already be bound by the yield's argument: arguments are overwritten by defaults")
		default:
			c.Bad("C08.params", "(*Runtime).executeYieldBlock/store", s.as.Pos(), nil, "a variable store in executeYieldBlock is keyed by neither the yield's nor the block's parameter list")
		}
	}
	c.Check(lastYield != token.NoPos && firstBlock != token.NoPos && c08before(p, f, lastYield, firstBlock), "C08.params", "(*Runtime).executeYieldBlock/args-before-defaults", f.Pos(),
		"the yield's arguments are bound before the block's defaults are considered", "the yield's arguments are not bound before the block's declared parameters are defaulted")
	// both parameter loops visit every element: a plain bound over the whole list (or a range), no way out of the
	// loop from its body; `continue` leaves the rest of one element's handling out and is allowed in the defaults
	// loop only where the name is known to be bound
	for _, l := range loops {
		complete := true
		why := ""
		if fs, ok := l.n.(*ast.ForStmt); ok {
			okHdr := false
			if b, ok := an.Unparen(fs.Cond).(*ast.BinaryExpr); ok && fs.Cond != nil && b.Op == token.LSS {
				if call, ok := an.Unparen(b.Y).(*ast.CallExpr); ok && an.CalleeName(info, call) == "builtin.len" && len(call.Args) == 1 {
					if sel, ok := an.Unparen(call.Args[0]).(*ast.SelectorExpr); ok && sel.Sel.Name == "List" && listOf(sel.X, 0) == l.list {
						if as, ok := fs.Init.(*ast.AssignStmt); ok && len(as.Lhs) == 1 && len(as.Rhs) == 1 && an.Str(as.Rhs[0]) == "0" && an.Str(as.Lhs[0]) == an.Str(b.X) {
							if inc, ok := fs.Post.(*ast.IncDecStmt); ok && inc.Tok == token.INC && an.Str(inc.X) == an.Str(b.X) {
								okHdr = true
							}
						}
					}
				}
			}
			if !okHdr {
				complete, why = false, "its header is `"+an.Str(fs.Init)+"; "+an.Str(fs.Cond)+"; "+an.Str(fs.Post)+"`, not a plain walk over the whole parameter list"
			}
		}
		if rs, ok := l.n.(*ast.RangeStmt); ok {
			if sel, ok := an.Unparen(rs.X).(*ast.SelectorExpr); !ok || sel.Sel.Name != "List" || listOf(sel.X, 0) != l.list {
				complete, why = false, "it ranges over `"+an.Str(rs.X)+"`, not over the parameter list whose names it binds"
			}
		}
		ast.Inspect(l.body, func(m ast.Node) bool {
			switch b := m.(type) {
			case *ast.FuncLit:
				return false
			case *ast.BranchStmt:
				if b.Tok == token.CONTINUE && l.list == "block" {
					if contBad == b.Pos() {
						complete, why = false, "it contains `continue` on a path where the name is not known to be bound"
					}
					return true
				}
				complete, why = false, "it contains `"+b.Tok.String()+"`"
			case *ast.ReturnStmt:
				complete, why = false, "it contains a return"
			}
			return true
		})
		c.Check(complete, "C08.params", "(*Runtime).executeYieldBlock/loop-complete", l.n.Pos(), "the parameter loop visits every element of its list",
			"a parameter loop of executeYieldBlock may stop before every parameter was handled ("+why+"): omitted parameters do not get their defaults / arguments are not bound")
	}
	c.Expect("C08.params", "parameter loops", len(loops), 2)
	// the presence test looks up the same key that is then stored (the registers are keyed by the name looked up)
	c.Check(matched, "C08.params", "(*Runtime).executeYieldBlock/found-test", f.Pos(), "the presence test looks up the very name that is then defaulted, and the default is stored where it answered no",
		"no default store of executeYieldBlock is guarded by a presence test `_, ok := variables[<name>]` of the very name being stored, answered no")
}

func stripAddr(e ast.Expr) ast.Expr {
	if u, ok := an.Unparen(e).(*ast.UnaryExpr); ok && u.Op == token.AND {
		return u.X
	}
	return e
}

// c08before: position a precedes position b in execution order — in the same function by source order; when one
// of them lies in a new helper, by the order of the calls that lead to them
func c08before(p *an.Prog, f *an.Fn, a, b token.Pos) bool {
	fa, fb := p.OwnerFn(a), p.OwnerFn(b)
	if fa == fb {
		return a < b
	}
	// positions in f at which the helpers containing a and b are (transitively) called
	at := func(pos token.Pos) token.Pos {
		best := token.NoPos
		an.InspectBody(f, func(n ast.Node) bool {
			call, ok := n.(*ast.CallExpr)
			if !ok {
				return true
			}
			if h := p.NewHelperCallee(f, call); h != nil {
				reach := p.Reach(h)
				for g := range reach {
					if g.Body != nil && pos >= g.Body.Pos() && pos < g.Body.End() {
						best = call.Pos()
					}
				}
			}
			return true
		})
		if best == token.NoPos && f.Body != nil && pos >= f.Body.Pos() && pos < f.Body.End() {
			best = pos
		}
		return best
	}
	pa, pb := at(a), at(b)
	return pa != token.NoPos && pb != token.NoPos && pa < pb
}

// c08content: the closure installed in Runtime.content
func c08content(c *an.Ctx) {
	p := c.P
	f := c.Fn("C08.content", "(*Runtime).executeYieldBlock")
	if f == nil {
		return
	}
	info := f.Info()
	var lit *an.Fn
	var litValue ast.Expr
	var envScopePos token.Pos // where a receiver literal loads Runtime.scope into the environment
	an.InspectOwn(f, func(n ast.Node) bool {
		as, ok := n.(*ast.AssignStmt)
		if !ok || len(as.Lhs) != 1 || len(as.Rhs) != 1 || p.FieldKey(info, as.Lhs[0]) != "Runtime.content" {
			return true
		}
		if g := p.FnOfValue(info, as.Rhs[0]); g != nil && g.Body != nil {
			lit, litValue = g, an.Unparen(as.Rhs[0])
		}
		return true
	})
	if lit == nil {
		c.Anchor("C08.content", "function stored in Runtime.content")
		return
	}
	c.FnsAnalysed[lit.Name] = true
	// captured variables: defined in the enclosing function from st.scope / st.content
	captured := map[string]string{} // var name → field it was loaded from
	an.InspectOwn(f, func(n ast.Node) bool {
		an.Assigns(n, func(lhs, rhs ast.Expr, _ token.Token) {
			if id, ok := lhs.(*ast.Ident); ok && rhs != nil {
				switch p.FieldKey(info, rhs) {
				case "Runtime.scope":
					captured[id.Name] = "scope"
				case "Runtime.content":
					captured[id.Name] = "content"
				}
			}
		})
		return true
	})
	// a method value `(&T{scope: st.scope, content: mycontent}).execute` carries the same environment in
	// the fields of its receiver: inside the method they are read as <receiver>.<field>
	if sel, ok := litValue.(*ast.SelectorExpr); ok && lit.Decl != nil && lit.Sig != nil && lit.Sig.Recv() != nil {
		recv := an.Unparen(sel.X)
		if u, ok := recv.(*ast.UnaryExpr); ok && u.Op == token.AND {
			recv = an.Unparen(u.X)
		}
		if id, ok := recv.(*ast.Ident); ok {
			for _, d := range an.LocalDefs(f, an.ObjOf(info, id)) {
				if d == nil {
					continue
				}
				d = an.Unparen(d)
				if u, ok := d.(*ast.UnaryExpr); ok && u.Op == token.AND {
					d = an.Unparen(u.X)
				}
				recv = d
			}
		}
		if cl, ok := recv.(*ast.CompositeLit); ok {
			rname := an.RoleOf(lit.Sig.Recv())
			for _, el := range cl.Elts {
				kv, ok := el.(*ast.KeyValueExpr)
				if !ok {
					continue
				}
				k, ok := kv.Key.(*ast.Ident)
				if !ok {
					continue
				}
				switch {
				case p.FieldKey(info, kv.Value) == "Runtime.scope":
					captured[rname+"."+k.Name] = "scope"
					envScopePos = kv.Value.Pos()
				case p.FieldKey(info, kv.Value) == "Runtime.content":
					captured[rname+"."+k.Name] = "content"
				default:
					if id, ok := an.Unparen(kv.Value).(*ast.Ident); ok && captured[id.Name] != "" {
						captured[rname+"."+k.Name] = captured[id.Name]
					}
				}
			}
		}
	}
	fields := []string{"scope", "content"}
	type res struct {
		bad bool
		msg string
	}
	verdict := map[string]*res{}
	for _, fl := range fields {
		verdict[fl+"/switch"], verdict[fl+"/restore"] = &res{}, &res{}
	}
	ran := 0
	hooks := an.Hooks{
		PreAssign: func(x *an.Explorer, lhs, rhs ast.Expr, stmt ast.Node, st *an.State) {
			if rhs == nil {
				return
			}
			// local := st.<field>   (save)
			if id, ok := lhs.(*ast.Ident); ok {
				switch p.FieldKey(info, rhs) {
				case "Runtime.scope":
					if st.Get("cur:scope") == "" {
						st.Set("saved:scope", id.Name)
					}
				case "Runtime.content":
					if st.Get("cur:content") == "" {
						st.Set("saved:content", id.Name)
					}
				}
				return
			}
			// st.<field> = X
			switch p.FieldKey(info, lhs) {
			case "Runtime.scope":
				st.Set("cur:scope", an.Str(rhs))
			case "Runtime.content":
				st.Set("cur:content", an.Str(rhs))
			}
		},
		// a deferred literal that stores a saved value back runs at every exit of the closure, failing ones included
		Defer: func(x *an.Explorer, d *ast.DeferStmt, st *an.State) {
			fl, ok := an.Unparen(d.Call.Fun).(*ast.FuncLit)
			if !ok {
				return
			}
			ast.Inspect(fl.Body, func(n ast.Node) bool {
				an.Assigns(n, func(lhs, rhs ast.Expr, _ token.Token) {
					if rhs == nil {
						return
					}
					switch p.FieldKey(info, lhs) {
					case "Runtime.scope":
						st.Set("dres:scope", an.Str(rhs))
					case "Runtime.content":
						st.Set("dres:content", an.Str(rhs))
					}
				})
				return true
			})
		},
		Call: func(x *an.Explorer, call *ast.CallExpr, st *an.State) {
			if !an.IsCallTo(info, call, execList) {
				return
			}
			ran++
			for _, fl := range fields {
				cur := st.Get("cur:" + fl)
				if captured[cur] != fl || st.Get("saved:"+fl) == cur {
					verdict[fl+"/switch"].bad = true
					verdict[fl+"/switch"].msg = fmt.Sprintf("the content list is executed while Runtime.%s is %q, not the caller's %s captured when the yield was evaluated", fl, cur, fl)
				}
			}
		},
	}
	x := p.NewExplorer(lit, hooks)
	x.Run(nil)
	c.States += x.Visited
	for _, ex := range x.Exits {
		if ex.Kind != an.ExitReturn {
			continue
		}
		for _, fl := range fields {
			saved := ex.State.Get("saved:" + fl)
			if (ex.State.Get("cur:"+fl) != saved && ex.State.Get("dres:"+fl) != saved) || saved == "" {
				verdict[fl+"/restore"].bad = true
				verdict[fl+"/restore"].msg = fmt.Sprintf("the content closure returns with Runtime.%s = %q instead of the value it had on entry (%q)", fl, ex.State.Get("cur:"+fl), ex.State.Get("saved:"+fl))
			}
		}
	}
	if ran == 0 {
		c.Bad("C08.content", "content-closure/runs", lit.Pos(), nil, "the content closure never executes the content list")
	}
	for _, fl := range fields {
		for _, k := range []string{"switch", "restore"} {
			v := verdict[fl+"/"+k]
			if v.bad {
				c.Bad("C08.content", "content-closure/"+fl+"/"+k, lit.Pos(), nil, "%s", v.msg)
			} else {
				c.OK("C08.content", "content-closure/"+fl+"/"+k, lit.Pos(), "Runtime.%s: %s ok", fl, k)
			}
		}
	}
	// the closure is installed whenever the yield supplies content — independent of what the content looks like
	{
		var bodyCalls []ast.Node
		an.InspectOwn(f, func(n ast.Node) bool {
			if call, ok := n.(*ast.CallExpr); ok && an.IsCallTo(info, call, execList) && strings.HasSuffix(an.Norm(f, call.Args[0]), ".List") {
				bodyCalls = append(bodyCalls, call)
			}
			return true
		})
		pr := p.ProbeFn(f, bodyCalls, an.Hooks{PreAssign: func(x *an.Explorer, lhs, rhs ast.Expr, stmt ast.Node, st *an.State) {
			if p.FieldKey(info, lhs) == "Runtime.content" && rhs != nil {
				if p.FnOfValue(info, rhs) == lit {
					st.Set("installed", "1")
				}
			}
		}})
		c.States += pr.X.Visited
		ok, seen := true, false
		for _, bc := range bodyCalls {
			for _, st := range pr.At[bc] {
				if an.FactIs(st, "content == nil", false) {
					seen = true
					if st.Get("installed") == "" {
						ok = false
					}
				}
			}
		}
		c.Check(ok && seen, "C08.content", "(*Runtime).executeYieldBlock/installed", f.Pos(), "whenever the yield (or the block's default) supplies content, the content closure is installed before the block body runs",
			"the block body can run without the content closure being installed although content was supplied: `yield content` renders nothing — or an enclosing yield's content — depending on what the content looks like")
	}

	// the captured scope is loaded after the parameter scope was pushed
	var pushPos, capPos token.Pos
	an.InspectOwn(f, func(n ast.Node) bool {
		if call, ok := n.(*ast.CallExpr); ok && an.IsCallTo(info, call, "(*jet.Runtime).newScope") && pushPos == token.NoPos {
			pushPos = call.Pos()
		}
		an.Assigns(n, func(lhs, rhs ast.Expr, _ token.Token) {
			if id, ok := lhs.(*ast.Ident); ok && rhs != nil && p.FieldKey(info, rhs) == "Runtime.scope" && captured[id.Name] == "scope" {
				capPos = lhs.Pos()
			}
		})
		return true
	})
	if envScopePos.IsValid() {
		capPos = envScopePos
	}
	c.Check(pushPos.IsValid() && capPos.IsValid() && pushPos < capPos, "C08.content", "(*Runtime).executeYieldBlock/capture-after-push", f.Pos(),
		"the caller scope captured for the content includes the parameter scope push order (captured after newScope)", "the scope captured for `yield content` is loaded before the parameter scope is pushed")
}

func c08header(c *an.Ctx) {
	p := c.P
	f := c.Fn("C08.header", "(*Template).parseTemplate")
	if f == nil {
		return
	}
	info := f.Info()
	var target *ast.AssignStmt
	an.InspectOwn(f, func(n ast.Node) bool {
		if as, ok := n.(*ast.AssignStmt); ok && len(as.Lhs) >= 1 && p.FieldKey(info, as.Lhs[0]) == "Template.extends" {
			target = as
		}
		return true
	})
	if target == nil {
		c.Anchor("C08.header", "store to Template.extends in parseTemplate")
		return
	}
	pr := p.ProbeFn(f, []ast.Node{target}, an.Hooks{})
	c.States += pr.X.Visited
	states := pr.At[target]
	once, first := len(states) > 0, len(states) > 0
	for _, st := range states {
		fs := an.Facts(st)
		hasOnce, hasFirst := false, false
		for _, s := range fs {
			if strings.HasSuffix(s, ".extends == nil") && !strings.HasPrefix(s, "!") || strings.HasPrefix(s, "nil == ") && strings.HasSuffix(s, ".extends") {
				hasOnce = true
			}
			if strings.HasPrefix(s, "!(0 < len(") && strings.Contains(s, ".imports)") {
				hasFirst = true
			}
			if strings.Contains(s, "len(") && strings.Contains(s, ".imports) == 0") && !strings.HasPrefix(s, "!") {
				hasFirst = true
			}
		}
		if !hasOnce {
			once = false
		}
		if !hasFirst {
			first = false
		}
	}
	c.Check(once, "C08.header", "(*Template).parseTemplate/single-extends", target.Pos(), "a second extends clause reaches a no-return error", "Template.extends can be assigned although an extends clause was already seen (a second extends is silently accepted)")
	c.Check(first, "C08.header", "(*Template).parseTemplate/extends-before-imports", target.Pos(), "extends after an import reaches a no-return error", "Template.extends can be assigned after imports were seen (extends must come first)")
}
