package rules

import (
	"fmt"
	"go/ast"
	"go/token"
	"go/types"
	"sort"
	"strings"

	"jetverif/an"
)

func init() {
	register(&Property{
		ID:  "C09",
		Run: runC09,
		Meta: an.Meta{
			Technique: "pairing analysis (scope/context/Writer) on the three include-like functions, call counting on CFG paths, provenance of the resolved name, and a result-threading rule for return values in executeList",
			Explanation: "(C09.sites) include resolves the evaluated name against the including node's TemplatePath through getSiblingTemplate; exec/includeIfExists resolve a.Get(0).String() through Set.GetTemplate; all three install the named template's own block table and execute the root of its extends chain (same rule as C08.root/leaf). " +
				"(C09.iso) in executeInclude, exec and includeIfExists the included root is executed below a newScope whose releaseScope is deferred, the block table is installed into that scope, every change " +
				"of the context has a deferred restore, and the root is executed exactly once on every normal path that found the template (zero times on includeIfExists' not-found path). (C09.discard) exec " +
				"stores io(util).Discard into the Writer with a deferred restore before executing and returns the executeList result; includeIfExists never redirects the Writer and returns hiddenTrue after " +
				"executing / hiddenFalse without executing; hiddenBool.Render writes nothing. (C09.ret) in executeList the return statement stores the evaluated value into the result, every nested execution " +
				"that returns a value (if/else, range body/else, try, include) is merged into the result only under IsValid() of its own value (a nested list without return never erases an earlier value), " +
				"and nested executions whose value is discarded are reported. (C09.sites, continued) include's name expression is evaluated before '.' is replaced by the explicit context; a name that is not a string is taken from fmt.Stringer or rejected, and reflect.Value.String() is taken only where the kind is known to be string.",
			NotDecided:  "what the included template renders; computed names' values; the extends walk of the included template is C08.root; known: a return inside a block/yield body is lost (listed finding).",
			Assumptions: []string{"AST/Template immutability during execution (C10.ast)"},
			Trusted:     commonTrusted,
		},
		Mutants: []Mutant{
			{Name: "reflect.Value.String() of a Stringer used as the include name (original defect)", File: "eval.go", Old: "templatePath = name.Interface().(fmt.Stringer).String()", New: "templatePath = name.String()", Rule: "C09.sites"},
			{Name: "explicit context ignored when it evaluates to an invalid value (agent seed C09/2)", File: "eval.go", Old: "\t\tcontext = st.context\n\t\tdefer func() { st.context = context }()\n\t\tst.context = st.evalPrimaryExpressionGroup(node.Context)\n", New: "\t\tif c := st.evalPrimaryExpressionGroup(node.Context); c.IsValid() {\n\t\t\tcontext = st.context\n\t\t\tdefer func() { st.context = context }()\n\t\t\tst.context = c\n\t\t}\n", Rule: "C09.iso"},
			{Name: "includeIfExists installs the layout's block table instead of the named template's (agent seed C09/4)", File: "default.go", Old: "\t\t\ta.runtime.newScope()\n\t\t\tdefer a.runtime.releaseScope()\n\n\t\t\ta.runtime.blocks = t.processedBlocks\n\t\t\troot := t.Root\n\t\t\tfor t.extends != nil {\n\t\t\t\tt = t.extends\n\t\t\t\troot = t.Root\n\t\t\t}\n\n\t\t\tif a.NumOfArguments() > 1 {\n\t\t\t\tc := a.runtime.context\n\t\t\t\tdefer func() { a.runtime.context = c }()\n\t\t\t\ta.runtime.context = a.Get(1)\n\t\t\t}\n\n\t\t\ta.runtime.executeList(root)\n\n\t\t\treturn hiddenTrue", New: "\t\t\tfor t.extends != nil {\n\t\t\t\tt = t.extends\n\t\t\t}\n\n\t\t\ta.runtime.newScope()\n\t\t\tdefer a.runtime.releaseScope()\n\t\t\ta.runtime.blocks = t.processedBlocks\n\n\t\t\tif a.NumOfArguments() > 1 {\n\t\t\t\tc := a.runtime.context\n\t\t\t\tdefer func() { a.runtime.context = c }()\n\t\t\t\ta.runtime.context = a.Get(1)\n\t\t\t}\n\n\t\t\ta.runtime.executeList(t.Root)\n\n\t\t\treturn hiddenTrue", Rule: "C09.sites"},
			{Name: "include resolves against the root", File: "eval.go", Old: "st.set.getSiblingTemplate(templatePath, node.TemplatePath, true)", New: "st.set.getSiblingTemplate(templatePath, \"/\", true)", Rule: "C09.sites"},
			{Name: "include pops its scope without defer after executing (leaks on early return)", File: "eval.go", Old: "\tst.newScope()\n\tdefer st.releaseScope()\n\n\tst.blocks = t.processedBlocks\n", New: "\tst.newScope()\n\n\tst.blocks = t.processedBlocks\n", Rule: "C09.iso"},
			{Name: "include's context restore is not deferred and skipped", File: "eval.go", Old: "\t\tcontext = st.context\n\t\tdefer func() { st.context = context }()\n\t\tst.context = st.evalPrimaryExpressionGroup(node.Context)", New: "\t\tcontext = st.context\n\t\t_ = context\n\t\tst.context = st.evalPrimaryExpressionGroup(node.Context)", Rule: "C09.iso"},
			{Name: "exec leaves the Writer discarded", File: "default.go", Old: "\t\t\tw := a.runtime.Writer\n\t\t\tdefer func() { a.runtime.Writer = w }()\n\t\t\ta.runtime.Writer = ioutil.Discard\n", New: "\t\t\ta.runtime.Writer = ioutil.Discard\n", Rule: "C09."},
			{Name: "exec renders its output", File: "default.go", Old: "\t\t\tw := a.runtime.Writer\n\t\t\tdefer func() { a.runtime.Writer = w }()\n\t\t\ta.runtime.Writer = ioutil.Discard\n", New: "\t\t\t_ = ioutil.Discard\n", Rule: "C09.discard"},
			{Name: "exec returns a constant", File: "default.go", Old: "\t\t\tresult = a.runtime.executeList(root)\n\n\t\t\treturn result", New: "\t\t\ta.runtime.executeList(root)\n\n\t\t\treturn valueBoolTRUE", Rule: "C09.discard"},
			{Name: "includeIfExists evaluates to true without executing when a context is given", File: "default.go", Old: "\t\t\tif a.NumOfArguments() > 1 {\n\t\t\t\tc := a.runtime.context\n\t\t\t\tdefer func() { a.runtime.context = c }()\n\t\t\t\ta.runtime.context = a.Get(1)\n\t\t\t}\n\n\t\t\ta.runtime.executeList(root)\n\n\t\t\treturn hiddenTrue", New: "\t\t\tif a.NumOfArguments() > 1 {\n\t\t\t\tc := a.runtime.context\n\t\t\t\tdefer func() { a.runtime.context = c }()\n\t\t\t\ta.runtime.context = a.Get(1)\n\t\t\t} else {\n\t\t\t\ta.runtime.executeList(root)\n\t\t\t}\n\n\t\t\treturn hiddenTrue", Rule: "C09.iso"},
			{Name: "nested if overwrites an earlier return value (original defect)", File: "eval.go", Old: "\t\t\tif ifReturn.IsValid() {\n\t\t\t\treturnValue = ifReturn\n\t\t\t}", New: "\t\t\treturnValue = ifReturn", Rule: "C09.ret"},
			{Name: "include's return value dropped", File: "eval.go", Old: "\t\t\tif includeReturn := st.executeInclude(node); includeReturn.IsValid() {\n\t\t\t\treturnValue = includeReturn\n\t\t\t}", New: "\t\t\tst.executeInclude(node)", Rule: "C09.ret"},
			{Name: "return statement does not record its value", File: "eval.go", Old: "\t\t\treturnValue = st.evalPrimaryExpressionGroup(node.Value)", New: "\t\t\tst.evalPrimaryExpressionGroup(node.Value)", Rule: "C09.ret"},
			{Name: "hidden bool renders itself", File: "default.go", Old: "func (m hiddenBool) Render(r *Runtime) { /* render nothing -> hidden */ }", New: "func (m hiddenBool) Render(r *Runtime) { fmt.Fprint(r.Writer, bool(m)) }", Rule: "C09.discard"},
			{Name: "equivalent: try's result merged through a named temporary", File: "eval.go", Old: "\t\t\tif tryReturn := st.executeTry(node); tryReturn.IsValid() {\n\t\t\t\treturnValue = tryReturn\n\t\t\t}", New: "\t\t\ttryReturn := st.executeTry(node)\n\t\t\tif tryReturn.IsValid() {\n\t\t\t\treturnValue = tryReturn\n\t\t\t}", Rule: "-"},
		},
	})
}

// includeLike finds the functions that resolve a template and execute its root inside the current runtime.
func includeLike(c *an.Ctx) (incl, exec, iie *an.Fn) {
	incl = c.Fn("C09.iso", "(*Runtime).executeInclude")
	exec = c.Fn("C09.iso", `init/"exec"`)
	iie = c.Fn("C09.iso", `init/"includeIfExists"`)
	return
}

func runC09(c *an.Ctx) {
	p := c.P
	incl, exec, iie := includeLike(c)
	if incl == nil || exec == nil || iie == nil {
		return
	}
	// ---------------------------------------------------------------- C09.sites
	info := incl.Info()
	for _, call := range p.CallsIn(incl, "(*jet.Set).getSiblingTemplate") {
		c.CallSites++
		okName, okRef := false, false
		if id, ok := an.Unparen(call.Args[0]).(*ast.Ident); ok {
			defs := an.LocalDefs(incl, an.ObjOf(info, id))
			n := 0
			okName = true
			for _, d := range defs {
				if d == nil {
					continue
				}
				n++
				// <v>.String() where v := st.evalPrimaryExpressionGroup(node.Name)
				dc, isCall := an.Unparen(d).(*ast.CallExpr)
				if !isCall {
					okName = false
					continue
				}
				switch an.CalleeName(info, dc) {
				case "(reflect.Value).String":
					// a value of kind string: its content
				case "(fmt.Stringer).String":
					// a fmt.Stringer: what it says — <v>.Interface().(fmt.Stringer).String()
				default:
					okName = false
					continue
				}
				if !strings.Contains(an.Norm(incl, an.Receiver(dc)), "evalPrimaryExpressionGroup($p0.Name)") {
					okName = false
				}
			}
			if n == 0 {
				okName = false
			}
		}
		if p.FieldKey(info, call.Args[1]) == "NodeBase.TemplatePath" && an.Norm(incl, call.Args[1]) == "$p0.TemplatePath" {
			okRef = true
		}
		c.Check(okName, "C09.sites", "(*Runtime).executeInclude/name", call.Pos(), "include looks up the string its name expression evaluates to", "the name handed to getSiblingTemplate is not the evaluated include name")
		// reflect.Value.String() is the content only for a value of kind string (for anything else it is "<T Value>"):
		// it is taken only where the kind is known to be string
		if okName {
			var strCalls []ast.Node
			var kindTests []*ast.BinaryExpr
			an.InspectOwn(incl, func(n ast.Node) bool {
				switch e := n.(type) {
				case *ast.CallExpr:
					if an.CalleeName(info, e) == "(reflect.Value).String" && strings.Contains(an.Norm(incl, an.Receiver(e)), "evalPrimaryExpressionGroup($p0.Name)") {
						strCalls = append(strCalls, e)
					}
				case *ast.BinaryExpr:
					if e.Op == token.EQL || e.Op == token.NEQ {
						for _, pr := range [][2]ast.Expr{{e.X, e.Y}, {e.Y, e.X}} {
							kc, isCall := an.Unparen(pr[0]).(*ast.CallExpr)
							if isCall && an.CalleeName(info, kc) == "(reflect.Value).Kind" && an.Str(an.Unparen(pr[1])) == "reflect.String" {
								kindTests = append(kindTests, e)
							}
						}
					}
				}
				return true
			})
			pr := p.ProbeFn(incl, strCalls, an.Hooks{})
			c.States += pr.X.Visited
			okKind := true
			for _, sc := range strCalls {
				if len(pr.At[sc]) == 0 {
					okKind = false
				}
				for _, st := range pr.At[sc] {
					known := false
					for _, kt := range kindTests {
						if v, k := pr.X.Truth(kt, st); k && v == (kt.Op == token.EQL) {
							known = true
						}
					}
					if !known {
						okKind = false
					}
				}
			}
			c.Check(okKind, "C09.sites", "(*Runtime).executeInclude/name-kind", call.Pos(), "the name is read with reflect.Value.String only where its kind is known to be string",
				"executeInclude takes reflect.Value.String() of the evaluated name where its kind is not known to be string: for any other value that is \"<T Value>\", not what the value says (a fmt.Stringer must be asked through its String method)")
		}
		// … evaluated in the includer's own context: the name expression is evaluated before '.' is replaced by
		// the context handed to the included template ({{ include .Partial .Payload }})
		{
			lateName := token.NoPos
			nx := p.NewExplorer(incl, an.Hooks{
				PreAssign: func(x *an.Explorer, lhs, rhs ast.Expr, stmt ast.Node, st *an.State) {
					if p.FieldKey(info, lhs) == "Runtime.context" {
						st.Set("ctxReplaced", "1")
					}
				},
				Call: func(x *an.Explorer, ec *ast.CallExpr, st *an.State) {
					if an.CalleeName(info, ec) == "(*jet.Runtime).evalPrimaryExpressionGroup" && len(ec.Args) == 1 && an.Norm(incl, ec.Args[0]) == "$p0.Name" && st.Get("ctxReplaced") != "" && !lateName.IsValid() {
						lateName = ec.Pos()
					}
				},
			})
			nx.Run(nil)
			c.States += nx.Visited
			c.Check(!lateName.IsValid() && nx.Undecided == "", "C09.sites", "(*Runtime).executeInclude/name-in-own-context", incl.Pos(), "the include name is evaluated before '.' is replaced",
				"executeInclude evaluates the name of the template to include after '.' was replaced by the include's context argument: a computed name such as .Partial is resolved against the handed-over context instead of the includer's")
		}
		c.Check(okRef, "C09.sites", "(*Runtime).executeInclude/referrer", call.Pos(), "relative include names resolve against the including file", "include does not pass the including node's TemplatePath as the referrer: relative names resolve against the wrong directory")
	}
	for _, f := range []*an.Fn{exec, iie} {
		ok := false
		for _, call := range p.CallsIn(f, "(*jet.Set).GetTemplate") {
			c.CallSites++
			if strings.HasSuffix(an.Norm(f, call.Args[0]), ".Get(0).String()") {
				ok = true
			}
		}
		c.Check(ok, "C09.sites", f.Name+"/name", f.Pos(), "resolves its first argument through Set.GetTemplate", f.Name+" does not resolve its first argument's string through Set.GetTemplate")
	}

	// the three include-like functions agree on *what* they execute: the named template's own block table
	// and the root of its extends chain (the rule C08.root/leaf applies to Execute as well)
	family := map[*an.Fn]bool{incl: true, exec: true, iie: true}
	rootLeafRule(c, "C09.sites", "C09.sites", func(f *an.Fn) bool { return family[f] }, 3)

	// ---------------------------------------------------------------- C09.iso / C09.discard
	for _, f := range []*an.Fn{incl, exec, iie} {
		c.FnsAnalysed[f.Name] = true
		finfo := f.Info()
		// the executeList call that runs the included root
		var target *ast.CallExpr
		an.InspectOwn(f, func(n ast.Node) bool {
			if call, ok := n.(*ast.CallExpr); ok && an.IsCallTo(finfo, call, execList) && len(call.Args) == 1 {
				if strings.HasSuffix(an.Norm(f, call.Args[0]), ".Root") || rootVar(p, f, call.Args[0]) {
					target = call
				}
			}
			return true
		})
		if target == nil {
			c.Anchor("C09.iso", "execution of the included root in "+f.Name)
			continue
		}
		r := explorePairs(p, f)
		c.States += r.x.Visited
		key := f.Name
		d, reached := r.callDepth[target]
		switch {
		case !reached:
			c.Undecided("C09.iso", key+"/scope", target.Pos(), "root execution not reached")
		case d >= 1 && r.callDpop[target] >= 1 && len(r.scopeBad) == 0:
			c.OK("C09.iso", key+"/scope", target.Pos(), "the included root runs below a newScope whose releaseScope is deferred")
		default:
			c.Bad("C09.iso", key+"/scope", target.Pos(), nil, "%s executes the included root without a scope of its own whose release is deferred (depth %d, deferred pops %d): declarations of the included template leak into the caller", f.Name, d, r.callDpop[target])
		}
		// blocks installed below the push
		if len(r.blocksAt0) > 0 || len(r.blocksOK) == 0 {
			c.Bad("C09.iso", key+"/blocks", f.Pos(), nil, "%s does not install the included template's block table into the scope it pushed", f.Name)
		} else {
			c.OK("C09.iso", key+"/blocks", r.blocksOK[0], "block table installed into the pushed scope")
		}
		// context changes carry a deferred restore
		ctxOK := true
		for _, snap := range r.callRegs[target] {
			if snap["cur:Runtime.context"] != "" && snap["dres:Runtime.context"] == "" {
				ctxOK = false
			}
		}
		if b, bad := r.fieldBad["Runtime.context"]; bad {
			ctxOK = false
			_ = b
		}
		c.Check(ctxOK, "C09.iso", key+"/context", target.Pos(), "an explicit context is installed only with a deferred restore", f.Name+" changes the context for the included template without a deferred restore: the includer's '.' is lost")
		// when an explicit context is given, it *is* the context of the included template — whatever it evaluates to
		givenOK, sawGiven := true, false
		for _, snap := range r.callRegs[target] {
			given := false
			for _, fact := range strings.Split(snap["__facts"], " ; ") {
				if (strings.HasSuffix(fact, ".Context == nil") && strings.HasPrefix(fact, "!(")) || fact == "!(nil == node.Context)" ||
					(strings.HasPrefix(fact, "1 < ") && strings.HasSuffix(fact, ".NumOfArguments()")) {
					given = true
				}
			}
			if given {
				sawGiven = true
				if !strings.HasPrefix(snap["cur:Runtime.context"], "dirty") {
					givenOK = false
				}
			}
		}
		c.Check(givenOK && sawGiven, "C09.iso", key+"/context-given", target.Pos(), "when a context argument is given, the root always runs with the context replaced by it",
			f.Name+" can execute the included template with the caller's context although an explicit context was given (the replacement is conditional on the value)")

		// executed exactly once: explore with a counter
		runs := map[string][]int{} // kind of exit → run counts
		x := p.NewExplorer(f, an.Hooks{Call: func(x *an.Explorer, call *ast.CallExpr, st *an.State) {
			if call == target && st.Int("ran") < 2 {
				st.Add("ran", 1)
			}
		}})
		x.Run(nil)
		c.States += x.Visited
		okOnce, whyOnce := true, ""
		for _, ex := range x.Exits {
			if ex.Kind != an.ExitReturn || ex.Ret == nil {
				continue
			}
			ran := ex.State.Int("ran")
			res := ""
			if len(ex.Ret.Results) == 1 {
				res = an.Str(ex.Ret.Results[0])
			}
			runs[res] = append(runs[res], ran)
			switch {
			case res == "hiddenFalse" && ran != 0:
				okOnce, whyOnce = false, "evaluates to false (template not found) although the template was executed"
			case res == "hiddenFalse":
			case res == "reflect.Value{}" && ran == 0:
				// the unreachable return after the no-return error report in executeInclude
			case ran != 1 && !strings.Contains(res, "executeList("):
				okOnce, whyOnce = false, fmt.Sprintf("a normal path returns %s after executing the root %d time(s)", res, ran)
			}
		}
		c.Check(okOnce, "C09.iso", key+"/once", target.Pos(), "the included root is executed exactly once on every path that found the template", f.Name+": "+whyOnce)

		// ---- C09.discard
		if f == exec {
			okDiscard := len(r.callRegs[target]) > 0
			for _, snap := range r.callRegs[target] {
				if !strings.HasPrefix(snap["cur:escapeeWriter.Writer"], "dirty") || snap["dres:escapeeWriter.Writer"] == "" {
					okDiscard = false
				}
			}
			// the dirty store is Discard
			isDiscard := false
			an.InspectOwn(f, func(n ast.Node) bool {
				an.Assigns(n, func(lhs, rhs ast.Expr, _ token.Token) {
					if p.FieldKey(finfo, lhs) == "escapeeWriter.Writer" && rhs != nil {
						if s := an.Str(rhs); s == "ioutil.Discard" || s == "io.Discard" {
							isDiscard = true
						}
					}
				})
				return true
			})
			c.Check(okDiscard && isDiscard, "C09.discard", key+"/writer", target.Pos(), "exec runs the template with Writer = Discard and a deferred restore of the caller's writer",
				"exec does not execute the template with the output discarded and the caller's writer restored by defer")
			// returns the executeList result
			okRet := false
			for _, ex := range x.Exits {
				if ex.Kind == an.ExitReturn && ex.Ret != nil {
					var resExpr ast.Expr
					if len(ex.Ret.Results) == 1 {
						resExpr = ex.Ret.Results[0]
					} else if f.Sig.Results().Len() == 1 && f.Sig.Results().At(0).Name() != "" {
						resExpr = ast.NewIdent(f.Sig.Results().At(0).Name())
					}
					if resExpr == nil {
						continue
					}
					if call, ok := an.Unparen(resExpr).(*ast.CallExpr); ok && call == target {
						okRet = true
					}
					if id, ok := an.Unparen(resExpr).(*ast.Ident); ok {
						var o types.Object = an.ObjOf(finfo, id)
						if o == nil {
							o = f.Sig.Results().At(0)
						}
						for _, dd := range an.LocalDefs(f, o) {
							if dd != nil && an.Unparen(dd) == ast.Expr(target) {
								okRet = true
							}
						}
					}
				}
			}
			c.Check(okRet, "C09.discard", key+"/result", target.Pos(), "exec evaluates to the value returned by the executed template", "exec does not return the result of executing the template's root")
		}
		if f == iie {
			c.Check(!r.fieldSeen["escapeeWriter.Writer"], "C09.discard", key+"/writer", f.Pos(), "includeIfExists renders in place (no Writer redirect)", "includeIfExists redirects the Writer: it must render like include")
			_, hasTrue := runs["hiddenTrue"]
			_, hasFalse := runs["hiddenFalse"]
			c.Check(hasTrue && hasFalse, "C09.discard", key+"/result", f.Pos(), "evaluates to hiddenTrue after executing and hiddenFalse when the template does not exist", "includeIfExists does not evaluate to hiddenTrue after executing and hiddenFalse when the template is missing")
		}
	}
	// hiddenBool.Render writes nothing
	if hb := c.Fn("C09.discard", "(hiddenBool).Render"); hb != nil {
		c.Check(len(hb.Body.List) == 0, "C09.discard", "(hiddenBool).Render/empty", hb.Pos(), "hiddenBool renders nothing", "hiddenBool.Render has a body: includeIfExists' result would be rendered")
	}

	// includeIfExists tells "exists but is broken" (an error, like include) from "does not exist" (false) by
	// the template that accompanies the error (t != nil && err != nil): every link of the lookup chain must
	// hand the (template, error) pair on as it received it
	nPairs := 0
	for _, name := range []string{"(*Set).GetTemplate", "(*Set).getSiblingTemplate", "(*Set).getTemplate", "(*Set).getTemplateFromLoader", "(*Set).loadFromFile"} {
		f := p.Fn(name)
		if f == nil {
			continue
		}
		finfo := f.Info()
		// error variables received together with a template: e ← t
		partner := map[types.Object]types.Object{}
		an.InspectOwn(f, func(n ast.Node) bool {
			as, ok := n.(*ast.AssignStmt)
			if !ok || len(as.Lhs) != 2 || len(as.Rhs) != 1 {
				return true
			}
			call, ok := an.Unparen(as.Rhs[0]).(*ast.CallExpr)
			if !ok {
				return true
			}
			tv, has := finfo.Types[call]
			if !has {
				return true
			}
			tup, ok := tv.Type.(*types.Tuple)
			if !ok || tup.Len() != 2 || an.TypeName(tup.At(0).Type()) != "*jet.Template" || !isErrorType(tup.At(1).Type()) {
				return true
			}
			tid, ok1 := as.Lhs[0].(*ast.Ident)
			eid, ok2 := as.Lhs[1].(*ast.Ident)
			if ok1 && ok2 {
				partner[an.ObjOf(finfo, eid)] = an.ObjOf(finfo, tid)
			}
			return true
		})
		an.InspectOwn(f, func(n ast.Node) bool {
			ret, ok := n.(*ast.ReturnStmt)
			if !ok || len(ret.Results) != 2 {
				return true
			}
			eid, ok := an.Unparen(ret.Results[1]).(*ast.Ident)
			if !ok {
				return true
			}
			want, has := partner[an.ObjOf(finfo, eid)]
			if !has || want == nil {
				return true
			}
			nPairs++
			tid, isId := an.Unparen(ret.Results[0]).(*ast.Ident)
			if isId && an.ObjOf(finfo, tid) == want {
				c.OK("C09.discard", f.Name+"/pair", ret.Pos(), "the template is returned together with the error it was received with")
			} else {
				c.Bad("C09.discard", f.Name+"/pair", ret.Pos(), nil, "%s returns the error of a lookup without the template that came with it (%s): includeIfExists can no longer tell a template that exists but does not parse from a missing one and silently renders nothing", f.Name, an.Str(ret.Results[0]))
			}
			return true
		})
	}
	c.Expect("C09.discard", "returns handing on a (template, error) pair", nPairs, 1)

	// ---------------------------------------------------------------- C09.ret
	c09ret(c)
}

func c09ret(c *an.Ctx) {
	p := c.P
	el := c.Fn("C09.ret", "(*Runtime).executeList")
	if el == nil {
		return
	}
	info := el.Info()
	if el.Sig.Results().Len() != 1 {
		c.Anchor("C09.ret", "single reflect.Value result of executeList")
		return
	}
	result := el.Sig.Results().At(0)
	// nested executions that yield a value
	// new helpers (an/known.go) that hand a nested execution's value back to their caller count as
	// nested executions themselves; a temporary of such a helper has done its duty once it is returned
	valueHelper := map[*an.Fn]bool{}
	isNested := func(call *ast.CallExpr) bool {
		switch an.CalleeName(info, call) {
		case execList, "(*jet.Runtime).executeTry", "(*jet.Runtime).executeInclude":
			return true
		}
		if h := p.NewHelperCallee(el, call); h != nil && valueHelper[h] {
			return true
		}
		return false
	}
	// (1) the return statement records its value
	if cc := caseClause(el, "NodeReturn"); cc == nil {
		c.Anchor("C09.ret", "case NodeReturn")
	} else {
		ok := false
		armInspect(el, cc, func(n ast.Node) bool {
			an.Assigns(n, func(lhs, rhs ast.Expr, _ token.Token) {
				if id, isId := lhs.(*ast.Ident); isId && an.ObjOf(info, id) == types.Object(result) && rhs != nil {
					// the evaluated Value of the *ReturnNode (whatever the node variable is called)
					ast.Inspect(rhs, func(m ast.Node) bool {
						if call, isCall := m.(*ast.CallExpr); isCall && an.IsCallTo(info, call, "(*jet.Runtime).evalPrimaryExpressionGroup") && len(call.Args) == 1 {
							if sel, isSel := an.Unparen(call.Args[0]).(*ast.SelectorExpr); isSel && sel.Sel.Name == "Value" {
								if tv, has := info.Types[sel.X]; has && tv.Type != nil && an.TypeName(tv.Type) == "*jet.ReturnNode" {
									ok = true
								}
							}
						}
						return true
					})
				}
			})
			return true
		})
		c.Check(ok, "C09.ret", "(*Runtime).executeList/case NodeReturn", cc.Pos(), "return stores the evaluated value into the list's result", "the return statement does not store its evaluated value into executeList's result")
	}
	// (2) every nested execution: its value reaches the result only through a temp guarded by IsValid; or is reported as discarded
	tmpOf := map[types.Object]*ast.CallExpr{}
	var discarded, direct []*ast.CallExpr
	returned := map[types.Object]bool{} // temporaries of helpers that the helper returns
	var helpers []*an.Fn
	{
		seenH := map[*an.Fn]bool{}
		an.InspectOwn(el, func(n ast.Node) bool {
			if call, ok := n.(*ast.CallExpr); ok {
				if h := p.NewHelperCallee(el, call); h != nil && !seenH[h] {
					seenH[h] = true
					helpers = append(helpers, h)
				}
			}
			return true
		})
	}
	collect := func() {
		tmpOf = map[types.Object]*ast.CallExpr{}
		discarded, direct = nil, nil
		an.InspectOwn(el, func(n ast.Node) bool {
			switch s := n.(type) {
			case *ast.ExprStmt:
				if call, ok := an.Unparen(s.X).(*ast.CallExpr); ok && isNested(call) {
					discarded = append(discarded, call)
				}
			default:
				an.Assigns(n, func(lhs, rhs ast.Expr, _ token.Token) {
					call, ok := an.Unparen(rhs).(*ast.CallExpr)
					if rhs == nil || !ok || !isNested(call) {
						return
					}
					id, isId := lhs.(*ast.Ident)
					if !isId {
						return
					}
					if o := an.ObjOf(info, id); o == types.Object(result) {
						direct = append(direct, call)
					} else if o != nil {
						tmpOf[o] = call
					}
				})
			}
			return true
		})
	}
	for changed := true; changed; {
		changed = false
		collect()
		for _, h := range helpers {
			if valueHelper[h] {
				continue
			}
			an.InspectBody(h, func(n ast.Node) bool {
				ret, ok := n.(*ast.ReturnStmt)
				if !ok {
					return true
				}
				results := ret.Results
				if len(results) == 0 && h.Decl.Type.Results != nil {
					for _, fl := range h.Decl.Type.Results.List {
						for _, nm := range fl.Names {
							results = append(results, nm)
						}
					}
				}
				for _, r := range results {
					switch v := an.Unparen(r).(type) {
					case *ast.Ident:
						if o := an.ObjOf(info, v); o != nil && tmpOf[o] != nil {
							returned[o] = true
							if !valueHelper[h] {
								valueHelper[h], changed = true, true
							}
						}
					case *ast.CallExpr:
						if isNested(v) && !valueHelper[h] {
							valueHelper[h], changed = true, true
						}
					}
				}
				return true
			})
		}
	}
	for _, call := range direct {
		c.Bad("C09.ret", "(*Runtime).executeList/overwrite", call.Pos(), nil,
			"the result of a nested execution (%s) is assigned to executeList's result unconditionally: a nested list that executes no return erases the value of an earlier return", an.Str(call.Fun))
	}
	for _, call := range discarded {
		c.Bad("C09.ret", "(*Runtime).executeList/discard:"+an.CalleeName(info, call), call.Pos(), nil, "the value of a nested execution (%s) is discarded: a return executed inside it is lost", an.Str(call.Fun))
	}
	// merges: the result takes the value of a nested execution only where that value is known to be valid —
	// decided on the paths: a copy of a nested value (a helper's parameter, a renamed temporary) is that value, and
	// the result assigned to itself (through such a copy) changes nothing
	merged := map[types.Object]bool{}
	mergeSeen := map[types.Object]bool{}
	{
		tmpByKey := map[string]types.Object{}
		viaOf := map[types.Object]types.Object{}
		okTmp := map[types.Object]bool{}
		posTmp := map[types.Object]token.Pos{}
		resultKey := ""
		isValue := func(e ast.Expr) bool {
			tv, ok := info.Types[e]
			return ok && tv.Type != nil && an.TypeName(tv.Type) == "reflect.Value"
		}
		mx := p.NewExplorer(el, an.Hooks{PreAssign: func(x *an.Explorer, lhs, rhs ast.Expr, stmt ast.Node, st *an.State) {
			lid, ok := an.Unparen(lhs).(*ast.Ident)
			if !ok || lid.Name == "_" {
				return
			}
			lk, ok := x.Key(lid)
			if !ok {
				return
			}
			lobj := an.ObjOf(info, lid)
			if lobj == types.Object(result) {
				resultKey = lk
			}
			if tmpOf[lobj] != nil {
				tmpByKey[lk] = lobj
			}
			root := ""
			var rid *ast.Ident
			if rhs != nil {
				if id, ok := an.Unparen(rhs).(*ast.Ident); ok && isValue(id) {
					rid = id
					if rk, ok := x.Key(id); ok {
						root = rk
						if r := st.Get("cp:" + rk); r != "" {
							root = r
						}
						if o := an.ObjOf(info, id); tmpOf[o] != nil {
							tmpByKey[rk] = o
						}
						if an.ObjOf(info, id) == types.Object(result) {
							resultKey = rk
						}
					}
				}
			}
			if lobj == types.Object(result) && rid != nil && root != "" {
				if o := tmpByKey[root]; o != nil {
					valid := false
					rk, _ := x.Key(rid)
					for _, k := range []string{rk, root} {
						if an.FactIs(st, an.PlainKey(k)+".IsValid()", true) {
							valid = true
						}
					}
					if _, seen := okTmp[o]; !seen {
						okTmp[o], posTmp[o] = true, lhs.Pos()
					}
					if !valid {
						okTmp[o], posTmp[o] = false, lhs.Pos()
					}
					// the variable the value travelled through (a copy of the nested value) has reached the result too
					if via := an.ObjOf(info, rid); via != nil && via != o && tmpOf[via] != nil {
						viaOf[via] = o
					}
				}
			}
			// what the assigned variable is a copy of from here on
			if root != "" && lobj != types.Object(result) {
				st.Set("cp:"+lk, root)
			} else {
				st.Set("cp:"+lk, "")
			}
			_ = resultKey
		}})
		mx.Run(nil)
		c.States += mx.Visited
		var objs []types.Object
		for o := range okTmp {
			objs = append(objs, o)
		}
		sort.Slice(objs, func(i, j int) bool { return objs[i].Pos() < objs[j].Pos() })
		for via, o := range viaOf {
			mergeSeen[via] = true
			if okTmp[o] {
				merged[via] = true
			}
		}
		for _, o := range objs {
			mergeSeen[o] = true
			if okTmp[o] && mx.Undecided == "" {
				merged[o] = true
				c.OK("C09.ret", "(*Runtime).executeList/merge:"+an.RoleOf(o), posTmp[o], "the nested value %q is merged only when it is valid", o.Name())
			} else {
				c.Bad("C09.ret", "(*Runtime).executeList/merge:"+an.RoleOf(o), posTmp[o], nil, "the nested value %q overwrites the result without an IsValid() guard: a list without return erases an earlier return value", o.Name())
			}
		}
	}
	n := 0
	for o, call := range tmpOf {
		n++
		if returned[o] {
			continue // handed to the caller, where the helper call is a nested execution of its own
		}
		if !merged[o] {
			if !mergeSeen[o] {
				c.Bad("C09.ret", "(*Runtime).executeList/merge:"+an.RoleOf(o), call.Pos(), nil, "the value of the nested execution held in %q never reaches executeList's result: a return executed inside it is lost", o.Name())
			}
		}
	}
	c.Expect("C09.ret", "nested executions threaded through a guarded temporary", n+len(direct), 4)

	// (3) executions whose value is discarded elsewhere in the evaluator (block/yield family): reported per site
	for _, f := range an.SortedFns(p.Eval()) {
		if f.Pkg != p.Jet || f.Body == nil || f == el {
			continue
		}
		switch f.Name {
		case "(*Template).Execute", `init/"includeIfExists"`:
			continue // top level (no consumer) / documented to evaluate to a hidden bool
		}
		finfo := f.Info()
		i := 0
		an.InspectOwn(f, func(n ast.Node) bool {
			if es, ok := n.(*ast.ExprStmt); ok {
				if call, ok := an.Unparen(es.X).(*ast.CallExpr); ok && an.IsCallTo(finfo, call, execList) {
					i++
					c.Bad("C09.ret", fmt.Sprintf("%s/discard#%d", f.Name, i), call.Pos(), nil,
						"%s discards the value of executeList: a {{return}} executed inside this body is lost to exec()", f.Name)
				}
			}
			return true
		})
	}
}
