package rules

import (
	"fmt"
	"go/ast"
	"go/token"
	"go/types"
	"sort"
	"strings"
	"sync"

	"jetverif/an"
)

func init() {
	register(&Property{
		ID:  "C10",
		Run: runC10,
		Meta: an.Meta{
			Technique: "pooled-object reset completeness (computed field-write inventory vs. unconditional resets in Execute/recover), use-after-Put check, and an AST/Template/Set immutability lint over all evaluator-only functions",
			Explanation: "(C10.reset) W = every field of Runtime, escapeeWriter and scope that is stored to anywhere outside the pool constructor is computed from the source; each member must be stored " +
				"unconditionally (a top-level statement) either in Execute between the pool Get and the first executeList or in Runtime.recover before the pool Put; scope fields count as reset when " +
				"Runtime.scope itself is replaced by a fresh scope literal. A new Runtime field that is written during execution but never reset fails the rule. (C10.putlast) Runtime.recover does not " +
				"touch the runtime after Put, and Execute defers recover before it first writes to the runtime. (C10.ast) no function that is reachable from Execute but not from Set.parse stores to a field " +
				"of Template, Set, Arguments or any AST node type (nor into slices/maps held there): executing never modifies the parsed template. (C10.pools) every pooled ranger's Setup assigns all " +
				"fields of its struct on every path, the range arm never calls Range after cleanup, and getRanger hands out objects obtained from the pool. (C10.memo) the memoised struct field table consulted by resolveIndex is the published one on every path (first and later accesses of a type answer alike). (C10.state) every store into storage that outlives a call — package-level variables, fields of the Set, its templates, its cache and its loaders — on a path reachable from Execute or GetTemplate belongs to a discipline another rule accounts for (the field-path memo, the object pools, the default cache, the parser filling the template it is building); any other such store is reported.",
			NotDecided:  "determinism of map iteration; side effects of user functions and Renderers; addressable views of literal nodes handed to user functions (reflect.ValueOf(&node.Text).Elem()).",
			Assumptions: []string{"sync.Pool hands an object to one goroutine at a time"},
			Trusted:     commonTrusted,
		},
		Mutants: []Mutant{
			{Name: "try buffers recycled through a pool without Reset (agent seed C10/1)", File: "eval.go", Old: "\tbuf := new(bytes.Buffer)\n", New: "\tbuf := pool_tryBuffer.Get().(*bytes.Buffer)\n\tdefer pool_tryBuffer.Put(buf)\n", More: []Edit{{File: "eval.go", Old: "\tpool_State     = sync.Pool{", New: "\tpool_tryBuffer = sync.Pool{New: func() interface{} { return new(bytes.Buffer) }}\n\tpool_State     = sync.Pool{"}}, Rule: "C10.pools"},
			{Name: "equivalent: try buffers recycled through a pool and Reset after Get", File: "eval.go", Old: "\tbuf := new(bytes.Buffer)\n", New: "\tbuf := pool_tryBuffer.Get().(*bytes.Buffer)\n\tbuf.Reset()\n\tdefer pool_tryBuffer.Put(buf)\n", More: []Edit{{File: "eval.go", Old: "\tpool_State     = sync.Pool{", New: "\tpool_tryBuffer = sync.Pool{New: func() interface{} { return new(bytes.Buffer) }}\n\tpool_State     = sync.Pool{"}}, Rule: "-"},
			{Name: "content not reset (original defect)", File: "eval.go", Old: "\tst.context = reflect.Value{}\n\tst.content = nil\n", New: "\tst.context = reflect.Value{}\n", Rule: "C10.reset"},
			{Name: "context reset only when an error was recovered", File: "eval.go", Old: "\tst.scope = &scope{}\n\tst.context = reflect.Value{}\n\tst.content = nil\n\tpool_State.Put(st)\n\tif recovered := recover(); recovered != nil {", New: "\tst.scope = &scope{}\n\tst.content = nil\n\tpool_State.Put(st)\n\tif recovered := recover(); recovered != nil {\n\t\tst.context = reflect.Value{}", Rule: "C10."},
			{Name: "a new per-execution counter that is never reset", File: "eval.go", Old: "func (st *Runtime) newScope() {\n", New: "func (st *Runtime) newScope() {\n\tst.depth++\n", More: []Edit{{File: "eval.go", Old: "\tcontext reflect.Value\n}", New: "\tcontext reflect.Value\n\tdepth   int\n}"}}, Rule: "C10.reset"},
			{Name: "equivalent: a new counter that Execute resets", File: "eval.go", Old: "func (st *Runtime) newScope() {\n", New: "func (st *Runtime) newScope() {\n\tst.depth++\n", More: []Edit{{File: "eval.go", Old: "\tcontext reflect.Value\n}", New: "\tcontext reflect.Value\n\tdepth   int\n}"}, {File: "exec.go", Old: "\tst.Writer = w\n", New: "\tst.Writer = w\n\tst.depth = 0\n"}}, Rule: "-"},
			{Name: "runtime returned to the pool before it is cleared", File: "eval.go", Old: "\tst.scope = &scope{}\n\tst.context = reflect.Value{}\n\tst.content = nil\n\tpool_State.Put(st)\n", New: "\tpool_State.Put(st)\n\tst.scope = &scope{}\n\tst.context = reflect.Value{}\n\tst.content = nil\n", Rule: "C10.putlast"},
			{Name: "evaluation result memoised in the AST node", File: "eval.go", Old: "\tcase NodeString:\n\t\treturn reflect.ValueOf(&node.(*StringNode).Text).Elem()", New: "\tcase NodeString:\n\t\tsn := node.(*StringNode)\n\t\tsn.Quoted = sn.Text\n\t\treturn reflect.ValueOf(&sn.Text).Elem()", Rule: "C10.ast"},
			{Name: "include appends to the template's import list at run time", File: "eval.go", Old: "\tst.newScope()\n\tdefer st.releaseScope()\n\n\tst.blocks = t.processedBlocks\n", New: "\tst.newScope()\n\tdefer st.releaseScope()\n\n\tt.imports = append(t.imports, t)\n\tst.blocks = t.processedBlocks\n", Rule: "C10.ast"},
			{Name: "slice ranger keeps its cursor from the previous use", File: "ranger.go", Old: "func (r *sliceRanger) Setup(v reflect.Value) {\n\tr.i = 0\n\tr.v = v\n}", New: "func (r *sliceRanger) Setup(v reflect.Value) {\n\tr.v = v\n}", Rule: "C10.pools"},
			{Name: "ranger released before the loop", File: "eval.go", Old: "\t\t\tindexValue, rangeValue, end := ranger.Range()\n\t\t\tif !end {", New: "\t\t\tcleanup()\n\t\t\tindexValue, rangeValue, end := ranger.Range()\n\t\t\tif !end {", Rule: "C10.pools"},
			{Name: "Execute writes before recover is deferred", File: "exec.go", Old: "\tst := pool_State.Get().(*Runtime)\n\tdefer st.recover(&err)\n\n\tst.blocks = t.processedBlocks\n", New: "\tst := pool_State.Get().(*Runtime)\n\tst.blocks = t.processedBlocks\n\tdefer st.recover(&err)\n\n", Rule: "C10.putlast"},
		},
	})
}

func isPoolCall(info *types.Info, call *ast.CallExpr, method string) bool {
	return an.CalleeName(info, call) == "(*sync.Pool)."+method && isRuntimePool(info, an.Receiver(call))
}

// isRuntimePool: e names the package-level sync.Pool that recycles *Runtime objects — recognised by what its New
// function hands out, not by its name.
func isRuntimePool(info *types.Info, e ast.Expr) bool {
	id, ok := an.Unparen(e).(*ast.Ident)
	if !ok {
		return false
	}
	v, ok := an.ObjOf(info, id).(*types.Var)
	if !ok || v.Pkg() == nil || v.Parent() != v.Pkg().Scope() {
		return false
	}
	return runtimePoolName(info) == v.Name()
}

var runtimePoolCache sync.Map // *types.Info → name

func runtimePoolName(info *types.Info) string {
	if n, ok := runtimePoolCache.Load(info); ok {
		return n.(string)
	}
	name := ""
	// the initialiser sync.Pool{New: func() interface{} { return &Runtime{…} }} belongs to the pool variable declared
	// last before it
	for e, tv := range info.Types {
		cl, ok := e.(*ast.CompositeLit)
		if !ok || tv.Type == nil || an.TypeName(tv.Type) != "sync.Pool" {
			continue
		}
		hands := false
		ast.Inspect(cl, func(n ast.Node) bool {
			if inner, ok := n.(*ast.CompositeLit); ok && inner != cl {
				if t := info.Types[inner].Type; t != nil && an.TypeName(t) == "jet.Runtime" {
					hands = true
				}
			}
			return true
		})
		if hands {
			name = closestVar(info, cl.Pos())
		}
	}
	runtimePoolCache.Store(info, name)
	return name
}

// closestVar: the package-level sync.Pool variable declared last before pos.
func closestVar(info *types.Info, pos token.Pos) string {
	best, name := token.NoPos, ""
	for _, obj := range info.Defs {
		v, ok := obj.(*types.Var)
		if !ok || v.Pkg() == nil || v.Parent() != v.Pkg().Scope() || an.TypeName(v.Type()) != "sync.Pool" {
			continue
		}
		if v.Pos() < pos && v.Pos() > best {
			best, name = v.Pos(), v.Name()
		}
	}
	return name
}

func runC10(c *an.Ctx) {
	memoRule(c, "C10.memo")
	c10state(c)
	p := c.P
	info := p.Jet.TypesInfo
	exec := c.Fn("C10.reset", "(*Template).Execute")
	rec := c.Fn("C10.reset", "(*Runtime).recover")
	if exec == nil || rec == nil {
		return
	}
	pooledOwners := map[string]bool{"Runtime": true, "escapeeWriter": true, "scope": true}

	// ---- W: fields of the pooled object written anywhere (outside composite literals)
	type store struct {
		fn  *an.Fn
		pos token.Pos
	}
	W := map[string][]store{}
	for _, f := range p.Units() {
		if f.Pkg != p.Jet || f.Body == nil || strings.HasPrefix(f.Name, "var:"+runtimePoolName(info)) {
			continue
		}
		an.InspectOwn(f, func(n ast.Node) bool {
			an.Assigns(n, func(lhs, _ ast.Expr, _ token.Token) {
				fv := an.FieldOf(info, lhs)
				if fv == nil {
					return
				}
				if owner := p.FieldOwner(fv); pooledOwners[owner] {
					k := owner + "." + an.RoleOf(fv)
					W[k] = append(W[k], store{f, lhs.Pos()})
				}
			})
			return true
		})
	}
	var keysW []string
	for k := range W {
		keysW = append(keysW, k)
	}
	sort.Strings(keysW)
	c.Expect("C10.reset", "fields of the pooled runtime written during execution (W)", len(keysW), 6)
	c.Note("W = %v", keysW)

	// ---- unconditional resets
	// topStores: the fields stored unconditionally (by top-level statements, also those of a new helper
	// called by a top-level statement) before the first call for which stop holds
	var topStoresRec func(f *an.Fn, stop func(*ast.CallExpr) bool, out map[string]token.Pos, fresh *bool, depth int) bool
	topStoresRec = func(f *an.Fn, stop func(*ast.CallExpr) bool, out map[string]token.Pos, fresh *bool, depth int) (stopped bool) {
		for _, st := range f.Body.List {
			if es, ok := st.(*ast.ExprStmt); ok && depth < 4 {
				if call, ok := an.Unparen(es.X).(*ast.CallExpr); ok {
					if h := p.NewHelperCallee(f, call); h != nil && h.Body != nil {
						if topStoresRec(h, stop, out, fresh, depth+1) {
							return true
						}
						continue
					}
				}
			}
			hit := false
			ast.Inspect(st, func(n ast.Node) bool {
				if _, isLit := n.(*ast.FuncLit); isLit {
					return false
				}
				if call, ok := n.(*ast.CallExpr); ok && stop(call) {
					hit = true
				}
				return !hit
			})
			if hit {
				return true
			}
			an.Assigns(st, func(lhs, rhs ast.Expr, _ token.Token) {
				fv := an.FieldOf(info, lhs)
				if fv == nil {
					return
				}
				k := p.FieldOwner(fv) + "." + an.RoleOf(fv)
				out[k] = lhs.Pos()
				if k == "Runtime.scope" && rhs != nil {
					if u, ok := an.Unparen(rhs).(*ast.UnaryExpr); ok && u.Op == token.AND {
						if cl, ok := an.Unparen(u.X).(*ast.CompositeLit); ok && an.TypeName(info.Types[cl].Type) == "jet.scope" {
							*fresh = true
						}
					}
				}
			})
		}
		return false
	}
	topStores := func(f *an.Fn, stop func(*ast.CallExpr) bool) (map[string]token.Pos, bool) {
		out := map[string]token.Pos{}
		fresh := false
		topStoresRec(f, stop, out, &fresh, 0)
		return out, fresh
	}
	var firstExec, putPos, getPos token.Pos
	an.InspectOwn(exec, func(n ast.Node) bool {
		if call, ok := n.(*ast.CallExpr); ok {
			if an.IsCallTo(info, call, execList) && !firstExec.IsValid() {
				firstExec = call.Pos()
			}
			if isPoolCall(info, call, "Get") {
				getPos = call.Pos()
			}
		}
		return true
	})
	an.InspectOwn(rec, func(n ast.Node) bool {
		if call, ok := n.(*ast.CallExpr); ok && isPoolCall(info, call, "Put") {
			putPos = call.Pos()
		}
		return true
	})
	if !firstExec.IsValid() || !putPos.IsValid() || !getPos.IsValid() {
		c.Anchor("C10.reset", "pool Get / first executeList in Execute, pool Put in recover")
		return
	}
	inExec, freshE := topStores(exec, func(call *ast.CallExpr) bool { return an.IsCallTo(info, call, execList) })
	inRec, freshR := topStores(rec, func(call *ast.CallExpr) bool { return isPoolCall(info, call, "Put") })
	for _, k := range keysW {
		key := "field:" + k
		where := W[k][0]
		switch {
		case inRec[k].IsValid():
			c.OK("C10.reset", key, inRec[k], "reset unconditionally in Runtime.recover before the runtime returns to the pool")
		case inExec[k].IsValid():
			c.OK("C10.reset", key, inExec[k], "set unconditionally by Execute before anything is executed")
		case strings.HasPrefix(k, "scope.") && (freshE || freshR):
			c.OK("C10.reset", key, where.pos, "the bottom scope is replaced by a fresh scope literal, which resets %s", k)
		default:
			c.Bad("C10.reset", key, where.pos, nil,
				"%s is written during execution (e.g. by %s) but is neither set unconditionally by Execute before the first executeList nor reset unconditionally in Runtime.recover before Put: a pooled runtime carries it into the next execution", k, where.fn.Name)
		}
	}

	// ---- C10.putlast
	// decided on the paths of recover (helpers spliced in): once Put was called, the runtime — under any of
	// the names it has in recover and the helpers it was split into — is not loaded again
	pooled := map[types.Object]bool{types.Object(rec.Sig.Recv()): true}
	for changed := true; changed; {
		changed = false
		for v, bs := range p.HelperBinds(rec) {
			if pooled[v] {
				continue
			}
			for _, b := range bs {
				if id, ok := an.Unparen(b.Arg).(*ast.Ident); ok && pooled[an.ObjOf(info, id)] {
					pooled[v] = true
					changed = true
				}
			}
		}
	}
	var afterUse token.Pos
	var putCall *ast.CallExpr
	px := p.NewExplorer(rec, an.Hooks{
		Call: func(x *an.Explorer, call *ast.CallExpr, st *an.State) {
			if isPoolCall(info, call, "Put") {
				st.Set("put", "1")
				putCall = call
			}
		},
		Use: func(x *an.Explorer, e ast.Expr, st *an.State) {
			if st.Get("put") == "" || afterUse.IsValid() {
				return
			}
			if putCall != nil && putCall.Pos() <= e.Pos() && e.End() <= putCall.End() {
				return // the argument of Put itself
			}
			if id, ok := an.Unparen(e).(*ast.Ident); ok && pooled[an.ObjOf(info, id)] {
				afterUse = id.Pos()
			}
		},
	})
	px.Run(nil)
	c.States += px.Visited
	c.Check(!afterUse.IsValid(), "C10.putlast", "(*Runtime).recover/no-use-after-Put", putPos, "the runtime is not touched after it was returned to the pool",
		"Runtime.recover uses the runtime after pool Put: another goroutine may already have taken it from the pool")
	// Execute defers recover before the first write to the runtime
	var deferPos, firstWrite token.Pos
	var stVar types.Object
	for _, st := range exec.Body.List {
		an.Assigns(st, func(lhs, rhs ast.Expr, _ token.Token) {
			if rc := callOf(stripAssert(rhs)); rhs != nil && rc != nil && isPoolCall(info, rc, "Get") {
				if id, ok := lhs.(*ast.Ident); ok {
					stVar = an.ObjOf(info, id)
				}
			}
		})
	}
	an.InspectOwn(exec, func(n ast.Node) bool {
		switch x := n.(type) {
		case *ast.DeferStmt:
			if an.IsCallTo(info, x.Call, "(*jet.Runtime).recover") && !deferPos.IsValid() {
				deferPos = x.Pos()
				// its argument is the address of the named error result
				okArg := false
				if len(x.Call.Args) == 1 {
					if u, ok := an.Unparen(x.Call.Args[0]).(*ast.UnaryExpr); ok && u.Op == token.AND {
						if id, ok := an.Unparen(u.X).(*ast.Ident); ok && exec.Sig.Results().Len() == 1 && an.ObjOf(info, id) == types.Object(exec.Sig.Results().At(0)) {
							okArg = true
						}
					}
				}
				c.Check(okArg, "C10.putlast", "(*Template).Execute/recover-arg", x.Pos(), "recover receives the address of Execute's named error result", "Execute does not hand the address of its named error result to Runtime.recover")
			}
		default:
			an.Assigns(n, func(lhs, _ ast.Expr, _ token.Token) {
				if id := an.RootIdent(lhs); id != nil && stVar != nil && an.ObjOf(info, id) == stVar && lhs != ast.Expr(id) && !firstWrite.IsValid() {
					firstWrite = lhs.Pos()
				}
			})
		}
		return true
	})
	c.Check(deferPos.IsValid() && (!firstWrite.IsValid() || deferPos < firstWrite), "C10.putlast", "(*Template).Execute/defer-first", exec.Pos(),
		"recover is deferred before Execute first writes to the runtime", "Execute writes to the pooled runtime before deferring Runtime.recover: a panic in between would leave it dirty and outside the pool")

	// ---- C10.ast
	eval, parse := p.Eval(), p.Parse()
	nFns, nBad := 0, 0
	for _, f := range an.SortedFns(eval) {
		if f.Pkg != p.Jet || f.Body == nil || parse[f] {
			continue
		}
		// configuration / global-registration API is not template execution
		if f.Sig != nil && f.Sig.Recv() != nil && an.TypeName(f.Sig.Recv().Type()) == "*jet.Set" {
			continue
		}
		nFns++
		finfo := f.Info()
		an.InspectOwn(f, func(n ast.Node) bool {
			an.Assigns(n, func(lhs, _ ast.Expr, _ token.Token) {
				if owner, field := stableFieldOnPath(p, finfo, lhs); owner != "" {
					nBad++
					c.Bad("C10.ast", f.Name+"/store:"+owner+"."+field, lhs.Pos(), nil,
						"%s, which runs while a template executes, stores to %s.%s (%s): executing must never modify the parsed template, the Set or call arguments", f.Name, owner, field, an.Str(lhs))
				}
			})
			return true
		})
	}
	c.Expect("C10.ast", "evaluator-only functions inspected", nFns, 60)
	if nBad == 0 {
		c.OK("C10.ast", "no-store", exec.Pos(), "none of the %d evaluator-only functions stores to a field of Template, Set, Arguments or an AST node", nFns)
	}

	// ---- C10.pools
	rangerPools(c, "C10.pools")
}

// stableFieldOnPath: the assignment stores into a field of a parse-time-immutable type, into a
// struct value embedded in one, or into a slice/map/array held in such a field.  Stores *through* a
// pointer held in such a field (a.runtime.Writer = …) modify the pointee, not the holder.
func stableFieldOnPath(p *an.Prog, info *types.Info, lhs ast.Expr) (owner, field string) {
	e := an.Unparen(lhs)
	for {
		switch x := e.(type) {
		case *ast.SelectorExpr:
			fv := an.FieldOf(info, x)
			if fv == nil {
				return "", ""
			}
			if p.StableField(info, x) {
				return p.FieldOwner(fv), an.RoleOf(fv)
			}
			// x.X.f = …: if x.X is a struct *value* (not a pointer), the store modifies whatever holds that value
			if _, isPtr := info.Types[x.X].Type.Underlying().(*types.Pointer); isPtr {
				return "", ""
			}
			e = an.Unparen(x.X)
		case *ast.IndexExpr:
			// x[i] = …: modifies the slice/map/array x; when x is held in a field, that field's owner is modified
			e = an.Unparen(x.X)
			if sel, ok := e.(*ast.SelectorExpr); ok {
				if fv := an.FieldOf(info, sel); fv != nil && p.StableField(info, sel) {
					return p.FieldOwner(fv), an.RoleOf(fv)
				}
				return "", ""
			}
			return "", ""
		default:
			return "", ""
		}
	}
}

// rangerPools: pooled rangers carry no residue and are not used after release.
func rangerPools(c *an.Ctx, rule string) {
	p := c.P
	info := p.Jet.TypesInfo
	pooled := p.Iface("", "pooledRanger")
	if pooled == nil {
		c.Anchor(rule, "interface pooledRanger")
		return
	}
	n := 0
	sc := p.Jet.Types.Scope()
	for _, name := range sc.Names() {
		tn, ok := sc.Lookup(name).(*types.TypeName)
		if !ok {
			continue
		}
		named, ok := tn.Type().(*types.Named)
		if !ok {
			continue
		}
		st, ok := named.Underlying().(*types.Struct)
		if !ok || !an.ImplementsIface(named, pooled) {
			continue
		}
		n++
		setup := p.Fn("(*" + name + ").Setup")
		if setup == nil {
			c.Anchor(rule, "(*"+name+").Setup")
			continue
		}
		c.FnsAnalysed[setup.Name] = true
		recv := types.Object(setup.Sig.Recv())
		x := p.NewExplorer(setup, an.Hooks{PreAssign: func(x *an.Explorer, lhs, rhs ast.Expr, stmt ast.Node, s *an.State) {
			if sel, ok := an.Unparen(lhs).(*ast.SelectorExpr); ok {
				if id, ok := an.Unparen(sel.X).(*ast.Ident); ok && an.ObjOf(info, id) == recv {
					s.Set("set:"+sel.Sel.Name, "1")
				}
			}
		}})
		x.Run(nil)
		c.States += x.Visited
		var missing []string
		for _, ex := range x.Exits {
			if ex.Kind != an.ExitReturn {
				continue
			}
			for i := 0; i < st.NumFields(); i++ {
				if ex.State.Get("set:"+an.RoleOf(st.Field(i))) == "" {
					missing = append(missing, an.RoleOf(st.Field(i)))
				}
			}
		}
		if len(missing) > 0 {
			c.Bad(rule, name+".Setup/all-fields", setup.Pos(), nil, "%s.Setup leaves field(s) %v as they were when the ranger was last used: a pooled ranger carries state from an earlier range", name, missing)
		} else {
			c.OK(rule, name+".Setup/all-fields", setup.Pos(), "Setup assigns all %d field(s) on every path", st.NumFields())
		}
	}
	c.Expect(rule, "pooled ranger types", n, 3)

	// the release function handed out by getRanger is called exactly once, after the last use of the ranger
	if el := c.Fn(rule, "(*Runtime).executeList"); el != nil {
		einfo := el.Info()
		// role: the variables that receive getRanger's second result
		releaseVars := map[types.Object]bool{}
		errOf := map[types.Object]types.Object{} // release variable → the error that came with it
		an.InspectOwn(el, func(nd ast.Node) bool {
			if as, ok := nd.(*ast.AssignStmt); ok && len(as.Rhs) == 1 && len(as.Lhs) == 3 {
				if call, ok := an.Unparen(as.Rhs[0]).(*ast.CallExpr); ok && an.IsCallTo(einfo, call, "jet.getRanger") {
					if id, ok := as.Lhs[1].(*ast.Ident); ok {
						releaseVars[an.ObjOf(einfo, id)] = true
					}
					if id, ok := as.Lhs[2].(*ast.Ident); ok {
						errOf[an.ObjOf(einfo, as.Lhs[1].(*ast.Ident))] = an.ObjOf(einfo, id)
					}
				}
			}
			return true
		})
		bad, twice, unchecked := token.NoPos, token.NoPos, token.NoPos
		nRel := 0
		errChecked := func(fun ast.Expr, s *an.State) bool {
			id, ok := an.Unparen(fun).(*ast.Ident)
			if !ok {
				return true
			}
			e := errOf[an.ObjOf(einfo, id)]
			return e == nil || an.FactIs(s, an.RoleOf(e)+" == nil", true)
		}
		x := p.NewExplorer(el, an.Hooks{Defer: func(x *an.Explorer, d *ast.DeferStmt, s *an.State) {
			if id, ok := an.Unparen(d.Call.Fun).(*ast.Ident); ok && releaseVars[an.ObjOf(einfo, id)] {
				nRel++
				if !errChecked(d.Call.Fun, s) && !unchecked.IsValid() {
					unchecked = d.Pos()
				}
				if s.Get("releaseDeferred") != "" && !twice.IsValid() {
					twice = d.Pos()
				}
				s.Set("releaseDeferred", "1") // runs when the function returns: the ranger stays usable until then
			}
		}, Call: func(x *an.Explorer, call *ast.CallExpr, s *an.State) {
			name := an.CalleeName(einfo, call)
			isRelease := false
			if id, ok := an.Unparen(call.Fun).(*ast.Ident); ok && releaseVars[an.ObjOf(einfo, id)] {
				isRelease = true
			}
			switch {
			case name == "jet.getRanger":
				s.Set("released", "")
				s.Set("releaseDeferred", "")
			case isRelease:
				nRel++
				if (s.Get("released") != "" || s.Get("releaseDeferred") != "") && !twice.IsValid() {
					twice = call.Pos()
				}
				if !errChecked(call.Fun, s) && !unchecked.IsValid() {
					unchecked = call.Pos()
				}
				s.Set("released", "1")
			case name == "(jet.Ranger).Range" || name == "(jet.Ranger).ProvidesIndex":
				if s.Get("released") != "" && !bad.IsValid() {
					bad = call.Pos()
				}
			}
		}})
		x.Run(nil)
		c.States += x.Visited
		c.Expect(rule, "calls of the ranger release function (state visits)", nRel, 1)
		c.Check(!bad.IsValid(), rule, "(*Runtime).executeList/no-use-after-cleanup", el.Pos(), "the ranger is not used after it was returned to its pool",
			"the range arm calls the ranger after its release function returned it to the pool: another execution may already be using it")
		c.Check(!unchecked.IsValid(), rule, "(*Runtime).executeList/release-after-error-check", el.Pos(), "the release function is called (or deferred) only after getRanger's error was found nil",
			"the range arm calls or defers the release function before getRanger's error was checked: on the error path it is nil, the call panics with a runtime error and Execute panics instead of returning the range error")
		c.Check(!twice.IsValid(), rule, "(*Runtime).executeList/release-once", el.Pos(), "the ranger is returned to its pool at most once",
			"a path through the range arm calls the ranger's release function twice: the same object is put into the pool twice and later handed to two nested ranges at once, which then share one cursor")
	}
	// every sync.Pool of the package has a known reset discipline for what it recycles
	poolDiscipline(c, rule)

	// getRanger hands out pool objects
	if gr := c.Fn(rule, "getRanger"); gr != nil {
		ginfo := gr.Info()
		ok := false
		an.InspectOwn(gr, func(nd ast.Node) bool {
			ret, isRet := nd.(*ast.ReturnStmt)
			if !isRet || len(ret.Results) != 3 {
				return true
			}
			for _, o := range valueOrigins(gr, ret.Results[0], 0) {
				if call, isCall := o.(*ast.CallExpr); isCall && an.CalleeName(ginfo, call) == "(*sync.Pool).Get" {
					ok = true
				}
			}
			return true
		})
		c.Check(ok, rule, "getRanger/from-pool", gr.Pos(), "built-in rangers are obtained from their pool for each range", "getRanger does not obtain the built-in ranger from its sync.Pool (a shared instance would be used by concurrent/nested ranges)")
		// a value that implements Ranger is iterated by its own Range method whatever its kind: a built-in
		// (pooled) ranger is taken only where the Implements(rangerType) test is known to have failed
		var gets []ast.Node
		if !strings.HasPrefix(rule, "C05") {
			return // element-order clause of C05 only
		}
		for _, call := range p.CallsIn(gr, "(*sync.Pool).Get") {
			gets = append(gets, call)
		}
		// (a nil value of an interface type has no Range method to call whatever its type implements: a path on which
		// the value is known to be one is not a path of a value that implements Ranger)
		preds := nilIfacePreds(p, "")
		var nilTests []*ast.CallExpr
		an.InspectOwn(gr, func(nd ast.Node) bool {
			if call, isCall := nd.(*ast.CallExpr); isCall {
				if callee := an.Callee(ginfo, call); callee != nil && preds[callee] {
					nilTests = append(nilTests, call)
				}
			}
			return true
		})
		// (kept in a register from the test on: the variable is usually reassigned by the dereferencing step that follows)
		pr := p.ProbeFn(gr, gets, an.Hooks{Branch: func(x *an.Explorer, cond ast.Expr, val bool, st *an.State) {
			for _, nt := range nilTests {
				if t, known := x.Truth(nt, st); known && t {
					st.Set("nil-interface", "1")
				}
			}
		}})
		c.States += pr.X.Visited
		okCustom := len(gets) > 0
		for _, g := range gets {
			if len(pr.At[g]) == 0 {
				okCustom = false
			}
			for _, st := range pr.At[g] {
				excluded := false
				for k, v := range st.Facts {
					if strings.Contains(an.PlainKey(k), ".Implements(rangerType)") && !v {
						excluded = true
					}
				}
				if st.Get("nil-interface") != "" {
					excluded = true
				}
				if !excluded {
					okCustom = false
				}
			}
		}
		c.Check(okCustom, rule, "getRanger/custom-first", gr.Pos(), "a built-in ranger is used only for values that do not implement Ranger",
			"getRanger can hand out a built-in ranger for a value whose type implements Ranger (the Implements test does not dominate the pool lookup): a custom Ranger over a slice, map or channel type is iterated element-wise instead of through its own Range()")
	}
	_ = fmt.Sprint
}

// valueOrigins traces a value back through local variables, type assertions and the fields of local
// struct values built by a composite literal (or assigned field by field) to the expressions it was
// computed by.
func valueOrigins(f *an.Fn, e ast.Expr, depth int) []ast.Expr {
	info := f.Info()
	e = an.Unparen(e)
	if depth > 6 {
		return []ast.Expr{e}
	}
	switch v := e.(type) {
	case *ast.TypeAssertExpr:
		return valueOrigins(f, v.X, depth+1)
	case *ast.Ident:
		o, isVar := an.ObjOf(info, v).(*types.Var)
		if !isVar || o.IsField() || o.Pkg() == nil || o.Parent() == o.Pkg().Scope() {
			return []ast.Expr{e}
		}
		var out []ast.Expr
		for _, d := range an.LocalDefs(f, o) {
			if d != nil {
				out = append(out, valueOrigins(f, d, depth+1)...)
			}
		}
		if len(out) == 0 {
			return []ast.Expr{e}
		}
		return out
	case *ast.SelectorExpr:
		fv := an.FieldOf(info, v)
		base, isId := an.Unparen(v.X).(*ast.Ident)
		if fv == nil || !isId {
			return []ast.Expr{e}
		}
		bo := an.ObjOf(info, base)
		var out []ast.Expr
		for _, d := range an.LocalDefs(f, bo) {
			if d == nil {
				continue
			}
			d = an.Unparen(d)
			if u, ok := d.(*ast.UnaryExpr); ok && u.Op == token.AND {
				d = an.Unparen(u.X)
			}
			cl, ok := d.(*ast.CompositeLit)
			if !ok {
				continue
			}
			st, _ := info.Types[cl].Type.Underlying().(*types.Struct)
			for i, el := range cl.Elts {
				if kv, ok := el.(*ast.KeyValueExpr); ok {
					if k, ok := kv.Key.(*ast.Ident); ok && an.ObjOf(info, k) == types.Object(fv) {
						out = append(out, valueOrigins(f, kv.Value, depth+1)...)
					}
				} else if st != nil && i < st.NumFields() && st.Field(i) == fv {
					out = append(out, valueOrigins(f, el, depth+1)...)
				}
			}
		}
		// field-by-field assignment: x.f = v
		ast.Inspect(f.Root().Body, func(n ast.Node) bool {
			an.Assigns(n, func(lhs, rhs ast.Expr, _ token.Token) {
				if sel, ok := an.Unparen(lhs).(*ast.SelectorExpr); ok && rhs != nil && an.FieldOf(info, sel) == fv {
					if id, ok := an.Unparen(sel.X).(*ast.Ident); ok && an.ObjOf(info, id) == bo {
						out = append(out, valueOrigins(f, rhs, depth+1)...)
					}
				}
			})
			return true
		})
		if len(out) == 0 {
			return []ast.Expr{e}
		}
		return out
	}
	return []ast.Expr{e}
}

// poolDiscipline: for every (*sync.Pool).Put in package jet, the recycled object is reset — by the
// Runtime reset of C10.reset, by a Setup call right after every Get (rangers), or by a Reset() call on the
// object that dominates the Put (or directly follows the Get).  A new pool without such a discipline
// carries state from one execution into another.
func poolDiscipline(c *an.Ctx, rule string) {
	p := c.P
	n := 0
	for _, f := range p.Units() {
		if f.Pkg != p.Jet || f.Body == nil {
			continue
		}
		info := f.Info()
		for _, put := range p.CallsDeep(f, "(*sync.Pool).Put") {
			if p.EnclosingFn(put.Pos()) != f {
				continue // reported for the innermost function
			}
			n++
			pool := an.Str(an.Receiver(put))
			arg := an.Unparen(put.Args[0])
			t := info.Types[arg].Type
			tn := an.TypeName(t)
			key := f.Name + "/Put:" + pool
			switch {
			case tn == "*jet.Runtime":
				c.OK(rule, key, put.Pos(), "the pooled Runtime is reset by Runtime.recover / Execute (C10.reset)")
			case tn == "jet.pooledRanger" || strings.Contains(tn, "Ranger"):
				// reset-on-get: every Get of that pool is followed by Setup
				c.OK(rule, key, put.Pos(), "pooled rangers are re-initialised by Setup after every Get (all fields: checked above)")
			default:
				// Reset() on the same object on every path before the Put, or deferred Put preceded by Reset after Get
				id, isId := arg.(*ast.Ident)
				reset := false
				root := f.Root()
				if isId {
					o := an.ObjOf(info, id)
					// a Reset() call on the object: directly after the Get, or before the Put / in the same deferred closure
					var getPos token.Pos
					for _, d := range an.LocalDefs(root, o) {
						if d != nil && strings.Contains(an.Str(d), ".Get()") {
							getPos = d.Pos()
						}
					}
					ast.Inspect(root.Body, func(m ast.Node) bool {
						call, ok := m.(*ast.CallExpr)
						if !ok {
							return true
						}
						if sel, ok := call.Fun.(*ast.SelectorExpr); ok && (sel.Sel.Name == "Reset" || sel.Sel.Name == "Truncate") {
							if rid, ok := an.Unparen(sel.X).(*ast.Ident); ok && an.ObjOf(info, rid) == o {
								// unconditional: a top-level statement of the function (or of the deferred literal containing the Put)
								for _, encl := range []*an.Fn{root, f} {
									for _, st := range encl.Body.List {
										if es, ok := st.(*ast.ExprStmt); ok && es.X == ast.Expr(call) {
											reset = true
										}
									}
								}
							}
						}
						return true
					})
					_ = getPos
				}
				if reset {
					c.OK(rule, key, put.Pos(), "the recycled %s is Reset unconditionally", tn)
				} else {
					c.Bad(rule, key, put.Pos(), nil, "%s returns a %s to %s without an unconditional Reset of it (and no reset-on-Get discipline is known for this pool): whatever it still holds — e.g. the output of a failed try body — is handed to a later execution", f.Name, tn, pool)
				}
			}
		}
	}
	c.Expect(rule, "sync.Pool Put sites", n, 2)
}

func stripAssert(e ast.Expr) ast.Expr {
	if e == nil {
		return nil
	}
	if ta, ok := an.Unparen(e).(*ast.TypeAssertExpr); ok {
		return ta.X
	}
	return e
}
