package rules

import (
	"go/ast"
	"go/token"
	"go/types"
	"sort"
	"strings"

	"jetverif/an"
)

// c10state (C10.state): what one Execute or GetTemplate leaves behind for the next is whatever is written, on
// the way, into storage that outlives the call: package-level variables and the fields of the Set, its
// templates, its cache and its loaders.  Each such store reachable from Execute or GetTemplate must be one
// of the disciplines another rule accounts for; a new one — a lookup table of failures, a memo keyed by
// something that is not the whole input, a "first time" flag — makes results depend on earlier calls, and
// the rules know nothing about it:
//
//	cachedStructsFieldIndex   memo of field paths per type (C06.cache, C10.memo, C11.guard)
//	sync.Pool variables       pooled Runtimes, rangers, … (C10.pools, C10.reset)
//	cache.m                   the default Cache implementation (contract of Cache: C16)
//	Template.*                written by the parser into the template it is building (C10.ast, C11.frozen)
func c10state(c *an.Ctx) { stateRule(c, "C10.state") }

// stateRule is shared by C10 (no residue from earlier executions) and C16 (failed lookups are never remembered).
func stateRule(c *an.Ctx, rule string) {
	p := c.P
	roots := []*an.Fn{}
	for _, n := range []string{"(*Template).Execute", "(*Set).GetTemplate", "(*Set).Parse"} {
		if f := p.Fn(n); f != nil {
			roots = append(roots, f)
		}
	}
	reach := p.Reach(roots...)
	for f := range p.Eval() {
		reach[f] = true
	}
	parse := p.Parse()
	// owners of long-lived fields: Set, Template, the default cache, every Loader implementation
	owners := map[string]bool{"Set": true, "Template": true, "cache": true}
	if li := p.Iface("", "Loader"); li != nil {
		for i := 0; i < li.NumMethods(); i++ {
			for _, im := range p.Implementations(li.Method(i)) {
				if im.Sig != nil && im.Sig.Recv() != nil {
					if n := an.NamedOf(im.Sig.Recv().Type()); n != nil {
						owners[n.Obj().Name()] = true
					}
				}
			}
		}
	}
	isSyncType := func(t types.Type) string {
		if ptr, ok := t.(*types.Pointer); ok {
			t = ptr.Elem()
		}
		s := an.TypeName(t)
		switch {
		case strings.HasPrefix(s, "sync.") || strings.HasPrefix(s, "atomic.") || strings.HasPrefix(s, "sync/atomic."):
			return s
		}
		return ""
	}
	readOnly := map[string]bool{"Load": true, "Range": true, "RLock": true, "RUnlock": true, "Lock": true, "Unlock": true, "Get": false}
	type site struct {
		f     *an.Fn
		pos   token.Pos
		what  string // the storage written
		how   string
		class string // "" = not accounted for
	}
	var sites []site
	classify := func(f *an.Fn, what string, typ types.Type) string {
		switch {
		case what == "var cachedStructsFieldIndex":
			return "memo of field paths (C06.cache, C10.memo)"
		case strings.HasPrefix(what, "var ") && typ != nil && isSyncType(typ) == "sync.Pool":
			return "object pool (C10.pools)"
		case strings.HasPrefix(what, "var ") && typ != nil && (isSyncType(typ) == "sync.RWMutex" || isSyncType(typ) == "sync.Mutex"):
			return "mutex"
		case what == "cache.m":
			return "the default Cache implementation (C16)"
		case strings.HasPrefix(what, "Template.") && parse[f]:
			return "the parser fills the template it is building"
		}
		return ""
	}
	// storage(e): the long-lived variable or field that e designates (through index expressions and derefs)
	var storage func(f *an.Fn, e ast.Expr) (string, types.Type)
	storage = func(f *an.Fn, e ast.Expr) (string, types.Type) {
		info := f.Info()
		switch x := an.Unparen(e).(type) {
		case *ast.Ident:
			if v, ok := an.ObjOf(info, x).(*types.Var); ok && !v.IsField() && v.Pkg() != nil && v.Parent() == v.Pkg().Scope() && p.IsModulePkg(v.Pkg()) {
				return "var " + v.Name(), v.Type()
			}
		case *ast.SelectorExpr:
			if fk := p.FieldKey(info, x); fk != "" {
				owner := fk
				if i := strings.LastIndex(fk, "."); i >= 0 {
					owner = fk[:i]
				}
				if j := strings.LastIndex(owner, "."); j >= 0 {
					owner = owner[j+1:]
				}
				if owners[owner] {
					if tv, ok := info.Types[x]; ok {
						return owner + "." + x.Sel.Name, tv.Type
					}
					return owner + "." + x.Sel.Name, nil
				}
			}
			// pkg.Var
			if v, ok := info.Uses[x.Sel].(*types.Var); ok && !v.IsField() && v.Pkg() != nil && v.Parent() == v.Pkg().Scope() && p.IsModulePkg(v.Pkg()) {
				return "var " + v.Name(), v.Type()
			}
		case *ast.IndexExpr:
			return storage(f, x.X)
		case *ast.StarExpr:
			return storage(f, x.X)
		case *ast.UnaryExpr:
			if x.Op == token.AND {
				return storage(f, x.X)
			}
		}
		return "", nil
	}
	// (every reachable function, also the new helpers that the other rules look at through their callers)
	var all []*an.Fn
	for f := range reach {
		all = append(all, f)
	}
	// package-level variables are process-wide whoever writes them: for those, every function of the module counts
	// (a constructor that registers something in a package-level table makes one Set's behaviour depend on another's)
	inReach := map[*an.Fn]bool{}
	for _, f := range all {
		inReach[f] = true
	}
	for _, f := range p.Fns {
		if !inReach[f] {
			all = append(all, f)
		}
	}
	sort.Slice(all, func(i, j int) bool { return all[i].Pos() < all[j].Pos() })
	for _, f := range all {
		if f.Body == nil || !p.IsModulePkg(f.Pkg.Types) {
			continue
		}
		if f.Decl != nil && f.Decl.Recv == nil && f.Decl.Name.Name == "init" {
			continue // package initialisation: runs once, before any template exists
		}
		info := f.Info()
		ast.Inspect(f.Body, func(n ast.Node) bool {
			if lit, ok := n.(*ast.FuncLit); ok && p.FnByLit[lit] != nil && p.FnByLit[lit] != f {
				return false // literals are functions of their own in reach
			}
			switch s := n.(type) {
			case *ast.AssignStmt:
				for _, l := range s.Lhs {
					if what, typ := storage(f, l); what != "" && (inReach[f] || strings.HasPrefix(what, "var ")) {
						sites = append(sites, site{f, l.Pos(), what, "assigned", classify(f, what, typ)})
					}
				}
			case *ast.IncDecStmt:
				if what, typ := storage(f, s.X); what != "" && (inReach[f] || strings.HasPrefix(what, "var ")) {
					sites = append(sites, site{f, s.Pos(), what, "incremented", classify(f, what, typ)})
				}
			case *ast.CallExpr:
				name := an.CalleeName(info, s)
				if name == "builtin.delete" && len(s.Args) == 2 {
					if what, typ := storage(f, s.Args[0]); what != "" && (inReach[f] || strings.HasPrefix(what, "var ")) {
						sites = append(sites, site{f, s.Pos(), what, "entry deleted", classify(f, what, typ)})
					}
				}
				if sel, ok := an.Unparen(s.Fun).(*ast.SelectorExpr); ok {
					if tv, ok := info.Types[sel.X]; ok && isSyncType(tv.Type) != "" && !readOnly[sel.Sel.Name] {
						if what, typ := storage(f, sel.X); what != "" && (inReach[f] || strings.HasPrefix(what, "var ")) {
							sites = append(sites, site{f, s.Pos(), what, sel.Sel.Name, classify(f, what, typ)})
						}
					}
				}
			}
			return true
		})
	}
	sort.Slice(sites, func(i, j int) bool { return sites[i].pos < sites[j].pos })
	count := map[string]int{}
	nOK := 0
	for _, s := range sites {
		key := s.f.Name + "/" + s.what
		count[key]++
		if count[key] > 1 {
			key += "#" + itoa(count[key])
		}
		c.FnsAnalysed[s.f.Name] = true
		if s.class != "" {
			nOK++
			c.OK(rule, key, s.pos, "%s: %s", s.how, s.class)
		} else {
			c.Bad(rule, key, s.pos, nil, "%s writes %s (%s) on a path reachable from Execute or GetTemplate: storage that outlives the call and that no rule accounts for — what a later execution or lookup yields can then depend on the calls made before it", s.f.Name, s.what, s.how)
		}
	}
	c.Expect(rule, "accounted stores into long-lived storage on execution/lookup paths", nOK, 10)
}
