package rules

import (
	"fmt"
	"go/ast"
	"go/token"
	"go/types"
	"sort"
	"strings"

	"jetverif/an"
)

func init() {
	register(&Property{
		ID:  "C11",
		Run: runC11,
		Meta: an.Meta{
			Technique: "lockset discipline on CFG paths for every mutex-guarded object (discovered from the declarations), an immutable-after-init inventory of all package-level variables, a who-may-write inventory for Set/Template fields, and an escape check for per-execution objects",
			Explanation: "A lockset and an immutability discipline, not schedules: (C11.guard) the guarded objects are discovered as maps declared next to a mutex (Set.globals↔Set.gmx, cachedStructsFieldIndex↔" +
				"cachedStructsMutex, InMemLoader.files↔InMemLoader.lock); on every CFG path each read of a guarded object (or of a local alias of it) happens while its mutex is held (read or write " +
				"lock, deferred unlock included) and each write while it is held exclusively; the per-type field cache is filled only before it is published into the guarded map, inside the write-locked " +
				"region. (C11.globals) every package-level variable of the module is a sync type, is never stored to or mutated outside its declaration/init, or is a guarded object. (C11.frozen) " +
				"Set fields other than globals are written only by NewSet and the option functions, Template fields only by functions reachable from Set.parse (before the template is returned), " +
				"and the default cache's map is a sync.Map. (C11.perexec) no *Runtime, *scope, VarMap or pooled ranger is stored into a package-level variable or into a Set/Template field. (C11.guard, continued) every Lock/RLock is released on every way out of its function: by a deferred unlock, or by an unlock on every path with nothing in between that can panic.",
			NotDecided:  "data-race freedom as such (memory model, all schedules); atomicity of check-then-load in getTemplate (two goroutines may both parse the same template); user-supplied Loader/Cache/functions; Multi.AddLoaders (unsynchronised by documentation).",
			Assumptions: []string{"all accesses to one guarded object go through the mutex declared next to it (same instance)", "sync.Pool, sync.Map and sync.RWMutex behave as documented"},
			Trusted:     commonTrusted,
		},
		Mutants: []Mutant{
			{Name: "dump reads globals without the lock (original defect)", File: "dump.go", Old: "\ta.runtime.set.gmx.RLock()\n\tdefer a.runtime.set.gmx.RUnlock()\n\tvars = a.runtime.set.globals", New: "\tvars = a.runtime.set.globals", Rule: "C11.guard"},
			{Name: "dump releases the globals lock with a plain statement after printing (original defect)", File: "dump.go", Old: "\tdefer a.runtime.set.gmx.RUnlock()\n", New: "", More: []Edit{{File: "dump.go", Old: "\t\tfmt.Fprintf(&b, \"\\t%s:=%#v // %s\\n\", name, val, getTypeString(val))\n\t}\n", New: "\t\tfmt.Fprintf(&b, \"\\t%s:=%#v // %s\\n\", name, val, getTypeString(val))\n\t}\n\ta.runtime.set.gmx.RUnlock()\n"}}, Rule: "C11.guard"},
			{Name: "InMemLoader.Open returns early with the read lock held (agent seed C11/12)", File: "loader.go", Old: "\tl.lock.RLock()\n\tdefer l.lock.RUnlock()\n\tf, ok := l.files[templatePath]", New: "\tl.lock.RLock()\n\tf, ok := l.files[templatePath]\n\tif ok {\n\t\tl.lock.RUnlock()\n\t}", Rule: "C11.guard"},
			{Name: "globals read after the read lock was released", File: "eval.go", Old: "\tstate.set.gmx.RLock()\n\tv, ok := state.set.globals[name]\n\tstate.set.gmx.RUnlock()", New: "\tstate.set.gmx.RLock()\n\tstate.set.gmx.RUnlock()\n\tv, ok := state.set.globals[name]", Rule: "C11.guard"},
			{Name: "AddGlobal writes under the read lock", File: "set.go", Old: "\ts.gmx.Lock()\n\tdefer s.gmx.Unlock()\n\ts.globals[key] = reflect.ValueOf(i)", New: "\ts.gmx.RLock()\n\tdefer s.gmx.RUnlock()\n\ts.globals[key] = reflect.ValueOf(i)", Rule: "C11.guard"},
			{Name: "field cache published before it is filled", File: "eval.go", Old: "\t\t\t\tcache = make(map[string][]int)\n\t\t\t\tbuildCache(typ, cache, nil)\n\t\t\t\tcachedStructsFieldIndex[typ] = cache", New: "\t\t\t\tcache = make(map[string][]int)\n\t\t\t\tcachedStructsFieldIndex[typ] = cache\n\t\t\t\tbuildCache(typ, cache, nil)", Rule: "C11.guard"},
			{Name: "field cache written under the read lock", File: "eval.go", Old: "\t\tif !ok {\n\t\t\tcachedStructsMutex.Lock()\n\t\t\tif cache, ok = cachedStructsFieldIndex[typ]; !ok {\n\t\t\t\tcache = make(map[string][]int)\n\t\t\t\tbuildCache(typ, cache, nil)\n\t\t\t\tcachedStructsFieldIndex[typ] = cache\n\t\t\t}\n\t\t\tcachedStructsMutex.Unlock()\n\t\t}", New: "\t\tif !ok {\n\t\t\tcachedStructsMutex.RLock()\n\t\t\tif cache, ok = cachedStructsFieldIndex[typ]; !ok {\n\t\t\t\tcache = make(map[string][]int)\n\t\t\t\tbuildCache(typ, cache, nil)\n\t\t\t\tcachedStructsFieldIndex[typ] = cache\n\t\t\t}\n\t\t\tcachedStructsMutex.RUnlock()\n\t\t}", Rule: "C11.guard"},
			{Name: "InMemLoader.Exists without the lock", File: "loader.go", Old: "\ttemplatePath = l.normalize(templatePath)\n\tl.lock.RLock()\n\tdefer l.lock.RUnlock()\n\t_, ok := l.files[templatePath]\n\treturn ok", New: "\ttemplatePath = l.normalize(templatePath)\n\t_, ok := l.files[templatePath]\n\treturn ok", Rule: "C11.guard"},
			{Name: "a package-level memo table", File: "eval.go", Old: "func getTypeString(value reflect.Value) string {\n\tif value.IsValid() {\n\t\treturn value.Type().String()\n\t}", New: "var typeNames = map[reflect.Type]string{}\n\nfunc getTypeString(value reflect.Value) string {\n\tif value.IsValid() {\n\t\tif s, ok := typeNames[value.Type()]; ok {\n\t\t\treturn s\n\t\t}\n\t\ttypeNames[value.Type()] = value.Type().String()\n\t\treturn value.Type().String()\n\t}", Rule: "C11.globals"},
			{Name: "last runtime remembered in the Set", File: "exec.go", Old: "\tst.set = t.set\n", New: "\tst.set = t.set\n\tt.set.globals[\"__runtime\"] = reflect.ValueOf(st)\n", Rule: "C11."},
			{Name: "template mutated while executing (extends chain flattened lazily)", File: "exec.go", Old: "\tfor t.extends != nil {\n\t\tt = t.extends\n\t}\n", New: "\tfor t.extends != nil {\n\t\tif t.extends.extends != nil {\n\t\t\tt.extends = t.extends.extends\n\t\t\tcontinue\n\t\t}\n\t\tt = t.extends\n\t}\n", Rule: "C11.frozen"},
			{Name: "importer adopts the block table of its first import (agent seed C11/1)", File: "parse.go", Old: "\tfor _, _import := range t.imports {\n\t\tt.addBlocks(_import.processedBlocks)\n\t}\n\n\tt.addBlocks(t.passedBlocks)", New: "\tfor i, _import := range t.imports {\n\t\tif i == 0 && t.processedBlocks == nil {\n\t\t\tt.processedBlocks = _import.processedBlocks\n\t\t\tcontinue\n\t\t}\n\t\tt.addBlocks(_import.processedBlocks)\n\t}\n\n\tt.addBlocks(t.passedBlocks)", Rule: "C11.frozen"},
			{Name: "InMemLoader.Set reuses the old buffer (agent seed C11/2)", File: "loader.go", Old: "\tl.files[templatePath] = []byte(contents)", New: "\tl.files[templatePath] = append(l.files[templatePath][:0], contents...)", Rule: "C11.frozen"},
			{Name: "equivalent: InMemLoader.Set copies with append onto nil", File: "loader.go", Old: "\tl.files[templatePath] = []byte(contents)", New: "\tl.files[templatePath] = append([]byte(nil), contents...)", Rule: "-"},
			{Name: "Set option written after construction (lazy default)", File: "set.go", Old: "func (s *Set) getTemplateFromCache(templatePath string) (t *Template, ok bool) {\n", New: "func (s *Set) getTemplateFromCache(templatePath string) (t *Template, ok bool) {\n\tif s.extensions == nil {\n\t\ts.extensions = []string{\"\"}\n\t}\n", Rule: "C11.frozen"},
		},
	})
}

type guarded struct {
	name  string // "Set.globals" or "var:cachedStructsFieldIndex"
	mutex string // "Set.gmx" or "var:cachedStructsMutex"
}

func runC11(c *an.Ctx) {
	p := c.P
	gs := discoverGuarded(p)
	var names []string
	for _, g := range gs {
		names = append(names, g.name+"↔"+g.mutex)
	}
	sort.Strings(names)
	c.Note("guarded objects: %v", names)
	c.Expect("C11.guard", "mutex-guarded maps", len(gs), 3)
	c11guard(c, gs)
	c11release(c)
	c11publish(c)
	c11globals(c, gs)
	c11frozen(c)
	c11perexec(c)
}

func isMutexType(t types.Type) bool {
	s := an.TypeName(t)
	return s == "sync.RWMutex" || s == "*sync.RWMutex" || s == "sync.Mutex" || s == "*sync.Mutex"
}

// discoverGuarded: a map field declared in a struct that also declares a mutex field; a package-level map
// declared next to a package-level mutex whose name shares its stem.
func discoverGuarded(p *an.Prog) []guarded {
	var out []guarded
	for _, pk := range p.Pkgs {
		sc := pk.Types.Scope()
		var muVars []string
		for _, n := range sc.Names() {
			if v, ok := sc.Lookup(n).(*types.Var); ok && isMutexType(v.Type()) {
				muVars = append(muVars, n)
			}
		}
		for _, n := range sc.Names() {
			switch o := sc.Lookup(n).(type) {
			case *types.TypeName:
				st, ok := o.Type().Underlying().(*types.Struct)
				if !ok {
					continue
				}
				mu := ""
				for i := 0; i < st.NumFields(); i++ {
					if isMutexType(st.Field(i).Type()) {
						mu = an.RoleOf(st.Field(i))
					}
				}
				if mu == "" {
					continue
				}
				prefix := ""
				if pk != p.Jet {
					prefix = pk.Name + "."
				}
				for i := 0; i < st.NumFields(); i++ {
					if _, isMap := st.Field(i).Type().Underlying().(*types.Map); isMap {
						out = append(out, guarded{prefix + n + "." + an.RoleOf(st.Field(i)), prefix + n + "." + mu})
					}
				}
			case *types.Var:
				if _, isMap := o.Type().Underlying().(*types.Map); !isMap {
					continue
				}
				for _, m := range muVars {
					stem := strings.TrimSuffix(m, "Mutex")
					if stem != m && strings.HasPrefix(n, stem) {
						out = append(out, guarded{"var:" + n, "var:" + m})
					}
				}
			}
		}
	}
	return out
}

// objKey names what an expression denotes for the lockset analysis: a struct field or a package-level variable.
func objKey(p *an.Prog, info *types.Info, e ast.Expr) string {
	e = an.Unparen(e)
	if k := p.FieldKey(info, e); k != "" {
		return k
	}
	if id, ok := e.(*ast.Ident); ok {
		if v, ok := an.ObjOf(info, id).(*types.Var); ok && v.Pkg() != nil && v.Parent() == v.Pkg().Scope() {
			return "var:" + v.Name()
		}
	}
	return ""
}

func c11guard(c *an.Ctx, gs []guarded) {
	p := c.P
	byObj := map[string]guarded{}
	mutexes := map[string]bool{}
	for _, g := range gs {
		byObj[g.name] = g
		mutexes[g.mutex] = true
	}
	nAccess := 0
	for _, f := range p.Units() {
		if f.Body == nil {
			continue
		}
		info := f.Info()
		// does f (own body) touch a guarded object outside a composite literal?
		touches := false
		an.InspectOwn(f, func(n ast.Node) bool {
			if e, ok := n.(ast.Expr); ok {
				if _, isG := byObj[objKey(p, info, e)]; isG {
					touches = true
				}
			}
			return true
		})
		if !touches {
			continue
		}
		// constructors initialise the object before it is published
		if f.Sig != nil && f.Sig.Recv() == nil && f.Obj != nil && strings.HasPrefix(f.Obj.Name(), "New") {
			continue
		}
		c.FnsAnalysed[f.Name] = true
		type finding struct {
			pos token.Pos
			msg string
		}
		var bad []finding
		addBad := func(pos token.Pos, msg string) {
			for _, b := range bad {
				if b.pos == pos {
					return
				}
			}
			bad = append(bad, finding{pos, msg})
		}
		writes := map[ast.Expr]bool{} // guarded expressions in write position
		an.InspectOwn(f, func(n ast.Node) bool {
			an.Assigns(n, func(lhs, _ ast.Expr, _ token.Token) {
				if ix, ok := an.Unparen(lhs).(*ast.IndexExpr); ok {
					writes[an.Unparen(ix.X)] = true
				}
			})
			if call, ok := n.(*ast.CallExpr); ok && an.IsCallTo(info, call, "builtin.delete") && len(call.Args) == 2 {
				writes[an.Unparen(call.Args[0])] = true
			}
			return true
		})
		aliasReg := func(o types.Object) string { return fmt.Sprintf("alias:%s·%d", o.Name(), int(o.Pos())) }
		check := func(x *an.Explorer, e ast.Expr, g guarded, st *an.State) {
			nAccess++
			held := st.Get("lk:" + g.mutex)
			isWrite := writes[an.Unparen(e)]
			switch {
			case held == "":
				addBad(e.Pos(), fmt.Sprintf("%s accesses %s while %s is not held", f.Name, g.name, g.mutex))
			case isWrite && held != "W":
				addBad(e.Pos(), fmt.Sprintf("%s writes %s while %s is only read-locked", f.Name, g.name, g.mutex))
			}
		}
		hooks := an.Hooks{
			Call: func(x *an.Explorer, call *ast.CallExpr, st *an.State) {
				recv := an.Receiver(call)
				if recv == nil {
					return
				}
				mk := objKey(p, info, recv)
				if !mutexes[mk] {
					// a local that holds the pointer to the mutex (gmx := set.gmx)
					if id, ok := an.Unparen(recv).(*ast.Ident); ok {
						if o := an.ObjOf(info, id); o != nil {
							mk = st.Get("m" + aliasReg(o))
						}
					}
					if !mutexes[mk] {
						return
					}
				}
				switch name := an.CalleeName(info, call); {
				case strings.HasSuffix(name, ").Lock"):
					st.Set("lk:"+mk, "W")
				case strings.HasSuffix(name, ").RLock"):
					st.Set("lk:"+mk, "R")
				case strings.HasSuffix(name, ").Unlock"), strings.HasSuffix(name, ").RUnlock"):
					st.Set("lk:"+mk, "")
				}
			},
			Use: func(x *an.Explorer, e ast.Expr, st *an.State) {
				if g, ok := byObj[objKey(p, info, e)]; ok {
					check(x, e, g, st)
					return
				}
				// a local alias of a guarded object
				if id, ok := e.(*ast.Ident); ok {
					if o := an.ObjOf(info, id); o != nil {
						if gn := st.Get(aliasReg(o)); gn != "" {
							check(x, e, byObj[gn], st)
						}
					}
				}
			},
			PreAssign: func(x *an.Explorer, lhs, rhs ast.Expr, stmt ast.Node, st *an.State) {
				id, ok := an.Unparen(lhs).(*ast.Ident)
				if !ok {
					return
				}
				o := an.ObjOf(info, id)
				if o == nil {
					return
				}
				st.Set("m"+aliasReg(o), "")
				if rhs != nil {
					if _, isG := byObj[objKey(p, info, rhs)]; isG {
						st.Set(aliasReg(o), objKey(p, info, rhs))
						return
					}
					// a copy of a *pointer* to a mutex is the same mutex
					if mk := objKey(p, info, rhs); mutexes[mk] {
						if tv, has := info.Types[rhs]; has && tv.Type != nil {
							if _, isPtr := tv.Type.Underlying().(*types.Pointer); isPtr {
								st.Set("m"+aliasReg(o), mk)
							}
						}
					}
				}
				st.Set(aliasReg(o), "")
			},
		}
		x := p.NewExplorer(f, hooks)
		x.Run(nil)
		c.States += x.Visited
		// deferred unlocks never clear the state (the Defer hook is not the Call hook), which is what we want
		if len(bad) == 0 {
			c.OK("C11.guard", f.Name, f.Pos(), "every access to a guarded object happens under its mutex (exclusive for writes)")
		}
		for _, b := range bad {
			c.Bad("C11.guard", f.Name, b.pos, nil, "%s: a concurrent AddGlobal / template execution / loader edit races with it", b.msg)
		}
	}
	c.Expect("C11.guard", "accesses to guarded objects (state visits)", nAccess, 10)
}

// c11publish: the per-type field cache is complete before it becomes visible.
func c11publish(c *an.Ctx) {
	p := c.P
	ri := c.Fn("C11.guard", "resolveIndex")
	if ri == nil {
		return
	}
	info := ri.Info()
	var publish token.Pos
	an.InspectOwn(ri, func(n ast.Node) bool {
		an.Assigns(n, func(lhs, _ ast.Expr, _ token.Token) {
			if ix, ok := an.Unparen(lhs).(*ast.IndexExpr); ok && objKey(p, info, ix.X) == "var:cachedStructsFieldIndex" {
				publish = lhs.Pos()
			}
		})
		return true
	})
	ok := publish.IsValid()
	for _, call := range p.CallsIn(ri, "jet.buildCache") {
		if call.Pos() > publish {
			ok = false
		}
	}
	// no store into the inner map in resolveIndex itself
	an.InspectOwn(ri, func(n ast.Node) bool {
		an.Assigns(n, func(lhs, _ ast.Expr, _ token.Token) {
			if ix, isIx := an.Unparen(lhs).(*ast.IndexExpr); isIx && an.Str(ix.X) == "cache" {
				ok = false
			}
		})
		return true
	})
	// buildCache is only called from resolveIndex (before publication) and from itself
	for _, s := range p.AllCalls("jet.buildCache") {
		if s.Fn.Name != "resolveIndex" && s.Fn.Name != "buildCache" {
			ok = false
		}
	}
	c.Check(ok, "C11.guard", "resolveIndex/publish-after-fill", ri.Pos(), "the per-type field cache is filled before it is stored into the shared map and never written afterwards",
		"the per-type field cache is (or can be) written after it was published into cachedStructsFieldIndex: readers holding only the read lock see a map that is being written")
}

func c11globals(c *an.Ctx, gs []guarded) {
	p := c.P
	isGuarded := map[string]bool{}
	for _, g := range gs {
		isGuarded[g.name] = true
	}
	n := 0
	for _, pk := range p.Pkgs {
		sc := pk.Types.Scope()
		prefix := ""
		if pk != p.Jet {
			prefix = pk.Name + "."
		}
		for _, name := range sc.Names() {
			v, ok := sc.Lookup(name).(*types.Var)
			if !ok {
				continue
			}
			n++
			key := prefix + name
			tn := an.TypeName(v.Type())
			if strings.HasPrefix(tn, "sync.") || strings.HasPrefix(tn, "*sync.") {
				c.OK("C11.globals", key, v.Pos(), "a sync type")
				continue
			}
			// stores / mutations outside init and the declaration
			var where token.Pos
			var who string
			for _, f := range p.Units() {
				if f.Pkg != pk || f.Body == nil {
					continue
				}
				if f.Root().Decl != nil && f.Root().Decl.Name.Name == "init" && f.Root().Decl.Recv == nil && f.Lit == nil {
					continue
				}
				info := f.Info()
				an.InspectOwn(f, func(nd ast.Node) bool {
					an.Assigns(nd, func(lhs, _ ast.Expr, _ token.Token) {
						if id := an.RootIdent(lhs); id != nil && an.ObjOf(info, id) == types.Object(v) && !where.IsValid() {
							where, who = lhs.Pos(), f.Name
						}
					})
					if call, ok := nd.(*ast.CallExpr); ok && an.IsCallTo(info, call, "builtin.delete") {
						if id := an.RootIdent(call.Args[0]); id != nil && an.ObjOf(info, id) == types.Object(v) && !where.IsValid() {
							where, who = call.Pos(), f.Name
						}
					}
					return true
				})
			}
			// a map, slice or pointer that is handed out as a value (assigned, passed, returned, stored) can be
			// written through the alias: "never written by name" is then no guarantee
			var escPos token.Pos
			var escWho string
			switch v.Type().Underlying().(type) {
			case *types.Map, *types.Slice, *types.Pointer:
				for _, f := range p.Units() {
					if f.Pkg != pk || f.Body == nil || escPos.IsValid() {
						continue
					}
					if f.Root().Decl != nil && f.Root().Decl.Name.Name == "init" && f.Root().Decl.Recv == nil && f.Lit == nil {
						continue
					}
					info := f.Info()
					var stack []ast.Node
					ast.Inspect(f.Body, func(nd ast.Node) bool {
						if nd == nil {
							stack = stack[:len(stack)-1]
							return true
						}
						stack = append(stack, nd)
						id, ok := nd.(*ast.Ident)
						if !ok || an.ObjOf(info, id) != types.Object(v) || len(stack) < 2 || escPos.IsValid() {
							return true
						}
						switch par := stack[len(stack)-2].(type) {
						case *ast.IndexExpr:
							if par.X == ast.Expr(id) {
								return true
							}
						case *ast.SelectorExpr:
							return true
						case *ast.RangeStmt:
							if par.X == ast.Expr(id) {
								return true
							}
						case *ast.CallExpr:
							if an.IsCallTo(info, par, "builtin.len", "builtin.cap", "builtin.delete") {
								return true
							}
						case *ast.BinaryExpr:
							if par.Op == token.EQL || par.Op == token.NEQ {
								return true // compared with nil
							}
						case *ast.AssignStmt:
							for _, l := range par.Lhs {
								if l == ast.Expr(id) {
									return true // assigned to (counted as a write above)
								}
							}
						case *ast.StarExpr, *ast.UnaryExpr:
							return true
						}
						escPos, escWho = id.Pos(), f.Name
						return true
					})
				}
			}
			if escPos.IsValid() && !isGuarded["var:"+name] {
				c.Bad("C11.globals", key+"/escapes", escPos, nil, "package-level %s (a %s) is handed out as a value by %s at run time: whatever receives it shares one object with every other execution, and a write through that alias is a write to process-wide state", key, tn, escWho)
				continue
			}
			switch {
			case !where.IsValid():
				c.OK("C11.globals", key, v.Pos(), "never written outside its declaration / init (immutable after initialisation)")
			case isGuarded["var:"+name]:
				c.OK("C11.globals", key, v.Pos(), "a mutex-guarded object (C11.guard)")
			default:
				c.Bad("C11.globals", key, where, nil, "package-level variable %s is written by %s at run time but is neither a sync type nor guarded by a mutex: concurrent executions race on it", key, who)
			}
		}
	}
	c.Expect("C11.globals", "package-level variables", n, 15)
}

func c11frozen(c *an.Ctx) {
	p := c.P
	parse, eval := p.Parse(), p.Eval()
	nSet, nTmpl := 0, 0
	for _, f := range p.Units() {
		if f.Pkg != p.Jet || f.Body == nil {
			continue
		}
		info := f.Info()
		an.InspectOwn(f, func(n ast.Node) bool {
			an.Assigns(n, func(lhs, _ ast.Expr, _ token.Token) {
				// the stored location: the last selector on the path (or the container of an index store)
				target := an.Unparen(lhs)
				if ix, ok := target.(*ast.IndexExpr); ok {
					target = an.Unparen(ix.X)
				}
				fk := p.FieldKey(info, target)
				root := f.Root()
				switch {
				case strings.HasPrefix(fk, "Set."):
					nSet++
					if fk == "Set.globals" {
						return // guarded (C11.guard)
					}
					isOption := root.Sig != nil && root.Sig.Results().Len() == 1 && an.TypeName(root.Sig.Results().At(0).Type()) == "jet.Option"
					if root.Name != "NewSet" && !isOption {
						c.Bad("C11.frozen", f.Name+"/store:"+fk, lhs.Pos(), nil, "%s writes %s after the Set was constructed: concurrent GetTemplate/Execute calls read it without synchronisation", f.Name, fk)
					}
				case strings.HasPrefix(fk, "Template."):
					nTmpl++
					// a violation is a store by code that runs while templates execute but is not part of parsing
					// (unreachable parser helpers such as backup3 are neither)
					if eval[root] && !parse[root] && root.Name != "(*Set).parse" {
						c.Bad("C11.frozen", f.Name+"/store:"+fk, lhs.Pos(), nil, "%s writes %s outside parsing: the template is shared between concurrent executions and must be read-only once parse returned it", f.Name, fk)
					}
				}
			})
			return true
		})
	}
	c.Expect("C11.frozen", "stores to Set fields", nSet, 8)
	c.Expect("C11.frozen", "stores to Template fields", nTmpl, 5)
	c.OK("C11.frozen", "writers", p.Jet.Syntax[0].Pos(), "Set fields are written only by NewSet/options (globals under its mutex), Template fields only while parsing (%d + %d stores)", nSet, nTmpl)
	// no published object adopts another object's map: every map stored in a field of Set, Template, the
	// default cache or the in-memory loader is freshly allocated (or nil)
	isMap := func(t types.Type) bool { _, ok := t.Underlying().(*types.Map); return ok }
	nm := checkFresh(c, "C11.frozen", fieldStores(c, map[string]bool{"Template": true, "Set": true, "InMemLoader": true, "cache": true}, isMap),
		"a map adopted from another (already published) object is written while that object is read by concurrent executions", false)
	c.Expect("C11.frozen", "map-typed field stores of Set/Template/InMemLoader", nm, 3)
	// contents handed to readers by the in-memory loader are never modified in place
	ns := checkFresh(c, "C11.frozen", fieldIndexStores(c, "InMemLoader.files"), "Open hands out a reader over the stored bytes and GetTemplate reads it after the loader's lock is released; reusing the old buffer lets a concurrent Set change the bytes under that reader", false)
	c.Expect("C11.frozen", "stores into InMemLoader.files", ns, 1)
	nr := inPlaceWrites(c, "C11.frozen", "InMemLoader.files", "readers obtained from Open still read that storage without the lock")
	c.Expect("C11.frozen", "accesses to InMemLoader.files entries", nr, 3)
	// the default cache is a sync.Map
	if ct := p.LookupType(p.Jet, "cache"); ct != nil {
		fv := an.Field(ct, "m")
		c.Check(fv != nil && an.TypeName(fv.Type()) == "sync.Map", "C11.frozen", "cache.m", ct.Obj().Pos(), "the default cache stores templates in a sync.Map", "the default cache's map is not a sync.Map (concurrent Get/Put would race)")
	} else {
		c.Anchor("C11.frozen", "type cache")
	}
}

func c11perexec(c *an.Ctx) {
	p := c.P
	perExec := func(t types.Type) bool {
		s := an.TypeName(t)
		return s == "*jet.Runtime" || s == "*jet.scope" || s == "jet.VarMap" || s == "jet.Ranger" || s == "jet.pooledRanger" || strings.HasSuffix(s, "Ranger") && strings.HasPrefix(s, "*jet.")
	}
	bad := false
	for _, f := range p.Units() {
		if f.Pkg != p.Jet || f.Body == nil {
			continue
		}
		info := f.Info()
		an.InspectOwn(f, func(n ast.Node) bool {
			an.Assigns(n, func(lhs, rhs ast.Expr, _ token.Token) {
				if rhs == nil {
					return
				}
				// what is stored: the value, or a reflect.ValueOf(<per-exec value>)
				val := an.Unparen(rhs)
				if call, ok := val.(*ast.CallExpr); ok && an.CalleeName(info, call) == "reflect.ValueOf" && len(call.Args) == 1 {
					val = an.Unparen(call.Args[0])
				}
				if !perExec(info.Types[val].Type) {
					return
				}
				// a VarMap built on the spot is not the variables of an execution (Set.globals and the
				// table of built-ins are VarMaps too): only a VarMap that comes from somewhere else counts
				if an.TypeName(info.Types[val].Type) == "jet.VarMap" {
					if _, isLit := val.(*ast.CompositeLit); isLit {
						return
					}
					if call, ok := val.(*ast.CallExpr); ok && an.CalleeName(info, call) == "builtin.make" {
						return
					}
				}
				target := an.Unparen(lhs)
				if ix, ok := target.(*ast.IndexExpr); ok {
					target = an.Unparen(ix.X)
				}
				k := objKey(p, info, target)
				if strings.HasPrefix(k, "var:") || strings.HasPrefix(k, "Set.") || strings.HasPrefix(k, "Template.") {
					bad = true
					c.Bad("C11.perexec", f.Name+"/escape:"+k, lhs.Pos(), nil, "%s stores per-execution state (%s) into %s, which is shared between executions", f.Name, an.TypeName(info.Types[val].Type), k)
				}
			})
			return true
		})
	}
	if !bad {
		c.OK("C11.perexec", "no-escape", p.Jet.Syntax[0].Pos(), "no Runtime, scope, VarMap or ranger is stored into a package-level variable or a Set/Template field")
	}
}
