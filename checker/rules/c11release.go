package rules

import (
	"go/ast"
	"go/token"
	"sort"
	"strings"

	"jetverif/an"
)

// c11release (C11.guard, continued): a mutex that stays locked blocks every later AddGlobal / loader edit /
// first-time load for ever, so every Lock/RLock of the module is released on every way out of the function:
// by a deferred unlock, or by an unlock call on every path to a return with nothing in between that can
// panic (a panic unwinds past a plain unlock; Execute turns it into an error and carries on with the lock
// still held).
func c11release(c *an.Ctx) {
	p := c.P
	isMutexCall := func(name string) (kind string) {
		for _, pre := range []string{"(*sync.RWMutex).", "(*sync.Mutex)."} {
			if strings.HasPrefix(name, pre) {
				return strings.TrimPrefix(name, pre)
			}
		}
		return ""
	}
	nLocks := 0
	for _, f := range p.Units() {
		if f.Body == nil {
			continue
		}
		info := f.Info()
		has := false
		an.InspectOwn(f, func(n ast.Node) bool {
			if call, ok := n.(*ast.CallExpr); ok {
				if k := isMutexCall(an.CalleeName(info, call)); k == "Lock" || k == "RLock" {
					has = true
				}
			}
			return !has
		})
		if !has {
			continue
		}
		c.FnsAnalysed[f.Name] = true
		type finding struct {
			pos   token.Pos
			msg   string
			facts []string
		}
		var bad []finding
		seen := map[string]bool{}
		report := func(pos token.Pos, msg string, st *an.State) {
			if seen[msg] {
				return
			}
			seen[msg] = true
			bad = append(bad, finding{pos, msg, an.Facts(st)})
		}
		mutexKey := func(call *ast.CallExpr) string { return an.Str(an.Receiver(call)) }
		unlockOf := map[string]string{"Lock": "Unlock", "RLock": "RUnlock"}
		held := func(st *an.State) []string {
			var out []string
			for k, v := range st.Regs {
				if strings.HasPrefix(k, "held:") && v != "" && st.Get("deferred:"+strings.TrimPrefix(k, "held:")+"/"+unlockOf[v]) == "" {
					out = append(out, strings.TrimPrefix(k, "held:"))
				}
			}
			sort.Strings(out)
			return out
		}
		x := p.NewExplorer(f, an.Hooks{
			Defer: func(x *an.Explorer, d *ast.DeferStmt, st *an.State) {
				// defer m.Unlock()  /  defer func() { …; m.Unlock() }()
				mark := func(call *ast.CallExpr) {
					if k := isMutexCall(an.CalleeName(info, call)); k == "Unlock" || k == "RUnlock" {
						st.Set("deferred:"+mutexKey(call)+"/"+k, "1")
					}
				}
				mark(d.Call)
				if lit, ok := an.Unparen(d.Call.Fun).(*ast.FuncLit); ok {
					ast.Inspect(lit.Body, func(n ast.Node) bool {
						if call, ok := n.(*ast.CallExpr); ok {
							mark(call)
						}
						return true
					})
				}
			},
			Call: func(x *an.Explorer, call *ast.CallExpr, st *an.State) {
				name := an.CalleeName(info, call)
				switch k := isMutexCall(name); k {
				case "Lock", "RLock":
					st.Set("held:"+mutexKey(call), k)
					return
				case "Unlock", "RUnlock":
					st.Set("held:"+mutexKey(call), "")
					return
				}
				if hs := held(st); len(hs) > 0 && !c11cannotPanic(p, f, call, 0) {
					report(call.Pos(), f.Name+" calls "+an.Str(call.Fun)+" while "+strings.Join(hs, ", ")+" is locked and the unlock is not deferred: if the call panics the mutex stays locked", st)
				}
			},
			Return: func(x *an.Explorer, r *ast.ReturnStmt, st *an.State) {
				if hs := held(st); len(hs) > 0 {
					report(r.Pos(), f.Name+" returns with "+strings.Join(hs, ", ")+" still locked", st)
				}
			},
		})
		x.Run(nil)
		c.States += x.Visited
		key := f.Name + "/released"
		if x.Undecided != "" {
			c.Undecided("C11.guard", key, f.Pos(), "%s", x.Undecided)
			continue
		}
		for _, ex := range x.Exits {
			if ex.Kind == an.ExitReturn && ex.Ret == nil {
				if hs := held(ex.State); len(hs) > 0 {
					report(f.Body.End(), f.Name+" falls off its end with "+strings.Join(hs, ", ")+" still locked", ex.State)
				}
			}
		}
		nLocks++
		if len(bad) == 0 {
			c.OK("C11.guard", key, f.Pos(), "every lock taken is released on every way out (deferred, or with nothing that can panic in between)")
		}
		for i, b := range bad {
			k := key
			if i > 0 {
				k += "#" + itoa(i+1)
			}
			c.Bad("C11.guard", k, b.pos, b.facts, "%s: every later AddGlobal, loader edit or first-time load then blocks for ever", b.msg)
		}
	}
	c.Expect("C11.guard", "functions that take a lock", nLocks, 6)
}

// c11cannotPanic: the call is one of a small set that cannot panic for any argument: selected builtins, methods of
// reflect.Type used on a type of the right kind, and module functions built only from such calls (no explicit
// panic, no no-return callee).
func c11cannotPanic(p *an.Prog, f *an.Fn, call *ast.CallExpr, depth int) bool {
	info := f.Info()
	name := an.CalleeName(info, call)
	switch name {
	case "builtin.len", "builtin.cap", "builtin.append", "builtin.make", "builtin.copy", "builtin.new", "builtin.delete", "reflect.TypeOf", "reflect.ValueOf":
		return true
	}
	if strings.HasPrefix(name, "(reflect.Type).") || strings.HasPrefix(name, "(*reflect.rtype).") || strings.HasPrefix(name, "conv:") {
		return true
	}
	if tv, ok := info.Types[an.Unparen(call.Fun)]; ok && tv.IsType() {
		return true // a conversion
	}
	g := p.FnByObj[an.Callee(info, call)]
	if g == nil || g.Body == nil || depth > 4 || p.NoReturn(g) {
		return false
	}
	ok := true
	ast.Inspect(g.Body, func(n ast.Node) bool {
		if !ok {
			return false
		}
		if inner, isCall := n.(*ast.CallExpr); isCall {
			if an.CalleeName(g.Info(), inner) == "builtin.panic" {
				ok = false
				return false
			}
			if an.Callee(g.Info(), inner) == g.Obj && g.Obj != nil {
				return true // recursion
			}
			if !c11cannotPanic(p, g, inner, depth+1) {
				ok = false
			}
		}
		return ok
	})
	return ok
}
