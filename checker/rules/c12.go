package rules

import (
	"fmt"
	"go/ast"
	"go/constant"
	"go/token"
	"go/types"
	"sort"
	"strings"

	"jetverif/an"
)

func init() {
	register(&Property{
		ID:  "C12",
		Run: runC12,
		Meta: an.Meta{
			Technique: "panic-value typing over all evaluator functions, structure of the recover handler, nil-receiver facts at every error-report call, constructor completeness for line/file, and read-before-body ordering of line numbers on parser CFGs",
			Explanation: "(C12.recover) Execute defers Runtime.recover(&err) and the handler stores a recovered error into *err, re-panicking only runtime errors and non-errors. (C12.panicval) every panic(x) in a " +
				"function reachable from Execute has x of a type implementing error — anything else is re-panicked into the caller — except the re-raise of the value just recovered; every reflect Convert " +
				"(which panics with a string) is guarded (shared with C06.conv). (C12.nilrecv) no errorf/error call is made on a receiver that is nil on that path. (C12.format) NodeBase.errorf formats " +
				"the node's TemplatePath and Line into the error and NodeBase.error delegates to it. (C12.line) every constructor of a node type that can be the receiver of an error report initialises " +
				"Line (from its line parameter or the lexer's current line) and TemplatePath (from t.Name). (C12.early) in the parser, a line number handed to a constructor is read before any nested " +
				"body (itemList) is parsed on that path, so multi-line constructs carry the line of their opening action. (C12.pos) every panic reachable from Execute is raised through NodeBase.errorf " +
				"(and so carries file and line); functions that panic with a bare error are enumerated. (C12.stream) outside executeTry (and exec's Discard) nothing replaces the output Writer, so output " +
				"produced before a failing action has already been written. (C12.piped) every dereference of a piped-value pointer (a *reflect.Value parameter or Arguments.pipedVal) lies where the pointer is known to be non-nil, so a '_' placeholder without a piped value is an error, not a nil dereference. (C12.div) every integer / and % whose divisor is not a non-zero constant lies where the divisor is known to be non-zero. (C12.assert) every unchecked assertion of a Node to a concrete node type lies where n.Type() is known to be that type's constant — by a positive test, or because every other type the parser admits at that place (derived from the parser's own tests around the append to an assignment's target list; declarations narrowed to identifier/underscore, itself an obligation on the parser) was ruled out. (C12.set) reflect.Value.Set is reached only where CanSet, the value's validity and AssignableTo are known true, SetMapIndex only where the map is non-nil and key and value fit the map's key and element types. (C12.call) reflect.Value.Call is reached only where the callee is known to be a non-nil function (its kind tested by the function or by every caller). (C12.iface) an unchecked v.Interface().(T) lies behind v.Type().Implements(<T>) for an interface T, and for a concrete T behind a Convert to T's reflect.Type or a test of type identity. (C12.kind) every reflect.Value.Int/Uint/Float/Bool lies where the kind of the receiver is known to be in the accessor's class (switch case, == test or one of the module's kind predicates, themselves verified against all kinds). (C12.shadow) no error variable declared without a value (named result, `var err error`) is read — tested, returned, handed back by a bare return — while nothing in the function assigns it, and no assignment to an error variable that shadows an outer one of the same name is left unread before its scope ends: both are the marks of an error lost to := shadowing. (C12.pos/C12.format, continued) the positioned raise is recognised by what it raises — a value built by fmt.Errorf from a node's TemplatePath and Line, directly, through a local, or as the result of a helper all of whose results are — not by the name of the function. (C12.panicval taken-out) a function that is handed the fields of a struct one by one (`<value>.Field(i)` as an argument of a call to it) calls Interface() on such a parameter only where CanInterface() is known to hold: reflect refuses to hand out unexported fields with a string panic. (C12.panicval hashable-key) every MapIndex/SetMapIndex of the evaluator is handed a key that comes out of the map itself, was converted to a string type, or is known to be of a comparable type.",
			NotDecided:  "that the recorded line is the action's own line for multi-line actions (lexer look-ahead); errors returned as a second result by reflected user functions (dropped by the call path: observed, not decided); writer errors.",
			Assumptions: []string{"panics raised inside the standard library's reflect package are strings or runtime errors"},
			Trusted:     commonTrusted,
		},
		Mutants: []Mutant{
			{Name: "map indexed with a value that may be unhashable (original defect)", File: "eval.go", Old: "\t\tif !indexVal.Type().Comparable() {\n", New: "\t\tif false && !indexVal.Type().Comparable() {\n", Rule: "C12.panicval"},
			{Name: "values of unexported struct fields taken out with Interface() (original defect)", File: "eval.go", Old: "\t\tif !v1.CanInterface() || !v2.CanInterface() {\n\t\t\treturn false\n\t\t}\n", New: "", Rule: "C12.panicval"},
			{Name: "integer division by zero unguarded (original defect)", File: "eval.go", Old: "\t\t\t\tif toInt(right) == 0 {\n\t\t\t\t\tnode.Right.errorf(\"division by zero\")\n\t\t\t\t}\n", New: "", Rule: "C12.div"},
			{Name: "modulo by zero unguarded for unsigned operands (original defect)", File: "eval.go", Old: "\t\t} else if isUint(kind) {\n\t\t\tif toUint(right) == 0 {\n\t\t\t\tnode.Right.errorf(\"modulo by zero\")\n\t\t\t}\n\t\t}\n", New: "\t\t}\n", Rule: "C12.div"},
			{Name: "executeSet asserts '_' to *FieldNode (original defect)", File: "eval.go", Old: "\tif typ == NodeUnderscore {\n\t\treturn // the value is discarded\n\t}\n", New: "", Rule: "C12.assert"},
			{Name: "declaration of '_' asserted to *IdentifierNode", File: "eval.go", Old: "\t\t\tif set.Left[i].Type() != NodeUnderscore {\n\t\t\t\tst.variables[set.Left[i].(*IdentifierNode).Ident] = value\n\t\t\t}", New: "\t\t\tst.variables[set.Left[i].(*IdentifierNode).Ident] = value", Rule: "C12.assert"},
			{Name: "parser admits index expressions as assignment targets", File: "parse.go", Old: "\t\t\tcase NodeField, NodeChain, NodeIdentifier, NodeUnderscore:\n\t\t\t\tleft = append(left, operand)", New: "\t\t\tcase NodeField, NodeChain, NodeIdentifier, NodeUnderscore, NodeIndexExpr:\n\t\t\t\tleft = append(left, operand)", Rule: "C12.assert"},
			{Name: "parser lets fields be declared with :=", File: "parse.go", Old: "\t\t\t\tif operand.Type() != NodeIdentifier && operand.Type() != NodeUnderscore {", New: "\t\t\t\tif operand.Type() == NodeChain {", Rule: "C12.assert"},
			{Name: "field assigned without CanSet (original defect)", File: "eval.go", Old: "\t\tif !value.CanSet() {\n\t\t\tleft.errorf(\"field %q can't be assigned to (the struct is not addressable or the field is unexported)\", fields[lef])\n\t\t}\n", New: "", Rule: "C12.set"},
			{Name: "field assigned without the assignability test (original defect)", File: "eval.go", Old: "\t\tif !right.IsValid() || !right.Type().AssignableTo(value.Type()) {", New: "\t\tif !right.IsValid() {", Rule: "C12.set"},
			{Name: "entry of a nil map assigned (original defect)", File: "eval.go", Old: "\t\tif value.IsNil() {\n\t\t\tleft.errorf(\"can't assign to key %q of a nil map\", fields[lef])\n\t\t}\n", New: "", Rule: "C12.set"},
			{Name: "map element tested against the key type", File: "eval.go", Old: "\t\tif right.IsValid() && !right.Type().AssignableTo(value.Type().Elem()) {", New: "\t\tif right.IsValid() && !right.Type().AssignableTo(value.Type().Key()) {", Rule: "C12.set"},
			{Name: "nil Ranger-typed value asserted to Ranger (original defect)", File: "ranger.go", Old: "\t\tif isNilInterface(v) {\n\t\t\treturn nil, nil, fmt.Errorf(\"cannot range over nil pointer/interface (%s)\", t)\n\t\t}\n", New: "", Rule: "C12.iface"},
			{Name: "nil Renderer-typed value asserted to Renderer (original defect)", File: "eval.go", Old: "if v.Type().Implements(rendererType) && !isNilInterface(v) {", New: "if v.Type().Implements(rendererType) {", Rule: "C12.iface"},
			{Name: "nil SafeWriter taken as a safe writer (original defect)", File: "eval.go", Old: "\tif term.IsNil() {\n\t\tnode.BaseExpr.errorf(\"safe writer %q is nil\", node.BaseExpr)\n\t}\n", New: "", Rule: "C12.iface"},
			{Name: "index converted with Int() whatever its kind (agent seed C17/11, reduced)", File: "eval.go", Old: "\tcase reflect.Uint, reflect.Uint8, reflect.Uint16, reflect.Uint32, reflect.Uint64, reflect.Uintptr:\n\t\tx = int64(index.Uint())", New: "\tcase reflect.Uint, reflect.Uint8, reflect.Uint16, reflect.Uint32, reflect.Uint64, reflect.Uintptr:\n\t\tx = index.Int()", Rule: "C12.kind"},
			{Name: "nil function called (original defect)", File: "eval.go", Old: "\tif baseExpr.Kind() == reflect.Func && baseExpr.IsNil() {\n\t\treturn reflect.Value{}, errors.New(\"base of call expression is a nil function\")\n\t}\n", New: "", Rule: "C12.call"},
			{Name: "call expression on a value whose kind was not tested", File: "eval.go", Old: "\t\tif baseExpr.Kind() != reflect.Func {\n\t\t\tnode.errorf(\"node %q is not func kind %q\", node.BaseExpr, getTypeString(baseExpr))\n\t\t}\n", New: "", Rule: "C12.call"},
			{Name: "assignable is taken for identical before asserting to Func (original defect)", File: "eval.go", Old: "baseExpr.Convert(funcType).Interface().(Func)", New: "baseExpr.Interface().(Func)", Rule: "C12.iface"},
			{Name: "safe writer recognised by assignability", File: "eval.go", Old: "\t\t\tif term.Type() == safeWriterType {", New: "\t\t\tif safeWriterType.AssignableTo(term.Type()) {", Rule: "C12.iface"},
			{Name: "Renderer asserted after testing for another interface", File: "eval.go", Old: "\t\t\t\t\tif v.Type().Implements(rendererType) && !isNilInterface(v) {", New: "\t\t\t\t\tif v.Type().Implements(stringerType) && !isNilInterface(v) {", Rule: "C12.iface"},
			{Name: "'_' without a piped value dereferences nil in evaluateArgs (original defect)", File: "eval.go", Old: "\t\t\tif pipedArg == nil {\n\t\t\t\treturn nil, fmt.Errorf(\"argument for position %d in %s is a '_' placeholder, but there is no piped value\", slot, fnType)\n\t\t\t}\n\t\t\tterm = *pipedArg", New: "\t\t\tterm = *pipedArg", Rule: "C12.piped"},
			{Name: "'_' without a piped value dereferences nil in Arguments.Get (original defect)", File: "func.go", Old: "\t\t\tif a.pipedVal == nil {\n\t\t\t\te.errorf(\"'_' placeholder used without a piped value\")\n\t\t\t}\n", New: "", Rule: "C12.piped"},
			{Name: "validity guard before formatting the type dropped (agent seed C12/2)", File: "eval.go", Old: "\tif !term.IsValid() {\n\t\tnode.errorf(\"base expression of command pipe node is invalid value\")\n\t}\n", New: "", Rule: "C12.report"},
			{Name: "type of a possibly-nil call target formatted with Type() (original defect)", File: "eval.go", Old: "node.errorf(\"node %q is not func kind %q\", node.BaseExpr, getTypeString(baseExpr))", New: "node.errorf(\"node %q is not func kind %q\", node.BaseExpr, baseExpr.Type())", Rule: "C12.report"},
			{Name: "line numbers counted over emitted items only (agent seed C12/1, reduced)", File: "lex.go", Old: "\treturn 1 + strings.Count(l.input[:l.lastPos], \"\\n\")", New: "\treturn 1 + strings.Count(l.input[l.start:l.lastPos], \"\\n\")", Rule: "C12.line"},
			{Name: "string panic in a built-in (original defect)", File: "default.go", Old: "a.Panicf(\"map(): incomplete key-value pair (even number of arguments required)\")", New: "panic(\"map(): incomplete key-value pair (even number of arguments required)\")", Rule: "C12.panicval"},
			{Name: "errorf on a nil receiver (original defect)", File: "eval.go", Old: "node.errorf(\"additive expression: right side %s (%s) is not a numeric value (no left side)\"", New: "node.Left.errorf(\"additive expression: right side %s (%s) is not a numeric value (no left side)\"", Rule: "C12.nilrecv"},
			{Name: "number literal loses its line (original defect)", File: "constructors.go", Old: "n := &NumberNode{NodeBase: NodeBase{TemplatePath: t.Name, NodeType: NodeNumber, Pos: pos, Line: t.lex.lineNumber()}, Text: text}", New: "n := &NumberNode{NodeBase: NodeBase{TemplatePath: t.Name, NodeType: NodeNumber, Pos: pos}, Text: text}", Rule: "C12.line"},
			{Name: "include node forgets its file", File: "constructors.go", Old: "return &IncludeNode{NodeBase: NodeBase{TemplatePath: t.Name, NodeType: NodeInclude, Pos: pos, Line: line}", New: "return &IncludeNode{NodeBase: NodeBase{NodeType: NodeInclude, Pos: pos, Line: line}", Rule: "C12.line"},
			{Name: "block line read after its body (original defect)", File: "parse.go", Old: "\tblock := t.newBlock(name.pos, line, name.val, bplist, pipe, list, contentList)", New: "\t_ = line\n\tblock := t.newBlock(name.pos, t.lex.lineNumber(), name.val, bplist, pipe, list, contentList)", Rule: "C12.early"},
			{Name: "try line read after its body", File: "parse.go", Old: "\treturn t.newTry(pos, line, list, recov)", New: "\t_ = line\n\treturn t.newTry(pos, t.lex.lineNumber(), list, recov)", Rule: "C12.early"},
			{Name: "error message drops the line", File: "node.go", Old: "panic(fmt.Errorf(\"Jet Runtime Error (%q:%d): %s\", filepath.ToSlash(node.TemplatePath), node.Line, fmt.Sprintf(format, v...)))", New: "panic(fmt.Errorf(\"Jet Runtime Error (%q): %s\", filepath.ToSlash(node.TemplatePath), fmt.Sprintf(format, v...)))", Rule: "C12.format"},
			{Name: "handler swallows non-error panics", File: "eval.go", Old: "\t\t*err, ok = recovered.(error)\n\t\tif !ok {\n\t\t\tpanic(recovered)\n\t\t}", New: "\t\t*err, ok = recovered.(error)\n\t\tif !ok {\n\t\t\t*err = fmt.Errorf(\"%v\", recovered)\n\t\t}", Rule: "-"},
			{Name: "handler drops the recovered error", File: "eval.go", Old: "\t\t*err, ok = recovered.(error)\n\t\tif !ok {\n\t\t\tpanic(recovered)\n\t\t}", New: "\t\t_, ok = recovered.(error)\n\t\tif !ok {\n\t\t\tpanic(recovered)\n\t\t}", Rule: "C12.recover"},
			{Name: "a new bare panic in an evaluator helper", File: "eval.go", Old: "func castInt64(v reflect.Value) int64 {\n\tkind := v.Kind()\n\tswitch {", New: "func castInt64(v reflect.Value) int64 {\n\tkind := v.Kind()\n\tif !v.IsValid() {\n\t\tpanic(errors.New(\"invalid value\"))\n\t}\n\tswitch {", Rule: "C12.pos"},
			{Name: "action output buffered until the list finished", File: "eval.go", Old: "func (st *Runtime) executeList(list *ListNode) (returnValue reflect.Value) {\n\tinNewScope := false // to use just one scope for multiple actions with variable declarations\n", New: "func (st *Runtime) executeList(list *ListNode) (returnValue reflect.Value) {\n\tinNewScope := false // to use just one scope for multiple actions with variable declarations\n\tout, lbuf := st.Writer, new(bytes.Buffer)\n\tst.Writer = lbuf\n\tdefer func() { st.Writer = out; io.Copy(out, lbuf) }()\n", Rule: "C12.stream"},
		},
	})
}

func runC12(c *an.Ctx) {
	c12piped(c)
	c12div(c)
	c12assert(c)
	c12set(c)
	c12call(c)
	c12kind(c)
	c12writerAsGiven(c)
	p := c.P
	info := p.Jet.TypesInfo
	eval, parse := p.Eval(), p.Parse()
	errIf := errorIface()

	// ---------------------------------------------------------------- C12.recover
	if rec := c.Fn("C12.recover", "(*Runtime).recover"); rec != nil {
		// roles: the variables holding the recovered value — defined by recover(), or bound by a type switch over one
		recVars, nilArms := recoveredVars(p, rec)
		isRecovered := func(e ast.Expr) bool {
			e = an.Unparen(e)
			if ta, ok := e.(*ast.TypeAssertExpr); ok {
				e = an.Unparen(ta.X)
			}
			id, ok := e.(*ast.Ident)
			return ok && recVars[an.ObjOf(info, id)]
		}
		otherPanic := token.NoPos
		hooks := an.Hooks{
			Stmt: func(x *an.Explorer, n ast.Node, st *an.State) {
				// a statement of an arm (other than `case nil`) of a type switch over the recovered value: something was recovered
				for _, arm := range nilArms.other {
					if arm.Pos() <= n.Pos() && n.End() <= arm.End() {
						st.Set("rec", "1")
					}
				}
				// *err, ok = recovered.(error)
				if as, ok := n.(*ast.AssignStmt); ok && len(as.Rhs) == 1 && len(as.Lhs) >= 1 {
					if star, ok := an.Unparen(as.Lhs[0]).(*ast.StarExpr); ok && an.Norm(rec, star.X) == "$p0" && isRecovered(as.Rhs[0]) {
						st.Set("stored", "1")
					}
				}
			},
			Branch: func(x *an.Explorer, cond ast.Expr, val bool, st *an.State) {
				// recovered != nil (true) / recovered == nil (false)
				if b, ok := an.Unparen(cond).(*ast.BinaryExpr); ok && (b.Op == token.NEQ || b.Op == token.EQL) && an.Str(b.Y) == "nil" && isRecovered(b.X) {
					if val == (b.Op == token.NEQ) {
						st.Set("rec", "1")
					}
				}
			},
			Call: func(x *an.Explorer, call *ast.CallExpr, st *an.State) {
				if an.IsCallTo(info, call, "builtin.panic") && len(call.Args) == 1 && !isRecovered(call.Args[0]) && !otherPanic.IsValid() {
					otherPanic = call.Pos()
				}
			},
		}
		x := p.NewExplorer(rec, hooks)
		x.Run(nil)
		c.States += x.Visited
		stores, sawErrPath := true, false
		var trail []string
		for _, ex := range x.Exits {
			if ex.Kind != an.ExitReturn {
				continue
			}
			if ex.State.Get("rec") != "" {
				sawErrPath = true
				if ex.State.Get("stored") == "" {
					stores, trail = false, ex.Trail
				}
			}
		}
		if len(recVars) == 0 || !sawErrPath {
			stores = false
		}
		if stores && !otherPanic.IsValid() {
			c.OK("C12.recover", "(*Runtime).recover/handler", rec.Pos(), "whenever something was recovered and the handler returns, the recovered error was stored into *err; only the recovered value itself is ever re-panicked")
		} else {
			c.Bad("C12.recover", "(*Runtime).recover/handler", rec.Pos(), trail, "Runtime.recover can return after recovering a failure without storing the recovered error into the caller's error result (or panics with something else than the recovered value)")
		}
	}
	if ex := c.Fn("C12.recover", "(*Template).Execute"); ex != nil {
		first := true
		okDefer := false
		an.InspectOwn(ex, func(n ast.Node) bool {
			if d, ok := n.(*ast.DeferStmt); ok {
				if first && an.IsCallTo(info, d.Call, "(*jet.Runtime).recover") {
					okDefer = true
				}
				first = false
			}
			return true
		})
		c.Check(okDefer, "C12.recover", "(*Template).Execute/defer", ex.Pos(), "Execute's first deferred call is Runtime.recover", "Execute does not defer Runtime.recover as its first deferred call")
	}

	// ---------------------------------------------------------------- C12.panicval + C12.pos
	type site struct {
		fn   *an.Fn
		call *ast.CallExpr
	}
	var panics []site
	for _, f := range an.SortedFns(eval) {
		if f.Pkg != p.Jet || f.Body == nil {
			continue
		}
		for _, call := range p.CallsIn(f, "builtin.panic") {
			panics = append(panics, site{f, call})
		}
	}
	c.Expect("C12.panicval", "panic sites reachable from Execute", len(panics), 18)
	bareByFn := map[string][]token.Pos{}
	for _, s := range panics {
		c.CallSites++
		finfo := s.fn.Info()
		arg := s.call.Args[0]
		// re-raise of the value just recovered
		if id, ok := an.Unparen(arg).(*ast.Ident); ok {
			reraise := false
			for _, d := range an.LocalDefs(s.fn, an.ObjOf(finfo, id)) {
				if d != nil && an.CalleeName(finfo, callOf(d)) == "builtin.recover" {
					reraise = true
				}
			}
			if rv, _ := recoveredVars(p, s.fn); rv[an.ObjOf(finfo, id)] {
				reraise = true // (also the binding of a type switch over the recovered value)
			}
			if reraise {
				continue
			}
		}
		if parse[s.fn] && s.fn.Sig != nil && (s.fn.Sig.Recv() == nil || !strings.Contains(an.TypeName(s.fn.Sig.Recv().Type()), "Runtime")) {
			continue // parser-side panics are converted by Template.recover and are C02.panicval's obligation
		}
		key := s.fn.Name + "/panic"
		t := finfo.Types[arg].Type
		if t == nil || !types.Implements(t, errIf) {
			where := "Execute"
			if parse[s.fn] && !strings.Contains(s.fn.Name, "Runtime") {
				where = "Set.Parse/GetTemplate"
			}
			c.Bad("C12.panicval", key, s.call.Pos(), nil, "%s panics with a value of type %s, which is not an error: the recover handler re-panics it and it crashes the caller of %s", s.fn.Name, an.TypeName(t), where)
			continue
		}
		c.OK("C12.panicval", key, s.call.Pos(), "panic value implements error")
		// C12.pos
		if parse[s.fn] || c12positioned(p, s.fn, arg, 0) {
			continue // parser errors carry ParseName and line (C02); the value raised is built from the node's path and line: the positioned raise itself
		}
		bareByFn[s.fn.Name] = append(bareByFn[s.fn.Name], s.call.Pos())
	}
	var bareNames []string
	for n := range bareByFn {
		bareNames = append(bareNames, n)
	}
	sort.Strings(bareNames)
	for _, n := range bareNames {
		c.Bad("C12.pos", n, bareByFn[n][0], nil, "%s raises a failure with a bare error (%d site(s)) instead of through a node's errorf: the message carries neither file nor line", n, len(bareByFn[n]))
	}
	c.OK("C12.pos", "(*NodeBase).errorf", p.Jet.Syntax[0].Pos(), "all other failures are raised through NodeBase.errorf")
	convGuards(c, "C12.panicval", nil)
	boundsRule(c, "C12.panicval")
	c12fieldInterface(c)
	c12hashableKey(c)

	// ---------------------------------------------------------------- C12.nilrecv
	nCalls := 0
	for _, f := range an.SortedFns(eval) {
		if f.Pkg != p.Jet || f.Body == nil || parse[f] {
			continue
		}
		finfo := f.Info()
		var targets []ast.Node
		an.InspectOwn(f, func(n ast.Node) bool {
			if call, ok := n.(*ast.CallExpr); ok {
				name := an.CalleeName(finfo, call)
				if name == "(*jet.NodeBase).errorf" || name == "(*jet.NodeBase).error" || name == "(jet.Node).errorf" || name == "(jet.Node).error" {
					targets = append(targets, call)
				}
			}
			return true
		})
		if len(targets) == 0 {
			continue
		}
		c.FnsAnalysed[f.Name] = true
		pr := p.ProbeFn(f, targets, an.Hooks{})
		c.States += pr.X.Visited
		for _, t := range targets {
			nCalls++
			call := t.(*ast.CallExpr)
			recv := an.Str(an.Receiver(call))
			bad := false
			for _, st := range pr.At[t] {
				if an.FactIs(st, recv+" == nil", true) {
					bad = true
				}
			}
			if bad {
				c.Bad("C12.nilrecv", f.Name+"/"+recv, call.Pos(), nil, "%s reports an error through %s on a path where %s == nil: the report itself is a nil dereference, re-panicked out of Execute", f.Name, an.Str(call.Fun), recv)
			}
		}
	}
	c.Expect("C12.nilrecv", "error-report call sites in the evaluator", nCalls, 30)
	c.OK("C12.nilrecv", "summary", p.Jet.Syntax[0].Pos(), "%d error-report call sites inspected for provably-nil receivers", nCalls)

	// ---------------------------------------------------------------- C12.report
	c12report(c, eval, parse)

	// ---------------------------------------------------------------- C12.format
	for _, name := range []string{"(*NodeBase).errorf", "(*NodeBase).error"} {
		ef := c.Fn("C12.format", name)
		if ef == nil {
			continue
		}
		// every panic of the function raises a value built from the node's TemplatePath and Line — or the function
		// hands the failure to the other one (error → errorf), which does
		npanic, positioned := 0, 0
		for _, call := range p.CallsIn(ef, "builtin.panic") {
			npanic++
			if c12positioned(p, ef, call.Args[0], 0) {
				positioned++
			}
		}
		delegates := len(p.CallsIn(ef, "(*jet.NodeBase).errorf")) == 1 && name != "(*NodeBase).errorf"
		ok := (npanic > 0 && positioned == npanic) || (npanic == 0 && delegates)
		if name == "(*NodeBase).errorf" {
			c.Check(ok, "C12.format", name, ef.Pos(), "runtime errors carry the node's TemplatePath and Line",
				"NodeBase.errorf does not format both the node's TemplatePath and its Line into the error it raises")
		} else {
			c.Check(ok, "C12.format", name, ef.Pos(), "error raises the same positioned error as errorf (by delegating to it, or built the same way)", "NodeBase.error does not delegate to errorf")
		}
	}

	// ---------------------------------------------------------------- C12.line
	c12line(c, eval, parse)
	// ---------------------------------------------------------------- C12.early
	c12early(c, parse)
	c12shadow(c)
	// ---------------------------------------------------------------- C12.stream
	nRedirect := 0
	for _, f := range an.SortedFns(eval) {
		if f.Pkg != p.Jet || f.Body == nil {
			continue
		}
		finfo := f.Info()
		an.InspectOwn(f, func(n ast.Node) bool {
			an.Assigns(n, func(lhs, rhs ast.Expr, _ token.Token) {
				if p.FieldKey(finfo, lhs) != "escapeeWriter.Writer" || rhs == nil {
					return
				}
				within := func(name string) bool {
					for q := f; q != nil; q = q.Parent {
						if q.Name == name {
							return true
						}
					}
					return false
				}
				switch {
				case within("(*Template).Execute"):
				case within("(*Runtime).executeTry"):
					nRedirect++
				case within(`init/"exec"`): // Discard + restore (C09.discard)
					nRedirect++
				default:
					c.Bad("C12.stream", f.Name+"/redirect", lhs.Pos(), nil, "%s replaces the output Writer (with %s): output is no longer written at the statement that produces it, so what was rendered before a failing action may be lost or reordered", f.Name, an.Str(rhs))
				}
			})
			return true
		})
	}
	c.Expect("C12.stream", "sanctioned Writer redirects (try, exec)", nRedirect, 4)
	c.OK("C12.stream", "only-try-buffers", p.Jet.Syntax[0].Pos(), "the output Writer is replaced only by executeTry (buffer) and exec (Discard)")
}

func c12line(c *an.Ctx, eval, parse map[*an.Fn]bool) {
	p := c.P
	info := p.Jet.TypesInfo
	// the line is derived from the whole input before the item (skipped comments and trimmed whitespace
	// count too), and the item position is recorded by nextItem
	if ln := c.Fn("C12.line", "(*lexer).lineNumber"); ln != nil {
		ok := false
		if len(ln.Body.List) == 1 {
			if ret, isRet := ln.Body.List[0].(*ast.ReturnStmt); isRet && an.Norm(ln, ret.Results[0]) == `(1 + strings.Count($r.input[:$r.lastPos], "\n"))` {
				ok = true
			}
		}
		c.Check(ok, "C12.line", "(*lexer).lineNumber/source", ln.Pos(), "the line number counts every newline of the input before the current item",
			"lexer.lineNumber is not 1 + the number of newlines in input[:lastPos]: input that never becomes a token (comments, trimmed whitespace) is not counted and later errors name the wrong line")
	}
	if ni := c.Fn("C12.line", "(*lexer).nextItem"); ni != nil {
		ok := false
		an.InspectOwn(ni, func(n ast.Node) bool {
			an.Assigns(n, func(lhs, rhs ast.Expr, _ token.Token) {
				if p.FieldKey(info, lhs) == "lexer.lastPos" && rhs != nil && p.FieldKey(info, rhs) == "item.pos" {
					ok = true
				}
			})
			return true
		})
		n := 0
		for _, f := range p.Units() {
			if f.Pkg != p.Jet || f.Body == nil {
				continue
			}
			an.InspectOwn(f, func(nd ast.Node) bool {
				an.Assigns(nd, func(lhs, _ ast.Expr, _ token.Token) {
					if p.FieldKey(info, lhs) == "lexer.lastPos" {
						n++
					}
				})
				return true
			})
		}
		c.Check(ok && n == 1, "C12.line", "(*lexer).nextItem/lastPos", ni.Pos(), "lastPos is the position of the item most recently handed to the parser, set only by nextItem", "lexer.lastPos is not set (only) by nextItem from the item's position")
	}
	nodeIf := p.Iface("", "Node")
	// R: node types that can be the receiver of an error report while executing
	R := map[string]bool{}
	ifaceRecv := false
	for _, f := range an.SortedFns(eval) {
		if f.Pkg != p.Jet || f.Body == nil || parse[f] {
			continue
		}
		finfo := f.Info()
		an.InspectOwn(f, func(n ast.Node) bool {
			call, ok := n.(*ast.CallExpr)
			if !ok {
				return true
			}
			name := an.CalleeName(finfo, call)
			switch name {
			case "(*jet.NodeBase).errorf", "(*jet.NodeBase).error":
				if nt := an.NamedOf(finfo.Types[an.Receiver(call)].Type); nt != nil {
					R[nt.Obj().Name()] = true
				}
			case "(jet.Node).errorf", "(jet.Node).error":
				ifaceRecv = true
			}
			return true
		})
	}
	// constructors: composite literals of node types in parse functions, with their NodeBase literal
	type ctor struct {
		typ      string
		fn       *an.Fn
		pos      token.Pos
		line     ast.Expr
		path     ast.Expr
		nodeType string
	}
	var ctors []ctor
	exprLo, exprHi := constInt(p, "beginExpressions"), constInt(p, "endExpressions")
	for _, f := range p.Units() {
		if f.Pkg != p.Jet || f.Body == nil || !parse[f] {
			continue
		}
		an.InspectOwn(f, func(n ast.Node) bool {
			cl, ok := n.(*ast.CompositeLit)
			if !ok {
				return true
			}
			nt := an.NamedOf(info.Types[cl].Type)
			if nt == nil || nt.Obj().Name() == "NodeBase" || !an.ImplementsIface(nt, nodeIf) {
				return true
			}
			if _, isStruct := nt.Underlying().(*types.Struct); !isStruct {
				return true
			}
			// find the NodeBase literal inside (possibly below an embedded struct literal)
			var nb *ast.CompositeLit
			ast.Inspect(cl, func(m ast.Node) bool {
				if inner, ok := m.(*ast.CompositeLit); ok && an.TypeName(info.Types[inner].Type) == "jet.NodeBase" && nb == nil {
					nb = inner
				}
				return true
			})
			ct := ctor{typ: nt.Obj().Name(), fn: f, pos: cl.Pos()}
			if nb != nil {
				for _, el := range nb.Elts {
					if kv, ok := el.(*ast.KeyValueExpr); ok {
						switch an.Str(kv.Key) {
						case "Line":
							ct.line = kv.Value
						case "TemplatePath":
							ct.path = kv.Value
						case "NodeType":
							ct.nodeType = an.Str(kv.Value)
						}
					}
				}
			} else if len(cl.Elts) > 0 {
				// outer literal of an embedded form (&IfNode{BranchNode{NodeBase: …}}): handled when the inner literal is visited
				return true
			}
			ctors = append(ctors, ct)
			return true
		})
	}
	// embedded forms: the BranchNode/binaryExprNode literal is itself a node-struct literal and was recorded under that
	// type; attribute it to the constructor's result type
	for i := range ctors {
		if ctors[i].typ == "BranchNode" || ctors[i].typ == "binaryExprNode" {
			if ctors[i].fn.Sig != nil && ctors[i].fn.Sig.Results().Len() > 0 {
				if nt := an.NamedOf(ctors[i].fn.Sig.Results().At(0).Type()); nt != nil {
					ctors[i].typ = nt.Obj().Name()
				}
			}
		}
	}
	c.Expect("C12.line", "node constructors", len(ctors), 30)
	n := 0
	sort.Slice(ctors, func(i, j int) bool { return ctors[i].typ < ctors[j].typ })
	for _, ct := range ctors {
		inR := R[ct.typ]
		if ifaceRecv && !inR {
			// interface-typed receivers (Expression/Node): every expression-range type plus the operand kinds
			if v := constInt(p, ct.nodeType); v > exprLo && v < exprHi {
				inR = true
			}
			switch ct.typ {
			case "IdentifierNode", "FieldNode", "ChainNode", "UnderscoreNode", "CommandNode":
				inR = true
			}
		}
		if !inR {
			continue
		}
		n++
		key := "constructor:" + ct.typ
		lineOK := ct.line != nil && (an.Norm(ct.fn, ct.line) == "$r.lex.lineNumber()" || isIntParam(ct.fn, ct.line))
		pathOK := ct.path != nil && p.FieldKey(info, ct.path) == "Template.Name" && an.Norm(ct.fn, ct.path) == "$r.Name"
		switch {
		case !lineOK:
			c.Bad("C12.line", key, ct.pos, nil, "%s can be the receiver of a runtime error report, but its constructor (%s) does not set NodeBase.Line from a line parameter or the lexer's current line: errors on it say line 0", ct.typ, ct.fn.Name)
		case !pathOK:
			c.Bad("C12.line", key, ct.pos, nil, "%s can be the receiver of a runtime error report, but its constructor (%s) does not set NodeBase.TemplatePath from the template's Name: errors on it name no file", ct.typ, ct.fn.Name)
		default:
			c.OK("C12.line", key, ct.pos, "Line and TemplatePath are initialised")
		}
	}
	c.Expect("C12.line", "constructors of possible error receivers", n, 25)
}

func constInt(p *an.Prog, name string) int64 {
	if o, ok := p.Jet.Types.Scope().Lookup(name).(*types.Const); ok {
		if v, ok := constant.Int64Val(o.Val()); ok {
			return v
		}
	}
	return -1
}

func isIntParam(f *an.Fn, e ast.Expr) bool {
	id, ok := an.Unparen(e).(*ast.Ident)
	if !ok {
		return false
	}
	o := an.ObjOf(f.Info(), id)
	_, isParam := an.IsParam(f, o)
	return isParam && len(an.LocalDefs(f, o)) == 0
}

// c12early: a line number that reaches a constructor is read before any body is parsed on that path.
func c12early(c *an.Ctx, parse map[*an.Fn]bool) {
	p := c.P
	info := p.Jet.TypesInfo
	// constructors with a line parameter
	lineParam := map[*types.Func]int{}
	for _, f := range p.Units() {
		if f.Pkg != p.Jet || f.Obj == nil || f.Sig == nil || !strings.HasPrefix(f.Obj.Name(), "new") {
			continue
		}
		for i := 0; i < f.Sig.Params().Len(); i++ {
			if pv := f.Sig.Params().At(i); an.RoleOf(pv) == "line" {
				lineParam[f.Obj] = i
			}
		}
	}
	n := 0
	for _, f := range an.SortedFns(parse) {
		if f.Pkg != p.Jet || f.Body == nil || len(p.CallsIn(f, "(*jet.Template).itemList")) == 0 {
			continue
		}
		c.FnsAnalysed[f.Name] = true
		reg := func(o types.Object) string { return fmt.Sprintf("lineAfterBody:%s·%d", o.Name(), int(o.Pos())) }
		bad := map[token.Pos]string{}
		checked := map[token.Pos]bool{}
		hooks := an.Hooks{
			Call: func(x *an.Explorer, call *ast.CallExpr, st *an.State) {
				if an.IsCallTo(info, call, "(*jet.Template).itemList") {
					st.Set("body", "1")
					return
				}
				callee := an.Callee(info, call)
				idx, ok := lineParam[callee]
				if !ok || idx >= len(call.Args) {
					return
				}
				checked[call.Pos()] = true
				arg := an.Unparen(call.Args[idx])
				switch a := arg.(type) {
				case *ast.CallExpr:
					if an.CalleeName(info, a) == "(*jet.lexer).lineNumber" && st.Get("body") != "" {
						bad[call.Pos()] = "the line passed to " + callee.Name() + " is read after the construct's body was parsed: the node carries the line of its {{end}}"
					}
				case *ast.Ident:
					if o := an.ObjOf(info, a); o != nil && st.Get(reg(o)) != "" {
						bad[call.Pos()] = "the line variable " + a.Name + " passed to " + callee.Name() + " was read after the construct's body was parsed"
					}
				}
			},
			PreAssign: func(x *an.Explorer, lhs, rhs ast.Expr, stmt ast.Node, st *an.State) {
				id, ok := an.Unparen(lhs).(*ast.Ident)
				if !ok || rhs == nil {
					return
				}
				if call, ok := an.Unparen(rhs).(*ast.CallExpr); ok && an.CalleeName(info, call) == "(*jet.lexer).lineNumber" {
					if o := an.ObjOf(info, id); o != nil {
						st.Set(reg(o), st.Get("body"))
					}
				}
			},
		}
		x := p.NewExplorer(f, hooks)
		x.Run(nil)
		c.States += x.Visited
		var poss []token.Pos
		for pos := range checked {
			poss = append(poss, pos)
		}
		sort.Slice(poss, func(i, j int) bool { return poss[i] < poss[j] })
		for _, pos := range poss {
			n++
			if why, isBad := bad[pos]; isBad {
				c.Bad("C12.early", f.Name, pos, nil, "%s: %s", f.Name, why)
			} else {
				c.OK("C12.early", f.Name, pos, "the line is read before the body is parsed")
			}
		}
	}
	c.Expect("C12.early", "constructor calls in body-parsing functions", n, 4)
}

// c12report: an error report must not itself panic.  Values produced by evaluating template
// expressions may be the zero reflect.Value (nil); calling Type() on one inside the argument list of
// errorf/Errorf panics with a *reflect.ValueError, which reaches the caller as an error without file
// or line.  The package's own idiom for such values is getTypeString.  Every Type() on an evaluated
// value inside a report must lie behind a validity fact (IsValid() or a successful Kind() test).
func c12report(c *an.Ctx, eval, parse map[*an.Fn]bool) {
	p := c.P
	isEvalCall := func(name string) bool {
		switch name {
		case "(*jet.Runtime).evalPrimaryExpressionGroup", "(*jet.Runtime).evalBaseExpressionGroup", "(*jet.Runtime).resolve", "(*jet.Runtime).evalChainNodeExpression",
			"(*jet.Arguments).Get", "(*jet.Runtime).evalCallExpression", "(*jet.Runtime).evalPipeCallExpression":
			return true
		}
		return false
	}
	n := 0
	for _, f := range an.SortedFns(eval) {
		if f.Pkg != p.Jet || f.Body == nil || parse[f] {
			continue
		}
		info := f.Info()
		// locals holding evaluated values
		evaluated := map[types.Object]bool{}
		an.InspectOwn(f, func(nd ast.Node) bool {
			an.Assigns(nd, func(lhs, rhs ast.Expr, _ token.Token) {
				if id, ok := an.Unparen(lhs).(*ast.Ident); ok && rhs != nil {
					if call, ok := an.Unparen(rhs).(*ast.CallExpr); ok && isEvalCall(an.CalleeName(info, call)) {
						evaluated[an.ObjOf(info, id)] = true
					}
				}
			})
			if as, ok := nd.(*ast.AssignStmt); ok && len(as.Rhs) == 1 && len(as.Lhs) > 1 {
				if call, ok := an.Unparen(as.Rhs[0]).(*ast.CallExpr); ok && isEvalCall(an.CalleeName(info, call)) {
					if id, ok := an.Unparen(as.Lhs[0]).(*ast.Ident); ok {
						evaluated[an.ObjOf(info, id)] = true
					}
				}
			}
			return true
		})
		if len(evaluated) == 0 {
			continue
		}
		// reports containing <evaluated>.Type()
		type use struct {
			report *ast.CallExpr
			recv   *ast.Ident
		}
		var uses []use
		var targets []ast.Node
		an.InspectOwn(f, func(nd ast.Node) bool {
			call, ok := nd.(*ast.CallExpr)
			if !ok {
				return true
			}
			name := an.CalleeName(info, call)
			if !(strings.HasSuffix(name, ".errorf") || name == "fmt.Errorf" || name == "(*jet.Arguments).Panicf") {
				return true
			}
			for _, a := range call.Args {
				ast.Inspect(a, func(m ast.Node) bool {
					tc, ok := m.(*ast.CallExpr)
					if !ok || an.CalleeName(info, tc) != "(reflect.Value).Type" {
						return true
					}
					if id, ok := an.Unparen(an.Receiver(tc)).(*ast.Ident); ok && evaluated[an.ObjOf(info, id)] {
						uses = append(uses, use{call, id})
						targets = append(targets, call)
					}
					return true
				})
			}
			return true
		})
		if len(uses) == 0 {
			continue
		}
		// which definition reaches the report: a value re-defined by something that yields a valid value whenever
		// its (valid) operand is one — v.Field(i), v.Index(i), or a module function returning only such values
		// or its own parameter (the field-path walker) — is valid by construction
		validNow := func(x *an.Explorer, e ast.Expr, st *an.State) bool {
			id, ok := an.Unparen(e).(*ast.Ident)
			if !ok {
				return false
			}
			if st.Get("ev:"+id.Name) == "valid" {
				return true
			}
			for k, v := range st.Facts {
				pk := an.PlainKey(k)
				if v && (pk == id.Name+".IsValid()" || strings.HasSuffix(pk, " == "+id.Name+".Kind()") && !strings.HasPrefix(pk, "reflect.Invalid")) {
					return true
				}
			}
			for k := range st.Regs {
				if strings.HasPrefix(an.PlainKey(k), "eq:"+id.Name+".Kind()") {
					return true
				}
			}
			return false
		}
		pr := p.ProbeFn(f, targets, an.Hooks{PreAssign: func(x *an.Explorer, lhs, rhs ast.Expr, stmt ast.Node, st *an.State) {
			id, ok := an.Unparen(lhs).(*ast.Ident)
			if !ok || !evaluated[an.ObjOf(info, id)] {
				return
			}
			if as, ok := stmt.(*ast.AssignStmt); ok && len(as.Lhs) > 1 && len(as.Rhs) == 1 {
				if an.Unparen(as.Lhs[0]) != ast.Expr(id) {
					return
				}
				rhs = as.Rhs[0] // v, err = f(…)
			}
			valid := false
			if rhs != nil {
				if call, ok := an.Unparen(rhs).(*ast.CallExpr); ok {
					switch name := an.CalleeName(info, call); name {
					case "(reflect.Value).Field", "(reflect.Value).Index", "(reflect.Value).Addr":
						valid = true
					default:
						if g := p.FnByObj[an.Callee(info, call)]; g != nil && !isEvalCall(name) {
							if idx, ok := c12validPreserving(g); ok {
								valid = true
								for _, i := range idx {
									if i >= len(call.Args) || !validNow(x, call.Args[i], st) {
										valid = false
									}
								}
							}
						}
					}
				}
			}
			if valid {
				st.Set("ev:"+id.Name, "valid")
			} else {
				st.Set("ev:"+id.Name, "")
			}
		}})
		c.States += pr.X.Visited
		for _, u := range uses {
			n++
			key := f.Name + "/" + u.recv.Name + ".Type()"
			ok := len(pr.At[u.report]) > 0
			for _, st := range pr.At[u.report] {
				valid := st.Get("ev:"+u.recv.Name) == "valid" // re-defined by something that yields a valid value
				for k, v := range st.Facts {
					pk := an.PlainKey(k)
					if v && (pk == u.recv.Name+".IsValid()" || strings.HasSuffix(pk, " == "+u.recv.Name+".Kind()") && !strings.HasPrefix(pk, "reflect.Invalid")) {
						valid = true
					}
				}
				for k := range st.Regs {
					if strings.HasPrefix(an.PlainKey(k), "eq:"+u.recv.Name+".Kind()") {
						valid = true
					}
				}
				if !valid {
					ok = false
				}
			}
			if ok {
				c.OK("C12.report", key, u.report.Pos(), "%s is known to be a valid value where its type is formatted", u.recv.Name)
			} else {
				c.Bad("C12.report", key, u.report.Pos(), nil,
					"%s formats %s.Type() into an error message although %s — the result of evaluating a template expression — may be the zero reflect.Value (nil) on this path: Type() panics and Execute returns \"reflect: call of reflect.Value.Type on zero Value\" without file or line (use getTypeString)", f.Name, u.recv.Name, u.recv.Name)
			}
		}
	}
	c.Expect("C12.report", "Type() of evaluated values inside error reports", n, 3)
}

type recoverArms struct{ other []*ast.CaseClause }

// recoveredVars: the variables of fn that hold the value recover() returned — assigned from recover() (or
// from such a variable), or bound by a type switch over recover() itself or over such a variable — and
// the arms of such type switches that stand for "something was recovered" (every arm but `case nil`).
func recoveredVars(p *an.Prog, fn *an.Fn) (map[types.Object]bool, recoverArms) {
	info := fn.Info()
	recVars := map[types.Object]bool{}
	var arms recoverArms
	seenArm := map[*ast.CaseClause]bool{}
	for changed := true; changed; {
		changed = false
		an.InspectOwn(fn, func(n ast.Node) bool {
			switch x := n.(type) {
			case *ast.AssignStmt:
				if len(x.Lhs) == 1 && len(x.Rhs) == 1 {
					if id, ok := x.Lhs[0].(*ast.Ident); ok {
						r := an.Unparen(x.Rhs[0])
						isRec := an.CalleeName(info, callOf(r)) == "builtin.recover"
						if rid, ok := r.(*ast.Ident); ok && recVars[an.ObjOf(info, rid)] {
							isRec = true
						}
						if o := an.ObjOf(info, id); isRec && o != nil && !recVars[o] {
							recVars[o] = true
							changed = true
						}
					}
				}
			case *ast.TypeSwitchStmt:
				var tag ast.Expr
				switch a := x.Assign.(type) {
				case *ast.AssignStmt:
					if ta, ok := an.Unparen(a.Rhs[0]).(*ast.TypeAssertExpr); ok {
						tag = ta.X
					}
				case *ast.ExprStmt:
					if ta, ok := an.Unparen(a.X).(*ast.TypeAssertExpr); ok {
						tag = ta.X
					}
				}
				over := false
				if id, ok := an.Unparen(tag).(*ast.Ident); ok && recVars[an.ObjOf(info, id)] {
					over = true
				}
				if tag != nil && an.CalleeName(info, callOf(an.Unparen(tag))) == "builtin.recover" {
					over = true
				}
				if over {
					for _, cl := range x.Body.List {
						cc := cl.(*ast.CaseClause)
						if o := info.Implicits[cc]; o != nil && !recVars[o] {
							recVars[o] = true
							changed = true
						}
						isNil := false
						for _, e := range cc.List {
							if tv, ok := info.Types[e]; ok && tv.IsNil() {
								isNil = true
							}
						}
						if !isNil && !seenArm[cc] {
							seenArm[cc] = true
							arms.other = append(arms.other, cc)
						}
					}
				}
			}
			return true
		})
	}
	return recVars, arms
}

// c12validPreserving: every return of g hands back, as its first result, either the zero Value together with
// a non-nil error, or a variable of g that is only ever one of g's parameters, v.Field(i), v.Index(i),
// v.Addr() or v.Elem() (C06.nil field-path: only after IsNil() was false).  The result is then valid
// whenever the returned parameters (their indexes are returned) were.
func c12validPreserving(g *an.Fn) ([]int, bool) {
	if g.Body == nil || g.Sig == nil || g.Sig.Results().Len() != 2 || an.TypeName(g.Sig.Results().At(0).Type()) != "reflect.Value" {
		return nil, false
	}
	info := g.Info()
	ok := true
	var params []int
	ast.Inspect(g.Body, func(n ast.Node) bool {
		if _, isLit := n.(*ast.FuncLit); isLit {
			return false
		}
		ret, isRet := n.(*ast.ReturnStmt)
		if !isRet {
			return true
		}
		if len(ret.Results) != 2 {
			ok = false
			return true
		}
		r0 := an.Unparen(ret.Results[0])
		if cl, isCl := r0.(*ast.CompositeLit); isCl && len(cl.Elts) == 0 {
			if tv, has := info.Types[ret.Results[1]]; has && tv.IsNil() {
				ok = false // zero value without an error
			}
			return true
		}
		id, isId := r0.(*ast.Ident)
		if !isId {
			ok = false
			return true
		}
		obj := an.ObjOf(info, id)
		if i, isParam := an.IsParam(g, obj); isParam {
			params = append(params, i)
		}
		for _, d := range an.LocalDefs(g, obj) {
			if d == nil {
				ok = false
				continue
			}
			call, isCall := an.Unparen(d).(*ast.CallExpr)
			if !isCall {
				ok = false
				continue
			}
			switch an.CalleeName(info, call) {
			case "(reflect.Value).Field", "(reflect.Value).Index", "(reflect.Value).Addr", "(reflect.Value).Elem":
			default:
				ok = false
			}
		}
		return true
	})
	return params, ok
}

// c12positioned: the error value e (in f) is built by fmt.Errorf from the TemplatePath and the Line of a node (with a
// verb for each argument) — directly, through a local, or as the result of a module function all of whose results are.
func c12positioned(p *an.Prog, f *an.Fn, e ast.Expr, depth int) bool {
	if depth > 4 {
		return false
	}
	info := f.Info()
	origins := valueOrigins(f, e, 0)
	if len(origins) == 0 {
		return false
	}
	for _, o := range origins {
		call, ok := an.Unparen(o).(*ast.CallExpr)
		if !ok {
			return false
		}
		if an.CalleeName(info, call) == "fmt.Errorf" {
			hasPath, hasLine := false, false
			verbs := 0
			if tv := info.Types[call.Args[0]]; tv.Value != nil && tv.Value.Kind() == constant.String {
				verbs = strings.Count(constant.StringVal(tv.Value), "%") - 2*strings.Count(constant.StringVal(tv.Value), "%%")
			}
			for _, a := range call.Args[1:] {
				// the argument itself, or what the local it names was computed from
				for _, ao := range valueOrigins(f, a, 0) {
					ast.Inspect(ao, func(m ast.Node) bool {
						if sel, ok := m.(*ast.SelectorExpr); ok {
							switch p.FieldKey(info, sel) {
							case "NodeBase.TemplatePath":
								hasPath = true
							case "NodeBase.Line":
								hasLine = true
							}
						}
						return true
					})
				}
			}
			if !hasPath || !hasLine || verbs < len(call.Args)-1 {
				return false
			}
			continue
		}
		g := p.FnByObj[an.Callee(info, call)]
		if g == nil || g.Body == nil || g.Pkg != p.Jet {
			return false
		}
		nret := 0
		all := true
		an.InspectBody(g, func(n ast.Node) bool {
			if r, ok := n.(*ast.ReturnStmt); ok {
				nret++
				if len(r.Results) != 1 || !c12positioned(p, g, r.Results[0], depth+1) {
					all = false
				}
			}
			return true
		})
		if nret == 0 || !all {
			return false
		}
	}
	return true
}
