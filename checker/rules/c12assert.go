package rules

import (
	"go/ast"
	"go/token"
	"go/types"
	"sort"
	"strings"

	"jetverif/an"
)

// c12assert (C12.assert): a failed single-value type assertion `n.(*XNode)` is a runtime.Error
// (interface conversion), which Runtime.recover and Template.recover hand on as a panic instead of an
// error.  So every unchecked assertion of a Node/Expression to a concrete node type lies on paths on which
// n.Type() is known to be the NodeType constant the constructors give that type — positively (an `==`
// test, a case of a switch on n.Type()), or by exclusion: every other member of the set of node types the
// parser admits at that place has been tested and ruled out.
//
// The admitted sets are taken from the parser itself: the node types under which an operand is appended
// to the target list of an assignment (SetNode.Left), narrowed to {identifier, underscore} for
// declarations (`:=`) — the narrowing is an obligation of its own on the parser (let-targets).
func c12assert(c *an.Ctx) {
	p := c.P
	// ---- node struct type -> NodeType constants, from the composite literals that build nodes
	constsOf := map[string]map[string]bool{} // "IfNode" -> {"NodeIf"}
	exact := map[string]string{}             // "NodeIf" -> exact constant value
	for _, f := range p.Fns {
		if f.Pkg != p.Jet || f.Body == nil || f.Parent != nil {
			continue
		}
		info := f.Info()
		ast.Inspect(f.Body, func(n ast.Node) bool {
			cl, ok := n.(*ast.CompositeLit)
			if !ok {
				return true
			}
			tv, ok := info.Types[cl]
			if !ok {
				return true
			}
			named, _ := tv.Type.(*types.Named)
			if named == nil {
				return true
			}
			ast.Inspect(cl, func(m ast.Node) bool {
				kv, ok := m.(*ast.KeyValueExpr)
				if !ok {
					return true
				}
				if k, ok := kv.Key.(*ast.Ident); ok && k.Name == "NodeType" {
					if id, ok := an.Unparen(kv.Value).(*ast.Ident); ok {
						if k, ok := info.Uses[id].(*types.Const); ok {
							if constsOf[named.Obj().Name()] == nil {
								constsOf[named.Obj().Name()] = map[string]bool{}
							}
							constsOf[named.Obj().Name()][k.Name()] = true
							exact[k.Name()] = k.Val().ExactString()
						}
					}
				}
				return true
			})
			return false // nested literals were covered by the inner walk
		})
	}
	if len(exact) < 20 {
		c.Undecided("C12.assert", "node-types", token.NoPos, "only %d NodeType constants found in node constructors", len(exact))
		return
	}
	byExact := map[string]string{}
	for k, v := range exact {
		byExact[v] = k
	}

	// ---- what the parser admits as assignment targets
	admitted, declOK := c12assignTargets(c, exact, byExact)

	// ---- the assertion sites
	nSites := 0
	for _, f := range p.Units() {
		if f.Pkg != p.Jet || f.Body == nil {
			continue
		}
		info := f.Info()
		commaOK := map[*ast.TypeAssertExpr]bool{}
		var sites []*ast.TypeAssertExpr
		var typeCalls []*ast.CallExpr
		an.InspectOwn(f, func(n ast.Node) bool {
			switch s := n.(type) {
			case *ast.AssignStmt:
				if len(s.Lhs) == 2 && len(s.Rhs) == 1 {
					if ta, ok := an.Unparen(s.Rhs[0]).(*ast.TypeAssertExpr); ok {
						commaOK[ta] = true
					}
				}
			case *ast.ValueSpec:
				if len(s.Names) == 2 && len(s.Values) == 1 {
					if ta, ok := an.Unparen(s.Values[0]).(*ast.TypeAssertExpr); ok {
						commaOK[ta] = true
					}
				}
			case *ast.TypeAssertExpr:
				if s.Type != nil && !commaOK[s] && c12nodeType(info, s.Type, constsOf) != "" {
					sites = append(sites, s)
				}
			case *ast.CallExpr:
				if sel, ok := an.Unparen(s.Fun).(*ast.SelectorExpr); ok && sel.Sel.Name == "Type" && len(s.Args) == 0 {
					if tv, ok := info.Types[s]; ok && an.TypeName(tv.Type) == "jet.NodeType" {
						typeCalls = append(typeCalls, s)
					}
				}
			}
			return true
		})
		if len(sites) == 0 {
			continue
		}
		c.FnsAnalysed[f.Name] = true
		isSite := map[*ast.TypeAssertExpr]bool{}
		for _, s := range sites {
			isSite[s] = true
		}
		bad := map[token.Pos]string{}
		badFacts := map[token.Pos][]string{}
		x := p.NewExplorer(f, an.Hooks{Stmt: func(x *an.Explorer, n ast.Node, st *an.State) {
			ast.Inspect(n, func(m ast.Node) bool {
				if _, isLit := m.(*ast.FuncLit); isLit {
					return false
				}
				if m != n {
					switch m.(type) {
					case *ast.BlockStmt, *ast.IfStmt, *ast.ForStmt, *ast.RangeStmt, *ast.SwitchStmt, *ast.TypeSwitchStmt, *ast.CaseClause:
						return false
					}
				}
				ta, ok := m.(*ast.TypeAssertExpr)
				if !ok || !isSite[ta] {
					return true
				}
				if _, dup := bad[ta.Pos()]; dup {
					return true
				}
				tname := c12nodeType(info, ta.Type, constsOf)
				fail := func(msg string) {
					bad[ta.Pos()] = msg
					badFacts[ta.Pos()] = an.Facts(st)
				}
				ek, ok := x.Key(ta.X)
				if !ok {
					fail("the asserted expression " + an.Str(ta.X) + " cannot be followed")
					return true
				}
				// facts about <e>.Type() are looked up by their key (they may have been copied to a helper's parameter,
				// for which no `.Type()` expression exists in the source)
				tk := ek + ".Type()"
				factOf := func(k string) (val, known bool) {
					a, b := k, tk
					if a > b {
						a, b = b, a
					}
					for fk, fv := range st.Facts {
						if an.PlainKey(fk) == an.PlainKey(a+" == "+b) {
							return fv, true
						}
					}
					return false, false
				}
				var probe *ast.CallExpr
				for _, tc := range typeCalls {
					if k, ok := x.Key(an.Unparen(tc.Fun).(*ast.SelectorExpr).X); ok && k == ek {
						probe = tc
						break
					}
				}
				knownType := ""
				for rk, cur := range st.Regs {
					if an.PlainKey(rk) == an.PlainKey("eq:"+tk) {
						knownType = byExact[cur]
					}
				}
				if knownType == "" {
					for k := range exact {
						if v, known := factOf(k); known && v {
							knownType = k
						}
					}
				}
				if knownType != "" {
					if !constsOf[tname][knownType] {
						fail(an.Str(ta.X) + " is known to be a " + knownType + " where it is asserted to *" + tname)
					}
					return true
				}
				// by exclusion, within what the parser admits at this place
				universe, why := c12universe(p, f, ta.X, admitted, declOK)
				if universe == nil {
					fail(an.Str(ta.X) + ".Type() is not known to be the type of *" + tname + " on this path (" + why + ")")
					return true
				}
				var open []string
				for k := range universe {
					if constsOf[tname][k] {
						continue
					}
					if v, known := factOf(k); known && !v {
						continue
					}
					if probe != nil {
						pr := &ast.BinaryExpr{X: probe, Op: token.EQL, Y: &ast.Ident{Name: k}}
						if v, known := x.Truth(pr, st); known && !v {
							continue
						}
					}
					open = append(open, k)
				}
				if len(open) > 0 {
					sort.Strings(open)
					fail(an.Str(ta.X) + " may still be a " + strings.Join(open, "/") + " node where it is asserted to *" + tname + " (" + why + ")")
				}
				return true
			})
		}})
		x.Run(nil)
		c.States += x.Visited
		if x.Undecided != "" {
			c.Undecided("C12.assert", f.Name+"/assert", f.Pos(), "%s", x.Undecided)
			continue
		}
		sort.Slice(sites, func(i, j int) bool { return sites[i].Pos() < sites[j].Pos() })
		count := map[string]int{}
		for _, s := range sites {
			nSites++
			tname := c12nodeType(info, s.Type, constsOf)
			key := f.Name + "/assert:" + tname
			count[key]++
			if count[key] > 1 {
				key += "#" + itoa(count[key])
			}
			if msg, isBad := bad[s.Pos()]; isBad {
				c.Bad("C12.assert", key, s.Pos(), badFacts[s.Pos()], "%s: %s — a failed assertion is an interface-conversion panic (a runtime error) that escapes Execute/Parse instead of an error", f.Name, msg)
			} else {
				c.OK("C12.assert", key, s.Pos(), "the node's Type() is known to be the asserted type's on every path")
			}
		}
	}
	c.Expect("C12.assert", "unchecked assertions to concrete node types", nSites, 40)
}

// c12nodeType: "IfNode" for the type expression *IfNode when IfNode is a node struct type.
func c12nodeType(info *types.Info, te ast.Expr, constsOf map[string]map[string]bool) string {
	tv, ok := info.Types[te]
	if !ok {
		return ""
	}
	ptr, ok := tv.Type.(*types.Pointer)
	if !ok {
		return ""
	}
	named, _ := ptr.Elem().(*types.Named)
	if named == nil || constsOf[named.Obj().Name()] == nil {
		return ""
	}
	return named.Obj().Name()
}

// c12universe: the node types the parser admits for expression e of f, when e is (a parameter bound at
// every call site to) an element of SetNode.Left; nil when nothing is known.
func c12universe(p *an.Prog, f *an.Fn, e ast.Expr, admitted map[string]bool, declOK bool) (map[string]bool, string) {
	if admitted == nil {
		return nil, "the parser's set of assignment targets could not be derived"
	}
	info := f.Info()
	var isLeftList func(g *an.Fn, e ast.Expr, depth int) bool
	isLeftList = func(g *an.Fn, e ast.Expr, depth int) bool {
		if p.FieldKey(g.Info(), e) == "SetNode.Left" {
			return true
		}
		// a parameter to which every caller hands the list
		id, ok := an.Unparen(e).(*ast.Ident)
		if !ok || depth > 3 {
			return false
		}
		owner := p.OwnerFn(id.Pos())
		if owner == nil {
			owner = g
		}
		idx, isParam := an.IsParam(owner, an.ObjOf(g.Info(), id))
		if !isParam || owner.Obj == nil || len(an.LocalDefs(owner, an.ObjOf(g.Info(), id))) > 0 {
			return false
		}
		sites := p.AllCalls(an.FuncName(owner.Obj))
		if len(sites) == 0 {
			return false
		}
		for _, s := range sites {
			if idx >= len(s.Call.Args) || !isLeftList(s.Fn, s.Call.Args[idx], depth+1) {
				return false
			}
		}
		return true
	}
	isLeftElemIn := func(g *an.Fn, e ast.Expr) bool {
		ix, ok := an.Unparen(e).(*ast.IndexExpr)
		return ok && isLeftList(g, ix.X, 0)
	}
	isLeftElem := func(info *types.Info, e ast.Expr) bool {
		ix, ok := an.Unparen(e).(*ast.IndexExpr)
		return ok && p.FieldKey(info, ix.X) == "SetNode.Left"
	}
	e = an.Unparen(e)
	if isLeftElem(info, e) || isLeftElemIn(f, e) {
		// inside a function that handles declarations only?
		if declOK && c12declOnly(p, f) {
			return map[string]bool{"NodeIdentifier": true, "NodeUnderscore": true}, "declaration targets are identifiers or '_' (parser obligation let-targets)"
		}
		return admitted, "assignment targets admitted by the parser"
	}
	// a parameter: every caller passes an assignment target (directly, or again as its own parameter)
	var isTarget func(g *an.Fn, e ast.Expr, depth int) bool
	isTarget = func(g *an.Fn, e ast.Expr, depth int) bool {
		if isLeftElem(g.Info(), e) || isLeftElemIn(g, e) {
			return true
		}
		id, ok := an.Unparen(e).(*ast.Ident)
		if !ok || depth > 3 {
			return false
		}
		owner := p.OwnerFn(id.Pos())
		if owner == nil {
			owner = g
		}
		idx, isParam := an.IsParam(owner, an.ObjOf(g.Info(), id))
		if !isParam || owner.Obj == nil {
			return false
		}
		sites := p.AllCalls(an.FuncName(owner.Obj))
		if len(sites) == 0 {
			return false
		}
		for _, s := range sites {
			if idx >= len(s.Call.Args) || !isTarget(s.Fn, s.Call.Args[idx], depth+1) {
				return false
			}
		}
		return true
	}
	if _, ok := e.(*ast.Ident); ok {
		if !isTarget(f, e, 0) {
			return nil, "a caller passes something other than an assignment target"
		}
		if declOK && c12declOnly(p, f) {
			return map[string]bool{"NodeIdentifier": true, "NodeUnderscore": true}, "declaration targets are identifiers or '_' (parser obligation let-targets)"
		}
		return admitted, "assignment targets admitted by the parser"
	}
	return nil, "no type test"
}

// c12declOnly: every call of f lies where SetNode.Let is known to be true (then-branch of a test of the
// field, or else-branch of its negation).
func c12declOnly(p *an.Prog, f *an.Fn) bool {
	if f.Obj == nil {
		return false
	}
	sites := p.AllCalls(an.FuncName(f.Obj))
	if len(sites) == 0 {
		return false
	}
	for _, s := range sites {
		info := s.Fn.Info()
		isLet := func(e ast.Expr) (bool, bool) { // (is the Let field, negated)
			neg := false
			e = an.Unparen(e)
			for {
				u, ok := e.(*ast.UnaryExpr)
				if !ok || u.Op != token.NOT {
					break
				}
				neg = !neg
				e = an.Unparen(u.X)
			}
			if id, ok := e.(*ast.Ident); ok {
				if defs := an.LocalDefs(s.Fn, an.ObjOf(info, id)); len(defs) == 1 && defs[0] != nil {
					e = an.Unparen(defs[0])
				}
			}
			return p.FieldKey(info, e) == "SetNode.Let", neg
		}
		ok := false
		var inner ast.Node = s.Call
		chain := an.EnclosingStmts(s.Fn, s.Call)
		for i := len(chain) - 1; i >= 0 && !ok; i-- {
			if ifs, isIf := chain[i].(*ast.IfStmt); isIf {
				if is, neg := isLet(ifs.Cond); is {
					inThen := ifs.Body.Pos() <= inner.Pos() && inner.End() <= ifs.Body.End()
					inElse := ifs.Else != nil && ifs.Else.Pos() <= inner.Pos() && inner.End() <= ifs.Else.End()
					if (inThen && !neg) || (inElse && neg) {
						ok = true
					}
				}
			}
		}
		if !ok {
			// not written as a plain test of the field: decide on the caller's paths
			var lets []ast.Expr
			an.InspectOwn(s.Fn, func(n ast.Node) bool {
				if sel, isSel := n.(*ast.SelectorExpr); isSel && p.FieldKey(info, sel) == "SetNode.Let" {
					lets = append(lets, sel)
				}
				return true
			})
			reached, always := false, true
			site := s
			x := p.NewExplorer(s.Fn, an.Hooks{Call: func(x *an.Explorer, call *ast.CallExpr, st *an.State) {
				if call != site.Call {
					return
				}
				reached = true
				known := false
				for _, l := range lets {
					if v, k := x.Truth(l, st); k && v {
						known = true
					}
				}
				if !known {
					always = false
				}
			}})
			x.Run(nil)
			if !reached || !always || x.Undecided != "" {
				return false
			}
		}
	}
	return true
}

// c12assignTargets derives, from the function that builds SetNode, the set of node types under which an
// operand is appended to the list that becomes SetNode.Left, and decides the parser's obligation for
// declarations: whenever the node may be built with Let true, a loop over that list has rejected every
// admitted type other than identifier and underscore.
func c12assignTargets(c *an.Ctx, exact, byExact map[string]string) (map[string]bool, bool) {
	p := c.P
	// the constructor: the function holding the &SetNode{...} literal, and which parameters feed Left and Let
	var ctor *an.Fn
	leftIdx, letIdx := -1, -1
	for _, f := range p.Fns {
		if f.Pkg != p.Jet || f.Body == nil || f.Obj == nil {
			continue
		}
		info := f.Info()
		ast.Inspect(f.Body, func(n ast.Node) bool {
			cl, ok := n.(*ast.CompositeLit)
			if !ok {
				return true
			}
			if tv, ok := info.Types[cl]; !ok || an.TypeName(tv.Type) != "jet.SetNode" {
				return true
			}
			for _, el := range cl.Elts {
				kv, ok := el.(*ast.KeyValueExpr)
				if !ok {
					continue
				}
				k, _ := kv.Key.(*ast.Ident)
				id, _ := an.Unparen(kv.Value).(*ast.Ident)
				if k == nil || id == nil {
					continue
				}
				if i, isParam := an.IsParam(f, an.ObjOf(info, id)); isParam {
					switch k.Name {
					case "Left":
						ctor, leftIdx = f, i
					case "Let":
						letIdx = i
					}
				}
			}
			return true
		})
	}
	if ctor == nil || leftIdx < 0 || letIdx < 0 {
		c.Undecided("C12.assert", "parser/assignment-targets", token.NoPos, "the constructor of SetNode (Left and Let taken from parameters) was not found")
		return nil, false
	}
	sites := p.AllCalls(an.FuncName(ctor.Obj))
	if len(sites) == 0 {
		c.Undecided("C12.assert", "parser/assignment-targets", ctor.Pos(), "the constructor of SetNode is never called")
		return nil, false
	}
	admitted := map[string]bool{}
	declOK := true
	for _, s := range sites {
		f := s.Fn
		info := f.Info()
		leftId, _ := an.Unparen(s.Call.Args[leftIdx]).(*ast.Ident)
		if leftId == nil {
			c.Bad("C12.assert", f.Name+"/assignment-targets", s.Call.Pos(), nil, "the target list handed to the SetNode constructor is not a local list built by this function")
			return nil, false
		}
		leftObj := an.ObjOf(info, leftId)
		letArg := s.Call.Args[letIdx]
		var typeCalls []*ast.CallExpr
		var loops []*ast.RangeStmt
		an.InspectOwn(f, func(n ast.Node) bool {
			switch s := n.(type) {
			case *ast.CallExpr:
				if sel, ok := an.Unparen(s.Fun).(*ast.SelectorExpr); ok && sel.Sel.Name == "Type" && len(s.Args) == 0 {
					if tv, ok := info.Types[s]; ok && an.TypeName(tv.Type) == "jet.NodeType" {
						typeCalls = append(typeCalls, s)
					}
				}
			case *ast.RangeStmt:
				if id, ok := an.Unparen(s.X).(*ast.Ident); ok && an.ObjOf(info, id) == leftObj {
					loops = append(loops, s)
				}
			}
			return true
		})
		unknown := token.NoPos
		letUnchecked := token.NoPos
		nAppends := 0
		x := p.NewExplorer(f, an.Hooks{
			Stmt: func(x *an.Explorer, n ast.Node, st *an.State) {
				for _, l := range loops {
					if n == ast.Node(l.X) {
						st.Set("letloop", "1")
					}
				}
			},
			Assign: func(x *an.Explorer, lhs, rhs ast.Expr, stmt ast.Node, st *an.State) {
				id, ok := an.Unparen(lhs).(*ast.Ident)
				if !ok || an.ObjOf(info, id) != leftObj || rhs == nil {
					return
				}
				call, ok := an.Unparen(rhs).(*ast.CallExpr)
				if !ok || an.CalleeName(info, call) != "builtin.append" || len(call.Args) < 2 {
					if unknown == token.NoPos {
						if _, isLit := an.Unparen(rhs).(*ast.CompositeLit); !isLit && !c12isNil(info, rhs) {
							unknown = rhs.Pos()
						}
					}
					return
				}
				for _, el := range call.Args[1:] {
					nAppends++
					ek, ok := x.Key(el)
					found := false
					if ok {
						for _, tc := range typeCalls {
							if k, ok := x.Key(an.Unparen(tc.Fun).(*ast.SelectorExpr).X); ok && k == ek {
								pk, _ := x.Key(tc)
								if cur, has := st.Regs["eq:"+pk]; has && byExact[cur] != "" {
									admitted[byExact[cur]] = true
									found = true
								}
								break
							}
						}
					}
					if !found && unknown == token.NoPos {
						unknown = el.Pos()
					}
				}
			},
			Call: func(x *an.Explorer, call *ast.CallExpr, st *an.State) {
				if call != s.Call {
					return
				}
				if v, known := x.Truth(letArg, st); known && !v {
					return
				}
				if st.Get("letloop") == "" && letUnchecked == token.NoPos {
					letUnchecked = call.Pos()
				}
			},
		})
		x.Run(nil)
		c.States += x.Visited
		c.FnsAnalysed[f.Name] = true
		if x.Undecided != "" {
			c.Undecided("C12.assert", f.Name+"/assignment-targets", f.Pos(), "%s", x.Undecided)
			return nil, false
		}
		if unknown != token.NoPos || nAppends == 0 {
			pos := unknown
			if pos == token.NoPos {
				pos = s.Call.Pos()
			}
			c.Bad("C12.assert", f.Name+"/assignment-targets", pos, nil, "%s puts an operand into the target list of an assignment without its node type being known at that point: executeSet asserts the targets to concrete node types", f.Name)
			return nil, false
		}
		var names []string
		for k := range admitted {
			names = append(names, k)
		}
		sort.Strings(names)
		c.OK("C12.assert", f.Name+"/assignment-targets", s.Call.Pos(), "assignment targets are admitted under %s only", strings.Join(names, ", "))

		// declarations: some loop over the list rejects everything but identifiers and '_'
		key := f.Name + "/let-targets"
		rejects := func(l *ast.RangeStmt) bool {
			val, _ := l.Value.(*ast.Ident)
			if val == nil {
				return false
			}
			valObj := an.ObjOf(info, val)
			var probe *ast.CallExpr
			for _, tc := range typeCalls {
				if id, ok := an.Unparen(an.Unparen(tc.Fun).(*ast.SelectorExpr).X).(*ast.Ident); ok && an.ObjOf(info, id) == valObj {
					probe = tc
				}
			}
			if probe == nil {
				return false
			}
			for _, st := range l.Body.List {
				ifs, ok := st.(*ast.IfStmt)
				if !ok || ifs.Init != nil || len(ifs.Body.List) == 0 {
					continue
				}
				last, ok := ifs.Body.List[len(ifs.Body.List)-1].(*ast.ExprStmt)
				if !ok {
					continue
				}
				lc, ok := last.X.(*ast.CallExpr)
				if !ok || !p.CallNeverReturns(info, lc) {
					continue
				}
				all := true
				for k := range admitted {
					state := an.NewState()
					if !x.SetEq(probe, exact[k], state) {
						all = false
						break
					}
					v, known := x.Truth(ifs.Cond, state)
					wantReject := k != "NodeIdentifier" && k != "NodeUnderscore"
					if !known || v != wantReject {
						all = false
						break
					}
				}
				if all {
					return true
				}
			}
			return false
		}
		okLoop := false
		for _, l := range loops {
			if rejects(l) {
				okLoop = true
			}
		}
		if !okLoop || letUnchecked != token.NoPos {
			declOK = false
			pos := s.Call.Pos()
			if letUnchecked != token.NoPos {
				pos = letUnchecked
			}
			c.Bad("C12.assert", key, pos, nil, "%s can build a declaration (`:=`) whose targets were not all checked to be identifiers or '_': executeLetList asserts every other target to *IdentifierNode", f.Name)
		} else {
			c.OK("C12.assert", key, s.Call.Pos(), "a declaration is only built after every target was found to be an identifier or '_'")
		}
	}
	return admitted, declOK
}

func c12isNil(info *types.Info, e ast.Expr) bool {
	tv, ok := info.Types[an.Unparen(e)]
	return ok && tv.IsNil()
}
