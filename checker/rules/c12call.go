package rules

import (
	"go/ast"
	"go/constant"
	"go/token"
	"go/types"
	"sort"
	"strings"

	"jetverif/an"
)

// c12call:
//
// (C12.call) reflect.Value.Call panics (with a string, or a nil dereference) on a value that is not a
// function or is a nil function; Execute re-panics both.  Every Call of the evaluator lies where the
// callee is known not to be nil, and its kind is known to be Func — in the function itself or, when the
// callee is a parameter, at every call site (followed through wrappers).
//
// (C12.iface) an unchecked assertion v.Interface().(T) panics with a runtime error when the dynamic type is
// not T.  For an interface T the value's type is known to implement it (v.Type().Implements(<T's
// reflect.Type>)); for a concrete T the asserted value is the result of Convert to T's reflect.Type, or
// v.Type() is known to be equal to it — AssignableTo is not enough: an unnamed func type is assignable to
// a named one without being it.
func c12call(c *an.Ctx) {
	p := c.P
	eval := p.Eval()
	funcKind := ""
	if rp := p.Jet.Imports["reflect"]; rp != nil {
		if k, ok := rp.Types.Scope().Lookup("Func").(*types.Const); ok {
			funcKind = k.Val().ExactString()
		}
	}
	ifaceKind := ""
	if rp := p.Jet.Imports["reflect"]; rp != nil {
		if k, ok := rp.Types.Scope().Lookup("Interface").(*types.Const); ok {
			ifaceKind = k.Val().ExactString()
		}
	}
	nilIfacePred := nilIfacePreds(p, ifaceKind)
	if funcKind == "" {
		c.Undecided("C12.call", "reflect.Func", token.NoPos, "constant reflect.Func not found")
		return
	}
	// ---- package-level reflect.Type variables: var xType = reflect.TypeOf(T(nil)) / reflect.TypeOf((*T)(nil)).Elem()
	typeVars := map[types.Object]types.Type{}
	for _, file := range p.Jet.Syntax {
		for _, d := range file.Decls {
			gd, ok := d.(*ast.GenDecl)
			if !ok || gd.Tok != token.VAR {
				continue
			}
			for _, sp := range gd.Specs {
				vs := sp.(*ast.ValueSpec)
				for i, name := range vs.Names {
					if i >= len(vs.Values) {
						continue
					}
					if t := c12typeOfExpr(p.Jet.TypesInfo, vs.Values[i]); t != nil {
						typeVars[p.Jet.TypesInfo.Defs[name]] = t
					}
				}
			}
		}
	}
	nCalls, nIface := 0, 0
	for _, f := range p.Units() {
		if f.Pkg != p.Jet || f.Body == nil || !eval[f.Root()] && !eval[f] {
			continue
		}
		info := f.Info()
		var calls []*ast.CallExpr
		var asserts []*ast.TypeAssertExpr
		commaOK := map[*ast.TypeAssertExpr]bool{}
		var preds []ast.Expr // IsNil / Implements calls and `x.Type() == tVar` tests
		var kindCalls []*ast.CallExpr
		an.InspectOwn(f, func(n ast.Node) bool {
			switch s := n.(type) {
			case *ast.AssignStmt:
				if len(s.Lhs) == 2 && len(s.Rhs) == 1 {
					if ta, ok := an.Unparen(s.Rhs[0]).(*ast.TypeAssertExpr); ok {
						commaOK[ta] = true
					}
				}
			case *ast.CallExpr:
				switch an.CalleeName(info, s) {
				case "(reflect.Value).Call":
					calls = append(calls, s)
				case "(reflect.Value).IsNil", "(reflect.Type).Implements":
					preds = append(preds, s)
				default:
					if callee := an.Callee(info, s); callee != nil && nilIfacePred[callee] {
						preds = append(preds, s)
					}
				case "(reflect.Value).Kind":
					kindCalls = append(kindCalls, s)
				}
			case *ast.BinaryExpr:
				if s.Op == token.EQL || s.Op == token.NEQ || s.Op == token.LAND {
					preds = append(preds, s)
				}
			case *ast.TypeAssertExpr:
				if s.Type == nil || commaOK[s] {
					return true
				}
				if ic, ok := an.Unparen(s.X).(*ast.CallExpr); ok && an.CalleeName(info, ic) == "(reflect.Value).Interface" {
					asserts = append(asserts, s)
				}
			}
			return true
		})
		if len(calls) == 0 && len(asserts) == 0 {
			continue
		}
		c.FnsAnalysed[f.Name] = true
		bad := map[token.Pos]string{}
		badFacts := map[token.Pos][]string{}
		pendBad := map[token.Pos]bool{} // uses of a function value that was not compared with nil
		isCall := map[*ast.CallExpr]bool{}
		for _, s := range calls {
			isCall[s] = true
		}
		isAssert := map[*ast.TypeAssertExpr]bool{}
		for _, s := range asserts {
			isAssert[s] = true
		}
		// knownNonNil: the reflect.Value with key ck is known not to be a nil function here (register kept from the
		// test on, or IsNil() decided false — if need be under "its kind is Func", for `kind is Func && IsNil()` tests)
		knownNonNil := func(x *an.Explorer, ck string, st *an.State) bool {
			if st.Get("nn:"+ck) != "" {
				return true
			}
			st2 := st.Clone()
			for _, kc := range kindCalls {
				if k, ok := x.Key(an.Receiver(kc)); ok && k == ck {
					x.SetEq(kc, funcKind, st2)
				}
			}
			for _, pc := range preds {
				if pcall, ok := pc.(*ast.CallExpr); ok && an.CalleeName(info, pcall) == "(reflect.Value).IsNil" {
					if k, ok := x.Key(an.Receiver(pcall)); ok && k == ck {
						if v, known := x.Truth(pcall, st); known && !v {
							return true
						}
						if v, known := x.Truth(pcall, st2); known && !v {
							return true
						}
					}
				}
			}
			return false
		}
		// kindNotFunc: the kind of the value with key ck is known not to be Func on this path — such a path exists
		// only because a nil test is written as `kind is Func && IsNil()`; that the kind is Func where the value is
		// called is established separately (by the function or its callers)
		kindNotFunc := func(x *an.Explorer, ck string, st *an.State) bool {
			for _, pc := range preds {
				b, ok := pc.(*ast.BinaryExpr)
				if !ok {
					continue
				}
				for _, pr := range [][2]ast.Expr{{b.X, b.Y}, {b.Y, b.X}} {
					kc, isCall := an.Unparen(pr[0]).(*ast.CallExpr)
					if !isCall || an.CalleeName(info, kc) != "(reflect.Value).Kind" {
						continue
					}
					tv, has := info.Types[pr[1]]
					if !has || tv.Value == nil || tv.Value.ExactString() != funcKind {
						continue
					}
					if k, ok := x.Key(an.Receiver(kc)); ok && k == ck {
						if t, known := x.Truth(b, st); known && t != (b.Op == token.EQL) {
							return true
						}
					}
				}
			}
			return false
		}
		// notNilInterface: `v.Kind() == reflect.Interface && v.IsNil()` is known to be false for the value with key vk:
		// by that test itself, by a module predicate that is that test, by IsNil() false, or by the kind being known
		notNilInterface := func(x *an.Explorer, vk string, st *an.State) bool {
			for rk, cur := range st.Regs {
				if an.PlainKey(rk) == an.PlainKey("eq:"+vk+".Kind()") && cur != "" && cur != ifaceKind {
					return true
				}
			}
			for _, pc := range preds {
				switch e := pc.(type) {
				case *ast.CallExpr:
					if an.CalleeName(info, e) == "(reflect.Value).IsNil" {
						if k, ok := x.Key(an.Receiver(e)); ok && k == vk {
							if t, known := x.Truth(e, st); known && !t {
								return true
							}
						}
					}
					if callee := an.Callee(info, e); callee != nil && nilIfacePred[callee] && len(e.Args) == 1 {
						if k, ok := x.Key(e.Args[0]); ok && k == vk {
							if t, known := x.Truth(e, st); known && !t {
								return true
							}
						}
					}
				case *ast.BinaryExpr:
					if e.Op == token.LAND && c12isNilIfaceTest(info, e, func(r ast.Expr) bool { k, ok := x.Key(r); return ok && k == vk }, ifaceKind) {
						if t, known := x.Truth(e, st); known && !t {
							return true
						}
					}
				}
			}
			return false
		}
		// typeKey: the key under which facts about v.Type() are recorded — "<v>.Type()", or the local that holds it
		typeKeys := func(x *an.Explorer, vk string, st *an.State) map[string]bool {
			out := map[string]bool{vk + ".Type()": true}
			for k, v := range st.Regs {
				if strings.HasPrefix(k, "typeof:") && v == vk {
					out[strings.TrimPrefix(k, "typeof:")] = true
				}
			}
			return out
		}
		x := p.NewExplorer(f, an.Hooks{
			Assign: func(x *an.Explorer, lhs, rhs ast.Expr, stmt ast.Node, st *an.State) {
				id, ok := an.Unparen(lhs).(*ast.Ident)
				if !ok {
					return
				}
				// (by key, not by name: a helper's parameter may be called like the caller's variable)
				if ak, ok := x.Key(id); ok {
					about := func(k string) bool { return k == ak || strings.HasPrefix(k, ak+".") || strings.HasPrefix(k, ak+"[") }
					for k, v := range st.Regs {
						if strings.HasPrefix(k, "typeof:") && (about(v) || about(strings.TrimPrefix(k, "typeof:"))) {
							st.Set(k, "")
						}
						if strings.HasPrefix(k, "nn:") && about(strings.TrimPrefix(k, "nn:")) {
							st.Set(k, "")
						}
					}
				}
				if rhs == nil {
					return
				}
				if tc, ok := an.Unparen(rhs).(*ast.CallExpr); ok && an.CalleeName(info, tc) == "(reflect.Value).Type" {
					lk, ok1 := x.Key(lhs)
					wk, ok2 := x.Key(an.Receiver(tc))
					if ok1 && ok2 {
						st.Set("typeof:"+lk, wk)
					}
				}
			},
			// whether a function value is nil is taken to be stable while its arguments are evaluated: the fact is
			// kept in a register from the test on (facts about IsNil() die at the next impure call)
			Branch: func(x *an.Explorer, cond ast.Expr, val bool, st *an.State) {
				for rk, why := range st.Regs {
					if strings.HasPrefix(rk, "pendfn:") && why != "" {
						lk := strings.TrimPrefix(rk, "pendfn:")
						if an.FactIs(st, an.PlainKey(lk)+" == nil", false) {
							st.Set(rk, "")
						}
					}
				}
				for _, pc := range preds {
					pcall, ok := pc.(*ast.CallExpr)
					if !ok || an.CalleeName(info, pcall) != "(reflect.Value).IsNil" {
						continue
					}
					ck, ok := x.Key(an.Receiver(pcall))
					if !ok || st.Get("nn:"+ck) != "" {
						continue
					}
					st2 := st.Clone()
					for _, kc := range kindCalls {
						if k, ok := x.Key(an.Receiver(kc)); ok && k == ck {
							x.SetEq(kc, funcKind, st2)
						}
					}
					if v, known := x.Truth(pcall, st2); known && !v {
						st.Set("nn:"+ck, "1")
					}
				}
			},
			Call: func(x *an.Explorer, call *ast.CallExpr, st *an.State) {
				// a function value taken from reflection that is still to be compared with nil
				for rk, why := range st.Regs {
					if !strings.HasPrefix(rk, "pendfn:") || why == "" {
						continue
					}
					lk := strings.TrimPrefix(rk, "pendfn:")
					if fk, ok := x.Key(call.Fun); ok && fk == lk {
						if _, dup := bad[call.Pos()]; !dup {
							bad[call.Pos()] = why
							badFacts[call.Pos()] = an.Facts(st)
							pendBad[call.Pos()] = true
						}
					}
					for i, a := range call.Args {
						if ak, ok := x.Key(a); ok && ak == lk {
							g := p.FnByObj[an.Callee(info, call)]
							if g != nil && c12paramNilChecked(p, g, i) {
								st.Set(rk, "")
							} else if _, dup := bad[call.Pos()]; !dup {
								bad[call.Pos()] = why
								badFacts[call.Pos()] = an.Facts(st)
								pendBad[call.Pos()] = true
							}
						}
					}
				}
				if !isCall[call] {
					return
				}
				if _, dup := bad[call.Pos()]; dup {
					return
				}
				callee := an.Receiver(call)
				ck, ok := x.Key(callee)
				if !ok {
					bad[call.Pos()] = "the called value " + an.Str(callee) + " cannot be followed"
					return
				}
				nonNil := st.Get("nn:"+ck) != ""
				for _, pc := range preds {
					if pcall, ok := pc.(*ast.CallExpr); ok && an.CalleeName(info, pcall) == "(reflect.Value).IsNil" {
						if k, ok := x.Key(an.Receiver(pcall)); ok && k == ck {
							if v, known := x.Truth(pcall, st); known && !v {
								nonNil = true
							}
						}
					}
				}
				if !nonNil {
					// a test written as `kind is Func && IsNil()`: decide IsNil on the path under "the kind is Func"
					// (that it is, is established below)
					st2 := st.Clone()
					for _, kc := range kindCalls {
						if k, ok := x.Key(an.Receiver(kc)); ok && k == ck {
							x.SetEq(kc, funcKind, st2)
						}
					}
					for _, pc := range preds {
						if pcall, ok := pc.(*ast.CallExpr); ok && an.CalleeName(info, pcall) == "(reflect.Value).IsNil" {
							if k, ok := x.Key(an.Receiver(pcall)); ok && k == ck {
								if v, known := x.Truth(pcall, st2); known && !v {
									nonNil = true
								}
							}
						}
					}
				}
				if !nonNil && kindNotFunc(x, ck, st) {
					nonNil = true
				}
				if !nonNil {
					bad[call.Pos()] = "the called value " + an.Str(callee) + " is not known to be a non-nil function"
					badFacts[call.Pos()] = an.Facts(st)
					return
				}
				if st.Regs["eq:"+ck+".Kind()"] == funcKind {
					return
				}
				if why := c12kindAtCallers(c, f, callee, funcKind, 0); why != "" {
					bad[call.Pos()] = why
					badFacts[call.Pos()] = an.Facts(st)
				}
			},
			Stmt: func(x *an.Explorer, n ast.Node, st *an.State) {
				ast.Inspect(n, func(m ast.Node) bool {
					if _, isLit := m.(*ast.FuncLit); isLit {
						return false
					}
					if m != n {
						switch m.(type) {
						case *ast.BlockStmt, *ast.IfStmt, *ast.ForStmt, *ast.RangeStmt, *ast.SwitchStmt, *ast.TypeSwitchStmt, *ast.CaseClause:
							return false
						}
					}
					ta, ok := m.(*ast.TypeAssertExpr)
					if !ok || !isAssert[ta] {
						return true
					}
					if _, dup := bad[ta.Pos()]; dup {
						return true
					}
					tv, ok := info.Types[ta.Type]
					if !ok {
						return true
					}
					v := an.Receiver(an.Unparen(ta.X).(*ast.CallExpr))
					// the reflect.Type variable(s) standing for the asserted type
					var tvars []types.Object
					for o, t := range typeVars {
						if types.Identical(t, tv.Type) {
							tvars = append(tvars, o)
						}
					}
					isTypeVar := func(e ast.Expr) bool {
						id, ok := an.Unparen(e).(*ast.Ident)
						if !ok {
							return false
						}
						// (a helper's parameter stands for the variable its one call site binds it to)
						obj := boundObj(p, f, id)
						for _, o := range tvars {
							if obj == o {
								return true
							}
						}
						return false
					}
					fail := func(msg string) {
						bad[ta.Pos()] = msg
						badFacts[ta.Pos()] = an.Facts(st)
					}
					if len(tvars) == 0 {
						fail("no reflect.Type of " + tv.Type.String() + " is declared to test against")
						return true
					}
					// a function type: the value obtained is called (at once, or later through where it is stored), so it
					// must not be a nil function
					if _, isFunc := tv.Type.Underlying().(*types.Signature); isFunc {
						base := an.Unparen(v)
						if cc, ok := base.(*ast.CallExpr); ok && an.CalleeName(info, cc) == "(reflect.Value).Convert" {
							base = an.Unparen(an.Receiver(cc))
						}
						bk, ok := x.Key(base)
						if !ok || !(knownNonNil(x, bk, st) || kindNotFunc(x, bk, st)) {
							why := an.Str(base) + " is not known to be a non-nil function where it is taken as a " + tv.Type.String() + " (calling it dereferences nil)"
							// … unless every caller tested it (base is a parameter) …
							if ok && c12atCallers(c, f, base, 0, func(cx *an.Explorer, g *an.Fn, arg ast.Expr, cst *an.State) bool {
								ak, ok := cx.Key(arg)
								if !ok {
									return false
								}
								found := false
								an.InspectOwn(g, func(m ast.Node) bool {
									if pc, isCall := m.(*ast.CallExpr); isCall && !found && an.CalleeName(g.Info(), pc) == "(reflect.Value).IsNil" {
										if k, ok := cx.Key(an.Receiver(pc)); ok && k == ak {
											if t, known := cx.Truth(pc, cst); known && !t {
												found = true
											}
										}
									}
									return !found
								})
								return found
							}, "not tested by the callers") == "" {
								return true
							}
							// … or the function value itself is compared with nil before anything else is done with it
							switch where := n.(type) {
							case *ast.AssignStmt:
								for i, r := range where.Rhs {
									if an.Unparen(r) == ast.Expr(ta) && i < len(where.Lhs) {
										if lk, ok := x.Key(where.Lhs[i]); ok {
											st.Set("pendfn:"+lk, why)
											return true
										}
									}
								}
							}
							if arg, g, idx := c12argOf(p, info, n, ta); arg && g != nil && c12paramNilChecked(p, g, idx) {
								return true
							}
							fail(why)
							return true
						}
					}
					// v is W.Convert(tVar)
					if cc, ok := an.Unparen(v).(*ast.CallExpr); ok && an.CalleeName(info, cc) == "(reflect.Value).Convert" && len(cc.Args) == 1 && isTypeVar(cc.Args[0]) {
						return true
					}
					vk, ok := x.Key(v)
					if !ok {
						fail("the asserted value " + an.Str(v) + " cannot be followed")
						return true
					}
					_, isIface := tv.Type.Underlying().(*types.Interface)
					okHere := false
					for _, pc := range preds {
						switch e := pc.(type) {
						case *ast.CallExpr:
							if isIface && an.CalleeName(info, e) == "(reflect.Type).Implements" && len(e.Args) == 1 && isTypeVar(e.Args[0]) {
								if k, ok := x.Key(an.Receiver(e)); ok && typeKeys(x, vk, st)[k] {
									if t, known := x.Truth(e, st); known && t {
										okHere = true
									}
								}
							}
						case *ast.BinaryExpr:
							if isIface {
								continue
							}
							for _, pr := range [][2]ast.Expr{{e.X, e.Y}, {e.Y, e.X}} {
								if !isTypeVar(pr[1]) {
									continue
								}
								if k, ok := x.Key(pr[0]); ok && typeKeys(x, vk, st)[k] {
									if t, known := x.Truth(e, st); known && t == (e.Op == token.EQL) {
										okHere = true
									}
								}
							}
						}
					}
					if okHere && isIface {
						// … and the value is not a nil value *of* an interface type (a field declared as the interface and
						// never set): its type implements the interface, but Interface() yields a nil interface and the
						// assertion panics
						if !notNilInterface(x, vk, st) {
							fail(an.Str(v) + " may be a nil value of an interface type (v.Kind() == reflect.Interface && v.IsNil() not ruled out): its type implements " + tv.Type.String() + " but there is nothing to assert")
						}
						return true
					}
					if okHere {
						return true
					}
					// a parameter: the test is made by every caller
					if !isIface {
						if why := c12typeAtCallers(c, f, v, tvars, 0); why == "" {
							return true
						}
					}
					if isIface {
						fail(an.Str(v) + ".Type() is not known to implement " + tv.Type.String())
					} else {
						fail(an.Str(v) + " is neither converted to " + tv.Type.String() + " nor known to be of exactly that type (AssignableTo also holds for an unnamed type with the same underlying type)")
					}
					return true
				})
			},
		})
		x.Run(nil)
		c.States += x.Visited
		if x.Undecided != "" {
			c.Undecided("C12.call", f.Name+"/call", f.Pos(), "%s", x.Undecided)
			continue
		}
		sort.Slice(calls, func(i, j int) bool { return calls[i].Pos() < calls[j].Pos() })
		for i, s := range calls {
			nCalls++
			key := f.Name + "/Call"
			if i > 0 {
				key += "#" + itoa(i+1)
			}
			if msg, isBad := bad[s.Pos()]; isBad {
				c.Bad("C12.call", key, s.Pos(), badFacts[s.Pos()], "%s calls through reflection where %s: reflect.Value.Call panics with a string or a nil dereference, which Execute re-panics instead of returning an error", f.Name, msg)
			} else {
				c.OK("C12.call", key, s.Pos(), "the called value is known to be a non-nil function")
			}
		}
		var pendPos []token.Pos
		for pos := range pendBad {
			pendPos = append(pendPos, pos)
		}
		sort.Slice(pendPos, func(i, j int) bool { return pendPos[i] < pendPos[j] })
		for i, pos := range pendPos {
			key := f.Name + "/uses-unchecked-function"
			if i > 0 {
				key += "#" + itoa(i+1)
			}
			c.Bad("C12.iface", key, pos, badFacts[pos], "%s: %s", f.Name, bad[pos])
		}
		sort.Slice(asserts, func(i, j int) bool { return asserts[i].Pos() < asserts[j].Pos() })
		count := map[string]int{}
		for _, s := range asserts {
			nIface++
			key := f.Name + "/assert:" + an.Str(s.Type)
			count[key]++
			if count[key] > 1 {
				key += "#" + itoa(count[key])
			}
			if msg, isBad := bad[s.Pos()]; isBad {
				c.Bad("C12.iface", key, s.Pos(), badFacts[s.Pos()], "%s: %s — a failed assertion is an interface-conversion panic that Execute re-panics", f.Name, msg)
			} else {
				c.OK("C12.iface", key, s.Pos(), "the dynamic type is known to be (or to implement) the asserted type")
			}
		}
	}
	c.Expect("C12.call", "reflect.Value.Call sites in the evaluator", nCalls, 1)
	c.Expect("C12.iface", "unchecked assertions on reflect.Value.Interface()", nIface, 5)
}

// c12typeOfExpr: the Go type T for reflect.TypeOf(T(nil)) and reflect.TypeOf((*T)(nil)).Elem().
func c12typeOfExpr(info *types.Info, e ast.Expr) types.Type {
	call, ok := an.Unparen(e).(*ast.CallExpr)
	if !ok {
		return nil
	}
	elem := false
	if sel, ok := an.Unparen(call.Fun).(*ast.SelectorExpr); ok && sel.Sel.Name == "Elem" && len(call.Args) == 0 {
		inner, ok := an.Unparen(sel.X).(*ast.CallExpr)
		if !ok {
			return nil
		}
		call, elem = inner, true
	}
	if an.CalleeName(info, call) != "reflect.TypeOf" || len(call.Args) != 1 {
		return nil
	}
	tv, ok := info.Types[call.Args[0]]
	if !ok || tv.Type == nil {
		return nil
	}
	if tv.Value != nil && tv.Value.Kind() != constant.Unknown {
		return tv.Type // reflect.TypeOf("")
	}
	if elem {
		if ptr, ok := tv.Type.(*types.Pointer); ok {
			return ptr.Elem()
		}
		return nil
	}
	return tv.Type
}

// c12kindAtCallers: e is a parameter of f; at every call site the argument's Kind() is known to be Func
// (or the argument is again a parameter for which that holds).  Returns "" when established.
func c12kindAtCallers(c *an.Ctx, f *an.Fn, e ast.Expr, funcKind string, depth int) string {
	return c12atCallers(c, f, e, depth, func(x *an.Explorer, g *an.Fn, arg ast.Expr, st *an.State) bool {
		k, ok := x.Key(arg)
		return ok && st.Regs["eq:"+k+".Kind()"] == funcKind
	}, "the kind of the called value is not known to be Func")
}

// c12typeAtCallers: at every call site `arg.Type() == tVar` is known true.
func c12typeAtCallers(c *an.Ctx, f *an.Fn, e ast.Expr, tvars []types.Object, depth int) string {
	return c12atCallers(c, f, e, depth, func(x *an.Explorer, g *an.Fn, arg ast.Expr, st *an.State) bool {
		info := g.Info()
		ak, ok := x.Key(arg)
		if !ok {
			return false
		}
		found := false
		an.InspectOwn(g, func(n ast.Node) bool {
			b, ok := n.(*ast.BinaryExpr)
			if !ok || (b.Op != token.EQL && b.Op != token.NEQ) || found {
				return !found
			}
			for _, pr := range [][2]ast.Expr{{b.X, b.Y}, {b.Y, b.X}} {
				id, ok := an.Unparen(pr[1]).(*ast.Ident)
				if !ok {
					continue
				}
				isT := false
				for _, o := range tvars {
					if an.ObjOf(info, id) == o {
						isT = true
					}
				}
				if !isT {
					continue
				}
				if k, ok := x.Key(pr[0]); ok && k == ak+".Type()" {
					if t, known := x.Truth(b, st); known && t == (b.Op == token.EQL) {
						found = true
					}
				}
			}
			return !found
		})
		return found
	}, "the type is not tested by the callers")
}

func c12atCallers(c *an.Ctx, f *an.Fn, e ast.Expr, depth int, holds func(x *an.Explorer, g *an.Fn, arg ast.Expr, st *an.State) bool, why string) string {
	p := c.P
	if depth > 3 {
		return why
	}
	id, ok := an.Unparen(e).(*ast.Ident)
	if !ok {
		return why
	}
	owner := p.OwnerFn(id.Pos())
	if owner == nil {
		owner = f
	}
	idx, isParam := an.IsParam(owner, an.ObjOf(f.Info(), id))
	if !isParam || owner.Obj == nil {
		return why
	}
	// (a new helper is spliced into its callers: its calls are never seen as calls, and what is known about the
	// argument is known about the parameter in place — nothing to establish here)
	if p.IsNewHelper(owner.Root()) {
		return why
	}
	sites := p.AllCalls(an.FuncName(owner.Obj))
	if len(sites) == 0 {
		return why
	}
	for _, s := range sites {
		if idx >= len(s.Call.Args) {
			return why
		}
		arg := s.Call.Args[idx]
		okSite, reached := true, false
		site := s
		x := p.NewExplorer(s.Fn, an.Hooks{Call: func(x *an.Explorer, call *ast.CallExpr, st *an.State) {
			if call != site.Call {
				return
			}
			reached = true
			if !okSite {
				return
			}
			if holds(x, site.Fn, arg, st) {
				return
			}
			if c12atCallers(c, site.Fn, arg, depth+1, holds, why) != "" {
				okSite = false
			}
		}})
		x.Run(nil)
		c.States += x.Visited
		// (a site that is never reached in this caller — dead under the constants a helper was called with — asks nothing)
		_ = reached
		if !okSite || x.Undecided != "" {
			return why + " (call site in " + s.Fn.Name + ")"
		}
	}
	return ""
}

// c12argOf: ta is (the whole of) argument idx of a call to module function g inside CFG node n.
func c12argOf(p *an.Prog, info *types.Info, n ast.Node, ta *ast.TypeAssertExpr) (bool, *an.Fn, int) {
	var g *an.Fn
	idx, found := -1, false
	ast.Inspect(n, func(m ast.Node) bool {
		call, ok := m.(*ast.CallExpr)
		if !ok || found {
			return !found
		}
		for i, a := range call.Args {
			if an.Unparen(a) == ast.Expr(ta) {
				found, idx = true, i
				g = p.FnByObj[an.Callee(info, call)]
			}
		}
		return !found
	})
	return found, g, idx
}

// c12paramNilChecked: function g compares its parameter idx (a function value) with nil, with a branch that does
// not return, before it does anything else with it: on every path, the first use of the parameter outside a nil
// comparison lies where the parameter is known not to be nil.
func c12paramNilChecked(p *an.Prog, g *an.Fn, idx int) bool {
	if g.Body == nil || g.Sig == nil || idx >= g.Sig.Params().Len() {
		return false
	}
	param := g.Sig.Params().At(idx)
	if g.Sig.Variadic() && idx == g.Sig.Params().Len()-1 {
		return false
	}
	info := g.Info()
	inNilCmp := map[*ast.Ident]bool{}
	an.InspectOwn(g, func(n ast.Node) bool {
		if b, ok := n.(*ast.BinaryExpr); ok && (b.Op == token.EQL || b.Op == token.NEQ) {
			for _, pr := range [][2]ast.Expr{{b.X, b.Y}, {b.Y, b.X}} {
				if id, ok := an.Unparen(pr[0]).(*ast.Ident); ok && an.ObjOf(info, id) == types.Object(param) {
					if tv, ok := info.Types[pr[1]]; ok && tv.IsNil() {
						inNilCmp[id] = true
					}
				}
			}
		}
		return true
	})
	if len(inNilCmp) == 0 {
		return false
	}
	ok := true
	x := p.NewExplorer(g, an.Hooks{Use: func(x *an.Explorer, e ast.Expr, st *an.State) {
		id, isId := an.Unparen(e).(*ast.Ident)
		if !isId || an.ObjOf(info, id) != types.Object(param) || inNilCmp[id] {
			return
		}
		k, kok := x.Key(id)
		if !kok || !an.FactIs(st, an.PlainKey(k)+" == nil", false) {
			ok = false
		}
	}})
	x.Run(nil)
	return ok && x.Undecided == ""
}

// c12isNilIfaceTest: b is `R.Kind() == reflect.Interface && R.IsNil()` (either order) for a receiver accepted by isRecv.
func c12isNilIfaceTest(info *types.Info, b *ast.BinaryExpr, isRecv func(ast.Expr) bool, ifaceKind string) bool {
	kindOK, nilOK := false, false
	for _, side := range []ast.Expr{b.X, b.Y} {
		switch e := an.Unparen(side).(type) {
		case *ast.BinaryExpr:
			if e.Op != token.EQL {
				continue
			}
			for _, pr := range [][2]ast.Expr{{e.X, e.Y}, {e.Y, e.X}} {
				kc, ok := an.Unparen(pr[0]).(*ast.CallExpr)
				if !ok || an.CalleeName(info, kc) != "(reflect.Value).Kind" || !isRecv(an.Receiver(kc)) {
					continue
				}
				if tv, ok := info.Types[pr[1]]; ok && tv.Value != nil && tv.Value.ExactString() == ifaceKind {
					kindOK = true
				}
			}
		case *ast.CallExpr:
			if an.CalleeName(info, e) == "(reflect.Value).IsNil" && isRecv(an.Receiver(e)) {
				nilOK = true
			}
		}
	}
	return kindOK && nilOK
}

// boundObj: the object an identifier of f (or of a new helper spliced into f) stands for — a helper's parameter
// that is bound at exactly one call site to a plain identifier stands for that identifier's object.
func boundObj(p *an.Prog, f *an.Fn, id *ast.Ident) types.Object {
	info := f.Info()
	obj := an.ObjOf(info, id)
	for depth := 0; depth < 3; depth++ {
		v, ok := obj.(*types.Var)
		if !ok {
			break
		}
		binds := p.HelperBinds(f)[v]
		if len(binds) != 1 {
			break
		}
		bid, ok := an.Unparen(binds[0].Arg).(*ast.Ident)
		if !ok {
			break
		}
		obj = an.ObjOf(info, bid)
	}
	return obj
}

// nilIfacePreds: module predicates that are exactly `p.Kind() == reflect.Interface && p.IsNil()`
func nilIfacePreds(p *an.Prog, ifaceKind string) map[*types.Func]bool {
	nilIfacePred := map[*types.Func]bool{}
	if ifaceKind == "" {
		if rp := p.Jet.Imports["reflect"]; rp != nil {
			if k, ok := rp.Types.Scope().Lookup("Interface").(*types.Const); ok {
				ifaceKind = k.Val().ExactString()
			}
		}
	}
	for _, g := range p.Fns {
		if g.Pkg != p.Jet || g.Obj == nil || g.Body == nil || g.Sig == nil || g.Sig.Params().Len() != 1 || len(g.Body.List) != 1 {
			continue
		}
		ret, ok := g.Body.List[0].(*ast.ReturnStmt)
		if !ok || len(ret.Results) != 1 {
			continue
		}
		b, ok := an.Unparen(ret.Results[0]).(*ast.BinaryExpr)
		if !ok || b.Op != token.LAND {
			continue
		}
		param := g.Sig.Params().At(0)
		if c12isNilIfaceTest(g.Info(), b, func(r ast.Expr) bool {
			id, ok := an.Unparen(r).(*ast.Ident)
			return ok && an.ObjOf(g.Info(), id) == types.Object(param)
		}, ifaceKind) {
			nilIfacePred[g.Obj] = true
		}
	}
	return nilIfacePred
}
