package rules

import (
	"go/ast"
	"go/constant"
	"go/token"
	"go/types"
	"sort"

	"jetverif/an"
)

// c12div (C12.div): an integer `/` or `%` whose divisor is zero is a runtime.Error, which Runtime.recover
// re-panics out of Execute instead of returning an error with file and line.  So every integer division
// of the module whose divisor is not a non-zero constant lies on paths on which the divisor is known to
// be non-zero (a `d == 0` test whose true branch does not return, in whatever form the explorer follows).
func c12div(c *an.Ctx) {
	p := c.P
	nSites := 0
	for _, f := range p.Units() {
		if f.Pkg != p.Jet || f.Body == nil {
			continue
		}
		info := f.Info()
		// divisor of an integer division with a divisor that is not a constant
		divisor := func(n ast.Node) ast.Expr {
			var x, y ast.Expr
			switch b := n.(type) {
			case *ast.BinaryExpr:
				if b.Op != token.QUO && b.Op != token.REM {
					return nil
				}
				x, y = b.X, b.Y
			case *ast.AssignStmt:
				if (b.Tok != token.QUO_ASSIGN && b.Tok != token.REM_ASSIGN) || len(b.Lhs) != 1 || len(b.Rhs) != 1 {
					return nil
				}
				x, y = b.Lhs[0], b.Rhs[0]
			default:
				return nil
			}
			tv, ok := info.Types[x]
			if !ok || tv.Type == nil {
				return nil
			}
			bt, ok := tv.Type.Underlying().(*types.Basic)
			if !ok || bt.Info()&types.IsInteger == 0 {
				return nil
			}
			if dv, ok := info.Types[y]; ok && dv.Value != nil {
				if dv.Value.Kind() == constant.Int && constant.Sign(dv.Value) != 0 {
					return nil
				}
			}
			return y
		}
		has := false
		an.InspectOwn(f, func(n ast.Node) bool {
			if divisor(n) != nil {
				has = true
			}
			return !has
		})
		if !has {
			continue
		}
		c.FnsAnalysed[f.Name] = true
		bad := map[token.Pos]string{}
		badFacts := map[token.Pos][]string{}
		seen := map[token.Pos]bool{}
		zero := &ast.BasicLit{Kind: token.INT, Value: "0"}
		x := p.NewExplorer(f, an.Hooks{Stmt: func(x *an.Explorer, n ast.Node, st *an.State) {
			ast.Inspect(n, func(m ast.Node) bool {
				if _, isLit := m.(*ast.FuncLit); isLit {
					return false
				}
				if m != n {
					switch m.(type) {
					case *ast.BlockStmt, *ast.IfStmt, *ast.ForStmt, *ast.RangeStmt, *ast.SwitchStmt, *ast.TypeSwitchStmt, *ast.CaseClause:
						return false
					}
				}
				d := divisor(m)
				if d == nil {
					return true
				}
				seen[m.Pos()] = true
				if v, known := x.Truth(&ast.BinaryExpr{X: d, Op: token.EQL, Y: zero}, st); known && !v {
					return true
				}
				if v, known := x.Truth(&ast.BinaryExpr{X: d, Op: token.NEQ, Y: zero}, st); known && v {
					return true
				}
				// 0 < d, d > 0 (a length or count tested before)
				if v, known := x.Truth(&ast.BinaryExpr{X: d, Op: token.GTR, Y: zero}, st); known && v {
					return true
				}
				if _, dup := bad[m.Pos()]; !dup {
					bad[m.Pos()] = an.Str(d)
					badFacts[m.Pos()] = an.Facts(st)
				}
				return true
			})
		}})
		x.Run(nil)
		c.States += x.Visited
		if x.Undecided != "" {
			c.Undecided("C12.div", f.Name+"/divisor", f.Pos(), "%s", x.Undecided)
			continue
		}
		var poss []token.Pos
		for pos := range seen {
			poss = append(poss, pos)
		}
		sort.Slice(poss, func(i, j int) bool { return poss[i] < poss[j] })
		for i, pos := range poss {
			nSites++
			key := f.Name + "/divisor"
			if i > 0 {
				key += "#" + itoa(i+1)
			}
			if name, isBad := bad[pos]; isBad {
				c.Bad("C12.div", key, pos, badFacts[pos], "%s divides integers by %s on a path where it may be zero: Execute panics with a runtime error (integer divide by zero) instead of returning an error", f.Name, name)
			} else {
				c.OK("C12.div", key, pos, "the divisor is known to be non-zero where the integers are divided")
			}
		}
	}
	c.Expect("C12.div", "integer divisions by a non-constant divisor", nSites, 5)
}
