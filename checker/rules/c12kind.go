package rules

import (
	"go/ast"
	"go/token"
	"go/types"
	"sort"
	"strings"

	"jetverif/an"
)

// c12kind (C12.kind): reflect.Value.Int, Uint, Float and Bool panic (with a *reflect.ValueError, which reaches
// the caller of Execute as an error without file and line — or, inside isset, silently turns the answer into
// "false") when the value is of another kind.  Every such call of the evaluator lies where the kind of its
// receiver is known to be in the accessor's class: by a case of a switch on Kind(), an == test, or one of
// the module's own kind predicates (isInt, isUint, isFloat — themselves checked to accept exactly the kinds
// of their class).
func c12kind(c *an.Ctx) {
	p := c.P
	eval := p.Eval()
	rp := p.Jet.Imports["reflect"]
	if rp == nil {
		c.Undecided("C12.kind", "reflect", token.NoPos, "package reflect not imported")
		return
	}
	kindVal := func(name string) string {
		if k, ok := rp.Types.Scope().Lookup(name).(*types.Const); ok {
			return k.Val().ExactString()
		}
		return "?" + name
	}
	classes := map[string][]string{
		"Int":   {"Int", "Int8", "Int16", "Int32", "Int64"},
		"Uint":  {"Uint", "Uint8", "Uint16", "Uint32", "Uint64", "Uintptr"},
		"Float": {"Float32", "Float64"},
		"Bool":  {"Bool"},
	}
	inClass := map[string]map[string]bool{}
	for cl, names := range classes {
		inClass[cl] = map[string]bool{}
		for _, n := range names {
			inClass[cl][kindVal(n)] = true
		}
	}
	// the module's kind predicates: func(reflect.Kind) bool whose body is one return of a disjunction/range test;
	// classify by evaluating it for every kind
	allKinds := []string{"Invalid", "Bool", "Int", "Int8", "Int16", "Int32", "Int64", "Uint", "Uint8", "Uint16", "Uint32", "Uint64", "Uintptr", "Float32", "Float64",
		"Complex64", "Complex128", "Array", "Chan", "Func", "Interface", "Map", "Ptr", "Slice", "String", "Struct", "UnsafePointer"}
	predClass := map[string]string{} // predicate function name -> class it implies
	for _, g := range p.Fns {
		if g.Pkg != p.Jet || g.Obj == nil || g.Body == nil || g.Sig == nil || g.Sig.Params().Len() != 1 || g.Sig.Results().Len() != 1 {
			continue
		}
		if an.TypeName(g.Sig.Params().At(0).Type()) != "reflect.Kind" {
			continue
		}
		if bt, ok := g.Sig.Results().At(0).Type().Underlying().(*types.Basic); !ok || bt.Kind() != types.Bool {
			continue
		}
		if len(g.Body.List) != 1 {
			continue
		}
		ret, ok := g.Body.List[0].(*ast.ReturnStmt)
		if !ok || len(ret.Results) != 1 {
			continue
		}
		var paramId *ast.Ident
		ast.Inspect(ret.Results[0], func(n ast.Node) bool {
			if id, ok := n.(*ast.Ident); ok && paramId == nil && an.ObjOf(g.Info(), id) == types.Object(g.Sig.Params().At(0)) {
				paramId = id
			}
			return paramId == nil
		})
		if paramId == nil {
			continue
		}
		x := p.NewExplorer(g, an.Hooks{})
		accepted := map[string]bool{}
		decided := true
		for _, kn := range allKinds {
			st := an.NewState()
			if !x.SetEq(paramId, kindVal(kn), st) {
				decided = false
				break
			}
			v, known := x.Truth(ret.Results[0], st)
			if !known {
				decided = false
				break
			}
			if v {
				accepted[kindVal(kn)] = true
			}
		}
		if !decided || len(accepted) == 0 {
			continue
		}
		for cl, set := range inClass {
			sub := true
			for k := range accepted {
				if !set[k] {
					sub = false
				}
			}
			if sub {
				predClass[an.FuncName(g.Obj)] = cl
			}
		}
	}
	nSites := 0
	for _, f := range p.Units() {
		if f.Pkg != p.Jet || f.Body == nil || !eval[f.Root()] && !eval[f] {
			continue
		}
		info := f.Info()
		var sites []*ast.CallExpr
		var kindCalls []*ast.CallExpr
		var predCalls []*ast.CallExpr
		an.InspectOwn(f, func(n ast.Node) bool {
			call, ok := n.(*ast.CallExpr)
			if !ok {
				return true
			}
			name := an.CalleeName(info, call)
			switch name {
			case "(reflect.Value).Int", "(reflect.Value).Uint", "(reflect.Value).Float", "(reflect.Value).Bool":
				sites = append(sites, call)
			case "(reflect.Value).Kind":
				kindCalls = append(kindCalls, call)
			default:
				if callee := an.Callee(info, call); callee != nil && predClass[an.FuncName(callee)] != "" && len(call.Args) == 1 {
					predCalls = append(predCalls, call)
				}
			}
			return true
		})
		if len(sites) == 0 {
			continue
		}
		c.FnsAnalysed[f.Name] = true
		isSite := map[*ast.CallExpr]bool{}
		for _, s := range sites {
			isSite[s] = true
		}
		bad := map[token.Pos]string{}
		badFacts := map[token.Pos][]string{}
		// kindKeys: the keys under which facts about v.Kind() are recorded — "<v>.Kind()" itself or a local holding it
		kindKeys := func(vk string, st *an.State) map[string]bool {
			out := map[string]bool{an.PlainKey(vk + ".Kind()"): true}
			for rk, rv := range st.Regs {
				if strings.HasPrefix(rk, "kindof:") && rv == vk {
					out[an.PlainKey(strings.TrimPrefix(rk, "kindof:"))] = true
				}
			}
			return out
		}
		x := p.NewExplorer(f, an.Hooks{Assign: func(x *an.Explorer, lhs, rhs ast.Expr, stmt ast.Node, st *an.State) {
			id, ok := an.Unparen(lhs).(*ast.Ident)
			if !ok {
				return
			}
			lk, ok := x.Key(id)
			if !ok {
				return
			}
			for rk, rv := range st.Regs {
				if strings.HasPrefix(rk, "kindof:") && (rv == lk || strings.HasPrefix(rv, lk+".") || rk == "kindof:"+lk) {
					st.Set(rk, "")
				}
			}
			if rhs != nil {
				if kc, ok := an.Unparen(rhs).(*ast.CallExpr); ok && an.CalleeName(info, kc) == "(reflect.Value).Kind" {
					if vk, ok := x.Key(an.Receiver(kc)); ok {
						st.Set("kindof:"+lk, vk)
					}
				}
			}
		}, Call: func(x *an.Explorer, call *ast.CallExpr, st *an.State) {
			if !isSite[call] {
				return
			}
			if _, dup := bad[call.Pos()]; dup {
				return
			}
			cl := strings.TrimPrefix(an.CalleeName(info, call), "(reflect.Value).")
			v := an.Receiver(call)
			vk, ok := x.Key(v)
			if !ok {
				bad[call.Pos()] = "the value " + an.Str(v) + " cannot be followed"
				return
			}
			kks := kindKeys(vk, st)
			// a kind predicate of the class known true for this value's kind
			for _, pc := range predCalls {
				callee := an.Callee(info, pc)
				if predClass[an.FuncName(callee)] != cl {
					continue
				}
				if ak, ok := x.Key(pc.Args[0]); ok && kks[an.PlainKey(ak)] {
					if t, known := x.Truth(pc, st); known && t {
						return
					}
				}
			}
			for rk, cur := range st.Regs {
				if strings.HasPrefix(rk, "eq:") && kks[an.PlainKey(strings.TrimPrefix(rk, "eq:"))] && cur != "" {
					if inClass[cl][cur] {
						return
					}
					bad[call.Pos()] = an.Str(v) + " is known to be of another kind where ." + cl + "() is called"
					badFacts[call.Pos()] = an.Facts(st)
					return
				}
			}
			// a positive == fact for one kind of the class
			for fk, fv := range st.Facts {
				if !fv {
					continue
				}
				pk := an.PlainKey(fk)
				for _, kn := range classes[cl] {
					for kk := range kks {
						if pk == "reflect."+kn+" == "+kk || pk == kk+" == reflect."+kn {
							return
						}
					}
				}
			}
			bad[call.Pos()] = "the kind of " + an.Str(v) + " is not known to be one ." + cl + "() accepts"
			badFacts[call.Pos()] = an.Facts(st)
		}})
		x.Run(nil)
		c.States += x.Visited
		if x.Undecided != "" {
			c.Undecided("C12.kind", f.Name+"/accessor", f.Pos(), "%s", x.Undecided)
			continue
		}
		sort.Slice(sites, func(i, j int) bool { return sites[i].Pos() < sites[j].Pos() })
		count := map[string]int{}
		for _, s := range sites {
			nSites++
			key := f.Name + "/" + strings.TrimPrefix(an.CalleeName(info, s), "(reflect.Value).")
			count[key]++
			if count[key] > 1 {
				key += "#" + itoa(count[key])
			}
			if msg, isBad := bad[s.Pos()]; isBad {
				c.Bad("C12.kind", key, s.Pos(), badFacts[s.Pos()], "%s: %s — reflect panics with a *reflect.ValueError: an error without file and line, or (inside isset) a silent false", f.Name, msg)
			} else {
				c.OK("C12.kind", key, s.Pos(), "the kind of the receiver is known to be in the accessor's class")
			}
		}
		_ = kindCalls
	}
	var preds []string
	for k, v := range predClass {
		preds = append(preds, k+"→"+v)
	}
	sort.Strings(preds)
	c.Note("kind predicates: %v", preds)
	c.Expect("C12.kind", "kind predicates of the module", len(predClass), 3)
	c.Expect("C12.kind", "Int/Uint/Float/Bool accessor calls in the evaluator", nSites, 40)
}
