package rules

import (
	"go/ast"
	"go/token"
	"go/types"
	"sort"

	"jetverif/an"
)

// c12piped (C12.piped): the piped value of a call travels as a *reflect.Value that is nil when the call
// is not a pipeline stage.  A '_' placeholder outside a pipeline must be reported as an error, so every
// dereference of such a pointer (a parameter, or the Arguments.pipedVal field) lies on a path on which
// the pointer is known to be non-nil.  A nil dereference is a runtime.Error, which Runtime.recover
// re-panics out of Execute.
func c12piped(c *an.Ctx) {
	p := c.P
	nSites := 0
	for _, f := range p.Units() {
		if f.Pkg != p.Jet || f.Body == nil {
			continue
		}
		info := f.Info()
		isPiped := func(e ast.Expr) bool {
			tv, ok := info.Types[e]
			if !ok || tv.Type == nil || an.TypeName(tv.Type) != "*reflect.Value" {
				return false
			}
			switch x := an.Unparen(e).(type) {
			case *ast.Ident:
				// a parameter (of the function or of a helper it was split into), not a pointer the caller
				// of the public API handed in (ParseInto) or a local
				v, ok := an.ObjOf(info, x).(*types.Var)
				if !ok || v.IsField() {
					return false
				}
				if owner := p.OwnerFn(v.Pos()); owner != nil {
					_, isParam := an.IsParam(owner, v)
					return isParam
				}
				return false
			case *ast.SelectorExpr:
				return p.FieldKey(info, x) == "Arguments.pipedVal"
			}
			return false
		}
		has := false
		an.InspectOwn(f, func(n ast.Node) bool {
			if st, ok := n.(*ast.StarExpr); ok && isPiped(st.X) {
				has = true
			}
			return !has
		})
		if !has {
			continue
		}
		c.FnsAnalysed[f.Name] = true
		bad := map[token.Pos]string{}
		badFacts := map[token.Pos][]string{}
		seen := map[token.Pos]bool{}
		// short-circuit guards inside one expression: p != nil && f(*p),  p == nil || f(*p)
		shortCircuit := map[*ast.StarExpr]bool{}
		var guardWalk func(e ast.Expr, nonNil map[string]bool)
		guardWalk = func(e ast.Expr, nonNil map[string]bool) {
			switch x := e.(type) {
			case nil:
				return
			case *ast.BinaryExpr:
				if x.Op == token.LAND || x.Op == token.LOR {
					guardWalk(x.X, nonNil)
					inner := map[string]bool{}
					for k := range nonNil {
						inner[k] = true
					}
					var conj func(c ast.Expr)
					conj = func(c ast.Expr) {
						c = an.Unparen(c)
						if b, ok := c.(*ast.BinaryExpr); ok {
							if b.Op == x.Op {
								conj(b.X)
								conj(b.Y)
								return
							}
							wantOp := token.NEQ // p != nil && …
							if x.Op == token.LOR {
								wantOp = token.EQL // p == nil || …
							}
							if b.Op == wantOp {
								if tv, ok := info.Types[b.Y]; ok && tv.IsNil() {
									inner[an.Str(b.X)] = true
								} else if tv, ok := info.Types[b.X]; ok && tv.IsNil() {
									inner[an.Str(b.Y)] = true
								}
							}
						}
					}
					conj(x.X)
					guardWalk(x.Y, inner)
					return
				}
				guardWalk(x.X, nonNil)
				guardWalk(x.Y, nonNil)
			case *ast.StarExpr:
				if nonNil[an.Str(x.X)] {
					shortCircuit[x] = true
				}
				guardWalk(x.X, nonNil)
			case *ast.ParenExpr:
				guardWalk(x.X, nonNil)
			case *ast.UnaryExpr:
				guardWalk(x.X, nonNil)
			case *ast.CallExpr:
				guardWalk(x.Fun, nonNil)
				for _, a := range x.Args {
					guardWalk(a, nonNil)
				}
			case *ast.SelectorExpr:
				guardWalk(x.X, nonNil)
			case *ast.IndexExpr:
				guardWalk(x.X, nonNil)
				guardWalk(x.Index, nonNil)
			}
		}
		an.InspectOwn(f, func(n ast.Node) bool {
			if b, ok := n.(*ast.BinaryExpr); ok && (b.Op == token.LAND || b.Op == token.LOR) {
				guardWalk(b, map[string]bool{})
				return false
			}
			return true
		})
		// some `nil` of the function, to build `p == nil` probes the explorer can evaluate
		var nilIdent *ast.Ident
		an.InspectOwn(f, func(n ast.Node) bool {
			if id, ok := n.(*ast.Ident); ok && nilIdent == nil {
				if _, isNil := info.Uses[id].(*types.Nil); isNil {
					nilIdent = id
				}
			}
			return nilIdent == nil
		})
		x := p.NewExplorer(f, an.Hooks{Stmt: func(x *an.Explorer, n ast.Node, st *an.State) {
			ast.Inspect(n, func(m ast.Node) bool {
				if _, isLit := m.(*ast.FuncLit); isLit {
					return false
				}
				// statements nested in a compound statement are CFG nodes of their own
				if m != n {
					switch m.(type) {
					case *ast.BlockStmt, *ast.IfStmt, *ast.ForStmt, *ast.RangeStmt, *ast.SwitchStmt, *ast.TypeSwitchStmt, *ast.CaseClause:
						return false
					}
				}
				se, ok := m.(*ast.StarExpr)
				if !ok || !isPiped(se.X) {
					return true
				}
				seen[se.Pos()] = true
				name := an.Str(se.X)
				if shortCircuit[se] {
					return true
				}
				if an.FactIs(st, name+" == nil", false) || an.FactIs(st, name+" != nil", true) {
					return true
				}
				if nilIdent != nil {
					probe := &ast.BinaryExpr{X: se.X, Op: token.EQL, Y: nilIdent}
					if v, known := x.Truth(probe, st); known && !v {
						return true
					}
				}
				// the pointer was just taken from an addressable value: p := &v
				if id, ok := an.Unparen(se.X).(*ast.Ident); ok {
					nonNil := true
					defs := an.LocalDefs(f, an.ObjOf(info, id))
					for _, d := range defs {
						u, isAddr := an.Unparen(d).(*ast.UnaryExpr)
						if d == nil || !isAddr || u.Op != token.AND {
							nonNil = false
						}
					}
					if _, isParam := an.IsParam(f, an.ObjOf(info, id)); !isParam && nonNil && len(defs) > 0 {
						return true
					}
				}
				if _, dup := bad[se.Pos()]; !dup {
					bad[se.Pos()] = name
					badFacts[se.Pos()] = an.Facts(st)
				}
				return true
			})
		}})
		x.Run(nil)
		c.States += x.Visited
		if x.Undecided != "" {
			c.Undecided("C12.piped", f.Name+"/deref", f.Pos(), "%s", x.Undecided)
			continue
		}
		var poss []token.Pos
		for pos := range seen {
			poss = append(poss, pos)
		}
		sort.Slice(poss, func(i, j int) bool { return poss[i] < poss[j] })
		for i, pos := range poss {
			nSites++
			key := f.Name + "/deref"
			if i > 0 {
				key += "#" + itoa(i+1)
			}
			if name, isBad := bad[pos]; isBad {
				c.Bad("C12.piped", key, pos, badFacts[pos], "%s dereferences %s on a path where it may be nil (a call outside a pipeline has no piped value): a '_' placeholder without a piped value makes Execute panic with a nil pointer dereference instead of returning an error", f.Name, name)
			} else {
				c.OK("C12.piped", key, pos, "the piped-value pointer is known to be non-nil where it is dereferenced")
			}
		}
	}
	c.Expect("C12.piped", "dereferences of a piped-value pointer", nSites, 6)
}

func itoa(i int) string {
	s := ""
	if i == 0 {
		return "0"
	}
	for i > 0 {
		s = string(rune('0'+i%10)) + s
		i /= 10
	}
	return s
}
