package rules

import (
	"go/ast"
	"go/token"
	"go/types"
	"sort"
	"strings"

	"jetverif/an"
)

// c12set (C12.set): reflect.Value.Set and SetMapIndex panic with a string (or, for a nil map, with a
// runtime error) when the destination cannot take the value; Execute re-panics both.  So in the
// evaluator every such call lies on paths on which the destination was found able to take it:
//
//	dst.Set(v):             dst.CanSet(), v.IsValid() and v.Type().AssignableTo(dst.Type()) are known true
//	dst.SetMapIndex(k, v):  dst.IsNil() is known false; k is assignable to dst.Type().Key() (tested, or
//	                        converted to it); v is invalid (delete) or assignable to dst.Type().Elem()
//
// A map made on the spot with interface{} elements and a key converted to its key type needs no test.
func c12set(c *an.Ctx) {
	p := c.P
	eval := p.Eval()
	nSites := 0
	stringTypeVars := map[types.Object]bool{}
	for _, file := range p.Jet.Syntax {
		for _, d := range file.Decls {
			gd, ok := d.(*ast.GenDecl)
			if !ok || gd.Tok != token.VAR {
				continue
			}
			for _, sp := range gd.Specs {
				vs := sp.(*ast.ValueSpec)
				for i, name := range vs.Names {
					if i < len(vs.Values) {
						if t := c12typeOfExpr(p.Jet.TypesInfo, vs.Values[i]); t != nil {
							if bt, ok := t.(*types.Basic); ok && bt.Kind() == types.String {
								stringTypeVars[p.Jet.TypesInfo.Defs[name]] = true
							}
						}
					}
				}
			}
		}
	}
	for _, f := range p.Units() {
		if f.Pkg != p.Jet || f.Body == nil || !eval[f.Root()] && !eval[f] {
			continue
		}
		info := f.Info()
		var calls []*ast.CallExpr
		var preds []*ast.CallExpr // CanSet / IsValid / AssignableTo / IsNil calls of the function
		an.InspectOwn(f, func(n ast.Node) bool {
			call, ok := n.(*ast.CallExpr)
			if !ok {
				return true
			}
			switch an.CalleeName(info, call) {
			case "(reflect.Value).Set", "(reflect.Value).SetMapIndex":
				calls = append(calls, call)
			case "(reflect.Value).CanSet", "(reflect.Value).IsValid", "(reflect.Value).IsNil", "(reflect.Type).AssignableTo":
				preds = append(preds, call)
			}
			return true
		})
		if len(calls) == 0 {
			continue
		}
		c.FnsAnalysed[f.Name] = true
		isSite := map[*ast.CallExpr]bool{}
		for _, s := range calls {
			isSite[s] = true
		}
		bad := map[token.Pos]string{}
		badFacts := map[token.Pos][]string{}
		convArg := map[string]ast.Expr{}
		recv := func(call *ast.CallExpr) ast.Expr { return an.Unparen(call.Fun).(*ast.SelectorExpr).X }
		x := p.NewExplorer(f, an.Hooks{Assign: func(x *an.Explorer, lhs, rhs ast.Expr, stmt ast.Node, st *an.State) {
			// which conversion produced the current value of a local: k = X.Convert(T)  →  convto:k = T
			id, ok := an.Unparen(lhs).(*ast.Ident)
			if !ok {
				return
			}
			lk, ok := x.Key(id)
			if !ok {
				return
			}
			st.Set("convto:"+lk, "")
			for rk := range st.Regs {
				if strings.HasPrefix(rk, "asgn:") {
					parts := strings.Split(strings.TrimPrefix(rk, "asgn:"), "|")
					if len(parts) == 3 && (parts[0] == lk || parts[1] == lk || strings.HasPrefix(parts[0], lk+".") || strings.HasPrefix(parts[1], lk+".")) {
						st.Set(rk, "")
					}
				}
			}
			if rhs != nil {
				if cc, ok := an.Unparen(rhs).(*ast.CallExpr); ok && an.CalleeName(info, cc) == "(reflect.Value).Convert" && len(cc.Args) == 1 {
					st.Set("convto:"+lk, an.Str(cc.Args[0]))
					convArg[an.Str(cc.Args[0])] = cc.Args[0]
				}
			}
		}, Branch: func(x *an.Explorer, cond ast.Expr, val bool, st *an.State) {
			// V.Type().AssignableTo(<D.Type()[.Key()|.Elem()]>) found true: remembered in a register (the type may be
			// held by a local of an if statement's init, whose facts die with its scope)
			for _, pc := range preds {
				if an.CalleeName(info, pc) != "(reflect.Type).AssignableTo" || len(pc.Args) != 1 {
					continue
				}
				if t, k := x.Truth(pc, st); !k || !t {
					continue
				}
				vt, ok := an.Unparen(recv(pc)).(*ast.CallExpr)
				if !ok || an.CalleeName(info, vt) != "(reflect.Value).Type" {
					continue
				}
				arg := an.Unparen(pc.Args[0])
				if id, ok := arg.(*ast.Ident); ok {
					if defs := an.LocalDefs(f, an.ObjOf(info, id)); len(defs) == 1 && defs[0] != nil {
						arg = an.Unparen(defs[0])
					}
				}
				part := ""
				tc, ok := arg.(*ast.CallExpr)
				if !ok {
					continue
				}
				if an.CalleeName(info, tc) != "(reflect.Value).Type" {
					sel, ok := an.Unparen(tc.Fun).(*ast.SelectorExpr)
					if !ok || len(tc.Args) != 0 {
						continue
					}
					inner, ok := an.Unparen(sel.X).(*ast.CallExpr)
					if !ok || an.CalleeName(info, inner) != "(reflect.Value).Type" {
						continue
					}
					part, tc = sel.Sel.Name, inner
				}
				vk, ok1 := x.Key(recv(vt))
				dk, ok2 := x.Key(recv(tc))
				if ok1 && ok2 {
					st.Set("asgn:"+vk+"|"+dk+"|"+part, "1")
				}
			}
		}, Call: func(x *an.Explorer, call *ast.CallExpr, st *an.State) {
			if !isSite[call] {
				return
			}
			if _, dup := bad[call.Pos()]; dup {
				return
			}
			same := func(a, b ast.Expr) bool {
				ka, ok1 := x.Key(a)
				kb, ok2 := x.Key(b)
				return ok1 && ok2 && ka == kb
			}
			// known(name, recvExpr, want): some call <recvExpr>.<name>() of the function is known to be want here
			known := func(name string, r ast.Expr, want bool) bool {
				for _, pc := range preds {
					if an.CalleeName(info, pc) == "(reflect.Value)."+name && same(recv(pc), r) {
						if v, k := x.Truth(pc, st); k && v == want {
							return true
						}
					}
				}
				return false
			}
			// typeOf(e, v): e is v.Type()
			typeOf := func(e ast.Expr, v ast.Expr) bool {
				tc, ok := an.Unparen(e).(*ast.CallExpr)
				return ok && an.CalleeName(info, tc) == "(reflect.Value).Type" && same(recv(tc), v)
			}
			// sub(e, dst, part): e is dst.Type().<part>()  (part = "" for dst.Type() itself)
			sub := func(e ast.Expr, dst ast.Expr, part string) bool {
				e = an.Unparen(e)
				if id, ok := e.(*ast.Ident); ok {
					if defs := an.LocalDefs(f, an.ObjOf(info, id)); len(defs) == 1 && defs[0] != nil {
						e = an.Unparen(defs[0])
					}
				}
				if part == "" {
					return typeOf(e, dst)
				}
				tc, ok := e.(*ast.CallExpr)
				if !ok || len(tc.Args) != 0 {
					return false
				}
				sel, ok := an.Unparen(tc.Fun).(*ast.SelectorExpr)
				return ok && sel.Sel.Name == part && typeOf(sel.X, dst)
			}
			assignable := func(v, dst ast.Expr, part string) bool {
				if vk, ok := x.Key(v); ok {
					if dk, ok := x.Key(dst); ok && st.Get("asgn:"+vk+"|"+dk+"|"+part) != "" {
						return true
					}
				}
				for _, pc := range preds {
					if an.CalleeName(info, pc) != "(reflect.Type).AssignableTo" || len(pc.Args) != 1 {
						continue
					}
					if typeOf(recv(pc), v) && sub(pc.Args[0], dst, part) {
						if t, k := x.Truth(pc, st); k && t {
							return true
						}
					}
				}
				return false
			}
			// convertedTo(k, dst, part): k's current value is X.Convert(dst.Type().<part>())
			convertedTo := func(k, dst ast.Expr, part string) bool {
				kk, ok := x.Key(k)
				if !ok {
					return false
				}
				t := st.Get("convto:" + kk)
				return t != "" && convArg[t] != nil && sub(convArg[t], dst, part)
			}
			// convertedToString(k): k's current value is X.Convert(<the reflect.Type of string>)
			convertedToString := func(k ast.Expr) bool {
				kk, ok := x.Key(k)
				if !ok {
					return false
				}
				t := st.Get("convto:" + kk)
				if t == "" || convArg[t] == nil {
					return false
				}
				tid, ok := an.Unparen(convArg[t]).(*ast.Ident)
				if !ok {
					return false
				}
				return stringTypeVars[an.ObjOf(info, tid)]
			}
			fail := func(msg string) {
				bad[call.Pos()] = msg
				badFacts[call.Pos()] = an.Facts(st)
			}
			dst := recv(call)
			switch an.CalleeName(info, call) {
			case "(reflect.Value).Set":
				v := call.Args[0]
				switch {
				case !known("CanSet", dst, true):
					fail(an.Str(dst) + ".CanSet() is not known to be true")
				case !known("IsValid", v, true):
					fail(an.Str(v) + " is not known to be a valid value")
				case !assignable(v, dst, ""):
					fail(an.Str(v) + ".Type() is not known to be assignable to " + an.Str(dst) + ".Type()")
				}
			case "(reflect.Value).SetMapIndex":
				k, v := call.Args[0], call.Args[1]
				if c12freshOpenMap(f, dst) {
					// any value fits an interface{} element; the key must have been made a plain string
					if !convertedToString(k) {
						fail("the key " + an.Str(k) + " of a map[string]interface{} is not known to have been converted to string (a key of a named string type is not assignable)")
					}
					return
				}
				switch {
				case !known("IsNil", dst, false):
					fail("the map " + an.Str(dst) + " is not known to be non-nil")
				case !assignable(k, dst, "Key") && !convertedTo(k, dst, "Key"):
					fail("the key " + an.Str(k) + " is not known to be assignable to the map's key type")
				case !known("IsValid", v, false) && !assignable(v, dst, "Elem"):
					fail("the value " + an.Str(v) + " is not known to be assignable to the map's element type")
				}
			}
		}})
		x.Run(nil)
		c.States += x.Visited
		if x.Undecided != "" {
			c.Undecided("C12.set", f.Name+"/set", f.Pos(), "%s", x.Undecided)
			continue
		}
		sort.Slice(calls, func(i, j int) bool { return calls[i].Pos() < calls[j].Pos() })
		for i, s := range calls {
			nSites++
			key := f.Name + "/" + an.Unparen(s.Fun).(*ast.SelectorExpr).Sel.Name
			if i > 0 {
				key += "#" + itoa(i+1)
			}
			if msg, isBad := bad[s.Pos()]; isBad {
				c.Bad("C12.set", key, s.Pos(), badFacts[s.Pos()], "%s stores through reflection where %s: reflect panics with a string (or a runtime error) that Execute re-panics instead of returning an error", f.Name, msg)
			} else {
				c.OK("C12.set", key, s.Pos(), "the destination was found able to take the value on every path")
			}
		}
	}
	c.Expect("C12.set", "reflect.Value.Set / SetMapIndex calls in the evaluator", nSites, 3)
}

// c12freshOpenMap: dst is a local holding reflect.ValueOf(make(map[string]interface{} …)) — any value fits (the key
// is checked by the caller: it must have been converted to string).
func c12freshOpenMap(f *an.Fn, dst ast.Expr) bool {
	info := f.Info()
	id, ok := an.Unparen(dst).(*ast.Ident)
	if !ok {
		return false
	}
	defs := an.LocalDefs(f, an.ObjOf(info, id))
	if len(defs) != 1 || defs[0] == nil {
		return false
	}
	vo, ok := an.Unparen(defs[0]).(*ast.CallExpr)
	if !ok || an.CalleeName(info, vo) != "reflect.ValueOf" || len(vo.Args) != 1 {
		return false
	}
	mk, ok := an.Unparen(vo.Args[0]).(*ast.CallExpr)
	if !ok || an.CalleeName(info, mk) != "builtin.make" {
		return false
	}
	tv, ok := info.Types[mk]
	return ok && tv.Type != nil && tv.Type.String() == "map[string]interface{}"
}
