package rules

import (
	"go/ast"
	"go/token"
	"sort"

	"jetverif/an"
)

// c12set (C12.set): reflect.Value.Set and SetMapIndex panic with a string (or, for a nil map, with a
// runtime error) when the destination cannot take the value; Execute re-panics both.  So in the
// evaluator every such call lies on paths on which the destination was found able to take it:
//
//	dst.Set(v):             dst.CanSet(), v.IsValid() and v.Type().AssignableTo(dst.Type()) are known true
//	dst.SetMapIndex(k, v):  dst.IsNil() is known false; k is assignable to dst.Type().Key() (tested, or
//	                        converted to it); v is invalid (delete) or assignable to dst.Type().Elem()
//
// A map made on the spot with interface{} elements and a key converted to its key type needs no test.
func c12set(c *an.Ctx) {
	p := c.P
	eval := p.Eval()
	nSites := 0
	for _, f := range p.Units() {
		if f.Pkg != p.Jet || f.Body == nil || !eval[f.Root()] && !eval[f] {
			continue
		}
		info := f.Info()
		var calls []*ast.CallExpr
		var preds []*ast.CallExpr // CanSet / IsValid / AssignableTo / IsNil calls of the function
		an.InspectOwn(f, func(n ast.Node) bool {
			call, ok := n.(*ast.CallExpr)
			if !ok {
				return true
			}
			switch an.CalleeName(info, call) {
			case "(reflect.Value).Set", "(reflect.Value).SetMapIndex":
				calls = append(calls, call)
			case "(reflect.Value).CanSet", "(reflect.Value).IsValid", "(reflect.Value).IsNil", "(reflect.Type).AssignableTo":
				preds = append(preds, call)
			}
			return true
		})
		if len(calls) == 0 {
			continue
		}
		c.FnsAnalysed[f.Name] = true
		isSite := map[*ast.CallExpr]bool{}
		for _, s := range calls {
			isSite[s] = true
		}
		bad := map[token.Pos]string{}
		badFacts := map[token.Pos][]string{}
		recv := func(call *ast.CallExpr) ast.Expr { return an.Unparen(call.Fun).(*ast.SelectorExpr).X }
		x := p.NewExplorer(f, an.Hooks{Call: func(x *an.Explorer, call *ast.CallExpr, st *an.State) {
			if !isSite[call] {
				return
			}
			if _, dup := bad[call.Pos()]; dup {
				return
			}
			same := func(a, b ast.Expr) bool {
				ka, ok1 := x.Key(a)
				kb, ok2 := x.Key(b)
				return ok1 && ok2 && ka == kb
			}
			// known(name, recvExpr, want): some call <recvExpr>.<name>() of the function is known to be want here
			known := func(name string, r ast.Expr, want bool) bool {
				for _, pc := range preds {
					if an.CalleeName(info, pc) == "(reflect.Value)."+name && same(recv(pc), r) {
						if v, k := x.Truth(pc, st); k && v == want {
							return true
						}
					}
				}
				return false
			}
			// typeOf(e, v): e is v.Type()
			typeOf := func(e ast.Expr, v ast.Expr) bool {
				tc, ok := an.Unparen(e).(*ast.CallExpr)
				return ok && an.CalleeName(info, tc) == "(reflect.Value).Type" && same(recv(tc), v)
			}
			// sub(e, dst, part): e is dst.Type().<part>()  (part = "" for dst.Type() itself)
			sub := func(e ast.Expr, dst ast.Expr, part string) bool {
				e = an.Unparen(e)
				if id, ok := e.(*ast.Ident); ok {
					if defs := an.LocalDefs(f, an.ObjOf(info, id)); len(defs) == 1 && defs[0] != nil {
						e = an.Unparen(defs[0])
					}
				}
				if part == "" {
					return typeOf(e, dst)
				}
				tc, ok := e.(*ast.CallExpr)
				if !ok || len(tc.Args) != 0 {
					return false
				}
				sel, ok := an.Unparen(tc.Fun).(*ast.SelectorExpr)
				return ok && sel.Sel.Name == part && typeOf(sel.X, dst)
			}
			assignable := func(v, dst ast.Expr, part string) bool {
				for _, pc := range preds {
					if an.CalleeName(info, pc) != "(reflect.Type).AssignableTo" || len(pc.Args) != 1 {
						continue
					}
					if typeOf(recv(pc), v) && sub(pc.Args[0], dst, part) {
						if t, k := x.Truth(pc, st); k && t {
							return true
						}
					}
				}
				return false
			}
			// convertedTo(k, dst, part): k's current value is X.Convert(dst.Type().<part>())
			convertedTo := func(k, dst ast.Expr, part string) bool {
				id, ok := an.Unparen(k).(*ast.Ident)
				if !ok {
					return false
				}
				for _, d := range an.LocalDefs(f, an.ObjOf(info, id)) {
					if d == nil {
						continue
					}
					if cc, ok := an.Unparen(d).(*ast.CallExpr); ok && an.CalleeName(info, cc) == "(reflect.Value).Convert" && len(cc.Args) == 1 && sub(cc.Args[0], dst, part) {
						return true
					}
				}
				return false
			}
			fail := func(msg string) {
				bad[call.Pos()] = msg
				badFacts[call.Pos()] = an.Facts(st)
			}
			dst := recv(call)
			switch an.CalleeName(info, call) {
			case "(reflect.Value).Set":
				v := call.Args[0]
				switch {
				case !known("CanSet", dst, true):
					fail(an.Str(dst) + ".CanSet() is not known to be true")
				case !known("IsValid", v, true):
					fail(an.Str(v) + " is not known to be a valid value")
				case !assignable(v, dst, ""):
					fail(an.Str(v) + ".Type() is not known to be assignable to " + an.Str(dst) + ".Type()")
				}
			case "(reflect.Value).SetMapIndex":
				k, v := call.Args[0], call.Args[1]
				if c12freshOpenMap(f, dst) {
					return
				}
				switch {
				case !known("IsNil", dst, false):
					fail("the map " + an.Str(dst) + " is not known to be non-nil")
				case !assignable(k, dst, "Key") && !convertedTo(k, dst, "Key"):
					fail("the key " + an.Str(k) + " is not known to be assignable to the map's key type")
				case !known("IsValid", v, false) && !assignable(v, dst, "Elem"):
					fail("the value " + an.Str(v) + " is not known to be assignable to the map's element type")
				}
			}
		}})
		x.Run(nil)
		c.States += x.Visited
		if x.Undecided != "" {
			c.Undecided("C12.set", f.Name+"/set", f.Pos(), "%s", x.Undecided)
			continue
		}
		sort.Slice(calls, func(i, j int) bool { return calls[i].Pos() < calls[j].Pos() })
		for i, s := range calls {
			nSites++
			key := f.Name + "/" + an.Unparen(s.Fun).(*ast.SelectorExpr).Sel.Name
			if i > 0 {
				key += "#" + itoa(i+1)
			}
			if msg, isBad := bad[s.Pos()]; isBad {
				c.Bad("C12.set", key, s.Pos(), badFacts[s.Pos()], "%s stores through reflection where %s: reflect panics with a string (or a runtime error) that Execute re-panics instead of returning an error", f.Name, msg)
			} else {
				c.OK("C12.set", key, s.Pos(), "the destination was found able to take the value on every path")
			}
		}
	}
	c.Expect("C12.set", "reflect.Value.Set / SetMapIndex calls in the evaluator", nSites, 3)
}

// c12freshOpenMap: dst is a local holding reflect.ValueOf(make(map[string]interface{} …)) — any value fits, and
// the key is whatever the built-in converted to the key type (C06.conv guards the conversion).
func c12freshOpenMap(f *an.Fn, dst ast.Expr) bool {
	info := f.Info()
	id, ok := an.Unparen(dst).(*ast.Ident)
	if !ok {
		return false
	}
	defs := an.LocalDefs(f, an.ObjOf(info, id))
	if len(defs) != 1 || defs[0] == nil {
		return false
	}
	vo, ok := an.Unparen(defs[0]).(*ast.CallExpr)
	if !ok || an.CalleeName(info, vo) != "reflect.ValueOf" || len(vo.Args) != 1 {
		return false
	}
	mk, ok := an.Unparen(vo.Args[0]).(*ast.CallExpr)
	if !ok || an.CalleeName(info, mk) != "builtin.make" {
		return false
	}
	tv, ok := info.Types[mk]
	return ok && tv.Type != nil && tv.Type.String() == "map[string]interface{}"
}
