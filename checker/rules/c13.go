package rules

import (
	"fmt"
	"go/ast"
	"go/token"
	"go/types"
	"sort"
	"strings"

	"jetverif/an"
)

func init() {
	register(&Property{
		ID:  "C13",
		Run: runC13,
		Meta: an.Meta{
			Technique: "unwinding-completeness rule: the set of runtime state restored only on normal exits is computed by the pairing analysis over all evaluator functions and each member must be saved/restored by the try handler; guard facts and defer order on the handler's CFG",
			Explanation: "(C13.restore) Let M be the runtime state that some construct reachable from Execute changes and puts back only by a plain (non-deferred) statement — computed on every run by the " +
				"pairing analysis (today scope, context, content; a counter brought back by a plain decrement counts too).  executeTry must load every member of M into a local before the body runs, and its recover handler must store each back from that " +
				"local on every recovered path before the catch list runs.  A new non-deferred state change anywhere in the interpreter therefore creates a new obligation here.  (C13.buffer) the body " +
				"runs with Writer = a fresh bytes.Buffer installed before the body with a deferred restore registered after the handler (so it runs first); the buffer is copied to the saved writer " +
				"exactly at one site, only under the fact that nothing was recovered; the catch list runs only on the recovered path, once, with no recover around it.  (C13.catchvar) the catch " +
				"variable is stored into a scope pushed for it and popped after the catch list.  (C13.parse) parseTry ends its list at catch or end; parseCatch accepts only an identifier. (C13.buffer body-guarded) on every path of executeTry the handler's defer statement has run before the try body list is executed: no fast path executes the body unguarded.",
			NotDecided:  "the bytes the body would have produced; errors raised by io.Copy; panics that are not errors (re-panicked by Runtime.recover, C12).",
			Assumptions: []string{"deferred calls run in LIFO order (Go semantics)"},
			Trusted:     commonTrusted,
		},
		Mutants: []Mutant{
			{Name: "handler forgets to restore the context (original defect, one field)", File: "eval.go", Old: "since the later defer ran first\n\t\t\tst.scope, st.context, st.content = scope, context, content\n", New: "since the later defer ran first\n\t\t\tst.scope, st.content = scope, content\n\t\t\t_ = context\n", Rule: "C13.restore"},
			{Name: "handler restores nothing (original defect)", File: "eval.go", Old: "since the later defer ran first\n\t\t\tst.scope, st.context, st.content = scope, context, content\n", New: "since the later defer ran first\n\t\t\t_, _, _ = scope, context, content\n", Rule: "C13.restore"},
			{Name: "state restored only after the catch list ran", File: "eval.go", Old: "\t\t\tst.scope, st.context, st.content = scope, context, content\n\t\t\tif try.Catch != nil {", New: "\t\t\tdefer func() { st.scope, st.context, st.content = scope, context, content }()\n\t\t\tif try.Catch != nil {", Rule: "C13.restore"},
			{Name: "buffer copied on both paths", File: "eval.go", Old: "\t\tif r == nil {\n\t\t\tio.Copy(writer, buf)\n\t\t} else {", New: "\t\tio.Copy(writer, buf)\n\t\tif r != nil {", Rule: "C13.buffer"},
			{Name: "catch runs before the writer is restored (defer order)", File: "eval.go", Old: "\tst.Writer = buf\n\tdefer func() { st.Writer = writer }()\n\n\treturn st.executeList(try.List)", New: "\tst.Writer = buf\n\n\tdefer func() { st.Writer = writer }()\n\tdefer func() { _ = recover() }()\n\treturn st.executeList(try.List)", Rule: "C13.buffer"},
			{Name: "try body writes straight to the output", File: "eval.go", Old: "\tst.Writer = buf\n\tdefer func() { st.Writer = writer }()\n", New: "\tdefer func() { st.Writer = writer }()\n", Rule: "C13.buffer"},
			{Name: "catch variable leaks: scope popped only when a catch list exists", File: "eval.go", Old: "\t\t\t\tif try.Catch.Err != nil {\n\t\t\t\t\tst.releaseScope()\n\t\t\t\t}", New: "\t\t\t\tif try.Catch.Err != nil && try.Catch.List == nil {\n\t\t\t\t\tst.releaseScope()\n\t\t\t\t}", Rule: "C13.catchvar"},
			{Name: "catch variable bound with SetOrLet (agent seed C13/4)", File: "eval.go", Old: "\t\t\t\t\tst.scope.variables[try.Catch.Err.Ident] = reflect.ValueOf(r)", New: "\t\t\t\t\tst.SetOrLet(try.Catch.Err.Ident, r)", Rule: "C13.catchvar"},
			{Name: "equivalent: catch variable declared with Let", File: "eval.go", Old: "\t\t\t\t\tst.scope.variables[try.Catch.Err.Ident] = reflect.ValueOf(r)", New: "\t\t\t\t\tst.Let(try.Catch.Err.Ident, r)", Rule: "-"},
			{Name: "equivalent: an unused Runtime field is added", File: "eval.go", Old: "type Runtime struct {\n\t*escapeeWriter\n\t*scope\n\tcontent func(*Runtime, Expression)\n", New: "type Runtime struct {\n\t*escapeeWriter\n\t*scope\n\tcontent func(*Runtime, Expression)\n\tdepth   int\n", Rule: "-"},
			{Name: "equivalent: buffer copied to st.Writer, which the earlier-running defer already restored", File: "eval.go", Old: "\t\t\tio.Copy(writer, buf)\n", New: "\t\t\tio.Copy(st.Writer, buf)\n", Rule: "-"},
			{Name: "parseTry also ends at else", File: "parse.go", Old: "list, next := t.itemList(nodeCatch, nodeEnd)", New: "list, next := t.itemList(nodeCatch, nodeElse, nodeEnd)", Rule: "C13.parse"},
			{Name: "catch accepts any term as its variable", File: "parse.go", Old: "\t\tif typ := _errVar.Type(); typ != NodeIdentifier {\n\t\t\tt.errorf(\"unexpected node type '%s' in catch\", typ)\n\t\t}\n\t\terrVar = _errVar.(*IdentifierNode)", New: "\t\terrVar, _ = _errVar.(*IdentifierNode)", Rule: "C13.parse"},
		},
	})
}

// unwindState computes M: state changed and put back only on normal exits somewhere in EVAL.
func unwindState(c *an.Ctx) (fields map[string]string, scopeWhere string) {
	p := c.P
	fns, poolFns := pairFns(p)
	fields = map[string]string{}
	for _, f := range fns {
		if poolFns[f] {
			continue
		}
		r := explorePairs(p, f)
		c.States += r.x.Visited
		for pf, pos := range r.plainRestore {
			if _, ok := fields[pf]; !ok {
				fields[pf] = fmt.Sprintf("%s (%s)", f.Name, p.RelPos(pos))
			}
		}
		if r.plainPop.IsValid() && len(r.pushSites) > 0 && scopeWhere == "" {
			scopeWhere = fmt.Sprintf("%s (%s)", f.Name, p.RelPos(r.plainPop))
		}
	}
	return fields, scopeWhere
}

func runC13(c *an.Ctx) {
	p := c.P
	try := c.Fn("C13.restore", "(*Runtime).executeTry")
	if try == nil {
		return
	}
	info := try.Info()
	// the handler: a deferred literal of executeTry that calls recover()
	var handler *an.Fn
	var handlerDefer, bodyCall token.Pos
	var body *ast.CallExpr
	type deferred struct {
		pos token.Pos
		lit *an.Fn
	}
	var defers []deferred
	an.InspectOwn(try, func(n ast.Node) bool {
		switch x := n.(type) {
		case *ast.DeferStmt:
			if fl, ok := an.Unparen(x.Call.Fun).(*ast.FuncLit); ok {
				lf := p.FnByLit[fl]
				defers = append(defers, deferred{x.Pos(), lf})
				if lf != nil && len(p.CallsIn(lf, "builtin.recover")) > 0 && handler == nil {
					handler, handlerDefer = lf, x.Pos()
				}
			} else if g := p.FnByObj[an.Callee(info, x.Call)]; g != nil && g.Body != nil && len(p.CallsIn(g, "builtin.recover")) > 0 && handler == nil {
				// the handler written as a method or function of its own (it must be the deferred call itself to recover)
				defers = append(defers, deferred{x.Pos(), g})
				handler, handlerDefer = g, x.Pos()
			}
		case *ast.CallExpr:
			if an.IsCallTo(info, x, execList) && len(x.Args) == 1 && p.FieldKey(info, x.Args[0]) == "TryNode.List" {
				body, bodyCall = x, x.Pos()
			}
		}
		return true
	})
	if handler == nil || body == nil {
		c.Anchor("C13.restore", "recover handler / body execution in executeTry")
		return
	}
	c.FnsAnalysed[handler.Name] = true

	// every execution of the try body is guarded: on every path of executeTry, the handler's defer statement has run
	// before the body list is executed (a fast path in front of the defers — "nothing to hold back when the output
	// is discarded anyway" — executes the body with no recover, no restore and no catch)
	{
		unguarded := token.NoPos
		nBody := 0
		gx := p.NewExplorer(try, an.Hooks{
			Defer: func(x *an.Explorer, d *ast.DeferStmt, st *an.State) {
				if d.Pos() == handlerDefer {
					st.Set("guarded", "1")
				}
			},
			Call: func(x *an.Explorer, call *ast.CallExpr, st *an.State) {
				if an.IsCallTo(info, call, execList) && len(call.Args) == 1 && p.FieldKey(info, call.Args[0]) == "TryNode.List" {
					nBody++
					if st.Get("guarded") == "" && !unguarded.IsValid() {
						unguarded = call.Pos()
					}
				}
			},
		})
		gx.Run(nil)
		c.States += gx.Visited
		switch {
		case gx.Undecided != "":
			c.Undecided("C13.buffer", "(*Runtime).executeTry/body-guarded", try.Pos(), "%s", gx.Undecided)
		case unguarded.IsValid():
			c.Bad("C13.buffer", "(*Runtime).executeTry/body-guarded", unguarded, nil, "executeTry executes the try body on a path on which its recover handler has not been registered: a failure of the body is not contained, nothing is restored and the catch body does not run")
		default:
			c.Check(nBody > 0, "C13.buffer", "(*Runtime).executeTry/body-guarded", try.Pos(), "the try body is executed only after the recover handler was registered", "executeTry never executes the try body")
		}
	}

	// ---------------------------------------------------------------- C13.restore
	fields, scopeWhere := unwindState(c)
	type member struct{ field, why string }
	var M []member
	if scopeWhere != "" {
		M = append(M, member{"Runtime.scope", scopeWhere})
	}
	var fks []string
	for f := range fields {
		fks = append(fks, f)
	}
	sort.Strings(fks)
	for _, f := range fks {
		if f == "escapeeWriter.Writer" {
			continue // the Writer is C13.buffer's own obligation
		}
		M = append(M, member{f, fields[f]})
	}
	c.Expect("C13.restore", "runtime state restored only on normal exits (M)", len(M), 3)
	var names []string
	for _, m := range M {
		names = append(names, m.field)
	}
	c.Note("M = %v", names)

	// saved locals in executeTry: local ← st.<field>, before the body call, as a top-level statement
	saved := map[string]types.Object{}
	savedIn := map[string]string{} // field → member of the struct local that carries it (saved := T{scope: st.scope, …})
	for _, st := range try.Body.List {
		if st.Pos() > bodyCall {
			break
		}
		an.Assigns(st, func(lhs, rhs ast.Expr, _ token.Token) {
			if id, ok := lhs.(*ast.Ident); ok && rhs != nil {
				fk := p.FieldKey(info, rhs)
				if fk != "" && throughRuntime(p, info, rhs) {
					if _, dup := saved[fk]; !dup {
						saved[fk] = an.ObjOf(info, id)
					}
				}
				if obj := an.ObjOf(info, id); obj != nil {
					if lit := savedStructLit(p, try, obj); lit != nil {
						for _, el := range lit.Elts {
							if kv, ok := el.(*ast.KeyValueExpr); ok {
								if k, ok := kv.Key.(*ast.Ident); ok {
									if efk := p.FieldKey(info, kv.Value); efk != "" && throughRuntime(p, info, kv.Value) {
										if _, dup := saved[efk]; !dup {
											saved[efk] = obj
											savedIn[efk] = k.Name
										}
									}
								}
							}
						}
					}
				}
			}
		})
	}
	// handler: restores before the catch list, on every recovered path
	hinfo := handler.Info()
	var recovered types.Object // the variable holding recover()'s result
	an.InspectOwn(handler, func(n ast.Node) bool {
		an.Assigns(n, func(lhs, rhs ast.Expr, _ token.Token) {
			if call, ok := an.Unparen(rhs).(*ast.CallExpr); ok && rhs != nil && an.IsCallTo(hinfo, call, "builtin.recover") {
				if id, ok := lhs.(*ast.Ident); ok {
					recovered = an.ObjOf(hinfo, id)
				}
			}
		})
		return true
	})
	if recovered == nil {
		c.Anchor("C13.restore", "variable holding recover()'s result in the try handler")
		return
	}
	isRecovered := func(st *an.State) (yes, no bool) {
		for k, v := range st.Facts {
			pk := an.PlainKey(k)
			if pk == an.RoleOf(recovered)+" == nil" || pk == "nil == "+an.RoleOf(recovered) {
				return !v, v
			}
		}
		return false, false
	}
	type verdict struct {
		missing map[string]bool
		pos     token.Pos
		trail   []string
	}
	var catchCalls []*ast.CallExpr
	var copyCalls []*ast.CallExpr
	bad := map[string]*verdict{} // field → where it was missing
	copyBad, catchBad := "", ""
	nCatchMax := 0
	hooks := an.Hooks{
		PreAssign: func(x *an.Explorer, lhs, rhs ast.Expr, stmt ast.Node, st *an.State) {
			fk := p.FieldKey(hinfo, lhs)
			if fk == "" || rhs == nil {
				return
			}
			if id, ok := an.Unparen(rhs).(*ast.Ident); ok && saved[fk] != nil && savedIn[fk] == "" && an.ObjOf(hinfo, id) == saved[fk] {
				st.Set("rest:"+fk, "1")
			}
			if savedIn[fk] != "" {
				if o, name, ok := savedStructField(p, handler, rhs, fk); ok && o == saved[fk] && strings.HasSuffix(name, "."+savedIn[fk]) {
					st.Set("rest:"+fk, "1")
				}
			}
		},
		Call: func(x *an.Explorer, call *ast.CallExpr, st *an.State) {
			name := an.CalleeName(hinfo, call)
			switch {
			case name == execList:
				// the catch list
				found := false
				for _, cc := range catchCalls {
					if cc == call {
						found = true
					}
				}
				if !found {
					catchCalls = append(catchCalls, call)
				}
				if st.Add("catch", 1) > nCatchMax {
					nCatchMax = st.Int("catch")
				}
				if yes, _ := isRecovered(st); !yes {
					catchBad = "the catch list can run on a path where nothing was recovered"
				}
				for _, m := range M {
					if st.Get("rest:"+m.field) == "" {
						if bad[m.field] == nil {
							bad[m.field] = &verdict{pos: call.Pos(), trail: an.Facts(st)}
						}
					}
				}
			case name == "io.Copy" || name == "(*bytes.Buffer).WriteTo":
				found := false
				for _, cc := range copyCalls {
					if cc == call {
						found = true
					}
				}
				if !found {
					copyCalls = append(copyCalls, call)
				}
				if _, no := isRecovered(st); !no {
					copyBad = "the buffered output is copied to the writer on a path where the body may have failed"
				}
				if st.Add("copied", 1) > 1 {
					copyBad = "the buffered output can be copied more than once"
				}
			}
		},
	}
	x := p.NewExplorer(handler, hooks)
	x.Run(nil)
	c.States += x.Visited
	for _, ex := range x.Exits {
		if ex.Kind != an.ExitReturn {
			continue
		}
		if yes, _ := isRecovered(ex.State); yes {
			for _, m := range M {
				if ex.State.Get("rest:"+m.field) == "" && bad[m.field] == nil {
					bad[m.field] = &verdict{pos: handler.Pos(), trail: ex.Trail}
				}
			}
		}
		if _, no := isRecovered(ex.State); no && ex.State.Int("copied") != 1 && copyBad == "" {
			copyBad = "a successful body's output is not copied to the writer on some path"
		}
	}
	for _, m := range M {
		key := "(*Runtime).executeTry/" + m.field
		sv := saved[m.field]
		switch {
		case sv == nil:
			c.Bad("C13.restore", key, try.Pos(), nil,
				"%s is changed and put back only on normal exits by %s, but executeTry does not save it before the body runs: after a failed body it keeps the value of the construct that failed", m.field, m.why)
		case bad[m.field] != nil:
			c.Bad("C13.restore", key, bad[m.field].pos, bad[m.field].trail,
				"%s (restored only on normal exits by %s) is not stored back from %q on every recovered path before the catch list / the end of the handler", m.field, m.why, sv.Name())
		default:
			c.OK("C13.restore", key, handler.Pos(), "saved in %q before the body and restored by the handler before the catch list (needed because of %s)", sv.Name(), m.why)
		}
	}

	// ---------------------------------------------------------------- C13.buffer
	key := "(*Runtime).executeTry"
	// Writer = fresh buffer before the body, with a deferred restore registered after the handler
	var bufVar, writerVar types.Object
	// … or members of one struct local that carries them (frame := tryFrame{writer: st.Writer, buf: new(bytes.Buffer), …})
	var frameObj types.Object
	writerMember, bufMember := "", ""
	freshBuffer := func(e ast.Expr) bool {
		switch an.Str(an.Unparen(e)) {
		case "new(bytes.Buffer)", "&bytes.Buffer{}", "bytes.NewBuffer(nil)":
			return true
		}
		return false
	}
	// isWriter / isBuf: the expression (in function fn: executeTry, a deferred literal, or the handler) is the saved
	// writer / the try buffer — the local itself, a helper's parameter bound to it, or the struct member holding it
	isWriter := func(fn *an.Fn, e ast.Expr) bool {
		if o := throughBinds(p, fn, e); o != nil && writerVar != nil && o == writerVar {
			return true
		}
		if o, k, ok := structMember(p, fn, e); ok && frameObj != nil && o == frameObj && k == writerMember && writerMember != "" {
			return true
		}
		return false
	}
	isBuf := func(fn *an.Fn, e ast.Expr) bool {
		if o := throughBinds(p, fn, e); o != nil && bufVar != nil && o == bufVar {
			return true
		}
		if o, k, ok := structMember(p, fn, e); ok && frameObj != nil && o == frameObj && k == bufMember && bufMember != "" {
			return true
		}
		return false
	}
	var bufStore token.Pos
	for _, st := range try.Body.List {
		an.Assigns(st, func(lhs, rhs ast.Expr, _ token.Token) {
			if rhs == nil {
				return
			}
			if id, ok := lhs.(*ast.Ident); ok {
				switch {
				case p.FieldKey(info, rhs) == "escapeeWriter.Writer":
					writerVar = an.ObjOf(info, id)
				case strings.Contains(an.TypeName(info.Types[rhs].Type), "bytes.Buffer"):
					if freshBuffer(rhs) {
						bufVar = an.ObjOf(info, id)
					}
				}
				if obj := an.ObjOf(info, id); obj != nil {
					if lit := savedStructLit(p, try, obj); lit != nil {
						for _, el := range lit.Elts {
							kv, ok := el.(*ast.KeyValueExpr)
							if !ok {
								continue
							}
							k, ok := kv.Key.(*ast.Ident)
							if !ok {
								continue
							}
							switch {
							case p.FieldKey(info, kv.Value) == "escapeeWriter.Writer" && throughRuntime(p, info, kv.Value):
								frameObj, writerMember = obj, k.Name
							case freshBuffer(kv.Value):
								frameObj, bufMember = obj, k.Name
							default:
								if vid, ok := an.Unparen(kv.Value).(*ast.Ident); ok && bufVar != nil && an.ObjOf(info, vid) == bufVar {
									frameObj, bufMember = obj, k.Name
								}
							}
						}
					}
				}
			}
			if p.FieldKey(info, lhs) == "escapeeWriter.Writer" && st.Pos() < bodyCall {
				if isBuf(try, rhs) {
					bufStore = st.Pos()
				}
			}
		})
	}
	c.Check(bufStore.IsValid(), "C13.buffer", key+"/redirect", try.Pos(), "the body executes with Writer = a fresh bytes.Buffer",
		"the try body does not execute with the output redirected into a fresh bytes.Buffer: partial output of a failing body reaches the writer")
	// the deferred Writer restore: a deferred literal assigning Writer from writerVar, registered after the handler, before the body
	restoreDefer := token.NoPos
	for _, d := range defers {
		if d.lit == nil || d.lit == handler {
			continue
		}
		an.InspectOwn(d.lit, func(n ast.Node) bool {
			an.Assigns(n, func(lhs, rhs ast.Expr, _ token.Token) {
				if p.FieldKey(info, lhs) == "escapeeWriter.Writer" && rhs != nil {
					if isWriter(d.lit, rhs) {
						restoreDefer = d.pos
					}
				}
			})
			return true
		})
	}
	// no other recover-calling defer may be registered after the handler (it would run first and swallow the panic)
	laterRecover := false
	for _, d := range defers {
		if d.lit != nil && d.lit != handler && d.pos > handlerDefer && len(p.CallsIn(d.lit, "builtin.recover")) > 0 {
			laterRecover = true
		}
	}
	// … or the handler itself puts the Writer back, first thing: on every path through it the store precedes the
	// catch list and the copy of the buffer, and every exit has made it
	handlerRestores := false
	if !restoreDefer.IsValid() {
		handlerRestores = true
		nExit := 0
		wx := p.NewExplorer(handler, an.Hooks{
			PreAssign: func(x *an.Explorer, lhs, rhs ast.Expr, stmt ast.Node, st *an.State) {
				if p.FieldKey(hinfo, lhs) == "escapeeWriter.Writer" && rhs != nil && isWriter(handler, rhs) {
					st.Set("wrest", "1")
				}
			},
			Call: func(x *an.Explorer, call *ast.CallExpr, st *an.State) {
				name := an.CalleeName(hinfo, call)
				if (name == execList || name == "io.Copy" || name == "(*bytes.Buffer).WriteTo") && st.Get("wrest") == "" {
					handlerRestores = false
				}
			},
		})
		wx.Run(nil)
		c.States += wx.Visited
		for _, ex := range wx.Exits {
			if ex.Kind == an.ExitReturn {
				nExit++
				if ex.State.Get("wrest") == "" {
					handlerRestores = false
				}
			}
		}
		if nExit == 0 || wx.Undecided != "" {
			handlerRestores = false
		}
	}
	okOrder := ((restoreDefer.IsValid() && handlerDefer < restoreDefer && restoreDefer < bodyCall) || (handlerRestores && handlerDefer < bodyCall)) && !laterRecover
	c.Check(okOrder, "C13.buffer", key+"/defer-order", try.Pos(), "the Writer restore is deferred after the handler (so it runs first) and both precede the body",
		"the deferred Writer restore is missing, is registered before the recover handler (the catch list would render into the discarded buffer), or another recover is registered after the handler")
	// copy: destination = saved writer, source = the buffer, one site
	okCopy := len(copyCalls) == 1 && copyBad == ""
	why := copyBad
	if len(copyCalls) == 1 {
		cc := copyCalls[0]
		// io.Copy(dst, src) or src.WriteTo(dst) — for a *bytes.Buffer source io.Copy is that very call
		dstE, srcE := cc.Args[0], ast.Expr(nil)
		if len(cc.Args) == 2 {
			srcE = cc.Args[1]
		} else {
			srcE = an.Receiver(cc)
		}
		if !isWriter(handler, dstE) {
			// the current writer is acceptable too: the restore defer has already run
			if p.FieldKey(hinfo, dstE) != "escapeeWriter.Writer" {
				okCopy, why = false, "the buffer is copied to "+an.Str(dstE)+", not to the writer saved before the redirect"
			}
		}
		if !isBuf(handler, srcE) {
			okCopy, why = false, "the data copied to the writer is not the try buffer"
		}
	} else if why == "" {
		why = fmt.Sprintf("%d sites copying the buffer to a writer in the try handler (expected exactly one)", len(copyCalls))
	}
	c.Check(okCopy, "C13.buffer", key+"/copy", handler.Pos(), "the buffer reaches the saved writer exactly once and only when nothing was recovered", why)
	c.Check(catchBad == "" && nCatchMax <= 1 && len(catchCalls) == 1, "C13.buffer", key+"/catch-once", handler.Pos(), "the catch list runs only on the recovered path, at most once",
		firstNonEmpty(catchBad, "the catch list is executed from more than one site or more than once"))
	// no recover around the catch list: the handler contains no nested deferred recover
	nested := false
	for _, l := range handler.Lits {
		if len(p.CallsIn(l, "builtin.recover")) > 0 {
			nested = true
		}
	}
	c.Check(!nested, "C13.buffer", key+"/catch-errors-propagate", handler.Pos(), "errors of the catch list are not swallowed", "a nested recover in the try handler swallows errors raised by the catch list")

	// whatever the body raised is caught: the handler itself never panics (a re-panic of some class of
	// failures — runtime errors, say — would let a failing body escape the try, with its partial output lost
	// and the catch list skipped)
	hp := p.CallsIn(handler, "builtin.panic")
	c.Check(len(hp) == 0, "C13.buffer", key+"/catches-everything", handler.Pos(), "the recover handler of try never re-panics", "the recover handler of try re-panics for some recovered values: such a failure of the body is not caught, the catch list does not run and rendering does not continue after the try")

	// the redirect only works if the output destination lives in exactly one place
	writerCopies(c, "C13.buffer")

	// ---------------------------------------------------------------- C13.catchvar
	r := explorePairs(p, handler)
	reportScope(c, "C13.catchvar", r)
	seen := map[token.Pos]bool{}
	for _, pos := range r.declAt0 {
		if !seen[pos] {
			seen[pos] = true
			c.Bad("C13.catchvar", handler.Name+"/store", pos, nil, "the catch variable is stored into a scope the handler did not push: it stays visible after the try statement")
		}
	}
	nBind := 0
	for _, pos := range r.declOK {
		if !seen[pos] {
			seen[pos] = true
			nBind++
			c.OK("C13.catchvar", handler.Name+"/store", pos, "the catch variable lives in a scope pushed for it")
		}
	}
	// the binding is a declaration in the handler's own scope — a store into the current scope's variables
	// or Runtime.Let — never an assignment that looks the name up in the enclosing scopes (Set, SetOrLet,
	// setValue …): that would overwrite a visible variable (or the caller's VarMap entry) of the same name
	rebinders := p.FnsReaching("(*jet.Runtime).setValue")
	hinfo = handler.Info()
	var hcalls []*ast.CallExpr
	an.InspectOwn(handler, func(n ast.Node) bool {
		if call, ok := n.(*ast.CallExpr); ok {
			hcalls = append(hcalls, call)
		}
		return true
	})
	for _, call := range hcalls {
		name := an.CalleeName(hinfo, call)
		g := p.FnByObj[an.Callee(hinfo, call)]
		switch {
		case name == "(*jet.Runtime).Let":
			if r.callDepth[call] >= 1 {
				nBind++
				c.OK("C13.catchvar", handler.Name+"/store", call.Pos(), "the catch variable is declared with Let in a scope pushed for it")
			} else {
				c.Bad("C13.catchvar", handler.Name+"/store", call.Pos(), nil, "the catch variable is declared with Let into a scope the handler did not push")
			}
		case name == execList:
		case g != nil && p.IsNewHelper(g):
			// looked through: its own calls are in this list
		case g != nil && rebinders[g]:
			c.Bad("C13.catchvar", handler.Name+"/rebinds", call.Pos(), nil, "the recover handler of try calls %s, which assigns to the nearest visible variable of that name instead of declaring the catch variable: a variable of the enclosing scopes (or the caller's VarMap) is overwritten with the error and stays changed after the try statement", name)
		}
	}
	c.Expect("C13.catchvar", "bindings of the catch variable", nBind, 1)

	// ---------------------------------------------------------------- C13.parse
	if pt := c.Fn("C13.parse", "(*Template).parseTry"); pt != nil {
		ok := false
		for _, call := range p.CallsIn(pt, "(*jet.Template).itemList") {
			var terms []string
			for _, a := range call.Args {
				terms = append(terms, an.Str(a))
			}
			sort.Strings(terms)
			if strings.Join(terms, ",") == "nodeCatch,nodeEnd" {
				ok = true
			}
		}
		c.Check(ok, "C13.parse", "(*Template).parseTry/terminators", pt.Pos(), "a try body ends exactly at {{catch}} or {{end}}", "parseTry does not terminate its list at exactly nodeCatch or nodeEnd")
	}
	if pc := c.Fn("C13.parse", "(*Template).parseCatch"); pc != nil {
		pinfo := pc.Info()
		var assertStmt ast.Node
		an.InspectOwn(pc, func(n ast.Node) bool {
			if as, ok := n.(*ast.AssignStmt); ok && len(as.Rhs) == 1 {
				if ta, ok := an.Unparen(as.Rhs[0]).(*ast.TypeAssertExpr); ok && strings.Contains(an.Str(ta.Type), "IdentifierNode") {
					assertStmt = as
				}
			}
			return true
		})
		ok := false
		if assertStmt != nil {
			if as := assertStmt.(*ast.AssignStmt); len(as.Lhs) == 1 { // the panicking form needs the guard; the comma-ok form silently accepts anything
				pr := p.ProbeFn(pc, []ast.Node{assertStmt}, an.Hooks{})
				c.States += pr.X.Visited
				ok = len(pr.At[assertStmt]) > 0
				for _, st := range pr.At[assertStmt] {
					isIdent := false
					for k, v := range st.Facts {
						if v && strings.Contains(an.PlainKey(k), "NodeIdentifier == ") {
							isIdent = true
						}
					}
					if !isIdent {
						ok = false
					}
				}
			}
		}
		// the comma-ok form: the asserted value is used only where the ok result is known to be true
		if assertStmt != nil {
			if as := assertStmt.(*ast.AssignStmt); len(as.Lhs) == 2 {
				vid, ok1 := as.Lhs[0].(*ast.Ident)
				oid, ok2 := as.Lhs[1].(*ast.Ident)
				if ok1 && ok2 && oid.Name != "_" {
					vobj, oobj := an.ObjOf(pinfo, vid), an.ObjOf(pinfo, oid)
					var uses []ast.Node
					an.InspectOwn(pc, func(n ast.Node) bool {
						switch s := n.(type) {
						case *ast.AssignStmt:
							if s == as {
								return true
							}
							for _, r := range s.Rhs {
								ast.Inspect(r, func(m ast.Node) bool {
									if id, isId := m.(*ast.Ident); isId && an.ObjOf(pinfo, id) == vobj {
										uses = append(uses, s)
									}
									return true
								})
							}
						case *ast.ReturnStmt:
							for _, r := range s.Results {
								ast.Inspect(r, func(m ast.Node) bool {
									if id, isId := m.(*ast.Ident); isId && an.ObjOf(pinfo, id) == vobj {
										uses = append(uses, s)
									}
									return true
								})
							}
						}
						return true
					})
					if len(uses) > 0 {
						pr := p.ProbeFn(pc, uses, an.Hooks{})
						c.States += pr.X.Visited
						ok = true
						for _, u := range uses {
							if len(pr.At[u]) == 0 {
								ok = false
							}
							for _, st := range pr.At[u] {
								if !an.FactIs(st, an.RoleOf(oobj), true) {
									ok = false
								}
							}
						}
					}
				}
			}
		}
		c.Check(ok, "C13.parse", "(*Template).parseCatch/identifier-only", pc.Pos(), "the catch variable is accepted only when the term is an identifier", "parseCatch binds a catch variable without having established that the term is an identifier")
	}
}

func firstNonEmpty(a, b string) string {
	if a != "" {
		return a
	}
	return b
}
