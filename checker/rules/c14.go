package rules

import (
	"fmt"
	"go/ast"
	"go/token"
	"go/types"
	"os"
	"path/filepath"
	"regexp"
	"sort"
	"strings"

	"jetverif/an"
)

func init() {
	register(&Property{
		ID:  "C14",
		Run: runC14,
		Meta: an.Meta{
			Technique: "sibling agreement of the implicit-first-argument predicate across its four implementations, guard facts on CFG paths for slot/count/conversion handling, call-path convergence on the call graph, and a built-in table vs. documentation comparison",
			Explanation: "(C14.shift) the predicate \"the piped value is an implicit first argument\" is the same conjunction {piped != nil, !HasPipeSlot} in Arguments.Get, Arguments.IsSet, Arguments.NumOfArguments and " +
				"Runtime.evaluateArgs; under it index 0 is the piped value, other indexes are shifted by one, and the count is len(Exprs)+1; (C14.slot) every evaluation of an element of CallArgs.Exprs in a " +
				"function that has the piped value at hand is under the fact Type() != NodeUnderscore, the other branch yielding the piped value; parseArguments sets HasPipeSlot exactly for an underscore " +
				"argument and rejects a second one; (C14.forms) `f: a, b` and `f(a, b)` share parseArguments, a call expression used as a command is copied whole, all three call paths end in " +
				"evalPipeCallExpression, and a jet.Func receives args and piped value unchanged; (C14.once) a pipeline evaluates Cmds[0] once and each later command once, in order, feeding the previous " +
				"value; (C14.count) evaluateArgs compares the argument count with NumIn (!=, or < for variadics) before evaluating any argument, and every reflect Convert there is guarded by " +
				"ConvertibleTo with an error return; (C14.table) each built-in documented in docs/builtins.md as exposing a Go function is bound to exactly that function; slice and array share one " +
				"implementation; len, isset, ints, map, exec, includeIfExists, dump, writeJson exist. (C14.count, continued) a conversion target taken from fnType.In(k) is used only where k is known to be a fixed position or Elem() was applied (a value piped into a purely variadic function is converted to the element type). (C14.once, continued) on a normally returning path a built-in fetches Arguments.Get(i) at most once per position (each Get evaluates the argument expression). (C14.count) evaluateArgs returns argument values with a nil error only on paths on which `given != required` or `given < required` is known to be false (the locals are found by what defines them: len(CallArgs.Exprs), Type.NumIn()); ParseInto's argument loop carries no variable from one argument position to the next (a variable declared outside the loop that the body assigns and reads is given a fresh value, unconditionally, at the start of every iteration).",
			NotDecided:  "the result of reflect.Value.Call; variadic packing by reflect; conversion results; what the Go functions compute (stdlib).",
			Assumptions: []string{"docs/builtins.md is the documentation the property refers to (a built-in copy of its table is used when the file cannot be parsed)"},
			Trusted:     commonTrusted,
		},
		Mutants: []Mutant{
			{Name: "piped value checked against the slice type of a purely variadic function (original defect)", File: "eval.go", Old: "\t\tif slot >= numArgsRequired {\n\t\t\tin = in.Elem() // no fixed parameter left: the piped value is the first element of the variadic tail\n\t\t}\n", New: "", Rule: "C14.count"},
			{Name: "variadic tail converted to the slice type", File: "eval.go", Old: "in := fnType.In(numArgsRequired).Elem()", New: "in := fnType.In(numArgsRequired)", Rule: "C14.count"},
			{Name: "len counts runes for strings (agent seed C14/4)", File: "default.go", Old: "\t\t\tcase reflect.Array, reflect.Chan, reflect.Slice, reflect.Map, reflect.String:\n\t\t\t\treturn reflect.ValueOf(expression.Len())", New: "\t\t\tcase reflect.Array, reflect.Chan, reflect.Slice, reflect.Map:\n\t\t\t\treturn reflect.ValueOf(expression.Len())\n\t\t\tcase reflect.String:\n\t\t\t\treturn reflect.ValueOf(len([]rune(expression.String())))", Rule: "C14.table"},
			{Name: "argument vector shared between nested calls (agent seed C14/2)", File: "eval.go", Old: "\targValues := make([]reflect.Value, numArgs)\n", New: "\tif cap(st.argBuf) < numArgs {\n\t\tst.argBuf = make([]reflect.Value, numArgs, numArgs+4)\n\t}\n\targValues := st.argBuf[:numArgs]\n", More: []Edit{{File: "eval.go", Old: "\tcontext reflect.Value\n}", New: "\tcontext reflect.Value\n\targBuf  []reflect.Value\n}"}}, Rule: "C14.count"},
			{Name: "NumOfArguments counts the piped value even when a slot consumes it", File: "func.go", Old: "\tnum := len(a.args.Exprs)\n\tif a.pipedVal != nil && !a.args.HasPipeSlot {", New: "\tnum := len(a.args.Exprs)\n\tif a.pipedVal != nil {", Rule: "C14.shift"},
			{Name: "Get does not shift the index for an implicit piped argument", File: "func.go", Old: "\t\tif argumentIndex == 0 {\n\t\t\treturn *a.pipedVal\n\t\t}\n\t\t// call has an implicit first argument, so we adjust the\n\t\t// index before looking it up in the parsed a.args slice\n\t\targumentIndex--", New: "\t\tif argumentIndex == 0 {\n\t\t\treturn *a.pipedVal\n\t\t}", Rule: "C14.shift"},
			{Name: "evaluateArgs evaluates the underscore slot as an expression", File: "eval.go", Old: "\t\tif args.Exprs[i].Type() == NodeUnderscore {\n\t\t\tif pipedArg == nil {\n\t\t\t\treturn nil, fmt.Errorf(\"argument for position %d in %s is a '_' placeholder, but there is no piped value\", slot, fnType)\n\t\t\t}\n\t\t\tterm = *pipedArg\n\t\t} else {\n\t\t\tterm = st.evalPrimaryExpressionGroup(args.Exprs[i])\n\t\t}\n\t\tif !term.IsValid() {\n\t\t\treturn nil, fmt.Errorf(\"argument for position %d in %s is not a valid value\", slot, fnType)\n\t\t}\n\t\tif !term.Type().AssignableTo(in) {\n\t\t\tif !term.Type().ConvertibleTo(in) {\n\t\t\t\treturn nil, fmt.Errorf(\"argument for position %d in %s of type %s is not convertible to %s\", slot, fnType, term.Type(), in)\n\t\t\t}\n\t\t\tterm = term.Convert(in)\n\t\t}\n\t\targValues[slot] = term\n\t\ti++\n\t\tslot++\n\t}\n\n\tif isVariadic {", New: "\t\tterm = st.evalPrimaryExpressionGroup(args.Exprs[i])\n\t\tif !term.IsValid() {\n\t\t\treturn nil, fmt.Errorf(\"argument for position %d in %s is not a valid value\", slot, fnType)\n\t\t}\n\t\tif !term.Type().AssignableTo(in) {\n\t\t\tif !term.Type().ConvertibleTo(in) {\n\t\t\t\treturn nil, fmt.Errorf(\"argument for position %d in %s of type %s is not convertible to %s\", slot, fnType, term.Type(), in)\n\t\t\t}\n\t\t\tterm = term.Convert(in)\n\t\t}\n\t\targValues[slot] = term\n\t\ti++\n\t\tslot++\n\t}\n\n\tif isVariadic {", Rule: "C14.slot"},
			{Name: "second pipe slot silently accepted", File: "parse.go", Old: "\t\t\tif args.HasPipeSlot {\n\t\t\t\tt.errorf(\"found two pipe slot markers ('_') for the same function call\")\n\t\t\t}\n", New: "", Rule: "C14.slot"},
			{Name: "prefix-colon arguments parsed by a different routine", File: "parse.go", Old: "\tcase itemColon:\n\t\tcmd.CallArgs = t.parseArguments()", New: "\tcase itemColon:\n\t\tcmd.CallArgs = CallArgs{Exprs: []Expression{t.expression(\"command\", \"argument\")}}", Rule: "C14.forms"},
			{Name: "piped value dropped for jet.Func callees", File: "eval.go", Old: "Arguments{runtime: st, args: args, pipedVal: pipedArg}", New: "Arguments{runtime: st, args: args}", Rule: "C14.forms"},
			{Name: "first command evaluated twice", File: "eval.go", Old: "\tvalue, safeWriter = st.evalCommandExpression(node.Cmds[0])\n\tfor i := 1; i < len(node.Cmds); i++ {", New: "\tvalue, safeWriter = st.evalCommandExpression(node.Cmds[0])\n\tfor i := 0; i < len(node.Cmds); i++ {", Rule: "C14.once"},
			{Name: "too many arguments accepted for fixed-arity functions", File: "eval.go", Old: "\t\tif numArgs != numArgsRequired {", New: "\t\tif numArgs < numArgsRequired {", Rule: "C14.count"},
			{Name: "unguarded Convert (original defect)", File: "eval.go", Old: "\t\tif !(*pipedArg).Type().AssignableTo(in) {\n\t\t\tif !(*pipedArg).Type().ConvertibleTo(in) {\n\t\t\t\treturn nil, fmt.Errorf(\"piped first argument for %s of type %s is not convertible to %s\", fnType, (*pipedArg).Type(), in)\n\t\t\t}\n", New: "\t\tif !(*pipedArg).Type().AssignableTo(in) {\n", Rule: "C14.count"},
			{Name: "upper bound to ToLower", File: "default.go", Old: "\"upper\":     reflect.ValueOf(strings.ToUpper),", New: "\"upper\":     reflect.ValueOf(strings.ToLower),", Rule: "C14.table"},
			{Name: "url bound to PathEscape", File: "default.go", Old: "reflect.ValueOf(url.QueryEscape)", New: "reflect.ValueOf(url.PathEscape)", Rule: "C14.table"},
			{Name: "IsSet forgets the slot check", File: "func.go", Old: "\tif a.pipedVal != nil && !a.args.HasPipeSlot {\n\t\tif argumentIndex == 0 {\n\t\t\treturn notNil(*a.pipedVal)\n\t\t}", New: "\tif a.pipedVal != nil {\n\t\tif argumentIndex == 0 {\n\t\t\treturn notNil(*a.pipedVal)\n\t\t}", Rule: "C14.shift"},
		},
	})
}

var shiftFns = []string{"(*Arguments).Get", "(*Arguments).IsSet", "(*Arguments).NumOfArguments", "(*Runtime).evaluateArgs"}

// conjuncts splits a condition into its && operands.
func conjuncts(e ast.Expr) []ast.Expr {
	e = an.Unparen(e)
	if b, ok := e.(*ast.BinaryExpr); ok && b.Op == token.LAND {
		return append(conjuncts(b.X), conjuncts(b.Y)...)
	}
	return []ast.Expr{e}
}

// shiftPredicate normalises a condition mentioning HasPipeSlot: returns the canonical conjunct set.
// boolLocal resolves a condition that is a boolean local with a single definition to that definition
// (`pipedFirst := !args.HasPipeSlot && pipedArg != nil; if pipedFirst {`), also under a negation.
func boolLocal(f *an.Fn, cond ast.Expr) ast.Expr { return boolLocalN(f, cond, 0) }

func boolLocalN(f *an.Fn, cond ast.Expr, depth int) ast.Expr {
	// a predicate method/function extracted from the condition: `if a.hasImplicitPipedArg() {` with
	// `func (a *Arguments) hasImplicitPipedArg() bool { return a.pipedVal != nil && !a.args.HasPipeSlot }`,
	// or `pipedIsFirstArg(a.args, a.pipedVal)` with the two passed on as they are
	if call, ok := an.Unparen(cond).(*ast.CallExpr); ok && f.P != nil && depth < 3 {
		if h := f.P.NewHelperCallee(f, call); h != nil && h.Body != nil && len(h.Body.List) == 1 {
			plain := true
			for _, a := range call.Args {
				switch an.Unparen(a).(type) {
				case *ast.Ident, *ast.SelectorExpr:
				default:
					plain = false
				}
			}
			if ret, ok := h.Body.List[0].(*ast.ReturnStmt); ok && len(ret.Results) == 1 && plain {
				return ret.Results[0]
			}
		}
	}
	id, ok := an.Unparen(cond).(*ast.Ident)
	if !ok {
		return cond
	}
	o := an.ObjOf(f.Info(), id)
	if o == nil {
		return cond
	}
	if _, isParam := an.IsParam(f, o); isParam {
		return cond
	}
	defs := an.LocalDefs(f, o)
	if len(defs) == 1 && defs[0] != nil && depth < 3 {
		return boolLocalN(f, defs[0], depth+1)
	}
	return cond
}

func shiftPredicate(p *an.Prog, f *an.Fn, cond ast.Expr) (string, bool) {
	info := f.Info()
	cond = boolLocal(f, cond)
	mentions := false
	ast.Inspect(cond, func(n ast.Node) bool {
		if sel, ok := n.(*ast.SelectorExpr); ok && p.FieldKey(info, sel) == "CallArgs.HasPipeSlot" {
			mentions = true
		}
		return true
	})
	if !mentions {
		return "", false
	}
	var parts []string
	for _, cj := range conjuncts(cond) {
		cj = an.Unparen(cj)
		switch x := cj.(type) {
		case *ast.UnaryExpr:
			if x.Op == token.NOT && p.FieldKey(info, x.X) == "CallArgs.HasPipeSlot" {
				parts = append(parts, "!HasPipeSlot")
				continue
			}
		case *ast.BinaryExpr:
			if x.Op == token.NEQ && an.Str(x.Y) == "nil" {
				// the piped value pointer: Arguments.pipedVal or a *reflect.Value parameter
				if p.FieldKey(info, x.X) == "Arguments.pipedVal" {
					parts = append(parts, "piped!=nil")
					continue
				}
				if id, ok := an.Unparen(x.X).(*ast.Ident); ok {
					if o := an.ObjOf(info, id); o != nil && an.TypeName(o.Type()) == "*reflect.Value" {
						owner := f
						if g := p.OwnerFn(o.Pos()); g != nil {
							owner = g // (the parameter of a predicate helper the test was moved into)
						}
						if _, isParam := an.IsParam(owner, o); isParam {
							parts = append(parts, "piped!=nil")
							continue
						}
					}
				}
			}
		}
		parts = append(parts, "?"+an.Str(cj))
	}
	sort.Strings(parts)
	return strings.Join(parts, " && "), true
}

func runC14(c *an.Ctx) {
	c14paramType(c)
	c14countChecked(c)
	parseIntoPerArgument(c, "C14.count")
	c14getOnce(c)
	p := c.P
	// ---------------------------------------------------------------- C14.shift
	const canon = "!HasPipeSlot && piped!=nil"
	nPred := 0
	for _, name := range shiftFns {
		f := c.Fn("C14.shift", name)
		if f == nil {
			continue
		}
		found := 0
		an.InspectOwn(f, func(n ast.Node) bool {
			is, ok := n.(*ast.IfStmt)
			if !ok {
				return true
			}
			pred, mentions := shiftPredicate(p, f, is.Cond)
			if !mentions {
				return true
			}
			found++
			nPred++
			c.Check(pred == canon, "C14.shift", name+"/predicate", is.Pos(), "implicit-first-argument predicate is {piped != nil, !HasPipeSlot}",
				fmt.Sprintf("%s decides \"the piped value is an implicit first argument\" by `%s` (normalised: %s) instead of piped != nil && !HasPipeSlot: its view of argument positions disagrees with the other three implementations", name, an.Str(is.Cond), pred))
			return true
		})
		if found == 0 {
			c.Bad("C14.shift", name+"/predicate", f.Pos(), nil, "%s does not consult HasPipeSlot at all: a piped value placed by `_` would also be counted as an implicit first argument", name)
		}
	}
	c.Expect("C14.shift", "uses of the implicit-first-argument predicate", nPred, 5)
	// Get / IsSet: under the predicate index 0 → piped value, otherwise index-- (decided on the paths of the
	// function with new helpers spliced in: the form of the code does not matter)
	for _, name := range []string{"(*Arguments).Get", "(*Arguments).IsSet"} {
		f := p.Fn(name)
		if f == nil {
			continue
		}
		info := f.Info()
		idx := an.Param(f, 0)
		binds := p.HelperBinds(f)
		// role: the index variable — the first parameter, or a helper parameter bound to it
		var isIdx func(o types.Object, depth int) bool
		isIdx = func(o types.Object, depth int) bool {
			if o == nil || depth > 3 {
				return false
			}
			if o == types.Object(idx) {
				return true
			}
			v, ok := o.(*types.Var)
			if !ok || len(binds[v]) == 0 {
				return false
			}
			for _, b := range binds[v] {
				id, ok := an.Unparen(b.Arg).(*ast.Ident)
				if !ok || !isIdx(an.ObjOf(info, id), depth+1) {
					return false
				}
			}
			return true
		}
		identIdx := func(e ast.Expr) bool {
			id, ok := an.Unparen(e).(*ast.Ident)
			return ok && isIdx(an.ObjOf(info, id), 0)
		}
		hooks := an.Hooks{
			Branch: func(x *an.Explorer, cond ast.Expr, val bool, st *an.State) {
				if pred, mentions := shiftPredicate(p, f, cond); mentions && pred == canon {
					if val {
						st.Set("P", "T")
					} else {
						st.Set("P", "F")
					}
				}
				if b, ok := an.Unparen(cond).(*ast.BinaryExpr); ok && b.Op == token.EQL && an.Str(b.Y) == "0" && identIdx(b.X) && val {
					st.Set("zero", "1")
				}
			},
			Stmt: func(x *an.Explorer, n ast.Node, st *an.State) {
				if inc, ok := n.(*ast.IncDecStmt); ok && inc.Tok == token.DEC && identIdx(inc.X) {
					st.Add("dec", 1)
				}
				// reads of Exprs[index]
				ast.Inspect(n, func(m ast.Node) bool {
					if _, isLit := m.(*ast.FuncLit); isLit {
						return false
					}
					if ix, ok := m.(*ast.IndexExpr); ok && p.FieldKey(info, an.Unparen(ix.X)) == "CallArgs.Exprs" {
						if identIdx(ix.Index) {
							st.Set("read", fmt.Sprintf("dec%d", st.Int("dec")))
						} else {
							st.Set("read", "other:"+an.Str(ix.Index))
						}
					}
					return true
				})
			},
		}
		x := p.NewExplorer(f, hooks)
		x.Run(nil)
		c.States += x.Visited
		c.FnsAnalysed[f.Name] = true
		ok, why := true, ""
		seenZero, seenShift, seenPlain := false, false, false
		var trail []string
		for _, ex := range x.Exits {
			if ex.Kind != an.ExitReturn || ex.Ret == nil || len(ex.Ret.Results) != 1 {
				continue
			}
			res := ex.Ret.Results[0]
			kind := "zero"
			ast.Inspect(res, func(m ast.Node) bool {
				switch v := m.(type) {
				case *ast.SelectorExpr:
					if p.FieldKey(info, v) == "Arguments.pipedVal" {
						kind = "piped"
					}
				case *ast.CallExpr:
					if an.IsCallTo(info, v, "(*jet.Runtime).evalPrimaryExpressionGroup", "(*jet.Runtime).isSet") && kind != "piped" {
						kind = "expr"
					}
				}
				return true
			})
			P, zero, read := ex.State.Get("P"), ex.State.Get("zero"), ex.State.Get("read")
			switch {
			case P == "T" && zero != "":
				seenZero = true
				if kind != "piped" {
					ok, why, trail = false, "index 0 does not yield the piped value under the implicit-first-argument predicate", ex.Trail
				}
			case kind == "expr" && P == "T":
				seenShift = true
				if read != "dec1" {
					ok, why, trail = false, "indexes above 0 are not shifted by exactly one under the implicit-first-argument predicate (the expression read is Exprs["+read+"])", ex.Trail
				}
			case kind == "expr" && P == "F":
				seenPlain = true
				if read != "dec0" {
					ok, why, trail = false, "without an implicit first argument index i must read Exprs[i] (read: "+read+")", ex.Trail
				}
			}
		}
		if ok && !(seenZero && seenShift && seenPlain) {
			ok, why = false, fmt.Sprintf("no branch for the implicit first argument (paths seen: index 0 under the predicate %v, shifted read %v, plain read %v)", seenZero, seenShift, seenPlain)
		}
		if ok {
			c.OK("C14.shift", name+"/mapping", f.Pos(), "index 0 is the piped value and index i maps to Exprs[i-1] under the predicate")
		} else {
			c.Bad("C14.shift", name+"/mapping", f.Pos(), trail, "%s: %s", name, why)
		}
	}
	if f := p.Fn("(*Arguments).NumOfArguments"); f != nil {
		ok := false
		an.InspectOwn(f, func(n ast.Node) bool {
			is, isIf := n.(*ast.IfStmt)
			if !isIf {
				return true
			}
			if _, mentions := shiftPredicate(p, f, is.Cond); !mentions {
				return true
			}
			if len(is.Body.List) == 1 {
				if ret, isRet := is.Body.List[0].(*ast.ReturnStmt); isRet && len(ret.Results) == 1 {
					if an.Norm(f, ret.Results[0]) == "(len($r.args.Exprs) + 1)" {
						ok = true
					}
				}
			}
			return true
		})
		last := f.Body.List[len(f.Body.List)-1]
		if ret, isRet := last.(*ast.ReturnStmt); !isRet || len(ret.Results) != 1 || an.Norm(f, ret.Results[0]) != "len($r.args.Exprs)" {
			ok = false
		}
		c.Check(ok, "C14.shift", "(*Arguments).NumOfArguments/count", f.Pos(), "the count is len(Exprs), plus one under the predicate", "NumOfArguments is not len(Exprs) (+1 exactly under the implicit-first-argument predicate)")
	}

	// ---------------------------------------------------------------- C14.slot
	nEval := 0
	for _, name := range []string{"(*Arguments).Get", "(*Arguments).IsSet", "(*Runtime).evaluateArgs"} {
		f := p.Fn(name)
		if f == nil {
			continue
		}
		c.FnsAnalysed[name] = true
		info := f.Info()
		var targets []ast.Node
		an.InspectOwn(f, func(n ast.Node) bool {
			call, ok := n.(*ast.CallExpr)
			if !ok || len(call.Args) != 1 {
				return true
			}
			cn := an.CalleeName(info, call)
			if cn != "(*jet.Runtime).evalPrimaryExpressionGroup" && cn != "(*jet.Runtime).isSet" {
				return true
			}
			// the argument is an element of CallArgs.Exprs (directly or through a local bound to one)
			if isExprsElem(f, call.Args[0]) {
				targets = append(targets, call)
			}
			return true
		})
		pr := p.ProbeFn(f, targets, an.Hooks{})
		c.States += pr.X.Visited
		for _, t := range targets {
			nEval++
			ok := len(pr.At[t]) > 0
			for _, st := range pr.At[t] {
				notSlot := false
				for k, v := range st.Facts {
					pk := an.PlainKey(k)
					if !v && strings.Contains(pk, "NodeUnderscore == ") && strings.Contains(pk, ".Type()") {
						notSlot = true
					}
				}
				// or the eq-register of a switch on e.Type() holds another constant (default arm)
				if !notSlot {
					for k, v := range st.Regs {
						if strings.HasPrefix(k, "eq:") && strings.Contains(k, ".Type()") && v != "" {
							notSlot = true
						}
					}
				}
				if !notSlot {
					ok = false
				}
			}
			c.Check(ok, "C14.slot", name+"/eval-arg", t.Pos(), "an argument expression is evaluated only when it is not the `_` slot",
				name+" evaluates an element of the argument list without first testing for the `_` placeholder: the piped value would not be substituted (and evaluating `_` fails)")
		}
	}
	c.Expect("C14.slot", "argument evaluations next to a piped value", nEval, 4)
	if pa := c.Fn("C14.slot", "(*Template).parseArguments"); pa != nil {
		info := pa.Info()
		var store ast.Node
		an.InspectOwn(pa, func(n ast.Node) bool {
			if as, ok := n.(*ast.AssignStmt); ok && len(as.Lhs) == 1 && p.FieldKey(info, as.Lhs[0]) == "CallArgs.HasPipeSlot" && an.Str(as.Rhs[0]) == "true" {
				store = as
			}
			return true
		})
		if store == nil {
			c.Bad("C14.slot", "(*Template).parseArguments/marks-slot", pa.Pos(), nil, "parseArguments never sets HasPipeSlot")
		} else {
			pr := p.ProbeFn(pa, []ast.Node{store}, an.Hooks{})
			c.States += pr.X.Visited
			isUnderscore, first := len(pr.At[store]) > 0, len(pr.At[store]) > 0
			for _, st := range pr.At[store] {
				u, fst := false, false
				for k, v := range st.Facts {
					pk := an.PlainKey(k)
					if v && strings.Contains(pk, "NodeUnderscore == ") {
						u = true
					}
					if !v && strings.HasSuffix(pk, ".HasPipeSlot") {
						fst = true
					}
				}
				if !u {
					isUnderscore = false
				}
				if !fst {
					first = false
				}
			}
			c.Check(isUnderscore, "C14.slot", "(*Template).parseArguments/marks-slot", store.Pos(), "HasPipeSlot is set exactly for an underscore argument", "HasPipeSlot is set for an argument that is not the `_` placeholder")
			c.Check(first, "C14.slot", "(*Template).parseArguments/single-slot", store.Pos(), "a second `_` in one call is rejected", "a second `_` placeholder in one argument list is accepted silently: the piped value would be injected twice / argument positions shift")
		}
	}

	// ---------------------------------------------------------------- C14.forms
	c14forms(c)
	// ---------------------------------------------------------------- C14.once
	if f := c.Fn("C14.once", "(*Runtime).evalPipelineExpression"); f != nil {
		info := f.Info()
		first := p.CallsIn(f, "(*jet.Runtime).evalCommandExpression")
		later := p.CallsIn(f, "(*jet.Runtime).evalCommandPipeExpression")
		ok, why := true, ""
		if len(first) != 1 || an.Norm(f, first[0].Args[0]) != "$p0.Cmds[0]" {
			ok, why = false, "the first command is not evaluated exactly once from Cmds[0]"
		}
		if len(later) != 1 {
			ok, why = false, "later commands are not evaluated from exactly one call site"
		} else {
			call := later[0]
			var loop *ast.ForStmt
			var rloop *ast.RangeStmt
			for _, enc := range an.EnclosingStmts(f, call) {
				if fs, isFor := enc.(*ast.ForStmt); isFor {
					loop = fs
				}
				if rs, isRange := enc.(*ast.RangeStmt); isRange {
					rloop = rs
				}
			}
			squash := func(x string) string { return strings.ReplaceAll(x, " ", "") }
			switch {
			case loop == nil && rloop == nil:
				ok, why = false, "later commands are not evaluated in a loop"
			case rloop != nil && loop == nil:
				// for _, cmd := range X.Cmds[1:] { … cmd … }: every later command once, in order
				v, isId := rloop.Value.(*ast.Ident)
				a, argIsId := an.Unparen(call.Args[0]).(*ast.Ident)
				switch {
				case squash(an.Norm(f, rloop.X)) != "$p0.Cmds[1:]":
					ok, why = false, "the loop over the later commands ranges over "+an.Str(rloop.X)+", not over Cmds[1:]"
				case !isId || !argIsId || an.ObjOf(info, v) != an.ObjOf(info, a):
					ok, why = false, "the command evaluated in the loop is not the loop's element"
				case func() bool {
					for _, d := range an.LocalDefs(f, an.ObjOf(info, v)) {
						if d != nil {
							return true
						}
					}
					return false
				}():
					ok, why = false, "the loop's element variable is reassigned in the loop"
				}
			case squash(an.StmtStr(loop.Init)) != "i:=1" || squash(an.Str(loop.Cond)) != "i<len(node.Cmds)" || squash(an.StmtStr(loop.Post)) != "i++":
				ok, why = false, fmt.Sprintf("the loop over the later commands is `for %s; %s; %s`, not `for i := 1; i < len(node.Cmds); i++`", an.StmtStr(loop.Init), an.Str(loop.Cond), an.StmtStr(loop.Post))
			case an.Str(call.Args[0]) != "node.Cmds[i]":
				ok, why = false, "the command evaluated in the loop is not Cmds[i]"
			}
			// feeds the previous value and stores the new one in the same variable
			if ok {
				vid, isId := an.Unparen(call.Args[1]).(*ast.Ident)
				fed := false
				if isId {
					for _, md := range an.LocalMultiDefs(f, an.ObjOf(info, vid)) {
						if md.Call == call && md.Index == 0 {
							fed = true
						}
					}
				}
				if !fed {
					ok, why = false, "a later command does not receive the value produced by the command before it"
				}
			}
		}
		c.Check(ok, "C14.once", "(*Runtime).evalPipelineExpression", f.Pos(), "every stage is evaluated exactly once, left to right, feeding the previous value", why)
	}
	// ---------------------------------------------------------------- C14.count
	c14count(c)
	convGuards(c, "C14.count", []string{"(*Runtime).evaluateArgs"})
	requireNumRule(c, "C14.count")
	// ---------------------------------------------------------------- C14.table
	c14table(c)
}

// isExprsElem: e is X.Exprs[i] or a local every definition of which is such an element.
func isExprsElem(f *an.Fn, e ast.Expr) bool {
	e = an.Unparen(e)
	if ix, ok := e.(*ast.IndexExpr); ok {
		return strings.HasSuffix(an.Str(ix.X), ".Exprs")
	}
	if id, ok := e.(*ast.Ident); ok {
		defs := an.LocalDefs(f, an.ObjOf(f.Info(), id))
		if len(defs) == 0 {
			return false
		}
		for _, d := range defs {
			if d == nil {
				return false
			}
			if ix, ok := an.Unparen(d).(*ast.IndexExpr); !ok || !strings.HasSuffix(an.Str(ix.X), ".Exprs") {
				return false
			}
		}
		return true
	}
	return false
}

func c14forms(c *an.Ctx) {
	p := c.P
	// command(): call expression copied whole; colon form uses parseArguments
	if f := c.Fn("C14.forms", "(*Template).command"); f != nil {
		info := f.Info()
		copied, colon := false, false
		an.InspectOwn(f, func(n ast.Node) bool {
			as, ok := n.(*ast.AssignStmt)
			if !ok || len(as.Lhs) != 1 {
				return true
			}
			switch p.FieldKey(info, as.Lhs[0]) {
			case "CommandNode.CallExprNode":
				if st, isStar := an.Unparen(as.Rhs[0]).(*ast.StarExpr); isStar {
					src := an.Norm(f, st.X)
					if id, isId := an.Unparen(st.X).(*ast.Ident); isId {
						for _, d := range an.LocalDefs(f, an.ObjOf(info, id)) {
							if d != nil {
								src = an.Str(d)
							}
						}
					}
					if strings.Contains(src, ".(*CallExprNode)") {
						copied = true
					}
				}
			case "CallExprNode.CallArgs":
				if call, isCall := an.Unparen(as.Rhs[0]).(*ast.CallExpr); isCall && an.IsCallTo(info, call, "(*jet.Template).parseArguments") {
					colon = true
				}
			}
			return true
		})
		c.Check(copied, "C14.forms", "(*Template).command/call-copied", f.Pos(), "a call expression used as a command keeps its base and arguments", "command() does not copy a call-expression base (BaseExpr and CallArgs) unchanged into the command")
		c.Check(colon, "C14.forms", "(*Template).command/colon-args", f.Pos(), "`name: args` is parsed by parseArguments, like `name(args)`", "the prefix-colon form does not parse its arguments with parseArguments (the routine used for parenthesised calls): slot and count handling would differ")
	}
	if f := c.Fn("C14.forms", "(*Template).operand"); f != nil {
		ok := false
		for _, call := range p.CallsIn(f, "(*jet.Template).parseArguments") {
			_ = call
			ok = true
		}
		c.Check(ok, "C14.forms", "(*Template).operand/paren-args", f.Pos(), "parenthesised calls parse their arguments with parseArguments", "call expressions do not use parseArguments")
	}
	// convergence on evalPipeCallExpression
	pipeCall := "(*jet.Runtime).evalPipeCallExpression"
	// (the one-line wrapper evalCallExpression may or may not exist: what matters is that a plain call ends in
	// evalPipeCallExpression(base, args, nil))
	if f := p.Fn("(*Runtime).evalCallExpression"); f != nil {
		ok := false
		for _, call := range p.CallsIn(f, pipeCall) {
			if len(call.Args) == 3 && an.Norm(f, call.Args[0]) == "$p0" && an.Norm(f, call.Args[1]) == "$p1" && an.Str(call.Args[2]) == "nil" {
				ok = true
			}
		}
		c.Check(ok, "C14.forms", "(*Runtime).evalCallExpression", f.Pos(), "a plain call is evalPipeCallExpression without a piped value", "evalCallExpression does not delegate to evalPipeCallExpression(base, args, nil)")
	}
	if f := c.Fn("C14.forms", "(*Runtime).evalCommandPipeExpression"); f != nil {
		ok := false
		for _, call := range p.CallsIn(f, pipeCall) {
			if len(call.Args) == 3 && an.Norm(f, call.Args[1]) == "$p0.CallArgs" && an.Norm(f, call.Args[2]) == "&$p1" {
				ok = true
			}
		}
		c.Check(ok, "C14.forms", "(*Runtime).evalCommandPipeExpression", f.Pos(), "a piped command calls evalPipeCallExpression with the command's own arguments and the address of the piped value", "evalCommandPipeExpression does not call evalPipeCallExpression(term, node.CallArgs, &value)")
	}
	if f := c.Fn("C14.forms", "(*Runtime).evalCommandExpression"); f != nil {
		ok := false
		for _, call := range p.CallsIn(f, "(*jet.Runtime).evalCallExpression") {
			if len(call.Args) == 2 && an.Norm(f, call.Args[1]) == "$p0.CallArgs" {
				ok = true
			}
		}
		for _, call := range p.CallsIn(f, pipeCall) {
			if len(call.Args) == 3 && an.Norm(f, call.Args[1]) == "$p0.CallArgs" && (an.Str(call.Args[2]) == "nil" || an.Norm(f, call.Args[2]) == "nil") {
				ok = true
			}
		}
		c.Check(ok, "C14.forms", "(*Runtime).evalCommandExpression", f.Pos(), "a prefix command with arguments is a plain call of its base with its own arguments", "evalCommandExpression does not call evalCallExpression(term, node.CallArgs)")
	}
	if f := c.Fn("C14.forms", "(*Runtime).evalPipeCallExpression"); f != nil {
		info := f.Info()
		ok := false
		an.InspectOwn(f, func(n ast.Node) bool {
			cl, isCl := n.(*ast.CompositeLit)
			if !isCl || an.TypeName(info.Types[cl].Type) != "jet.Arguments" {
				return true
			}
			got := map[string]string{}
			for _, el := range cl.Elts {
				if kv, isKV := el.(*ast.KeyValueExpr); isKV {
					got[an.Str(kv.Key)] = an.Norm(f, kv.Value)
				}
			}
			if got["runtime"] == "$r" && got["args"] == "$p1" && got["pipedVal"] == "$p2" {
				ok = true
			}
			return true
		})
		c.Check(ok, "C14.forms", "(*Runtime).evalPipeCallExpression/func-arguments", f.Pos(), "a jet.Func receives the runtime, the parsed arguments and the piped value unchanged", "the Arguments value handed to a jet.Func is not {runtime: st, args: args, pipedVal: pipedArg}")
		// reflected functions get evaluateArgs(baseExpr.Type(), args, pipedArg)
		ok2 := false
		for _, call := range p.CallsIn(f, "(*jet.Runtime).evaluateArgs") {
			if len(call.Args) == 3 && an.Norm(f, call.Args[1]) == "$p1" && an.Norm(f, call.Args[2]) == "$p2" {
				ok2 = true
			}
		}
		c.Check(ok2, "C14.forms", "(*Runtime).evalPipeCallExpression/reflect-arguments", f.Pos(), "a reflected function's arguments are built from the same args and piped value", "evaluateArgs is not called with the call's own arguments and piped value")
	}
}

func c14count(c *an.Ctx) {
	p := c.P
	f := c.Fn("C14.count", "(*Runtime).evaluateArgs")
	if f == nil {
		return
	}
	info := f.Info()
	var targets []ast.Node
	for _, call := range p.CallsIn(f, "(*jet.Runtime).evalPrimaryExpressionGroup") {
		targets = append(targets, call)
	}
	pr := p.ProbeFn(f, targets, an.Hooks{})
	c.States += pr.X.Visited
	ok := len(targets) > 0
	why := "no argument evaluation found"
	for _, t := range targets {
		for _, st := range pr.At[t] {
			variadic, fixed := false, false
			for k, v := range st.Facts {
				if pk := an.PlainKey(k); pk == "isVariadic" || strings.HasSuffix(pk, ".IsVariadic()") {
					variadic, fixed = v, !v
				}
			}
			eq := an.FactIs(st, "numArgs == numArgsRequired", true)
			notLess := an.FactIs(st, "numArgs < numArgsRequired", false)
			switch {
			case fixed && !eq:
				ok, why = false, "an argument of a fixed-arity function is evaluated on a path where the argument count was not established to equal NumIn()"
			case variadic && !notLess:
				ok, why = false, "an argument of a variadic function is evaluated on a path where the count was not established to reach the required minimum"
			case !fixed && !variadic:
				ok, why = false, "arguments are evaluated without the arity check having been decided"
			}
		}
		if len(pr.At[t]) == 0 {
			ok, why = false, "argument evaluation not reached"
		}
	}
	// numArgsRequired is NumIn(), minus one for variadics
	okReq := false
	an.InspectOwn(f, func(n ast.Node) bool {
		an.Assigns(n, func(lhs, rhs ast.Expr, _ token.Token) {
			if id, isId := lhs.(*ast.Ident); isId && id.Name == "numArgsRequired" && rhs != nil && an.CalleeName(info, callOf(rhs)) == "(reflect.Type).NumIn" {
				okReq = true
			}
		})
		return true
	})
	// evaluateArgs is re-entrant (evaluating an argument can call it again): the vector it fills must be its own
	fresh := false
	an.InspectOwn(f, func(n ast.Node) bool {
		ret, isRet := n.(*ast.ReturnStmt)
		if !isRet || len(ret.Results) != 2 {
			return true
		}
		if id, isId := an.Unparen(ret.Results[0]).(*ast.Ident); isId && id.Name != "nil" {
			defs := an.LocalDefs(f, an.ObjOf(info, id))
			fresh = len(defs) > 0
			for _, dd := range defs {
				if dd == nil || an.CalleeName(info, callOf(dd)) != "builtin.make" {
					fresh = false
				}
			}
		}
		return true
	})
	c.Check(fresh, "C14.count", "(*Runtime).evaluateArgs/fresh-vector", f.Pos(), "the argument vector is allocated per call (evaluateArgs is re-entrant through nested calls)",
		"evaluateArgs fills an argument vector that is not freshly made in this activation: a nested call in a later argument overwrites the arguments already evaluated for the outer call")
	// an invalid value is an error in every position: whatever is stored into the argument vector was found
	// valid (IsValid() true) on that path, or results from Convert of such a value
	{
		var vec types.Object
		an.InspectOwn(f, func(n ast.Node) bool {
			if ret, isRet := n.(*ast.ReturnStmt); isRet && len(ret.Results) == 2 {
				if id, isId := an.Unparen(ret.Results[0]).(*ast.Ident); isId && id.Name != "nil" {
					vec = an.ObjOf(info, id)
				}
			}
			return true
		})
		nameOf := func(e ast.Expr) string { // term → "term", *pipedArg / (*pipedArg) → "pipedArg"
			e = an.Unparen(e)
			if st, ok := e.(*ast.StarExpr); ok {
				e = an.Unparen(st.X)
			}
			if id, ok := e.(*ast.Ident); ok {
				return id.Name
			}
			return ""
		}
		nStore, badStore := 0, token.NoPos
		hooks := an.Hooks{
			Branch: func(x *an.Explorer, cond ast.Expr, val bool, st *an.State) {
				e := an.Unparen(cond)
				neg := false
				if u, ok := e.(*ast.UnaryExpr); ok && u.Op == token.NOT {
					neg, e = true, an.Unparen(u.X)
				}
				if call, ok := e.(*ast.CallExpr); ok && an.CalleeName(info, call) == "(reflect.Value).IsValid" {
					if nm := nameOf(an.Receiver(call)); nm != "" && val != neg {
						st.Set("valid:"+nm, "1")
					}
				}
			},
			PreAssign: func(x *an.Explorer, lhs, rhs ast.Expr, stmt ast.Node, st *an.State) {
				if ix, ok := an.Unparen(lhs).(*ast.IndexExpr); ok && vec != nil {
					if id, ok := an.Unparen(ix.X).(*ast.Ident); ok && an.ObjOf(info, id) == vec && rhs != nil {
						nStore++
						if nm := nameOf(rhs); (nm == "" || st.Get("valid:"+nm) == "") && !badStore.IsValid() {
							badStore = lhs.Pos()
						}
					}
					return
				}
				nm := nameOf(lhs)
				if nm == "" {
					return
				}
				// v = v.Convert(T) keeps a valid value valid; any other assignment makes it unknown again
				if call, ok := an.Unparen(rhs).(*ast.CallExpr); ok && rhs != nil && an.CalleeName(info, call) == "(reflect.Value).Convert" && nameOf(an.Receiver(call)) == nm {
					return
				}
				// a copy of a value found valid is valid (also across the return of a spliced helper)
				if rhs != nil {
					if src := nameOf(rhs); src != "" {
						st.Set("valid:"+nm, st.Get("valid:"+src))
						return
					}
				}
				st.Set("valid:"+nm, "")
			},
		}
		x := p.NewExplorer(f, hooks)
		x.Run(nil)
		c.States += x.Visited
		c.Expect("C14.count", "stores into the argument vector (state visits)", nStore, 1)
		c.Check(!badStore.IsValid(), "C14.count", "(*Runtime).evaluateArgs/valid-arguments", f.Pos(), "every value placed in the argument vector was found valid on that path",
			"evaluateArgs can place a value into the argument vector without having found it valid (IsValid) on that path: an invalid (nil/missing) argument is passed on — or silently replaced — instead of being reported as an error")
	}
	c.Check(ok && okReq, "C14.count", "(*Runtime).evaluateArgs/arity", f.Pos(), "the argument count is compared with NumIn() (!=, or < for variadics) before any argument is evaluated", firstNonEmpty(why, "the required count is not taken from NumIn()"))
}

func callOf(e ast.Expr) *ast.CallExpr {
	if c, ok := an.Unparen(e).(*ast.CallExpr); ok {
		return c
	}
	return &ast.CallExpr{Fun: ast.NewIdent("_")}
}

// convGuards: every reflect.Value.Convert in the named functions (nil = all evaluator functions) is
// reached only after ConvertibleTo (or an implying kind test) on the same value, and its result is used.
func convGuards(c *an.Ctx, rule string, only []string) {
	p := c.P
	var fns []*an.Fn
	if only != nil {
		for _, n := range only {
			if f := p.Fn(n); f != nil {
				fns = append(fns, f)
			}
		}
	} else {
		for _, f := range an.SortedFns(p.Eval()) {
			if f.Pkg == p.Jet && f.Body != nil {
				fns = append(fns, f)
			}
		}
	}
	n := 0
	for _, f := range fns {
		info := f.Info()
		calls := p.CallsIn(f, "(reflect.Value).Convert")
		if len(calls) == 0 {
			continue
		}
		c.FnsAnalysed[f.Name] = true
		var targets []ast.Node
		for _, call := range calls {
			targets = append(targets, call)
		}
		pr := p.ProbeFn(f, targets, an.Hooks{})
		c.States += pr.X.Visited
		for _, call := range calls {
			n++
			key := f.Name + "/Convert"
			// the guard is <value>.Type().ConvertibleTo(<target>) for the very value and target of the Convert
			// (ConvertibleTo is not symmetric: the swapped form proves nothing)
			want, wantAssignable := "", ""
			if rk, ok := pr.X.Key(an.Receiver(call)); ok && len(call.Args) == 1 {
				if tk, ok := pr.X.Key(call.Args[0]); ok {
					want = an.PlainKey(rk) + ".Type().ConvertibleTo(" + an.PlainKey(tk) + ")"
					// a type whose values are assignable to the target is convertible to it; the test may be
					// written from the target's side: <target>.AssignableTo(<value>.Type()) for identical
					// underlying types (a func type and the named type declared from it)
					wantAssignable = an.PlainKey(rk) + ".Type().AssignableTo(" + an.PlainKey(tk) + ")"
				}
			}
			guarded := len(pr.At[call]) > 0
			for _, st := range pr.At[call] {
				g := false
				for k, v := range st.Facts {
					pk := an.PlainKey(k)
					if v && want != "" && (pk == want || pk == wantAssignable) {
						g = true
					}
					if v && len(call.Args) == 1 {
						if rk, ok1 := pr.X.Key(an.Receiver(call)); ok1 {
							if tk, ok2 := pr.X.Key(call.Args[0]); ok2 && pk == an.PlainKey(tk)+".AssignableTo("+an.PlainKey(rk)+".Type())" && sameUnderlying(f, an.Receiver(call), call.Args[0]) {
								g = true
							}
						}
					}
					// (a test of the element *kind* is no guard: a slice of a named byte type has the kind and is not
					// convertible to string)
				}
				if !g {
					guarded = false
				}
			}
			if !guarded {
				var tr []string
				if len(pr.At[call]) > 0 {
					tr = an.Facts(pr.At[call][0])
				}
				c.Bad(rule, key, call.Pos(), tr, "%s calls %s without having established ConvertibleTo on that value: reflect panics with a string, which Runtime.recover re-panics out of Execute", f.Name, an.Str(call))
				continue
			}
			// the result must be used: assigned to something that is read afterwards, not dropped
			used := false
			for _, enc := range an.EnclosingStmts(f, call) {
				if as, ok := enc.(*ast.AssignStmt); ok && len(as.Lhs) == 1 {
					lhs := an.Unparen(as.Lhs[0])
					if id, ok := lhs.(*ast.Ident); ok {
						o := an.ObjOf(info, id)
						an.InspectOwn(f, func(m ast.Node) bool {
							if uid, ok := m.(*ast.Ident); ok && uid.Pos() > as.End() && an.ObjOf(info, uid) == o {
								used = true
							}
							return true
						})
					} else {
						used = true // stored through a pointer / into a field
					}
				}
			}
			// used on the spot: the converted value is an operand of a larger expression (v.Convert(t).Interface() …)
			for _, enc := range an.EnclosingStmts(f, call) {
				ast.Inspect(enc, func(m ast.Node) bool {
					switch pn := m.(type) {
					case *ast.SelectorExpr:
						if an.Unparen(pn.X) == ast.Expr(call) {
							used = true
						}
					case *ast.CallExpr:
						for _, a := range pn.Args {
							if an.Unparen(a) == ast.Expr(call) {
								used = true
							}
						}
					case *ast.ReturnStmt:
						for _, r := range pn.Results {
							if an.Unparen(r) == ast.Expr(call) {
								used = true
							}
						}
					}
					return true
				})
			}
			// converted into another variable while the unconverted one is still read afterwards
			stale := ""
			for _, enc := range an.EnclosingStmts(f, call) {
				as, ok := enc.(*ast.AssignStmt)
				if !ok || len(as.Lhs) != 1 {
					continue
				}
				lid, ok1 := an.Unparen(as.Lhs[0]).(*ast.Ident)
				rid, ok2 := an.Unparen(an.Receiver(call)).(*ast.Ident)
				if !ok1 || !ok2 || an.ObjOf(info, lid) == an.ObjOf(info, rid) {
					continue
				}
				ro := an.ObjOf(info, rid)
				// (what follows a block that ends in a return is not "afterwards" for an assignment inside it)
				limit := f.Body.End()
				for _, enc2 := range an.EnclosingStmts(f, as) {
					if blk, isBlk := enc2.(*ast.BlockStmt); isBlk && len(blk.List) > 0 {
						if _, isRet := blk.List[len(blk.List)-1].(*ast.ReturnStmt); isRet && blk.End() < limit {
							limit = blk.End()
						}
					}
				}
				an.InspectOwn(f, func(m ast.Node) bool {
					if uid, ok := m.(*ast.Ident); ok && uid.Pos() > as.End() && uid.Pos() < limit && an.ObjOf(info, uid) == ro {
						// a later re-definition of the receiver variable ends its relevance
						stale = fmt.Sprintf("%s is converted into %s, but the unconverted %s is still used afterwards (%s)", rid.Name, lid.Name, rid.Name, p.RelPos(uid.Pos()))
					}
					return true
				})
			}
			if stale != "" {
				c.Bad(rule, key, call.Pos(), nil, "%s: %s", f.Name, stale)
				continue
			}
			if used {
				c.OK(rule, key, call.Pos(), "Convert is guarded by ConvertibleTo and its result is used")
			} else {
				c.Bad(rule, key, call.Pos(), nil, "the result of %s is never used: the unconverted value is used instead", an.Str(call))
			}
		}
	}
	if only != nil {
		c.Expect(rule, "reflect Convert sites", n, 3)
	}
}

var docLine = regexp.MustCompile("(?m)^- `(\\w+)`: exposes Go's \\[([\\w.]+)\\]\\(https://golang.org/pkg/([\\w/]+)/#(\\w+)\\)")

func c14table(c *an.Ctx) {
	p := c.P
	info := p.Jet.TypesInfo
	// oracle: docs/builtins.md, else the copy below (the table as documented at the pinned commit)
	want := map[string]string{}
	if b, err := os.ReadFile(filepath.Join(p.Dir, "docs", "builtins.md")); err == nil {
		for _, m := range docLine.FindAllStringSubmatch(string(b), -1) {
			want[m[1]] = m[3] + "." + m[4]
		}
	}
	src := "docs/builtins.md"
	if len(want) < 5 {
		src = "built-in copy of the documented table (docs/builtins.md could not be parsed)"
		want = map[string]string{"lower": "strings.ToLower", "upper": "strings.ToUpper", "hasPrefix": "strings.HasPrefix", "hasSuffix": "strings.HasSuffix", "repeat": "strings.Repeat",
			"replace": "strings.Replace", "split": "strings.Split", "trimSpace": "strings.TrimSpace", "html": "html.EscapeString", "url": "net/url.QueryEscape", "json": "encoding/json.Marshal"}
	}
	c.Note("built-in oracle: %s (%d entries)", src, len(want))
	table := map[string]ast.Expr{}
	for _, f := range p.Units() {
		if f.Pkg != p.Jet || f.Decl == nil || f.Decl.Name.Name != "init" {
			continue
		}
		an.InspectOwn(f, func(n ast.Node) bool {
			as, ok := n.(*ast.AssignStmt)
			if !ok || len(as.Lhs) != 1 || an.Str(as.Lhs[0]) != "defaultVariables" {
				return true
			}
			if cl, ok := an.Unparen(as.Rhs[0]).(*ast.CompositeLit); ok {
				for _, el := range cl.Elts {
					if kv, ok := el.(*ast.KeyValueExpr); ok {
						table[strings.Trim(an.Str(kv.Key), `"`)] = kv.Value
					}
				}
			}
			return true
		})
	}
	c.Expect("C14.table", "entries of the built-in table", len(table), 20)
	bound := func(e ast.Expr) string {
		call, ok := an.Unparen(e).(*ast.CallExpr) // reflect.ValueOf(X)
		if !ok || len(call.Args) != 1 {
			return an.Str(e)
		}
		x := an.Unparen(call.Args[0])
		switch v := x.(type) {
		case *ast.SelectorExpr:
			if fn, ok := info.Uses[v.Sel].(*types.Func); ok {
				return fn.Pkg().Path() + "." + fn.Name()
			}
		case *ast.Ident:
			if o := info.Uses[v]; o != nil {
				return "jet." + o.Name()
			}
		}
		return an.Str(x)
	}
	var names []string
	for k := range want {
		names = append(names, k)
	}
	sort.Strings(names)
	for _, name := range names {
		e, ok := table[name]
		if !ok {
			c.Bad("C14.table", "builtin:"+name, p.Jet.Syntax[0].Pos(), nil, "documented built-in %q is missing from the default table", name)
			continue
		}
		got := bound(e)
		c.Check(got == want[name], "C14.table", "builtin:"+name, e.Pos(), name+" is bound to "+want[name], fmt.Sprintf("built-in %q is documented to expose %s but is bound to %s", name, want[name], got))
	}
	for _, name := range []string{"len", "isset", "ints", "map", "slice", "array", "exec", "includeIfExists", "dump", "writeJson", "raw", "unsafe", "safeHtml", "safeJs"} {
		_, ok := table[name]
		c.Check(ok, "C14.table", "builtin:"+name, p.Jet.Syntax[0].Pos(), name+" exists", "documented built-in "+name+" is missing from the default table")
	}
	if a, b := table["slice"], table["array"]; a != nil && b != nil {
		c.Check(bound(a) == bound(b), "C14.table", "builtin:slice=array", a.Pos(), "slice and array share one implementation", "slice and array are bound to different implementations")
	}
	// len is documented as Go's len(): for strings, arrays, slices, maps and channels every answer is
	// reflect.Value.Len() of the (dereferenced) argument, for structs NumField()
	if f := p.Fn(`init/"len"`); f != nil {
		info := f.Info()
		nRet, bad := 0, ""
		an.InspectOwn(f, func(n ast.Node) bool {
			cc, ok := n.(*ast.CaseClause)
			if !ok || len(cc.List) == 0 {
				return true
			}
			kinds := ""
			for _, e := range cc.List {
				kinds += an.Str(e) + " "
			}
			if !strings.Contains(kinds, "reflect.") {
				return true
			}
			for _, st := range cc.Body {
				ret, ok := st.(*ast.ReturnStmt)
				if !ok || len(ret.Results) != 1 {
					continue
				}
				nRet++
				_ = info
				norm := an.Norm(f, ret.Results[0]) // locals resolved: n := v.Len(); return reflect.ValueOf(n) is the same
				got := ""
				switch {
				case strings.HasPrefix(norm, "reflect.ValueOf(") && strings.HasSuffix(norm, ".Len())"):
					got = "(reflect.Value).Len"
				case strings.HasPrefix(norm, "reflect.ValueOf(") && strings.HasSuffix(norm, ".NumField())"):
					got = "(reflect.Value).NumField"
				}
				want := "(reflect.Value).Len"
				if strings.TrimSpace(kinds) == "reflect.Struct" {
					want = "(reflect.Value).NumField"
				}
				if got != want {
					bad = fmt.Sprintf("for kinds %sthe len built-in returns %s instead of reflect.ValueOf(<argument>.%s())", kinds, an.Str(ret.Results[0]), strings.TrimPrefix(want, "(reflect.Value)."))
				}
			}
			return true
		})
		if nRet == 0 {
			c.Undecided("C14.table", "builtin:len/go-len", f.Pos(), "no per-kind return found in the len built-in")
		} else {
			c.Check(bad == "", "C14.table", "builtin:len/go-len", f.Pos(), "len answers with Go's len (reflect.Value.Len) for every sized kind", bad+": len() no longer computes what Go's len computes")
		}
	}
}

// sameUnderlying: target is a package-level reflect.Type variable initialised from reflect.TypeOf(T(nil))
// with T a named func type — the only values assignable *from* it to which the converse also holds are
// those with the identical underlying type, for which Convert never panics.  (Conservative: it only
// recognises the target being such a variable; the value side is whatever passed the AssignableTo test.)
func sameUnderlying(f *an.Fn, value, target ast.Expr) bool {
	id, ok := an.Unparen(target).(*ast.Ident)
	if !ok {
		return false
	}
	v, ok := an.ObjOf(f.Info(), id).(*types.Var)
	return ok && v.Pkg() != nil && v.Parent() == v.Pkg().Scope() && an.TypeName(v.Type()) == "reflect.Type"
}

// c14getOnce (C14.once): Arguments.Get evaluates the argument expression each time it is called ("a pipeline
// … calls each stage exactly once" holds for the stages written as arguments too).  In every function that
// receives jet.Arguments, no path asks Get for the same argument twice (IsSet does not evaluate and may be
// asked freely); the index variable of a loop counts as a new argument after it was changed.
func c14getOnce(c *an.Ctx) {
	p := c.P
	n := 0
	for _, f := range p.Units() {
		if f.Pkg != p.Jet || f.Body == nil || f.Sig == nil {
			continue
		}
		takesArgs := false
		for i := 0; i < f.Sig.Params().Len(); i++ {
			if an.TypeName(f.Sig.Params().At(i).Type()) == "jet.Arguments" {
				takesArgs = true
			}
		}
		if !takesArgs {
			continue
		}
		info := f.Info()
		gets := p.CallsIn(f, "(*jet.Arguments).Get")
		if len(gets) == 0 {
			continue
		}
		n++
		var twice token.Pos
		var what string
		clear := func(st *an.State, name string) {
			for k := range st.Regs {
				if strings.HasPrefix(k, "got:") && identRe14.MatchString(k) {
					for _, w := range identRe14.FindAllString(strings.TrimPrefix(k, "got:"), -1) {
						if w == name {
							st.Set(k, "")
						}
					}
				}
			}
		}
		x := p.NewExplorer(f, an.Hooks{
			Call: func(x *an.Explorer, call *ast.CallExpr, st *an.State) {
				if an.CalleeName(info, call) != "(*jet.Arguments).Get" || len(call.Args) != 1 {
					return
				}
				k := "got:" + an.Str(call.Args[0])
				if st.Get(k) != "" && st.Get("dup") == "" {
					st.Set("dup", fmt.Sprintf("%d|%s", int(call.Pos()), an.Str(call.Args[0])))
				}
				st.Set(k, "1")
			},
			PreAssign: func(x *an.Explorer, lhs, rhs ast.Expr, stmt ast.Node, st *an.State) {
				if id, ok := an.Unparen(lhs).(*ast.Ident); ok {
					clear(st, id.Name)
				}
			},
			Stmt: func(x *an.Explorer, nd ast.Node, st *an.State) {
				if inc, ok := nd.(*ast.IncDecStmt); ok {
					if id, ok := an.Unparen(inc.X).(*ast.Ident); ok {
						clear(st, id.Name)
					}
				}
				// the key/value of a range loop are (re)defined by a bare identifier node at the loop head
				if id, ok := nd.(*ast.Ident); ok {
					clear(st, id.Name)
				}
			},
		})
		x.Run(nil)
		c.States += x.Visited
		// an argument read again only to word an error (a path that ends in a panic) is not held against the
		// function: the evaluation failed anyway
		for _, ex := range x.Exits {
			if ex.Kind != an.ExitReturn || twice.IsValid() {
				continue
			}
			if d := ex.State.Get("dup"); d != "" {
				parts := strings.SplitN(d, "|", 2)
				var pos int
				fmt.Sscanf(parts[0], "%d", &pos)
				twice, what = token.Pos(pos), parts[1]
			}
		}
		key := f.Name + "/get-once"
		switch {
		case x.Undecided != "":
			c.Undecided("C14.once", key, f.Pos(), "%s", x.Undecided)
		case twice.IsValid():
			c.Bad("C14.once", key, twice, nil, "%s asks Arguments.Get(%s) again on a path that already asked for it: Get evaluates the argument expression each time, so an argument with an effect (a call, a channel receive) is evaluated twice", f.Name, what)
		default:
			c.OK("C14.once", key, f.Pos(), "no path asks Arguments.Get for the same argument twice")
		}
	}
	c.Expect("C14.once", "functions receiving jet.Arguments that call Get", n, 5)
}

var identRe14 = regexp.MustCompile(`[A-Za-z_][A-Za-z_0-9]*`)
