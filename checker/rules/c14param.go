package rules

import (
	"go/ast"
	"go/token"
	"go/types"

	"jetverif/an"
)

// c14paramType (C14.count/param-type): the type an argument is converted to is the type of the parameter
// it lands in.  reflect.Type.In(k) is that type only for the fixed parameters (k < NumIn() less the
// variadic one); from there on the argument is an element of the variadic tail and the target is
// In(k).Elem().  Wherever evaluateArgs uses a type obtained from In(k) as a conversion target, either
// k is known to be a fixed position on that path or Elem() was applied.
func c14paramType(c *an.Ctx) {
	p := c.P
	f := c.Fn("C14.count", "(*Runtime).evaluateArgs")
	if f == nil {
		return
	}
	info := f.Info()
	// N: the number of fixed parameters — the local defined from <type>.NumIn()
	var nFixed *ast.Ident
	an.InspectOwn(f, func(n ast.Node) bool {
		an.Assigns(n, func(lhs, rhs ast.Expr, _ token.Token) {
			if id, ok := an.Unparen(lhs).(*ast.Ident); ok && rhs != nil && nFixed == nil {
				if call, ok := an.Unparen(rhs).(*ast.CallExpr); ok && an.CalleeName(info, call) == "(reflect.Type).NumIn" {
					nFixed = id
				}
			}
		})
		return true
	})
	if nFixed == nil {
		c.Anchor("C14.count", "local holding fnType.NumIn() in evaluateArgs")
		return
	}
	isIn := func(e ast.Expr) (idx ast.Expr, ok bool) {
		call, isCall := an.Unparen(e).(*ast.CallExpr)
		if !isCall || an.CalleeName(info, call) != "(reflect.Type).In" || len(call.Args) != 1 {
			return nil, false
		}
		return call.Args[0], true
	}
	bad := token.NoPos
	var badFacts []string
	nUses, nDefs := 0, 0
	fixedAt := func(x *an.Explorer, idx ast.Expr, st *an.State) bool {
		probe := &ast.BinaryExpr{X: idx, Op: token.LSS, Y: nFixed}
		v, known := x.Truth(probe, st)
		return known && v
	}
	hooks := an.Hooks{
		PreAssign: func(x *an.Explorer, lhs, rhs ast.Expr, stmt ast.Node, st *an.State) {
			id, ok := an.Unparen(lhs).(*ast.Ident)
			if !ok || rhs == nil {
				return
			}
			o := an.ObjOf(info, id)
			if o == nil || an.TypeName(o.Type()) != "reflect.Type" {
				return
			}
			reg := "raw:" + an.RoleOf(o)
			if idx, ok := isIn(rhs); ok {
				nDefs++
				if fixedAt(x, idx, st) {
					st.Set(reg, "")
				} else {
					st.Set(reg, an.Str(idx))
					st.Set("idx:"+an.RoleOf(o), "1")
				}
				return
			}
			// in = X.Elem(): the element type of the variadic parameter
			if call, ok := an.Unparen(rhs).(*ast.CallExpr); ok && an.CalleeName(info, call) == "(reflect.Type).Elem" {
				st.Set(reg, "")
				return
			}
			st.Set(reg, "")
		},
		Call: func(x *an.Explorer, call *ast.CallExpr, st *an.State) {
			switch an.CalleeName(info, call) {
			case "(reflect.Type).AssignableTo", "(reflect.Type).ConvertibleTo", "(reflect.Value).Convert":
			default:
				return
			}
			if len(call.Args) != 1 {
				return
			}
			id, ok := an.Unparen(call.Args[0]).(*ast.Ident)
			if !ok {
				return
			}
			o := an.ObjOf(info, id)
			if o == nil {
				return
			}
			nUses++
			raw := st.Get("raw:" + an.RoleOf(o))
			if raw == "" {
				return
			}
			// the index may have been established as a fixed position since the type was fetched
			var idxExpr ast.Expr
			for _, d := range an.LocalDefs(f, o) {
				if d == nil {
					continue
				}
				if ix, ok := isIn(d); ok && an.Str(ix) == raw {
					idxExpr = ix
				}
			}
			if idxExpr != nil && fixedAt(x, idxExpr, st) {
				return
			}
			if !bad.IsValid() {
				bad, badFacts = call.Pos(), an.Facts(st)
			}
		},
	}
	x := p.NewExplorer(f, hooks)
	x.Run(nil)
	c.States += x.Visited
	key := "(*Runtime).evaluateArgs/param-type"
	switch {
	case x.Undecided != "":
		c.Undecided("C14.count", key, f.Pos(), "%s", x.Undecided)
	case nUses == 0 || nDefs == 0:
		c.Anchor("C14.count", "conversion targets obtained from fnType.In(k) in evaluateArgs")
	case bad.IsValid():
		c.Bad("C14.count", key, bad, badFacts, "an argument is checked against / converted to fnType.In(k) on a path where k may be the variadic position: the target is then the slice type, not its element type — a value piped into (or passed to) a function whose parameters are all variadic is rejected as not convertible")
	default:
		c.OK("C14.count", key, f.Pos(), "every conversion target taken from In(k) is a fixed parameter's type or the variadic element type")
	}
	_ = types.Typ
}
